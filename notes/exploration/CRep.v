From Coq Require Import List Arith Lia Bool.
Import ListNotations.

Section T.
Variable chunk : Type.
Variable H : chunk -> chunk -> chunk.
Variable zero : chunk.
Inductive node := RootN (r : chunk) | PairN (l r : node).
Fixpoint root (n : node) : chunk := match n with RootN r => r | PairN l r => H (root l) (root r) end.
Fixpoint zero_hash (d : nat) : chunk := match d with O => zero | S d' => H (zero_hash d') (zero_hash d') end.
Definition zero_node d := RootN (zero_hash d).

Fixpoint getter (n : node) (p : list bool) {struct p} : option node :=
  match p with
  | [] => Some n
  | b :: p' => match n with RootN _ => None | PairN l r => getter (if b then r else l) p' end
  end.
Definition rebuild (b : bool) (l r : node) (x : option node) : option node :=
  match x with None => None | Some c => Some (if b then PairN l c else PairN c r) end.
Fixpoint setter (expand : bool) (n : node) (p : list bool) (v : node) {struct p} : option node :=
  match p with
  | [] => Some v
  | b :: p' =>
     match n with
     | PairN l r => rebuild b l r (setter expand (if b then r else l) p' v)
     | RootN _ => if expand then
                    let z := zero_node (length p') in rebuild b z z (setter expand z p' v)
                  else None
     end
  end.

(* d-bit big-endian bits of i *)
Fixpoint be_bits (d i : nat) : list bool :=
  match d with O => [] | S d' => if i <? 2 ^ d' then false :: be_bits d' i else true :: be_bits d' (i - 2 ^ d') end.
Lemma be_bits_len d : forall i, length (be_bits d i) = d.
Proof. induction d as [|d IH]; intros i; cbn [be_bits]; [reflexivity|]. destruct (i <? 2 ^ d); cbn; now rewrite IH. Qed.

(* spec merkleisation over an index function *)
Fixpoint mroot (d : nat) (f : nat -> chunk) (off : nat) : chunk :=
  match d with O => f off | S d' => H (mroot d' f off) (mroot d' f (off + 2 ^ d')) end.
Lemma mroot_ext d : forall f g off, (forall i, i < 2 ^ d -> f (off + i) = g (off + i)) -> mroot d f off = mroot d g off.
Proof.
  induction d as [|d IH]; intros f g off Hfg; cbn [mroot].
  - specialize (Hfg 0). rewrite Nat.add_0_r in Hfg. apply Hfg. cbn; lia.
  - f_equal; apply IH; intros i Hi.
    + apply Hfg. cbn [Nat.pow]. lia.
    + rewrite <- Nat.add_assoc. apply Hfg. cbn [Nat.pow]. lia.
Qed.
Lemma mroot_zero d : forall f off, (forall i, i < 2 ^ d -> f (off + i) = zero) -> mroot d f off = zero_hash d.
Proof.
  induction d as [|d IH]; intros f off Hf; cbn [mroot zero_hash].
  - specialize (Hf 0). rewrite Nat.add_0_r in Hf. apply Hf. cbn; lia.
  - f_equal; apply IH; intros i Hi.
    + apply Hf. cbn [Nat.pow]. lia.
    + rewrite <- Nat.add_assoc. apply Hf. cbn [Nat.pow]. lia.
Qed.

Inductive CRep : nat -> node -> list node -> Prop :=
| CRep_zero d : CRep d (zero_node d) []
| CRep_leaf x : CRep 0 x [x]
| CRep_pair d l r ls rs : CRep d l ls -> CRep d r rs -> (rs = [] \/ length ls = 2 ^ d) ->
                          CRep (S d) (PairN l r) (ls ++ rs).

Lemma CRep_len d n ns : CRep d n ns -> length ns <= 2 ^ d.
Proof.
  induction 1 as [d|x|d l r ls rs Hl IHl Hr IHr Hor]; cbn [length Nat.pow]; try lia.
  rewrite app_length. destruct Hor as [->|E]; cbn [length]; lia.
Qed.

Definition leafs (ns : list node) (i : nat) : chunk := nth i (map root ns) zero.

Lemma CRep_root d n ns : CRep d n ns -> root n = mroot d (leafs ns) 0.
Proof.
  induction 1 as [d|x|d l r ls rs Hl IHl Hr IHr Hor].
  - cbn [root zero_node]. symmetry. apply mroot_zero. intros i _. unfold leafs. cbn. now destruct i.
  - reflexivity.
  - cbn [root mroot]. rewrite IHl, IHr. f_equal.
    + apply mroot_ext. intros i Hi. unfold leafs. rewrite map_app. cbn [Nat.add].
      pose proof (CRep_len _ _ _ Hl) as Hlen.
      destruct (Nat.lt_ge_cases i (length ls)) as [Hlt|Hge].
      * rewrite app_nth1 by (now rewrite map_length). reflexivity.
      * rewrite (nth_overflow (map root ls)) by (now rewrite map_length).
        destruct Hor as [->|E]; [|exfalso; clear - Hi Hge E; lia]. cbn [map]. rewrite app_nil_r.
        rewrite nth_overflow by (now rewrite map_length). reflexivity.
    + (* right half: indices shifted by 2^d *)
      assert (forall j, leafs (ls ++ rs) (2 ^ d + j) = leafs rs j) as Hshift.
      { intros j. unfold leafs. rewrite map_app. destruct Hor as [->|E].
        - cbn [map]. rewrite app_nil_r. pose proof (CRep_len _ _ _ Hl).
          rewrite nth_overflow by (rewrite map_length; lia). now destruct j.
        - rewrite app_nth2 by (rewrite map_length; lia). rewrite map_length. f_equal. lia. }
      (* mroot over shifted function *)
      assert (forall dd f g o1 o2, (forall j, f (o1 + j) = g (o2 + j)) -> mroot dd f o1 = mroot dd g o2) as Hsh.
      { induction dd as [|dd IH]; intros f g o1 o2 Hfg; cbn [mroot].
        - specialize (Hfg 0). now rewrite !Nat.add_0_r in Hfg.
        - f_equal; apply IH; intros j; [apply Hfg|]. rewrite <- !Nat.add_assoc. apply Hfg. }
      apply Hsh. intros j. cbn [Nat.add]. symmetry. apply Hshift.
Qed.

Lemma CRep_nil_root d n : CRep d n [] -> root n = zero_hash d.
Proof. intros Hc. rewrite (CRep_root _ _ _ Hc). apply mroot_zero. intros i _. unfold leafs. cbn. now destruct i. Qed.

Lemma CRep_get d n ns : CRep d n ns -> forall i dflt, i < length ns -> getter n (be_bits d i) = Some (nth i ns dflt).
Proof.
  induction 1 as [d|x|d l r ls rs Hl IHl Hr IHr Hor]; intros i dflt Hi.
  - cbn in Hi; lia.
  - cbn in Hi. assert (i = 0) as -> by lia. reflexivity.
  - cbn [be_bits]. pose proof (CRep_len _ _ _ Hl) as Hll. rewrite app_length in Hi.
    destruct (i <? 2 ^ d) eqn:E; [apply Nat.ltb_lt in E|apply Nat.ltb_ge in E]; cbn [getter].
    + assert (i < length ls) as Hlt by (destruct Hor as [->|]; cbn [length] in *; lia).
      rewrite app_nth1 by exact Hlt. now apply IHl.
    + assert (length ls = 2 ^ d) as El by (destruct Hor as [->|]; cbn [length] in *; lia).
      rewrite app_nth2 by lia. rewrite El. apply IHr. lia.
Qed.

Fixpoint upd {A} (i : nat) (v : A) (l : list A) : list A :=
  match l, i with [], _ => [] | _ :: t, O => v :: t | h :: t, S i' => h :: upd i' v t end.
Lemma upd_len {A} i (v : A) l : length (upd i v l) = length l.
Proof. revert i; induction l as [|h t IH]; intros [|i]; cbn; auto. Qed.
Lemma upd_app1 {A} i (v : A) l1 l2 : i < length l1 -> upd i v (l1 ++ l2) = upd i v l1 ++ l2.
Proof. revert i; induction l1 as [|h t IH]; intros [|i] Hi; cbn in *; try lia; auto. f_equal. apply IH. lia. Qed.
Lemma upd_app2 {A} i (v : A) l1 l2 : length l1 <= i -> upd i v (l1 ++ l2) = l1 ++ upd (i - length l1) v l2.
Proof. revert i; induction l1 as [|h t IH]; intros i Hi; cbn in *. - now rewrite Nat.sub_0_r. - destruct i; [lia|]. cbn. f_equal. apply IH. lia. Qed.

Lemma CRep_set e d n ns : CRep d n ns -> forall i v, i < length ns ->
  exists n', setter e n (be_bits d i) v = Some n' /\ CRep d n' (upd i v ns).
Proof.
  induction 1 as [d|x|d l r ls rs Hl IHl Hr IHr Hor]; intros i v Hi.
  - cbn in Hi; lia.
  - cbn in Hi. assert (i = 0) as -> by lia. exists v. split; [reflexivity|constructor].
  - cbn [be_bits]. pose proof (CRep_len _ _ _ Hl) as Hll. rewrite app_length in Hi.
    destruct (i <? 2 ^ d) eqn:E; [apply Nat.ltb_lt in E|apply Nat.ltb_ge in E]; cbn [setter].
    + assert (i < length ls) as Hlt by (destruct Hor as [->|]; cbn [length] in *; lia).
      destruct (IHl i v Hlt) as (l' & Hs & Hc). rewrite Hs. cbn. eexists; split; [reflexivity|].
      rewrite upd_app1 by exact Hlt. constructor; auto. rewrite upd_len. exact Hor.
    + assert (length ls = 2 ^ d) as El by (destruct Hor as [->|]; cbn [length] in *; lia).
      destruct (IHr (i - 2 ^ d) v ltac:(lia)) as (r' & Hs & Hc). rewrite Hs. cbn. eexists; split; [reflexivity|].
      rewrite upd_app2 by lia. rewrite El. constructor; auto.
Qed.

(* expanding a zero summary and writing its first slot *)
Lemma set_zero_first d : forall v, exists n', setter true (zero_node d) (be_bits d 0) v = Some n' /\ CRep d n' [v].
Proof.
  induction d as [|d IH]; intros v.
  - exists v. split; [reflexivity|constructor].
  - cbn [be_bits]. assert (0 <? 2 ^ d = true) as -> by (apply Nat.ltb_lt; apply Nat.neq_0_lt_0, Nat.pow_nonzero; lia).
    cbn [setter zero_node]. rewrite be_bits_len. fold (zero_node d).
    destruct (IH v) as (l' & Hs & Hc). rewrite Hs. cbn. eexists; split; [reflexivity|].
    change [v] with ([v] ++ []). constructor; auto. constructor.
Qed.

Lemma CRep_append d n ns : CRep d n ns -> forall v, length ns < 2 ^ d ->
  exists n', setter true n (be_bits d (length ns)) v = Some n' /\ CRep d n' (ns ++ [v]).
Proof.
  induction 1 as [d|x|d l r ls rs Hl IHl Hr IHr Hor]; intros v Hlt.
  - apply set_zero_first.
  - cbn in Hlt; lia.
  - cbn [be_bits]. pose proof (CRep_len _ _ _ Hl) as Hll. rewrite app_length in *. cbn [Nat.pow] in Hlt.
    destruct (length ls + length rs <? 2 ^ d) eqn:E; [apply Nat.ltb_lt in E|apply Nat.ltb_ge in E]; cbn [setter].
    + (* goes left: then rs = [] *)
      assert (rs = []) as -> by (destruct Hor as [->|El]; [reflexivity|destruct rs; [reflexivity|cbn in *; lia]]).
      cbn [length] in *. rewrite Nat.add_0_r in *. rewrite app_nil_r.
      destruct (IHl v E) as (l' & Hs & Hc). rewrite Hs. cbn. eexists; split; [reflexivity|].
      rewrite <- (app_nil_r (ls ++ [v])). constructor; auto.
    + assert (length ls = 2 ^ d) as El by (destruct Hor as [->|]; cbn [length] in *; lia).
      replace (length ls + length rs - 2 ^ d) with (length rs) by lia.
      destruct (IHr v ltac:(lia)) as (r' & Hs & Hc). rewrite Hs. cbn. eexists; split; [reflexivity|].
      rewrite <- app_assoc. constructor; auto.
Qed.

(* pop: last slot is first overwritten with a zero leaf (List.pop), which represents the shorter list *)
Lemma CRep_zero_last d n ns x : CRep d n (ns ++ [x]) ->
  exists n', setter false n (be_bits d (length ns)) (zero_node 0) = Some n' /\ CRep d n' ns.
Proof.
  remember (ns ++ [x]) as full eqn:Ef. intros Hc. revert ns x Ef.
  induction Hc as [d|y|d l r ls rs Hl IHl Hr IHr Hor]; intros ns x Ef.
  - destruct ns; discriminate.
  - destruct ns as [|a [|b t]]; try discriminate. exists (zero_node 0). split; [reflexivity|apply CRep_zero].
  - cbn [be_bits]. pose proof (CRep_len _ _ _ Hl) as Hll.
    destruct rs as [|r0 rs'] using rev_ind.
    + rewrite app_nil_r in Ef. subst ls. rewrite app_length in Hll. cbn in Hll.
      assert (length ns <? 2 ^ d = true) as -> by (apply Nat.ltb_lt; lia). cbn [setter].
      destruct (IHl ns x eq_refl) as (l' & Hs & Hc'). rewrite Hs. cbn. eexists; split; [reflexivity|].
      rewrite <- (app_nil_r ns). constructor; auto.
    + clear IHrs'. rewrite app_assoc in Ef. apply app_inj_tail in Ef. destruct Ef as [<- <-].
      assert (length ls = 2 ^ d) as El by (destruct Hor as [E0|]; [destruct rs'; discriminate|assumption]).
      rewrite app_length. assert (length ls + length rs' <? 2 ^ d = false) as -> by (apply Nat.ltb_ge; lia). cbn [setter].
      replace (length ls + length rs' - 2 ^ d) with (length rs') by lia.
      destruct (IHr rs' r0 eq_refl) as (r' & Hs & Hc'). rewrite Hs. cbn. eexists; split; [reflexivity|].
      constructor; auto.
Qed.
End T.
