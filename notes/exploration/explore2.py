import sys, random, traceback, copy
sys.path.insert(0, '/tmp/feas')
from explore import *

fails = {}
import os
NOBLPOP = os.environ.get('NOBLPOP') == '1'
def fail(tag, *info):
    fails.setdefault(tag, [])
    if len(fails[tag]) < 4: fails[tag].append(tuple(str(i)[:300] for i in info))

def get_child(x, t, i):
    k = t[0]
    if k in ('vec', 'list'): return x[i], t[1]
    if k == 'cont': return getattr(x, f'f{i}'), t[1][i]
    if k == 'union':
        return x.value(), t[2][x.selector() - (1 if t[1] else 0)]

def mutable(t): return t[0] in ('vec', 'list', 'cont', 'union', 'bitvec', 'bitlist')

def rand_op(r, t, v):
    """returns (desc, apply_to_view(x), new abstract value) or None"""
    k = t[0]
    if k == 'list':
        ch = r.choice(['set', 'append', 'pop', 'append', 'pop'])
        if ch == 'append' and len(v) < t[2]:
            e = gen_val(r, t[1]); return ('append', lambda x: x.append(build(t[1], e)), v + [e])
        if ch == 'pop' and len(v) > 0:
            return ('pop', lambda x: x.pop(), v[:-1])
        if len(v) > 0:
            i = r.randrange(len(v)); e = gen_val(r, t[1])
            nv = list(v); nv[i] = e
            return (f'set{i}', lambda x: x.__setitem__(i, build(t[1], e)), nv)
        return None
    if k == 'vec':
        i = r.randrange(t[2]); e = gen_val(r, t[1]); nv = list(v); nv[i] = e
        return (f'set{i}', lambda x: x.__setitem__(i, build(t[1], e)), nv)
    if k == 'cont':
        i = r.randrange(len(t[1])); e = gen_val(r, t[1][i]); nv = list(v); nv[i] = e
        return (f'setf{i}', lambda x: setattr(x, f'f{i}', build(t[1][i], e)), nv)
    if k == 'bitvec':
        i = r.randrange(t[1]); b = r.random() < 0.5; nv = list(v); nv[i] = b
        return (f'bit{i}', lambda x: x.__setitem__(i, b), nv)
    if k == 'bitlist':
        ch = r.choice(['set', 'append', 'pop', 'append', 'pop'])
        if ch == 'append' and len(v) < t[1]:
            b = r.random() < 0.5; return ('append', lambda x: x.append(b), v + [b])
        if ch == 'pop' and len(v) > 0 and not NOBLPOP: return ('pop', lambda x: x.pop(), v[:-1])
        if len(v) > 0:
            i = r.randrange(len(v)); b = r.random() < 0.5; nv = list(v); nv[i] = b
            return (f'bit{i}', lambda x: x.__setitem__(i, b), nv)
        return None
    if k == 'union':
        nv = gen_val(r, t)
        sel, val = nv
        if t[1] and sel == 0: return ('change0', lambda x: x.change(0, None), nv)
        ot = t[2][sel - (1 if t[1] else 0)]
        if ot[0] == 'union': return None
        return (f'change{sel}', lambda x: x.change(sel, build(ot, val)), nv)

def check(tag, x, t, v, hist):
    try:
        er, es = htr(t, v), ser(t, v)
        if x.hash_tree_root() != er: fail(tag + ' root', t, hist); return False
        if x.encode_bytes() != es: fail(tag + ' enc', t, hist, x.encode_bytes().hex(), es.hex()); return False
        return True
    except Exception as e:
        fail(tag + ' EXC', t, hist, traceback.format_exc()[-300:]); return False

def no_nested_union(t):
    k = t[0]
    if k == 'union': return all(o[0] != 'union' and no_nested_union(o) for o in t[2])
    if k in ('vec', 'list'): return no_nested_union(t[1])
    if k == 'cont': return all(no_nested_union(f) for f in t[1])
    return True

def set_path(t, v, path, nv):
    if not path: return nv
    i = path[0]; k = t[0]
    if k in ('vec', 'list'): out = list(v); out[i] = set_path(t[1], v[i], path[1:], nv); return out
    if k == 'cont': out = list(v); out[i] = set_path(t[1][i], v[i], path[1:], nv); return out
    if k == 'union':
        sel, val = v; ot = t[2][sel - (1 if t[1] else 0)]
        return (sel, set_path(ot, val, path[1:], nv))

def main(seed, n):
    r = random.Random(seed)
    for it in range(n):
        t = gen_type(r, r.choice([1, 2, 2, 3]))
        if not mutable(t) or not no_nested_union(t): continue
        v = gen_val(r, t)
        try: x = build(t, v)
        except Exception as e: fail('build', t, repr(e)); continue
        hist = []
        snaps = []
        ok = True
        for step in range(r.randint(1, 12)):
            mode = r.random()
            if mode < 0.5:
                op = rand_op(r, t, v)
                if op is None: continue
                hist.append(op[0])
                snaps.append((x.get_backing(), x.copy(), v))
                try: op[1](x)
                except Exception as e: fail('C04 op EXC', t, hist, traceback.format_exc()[-300:]); ok = False; break
                v = op[2]
                if not check('C04', x, t, v, hist): ok = False; break
            else:
                # descend to a child view chain and mutate through it
                path = []; ct, cv, cx = t, v, x
                chain = [x]
                while True:
                    k = ct[0]
                    if k in ('vec', 'list'):
                        if len(cv) == 0 or not mutable(ct[1]): break
                        i = r.randrange(len(cv)); nx, nt = cx[i], ct[1]; ncv = cv[i]
                    elif k == 'cont':
                        idx = [i for i, f in enumerate(ct[1]) if mutable(f)]
                        if not idx: break
                        i = r.choice(idx); nx, nt = getattr(cx, f'f{i}'), ct[1][i]; ncv = cv[i]
                    elif k == 'union':
                        sel, val = cv
                        if ct[1] and sel == 0: break
                        nt = ct[2][sel - (1 if ct[1] else 0)]
                        if not mutable(nt) or NOBLPOP: break
                        i = 0; nx = cx.value(); ncv = val
                    else: break
                    path.append(i); ct, cv, cx = nt, ncv, nx; chain.append(cx)
                    if r.random() < 0.4: break
                if not path: continue
                op = rand_op(r, ct, cv)
                if op is None: continue
                hist.append(('child', tuple(path), op[0]))
                snaps.append((x.get_backing(), x.copy(), v))
                try: op[1](cx)
                except Exception as e: fail('C05 op EXC', t, hist, traceback.format_exc()[-300:]); ok = False; break
                v = set_path(t, v, path, op[2])
                if not check('C05', x, t, v, hist): ok = False; break
        if ok:
            for (bk, cp, ov) in snaps:
                if bk.merkle_root() != htr(t, ov): fail('C06 backing', t, hist)
                if not check('C06 copy', cp, t, ov, hist): pass
            # C15: read paths
            try:
                k = t[0]
                if k in ('vec', 'list'):
                    a = [e.hash_tree_root() for e in x]
                    b = [x[i].hash_tree_root() for i in range(len(x))]
                    c = [e.hash_tree_root() for e in x.readonly_iter()]
                    d = [htr(t[1], e) for e in v]
                    if not (a == b == c == d) or len(x) != len(v): fail('C15 seq', t, hist)
                if k in ('bitvec', 'bitlist'):
                    if [bool(b) for b in x] != list(v) or [bool(x[i]) for i in range(len(x))] != list(v): fail('C15 bits', t, hist)
                if k == 'cont':
                    if [e.hash_tree_root() for e in x] != [htr(f, e) for f, e in zip(t[1], v)]: fail('C15 cont', t, hist)
            except Exception as e:
                fail('C15 EXC', t, hist, traceback.format_exc()[-300:])
    for k, v in fails.items():
        print('==', k, len(v))
        for f in v: print('   ', f)
    print('done', n)
if __name__ == '__main__': main(int(sys.argv[1]), int(sys.argv[2]))
