import sys, traceback
sys.path.insert(0, __import__('os').environ.get('RM','/repo'))
from remerkleable.basic import *
from remerkleable.complex import *
from remerkleable.bitfields import *
from remerkleable.byte_arrays import *
from remerkleable.union import Union
from remerkleable.tree import PairNode, RootNode, zero_node, get_diff, leaf_iter, NavigationError
from remerkleable.core import Path

def t(name, f):
    try:
        r = f()
        print(name, '->', r)
    except BaseException as e:
        print(name, 'RAISED', type(e).__name__, e)

# virtual import
t('virtual import', lambda: __import__('remerkleable.virtual'))
# history
from remerkleable.history import get_target_history
a = PairNode(RootNode(b'\x01'*32), RootNode(b'\x02'*32))
b = PairNode(RootNode(b'\x03'*32), RootNode(b'\x02'*32))
t('history', lambda: get_target_history([(0,a),(1,b)], 2))
t('history root', lambda: get_target_history([(0,a),(1,b)], 1))
# bitlist pop
def bl():
    x = Bitlist[16](1,1,1)
    x.pop()
    y = Bitlist[16](1,1)
    return (x.encode_bytes().hex(), y.encode_bytes().hex(), x.hash_tree_root()==y.hash_tree_root(), list(x))
t('bitlist pop', bl)
def bl2():
    x = Bitlist[512]([1]*256)
    x.pop()
    y = Bitlist[512]([1]*255)
    return (x.encode_bytes().hex()==y.encode_bytes().hex(), x.hash_tree_root()==y.hash_tree_root(), list(x)[:3])
t('bitlist pop256', bl2)
# union child mutation
class C(Container):
    a: uint8
    b: List[uint8, 4]
U = Union[uint8, C]
def un():
    u = U(selector=1, value=C(a=1))
    v = u.value()
    v.a = 5
    return (u.value().a, u.encode_bytes().hex())
t('union child', un)
# union None extra bytes
t('union none extra', lambda: Union[None, uint8].decode_bytes(b'\x00\xff').encode_bytes().hex())
# container gap
t('container gap', lambda: C.decode_bytes(bytes.fromhex('01 06000000 aa bb'.replace(' ',''))).encode_bytes().hex())
class F(Container):
    a: uint16
t('fixed container trailing', lambda: F.decode_bytes(b'\x01\x02\x03').encode_bytes().hex())
t('fixed container short', lambda: F.decode_bytes(b'').encode_bytes().hex())
LL = List[List[uint8,4],4]
t('list of lists zero offset', lambda: LL.decode_bytes(b'\x00\x00\x00\x00').encode_bytes().hex())
t('list of lists short', lambda: LL.decode_bytes(b'\x00').encode_bytes().hex())
t('bool 2', lambda: boolean.decode_bytes(b'\x02'))
t('bool deserialize 2', lambda: boolean.deserialize(__import__('io').BytesIO(b'\x02'),1))
t('uint8 decode_bytes long', lambda: uint8.decode_bytes(b'\x02\x00'))
t('uint16 deser short', lambda: uint16.deserialize(__import__('io').BytesIO(b'\x02'),2))
# paths
t('bitlist len gindex', lambda: (Bitlist[10] / '__len__').gindex())
t('list len gindex', lambda: (List[uint8,10] / '__len__').gindex())
t('bytevector nav == len', lambda: (ByteVector[4] / 4))
t('bytelist nav == limit', lambda: (ByteList[4] / 4))
t('bytelist len', lambda: (ByteList[4] / '__len__'))
# setter expand discards nonzero leaf
n = PairNode(RootNode(b'\x07'*32), RootNode(b'\x00'*32))
t('expand nonzero leaf', lambda: n.setter(4, expand=True)(RootNode(b'\x09'*32)).merkle_root().hex())
t('rootnode expand nonzero', lambda: RootNode(b'\x07'*32).setter(2, expand=True)(RootNode(b'\x09'*32)))
