# candidate fixes applied as monkeypatches (exploration only)
import io
from remerkleable import basic, complex as cx, union as un
def bool_decode(cls, bytez):
    if bytez == b"\x00": return cls(False)
    if bytez == b"\x01": return cls(True)
    raise ValueError("invalid boolean byte")
basic.boolean.decode_bytes = classmethod(bool_decode)
_orig_cdes = cx.Container.deserialize.__func__
def cont_deser(cls, stream, scope):
    if cls.is_fixed_byte_length():
        if scope != cls.type_byte_length(): raise Exception("scope mismatch")
        return _orig_cdes(cls, stream, scope)
    # check first offset == fixed size: peek
    pos = stream.tell()
    fixed = 0; first = None
    for fkey, ftyp in cls.fields().items():
        if ftyp.is_fixed_byte_length(): fixed += ftyp.type_byte_length()
        else:
            if first is None:
                stream.seek(pos + fixed); first = int.from_bytes(stream.read(4), 'little')
            fixed += 4
    stream.seek(pos)
    if first is not None and first != fixed: raise Exception("gap")
    return _orig_cdes(cls, stream, scope)
cx.Container.deserialize = classmethod(cont_deser)
_orig_udes = un.Union.deserialize.__func__
def union_deser(cls, stream, scope):
    if scope >= 1:
        pos = stream.tell(); sel = stream.read(1); stream.seek(pos)
        if sel and sel[0] < len(cls.options()) and cls.options()[sel[0]] is None and scope != 1:
            raise ValueError("None option with extra bytes")
    return _orig_udes(cls, stream, scope)
un.Union.deserialize = classmethod(union_deser)
