import sys, random, traceback, io
sys.path.insert(0, '/tmp/feas')
from explore import *
import os
if os.environ.get('PATCH')=='1': import patchfix
fails = {}
def fail(tag, *info):
    fails.setdefault(tag, [])
    if len(fails[tag]) < 5: fails[tag].append(tuple(str(i)[:260] for i in info))
def has_nested_union(t):
    k = t[0]
    if k == 'union': return any(o[0] == 'union' or has_nested_union(o) for o in t[2])
    if k in ('vec', 'list'): return has_nested_union(t[1])
    if k == 'cont': return any(has_nested_union(f) for f in t[1])
    return False
def corrupt(r, b):
    b = bytearray(b); ch = r.randrange(7)
    if ch == 0 and b: i = r.randrange(len(b)); b[i] ^= 1 << r.randrange(8)
    elif ch == 1 and b: del b[r.randrange(len(b)):]
    elif ch == 2: b += bytes(r.getrandbits(8) for _ in range(r.randint(1, 4)))
    elif ch == 3 and len(b) >= 4:
        i = r.randrange(0, len(b) - 3); o = int.from_bytes(b[i:i+4], 'little') + r.choice([-4, -1, 1, 4, 8])
        b[i:i+4] = (o % (1 << 32)).to_bytes(4, 'little')
    elif ch == 4 and b: i = r.randrange(len(b)); b[i] = r.choice([0, 1, 2, 0x80, 0xff])
    elif ch == 5 and b: i = r.randrange(len(b)); b.insert(i, r.getrandbits(8))
    elif ch == 6 and b: i = r.randrange(len(b)); del b[i]
    return bytes(b)
def main(seed, n):
    r = random.Random(seed); acc = 0; tot = 0
    for it in range(n):
        t = gen_type(r, r.choice([0, 1, 1, 2, 2, 3]))
        if has_nested_union(t): continue
        P = T(t); v = gen_val(r, t); es = ser(t, v)
        for j in range(6):
            b = corrupt(r, es) if j < 5 else bytes(r.getrandbits(8) for _ in range(r.randint(0, 12)))
            if r.random() < 0.3: b = corrupt(r, b)
            tot += 1
            try:
                y = P.deserialize(io.BytesIO(b), len(b)) if is_basic(t) else P.decode_bytes(b)
            except RecursionError: fail('recursion', t, b.hex()); continue
            except Exception: continue
            acc += 1
            try:
                e2 = y.encode_bytes()
                if e2 != b:
                    kind = 'C10 noncanon top=' + t[0]
                    fail(kind, t, b.hex(), e2.hex())
                if y.value_byte_length() != len(e2): fail('C09 vbl', t, b.hex())
                z = P.decode_bytes(e2)
                if z.hash_tree_root() != y.hash_tree_root() or z.encode_bytes() != e2: fail('C09 unstable', t, b.hex())
                lo, hi = minmax(t)
                if not lo <= len(e2) <= hi: fail('C09 bounds', t, b.hex())
                o = y.to_obj()
            except Exception as e:
                fail('C09 EXC after decode', t, b.hex(), traceback.format_exc()[-300:])
    print('accepted', acc, 'of', tot)
    for k, v in sorted(fails.items()):
        print('==', k, len(v))
        for f in v[:3]: print('   ', f)
if __name__ == '__main__': main(int(sys.argv[1]), int(sys.argv[2]))
