import sys, random, traceback, io
sys.path.insert(0, '/tmp/feas')
from explore import *
from remerkleable.core import Path
from remerkleable import tree as rtree
fails = {}
def fail(tag, *info):
    fails.setdefault(tag, [])
    if len(fails[tag]) < 4: fails[tag].append(tuple(str(i)[:260] for i in info))
def npow2(n): return 1 if n <= 1 else 1 << (n - 1).bit_length()
def chunk_count(t):
    k = t[0]
    if is_basic(t): return 1
    if k in ('bitvec', 'bitlist'): return (t[1] + 255) // 256
    if k in ('bytevec', 'bytelist'): return (t[1] + 31) // 32
    if k in ('vec', 'list'): return (t[2] * bsize(t[1]) + 31) // 32 if is_basic(t[1]) else t[2]
    if k == 'cont': return len(t[1])
def spec_step(t, key):
    """returns (gindex_step, child_type, kind) per SSZ spec, or None if invalid"""
    k = t[0]
    islist = k in ('list', 'bitlist', 'bytelist')
    if key == '__len__':
        return (3, ('uint', 32)) if islist else None
    if k == 'union':
        if key == '__selector__': return (3, ('uint', 32))
        n = len(t[2]) + (1 if t[1] else 0)
        if not isinstance(key, int) or not 0 <= key < n: return None
        return (2, None if (t[1] and key == 0) else t[2][key - (1 if t[1] else 0)])
    if k == 'cont':
        if not isinstance(key, str) or not key.startswith('f') or not key[1:].isdigit() or int(key[1:]) >= len(t[1]): return None
        i = int(key[1:]); return (npow2(len(t[1])) + i, t[1][i])
    if not isinstance(key, int): return None
    if k in ('vec', 'list'):
        if not 0 <= key < t[2]: return None
        pos = (key * bsize(t[1])) // 32 if is_basic(t[1]) else key
        return ((2 if islist else 1) * npow2(chunk_count(t)) + pos, t[1])
    if k in ('bitvec', 'bitlist'):
        if not 0 <= key < t[1]: return None
        return ((2 if islist else 1) * npow2(chunk_count(t)) + key // 256, ('bool',))
    if k in ('bytevec', 'bytelist'):
        if not 0 <= key < t[1]: return None
        return ((2 if islist else 1) * npow2(chunk_count(t)) + key // 32, ('uint', 1))
    return None
def concat(a, b):
    return (a << (b.bit_length() - 1)) | (b ^ (1 << (b.bit_length() - 1)))
def keys_for(r, t):
    k = t[0]; ks = ['__len__', '__selector__', -1, 'nope']
    if k == 'cont': ks += [f'f{i}' for i in range(len(t[1]) + 1)]
    elif k == 'union': ks += list(range(len(t[2]) + 2))
    elif k in ('vec', 'list'): ks += [0, t[2] - 1, t[2], t[2] + 1, r.randrange(t[2])]
    elif not is_basic(t): ks += [0, t[1] - 1, t[1], t[1] + 1, r.randrange(t[1])]
    else: ks += [0]
    return ks
def main(seed, n):
    r = random.Random(seed)
    for it in range(n):
        t = gen_type(r, r.choice([1, 2, 3]))
        P = T(t)
        # walk a random path
        path = Path(P); g = 1; ct = t; steps = []
        for depth in range(4):
            if ct is None: break
            key = r.choice(keys_for(r, ct))
            exp = spec_step(ct, key)
            try:
                np = path / key
                ok = True
            except Exception as e:
                ok = False; err = e
            if exp is None:
                if ok: fail('C08 invalid key accepted at build', ct[0], key, ct)
                continue
            if not ok:
                fail('C08 valid key rejected at build', ct[0], key, repr(err)); continue
            steps.append(key)
            try:
                gi = np.gindex()
            except Exception as e:
                fail('C08 gindex raises for valid path', ct[0], key, repr(e)); break
            g = concat(g, exp[0])
            if gi != g: fail('C08 gindex mismatch', t, steps, gi, g); break
            path = np; ct = exp[1]
    # C13 mixed
    ops = ['add','sub','mul','floordiv','mod','and','or','xor','lshift','rshift','pow']
    for _ in range(20000):
        wa, wb = r.choice([1,2,4,8,16,32]), r.choice([1,2,4,8,16,32])
        def rv(w): return r.choice([0,1,2,3,(1<<(8*w))-1,(1<<(8*w-1)), r.getrandbits(8*w), r.getrandbits(r.randint(1,8*w))])
        a, b = rv(wa), rv(wb)
        op = r.choice(ops)
        if op == 'pow': b = r.choice([0,1,2,3,5,8*wa]); 
        if op in ('lshift','rshift'): b = r.choice([0,1,7,8,8*wa-1,8*wa,8*wa+1,300])
        if b >= 1 << (8*wb): continue
        kind = r.choice(['same','other','int','rint'])
        A = UINTS[wa](a)
        try:
            if kind == 'same':
                if b >= 1 << (8*wa): continue
                B = UINTS[wa](b)
            elif kind == 'other':
                if wa == wb: continue
                B = UINTS[wb](b)
            else: B = b
        except Exception: continue
        import operator
        f = {'add':operator.add,'sub':operator.sub,'mul':operator.mul,'floordiv':operator.floordiv,'mod':operator.mod,'and':operator.and_,'or':operator.or_,'xor':operator.xor,'lshift':operator.lshift,'rshift':operator.rshift,'pow':operator.pow}[op]
        if kind == 'rint' and op in ('pow','lshift') and a > 600: continue
        if op == 'pow' and kind != 'rint' and a.bit_length() * max(b,1) > 5000: continue
        try:
            exact = f(b, a) if kind == 'rint' else f(a, b)
        except ZeroDivisionError: exact = None
        mask = (1 << (8*wa)) - 1
        try:
            res = f(B, A) if kind == 'rint' else f(A, B)
            raised = None
        except Exception as e:
            res = None; raised = e
        if kind == 'other' and op not in ('lshift','rshift','pow'):
            if raised is None: fail('C13 mixed width accepted', op, wa, wb, a, b, res)
            continue
        if kind == 'other' and op == 'pow':
            if raised is None and exact is not None and exact <= mask: fail('C13 NOTE mixed-width pow accepted', op, wa, wb, type(res).__name__)
            continue
        if exact is None:
            if raised is None: fail('C13 div0 no raise', op, a, b)
            continue
        if op in ('lshift','rshift'):
            if kind == 'rint':
                if raised is None: fail('C13 NOTE rshift int lhs accepted', op, a, b, res)
                continue
            exact &= mask
        if 0 <= exact <= mask:
            if raised is not None: fail('C13 raised though fits', op, kind, wa, a, b, repr(raised))
            elif int(res) != exact or type(res) is not UINTS[wa]: fail('C13 wrong result/type', op, kind, wa, a, b, res, type(res).__name__)
        else:
            if raised is None: fail('C13 no raise on overflow', op, kind, wa, a, b, res)
    for k, v in sorted(fails.items()):
        print('==', k, len(v))
        for f in v[:3]: print('   ', f)
    print('done')
if __name__ == '__main__': main(int(sys.argv[1]), int(sys.argv[2]))
