From Coq Require Import NArith ZArith List Uint63.
From Coq Require Import Strings.Byte.
Require Import Sha63.
Import ListNotations.

Definition b2i (b : byte) : int := of_Z (Z.of_N (Byte.to_N b)).
Fixpoint words (l : list byte) : list int :=
  match l with
  | a :: b :: c :: d :: r => ((b2i a << 24) lor (b2i b << 16) lor (b2i c << 8) lor (b2i d))%uint63 :: words r
  | _ => []
  end.
Definition i2b (i : int) : byte := match Byte.of_N (Z.to_N (to_Z (i land 255)%uint63)) with Some b => b | None => x00 end.
Definition unwords (l : list int) : list byte :=
  flat_map (fun w => [i2b (w >> 24); i2b (w >> 16); i2b (w >> 8); i2b w]%uint63) l.
Definition Hsha (l r : list byte) : list byte := unwords (sha256_64 (words (l ++ r))).
Definition zero32 := repeat x00 32.
Fixpoint iterH (n : nat) (x : list byte) := match n with O => x | S n' => iterH n' (Hsha x x) end.
Time Eval vm_compute in iterH 255 zero32.
Fixpoint rep (n : nat) (x : list byte) := match n with O => x | S n' => rep n' (iterH 255 x) end.
Time Eval vm_compute in rep 20 zero32.

(* hex literal -> bytes (little-endian of N, fixed length) *)
Fixpoint n_bytes (k : nat) (n : N) : list byte :=
  match k with O => [] | S k' => match Byte.of_N (N.land n 255) with Some b => b | None => x00 end :: n_bytes k' (N.shiftr n 8) end.
