import sys
sys.path.insert(0, __import__('os').environ.get('RM','/repo'))
from remerkleable.basic import *
from remerkleable.complex import Container, Vector, List
from remerkleable.bitfields import Bitvector, Bitlist
from remerkleable import tree
from remerkleable.tree import PairNode, RootNode, NavigationError
cnt = [0]
orig = tree.merkle_hash
def counting(a, b):
    cnt[0] += 1
    return orig(a, b)
tree.merkle_hash = counting
def cost(f):
    c0 = cnt[0]; r = f(); return cnt[0] - c0
L = List[uint64, 1024]   # 256 chunks, contents depth 8
x = L(list(range(1000)))
print('initial htr cost', cost(x.hash_tree_root), 'again', cost(x.hash_tree_root))
b0 = x.get_backing()
x[500] = 7
print('after set: cost', cost(x.hash_tree_root))
b1 = x.get_backing()
# sharing: walk the path to chunk 125 and compare siblings
def path_nodes(n, g):
    bits = bin(g)[3:]
    out = []
    for b in bits:
        out.append((n.get_left(), n.get_right()))
        n = n.get_right() if b == '1' else n.get_left()
    return out
g = (1 << 9) | 125
shared = [ (l0 is l1, r0 is r1) for (l0, r0), (l1, r1) in zip(path_nodes(b0, g), path_nodes(b1, g))]
print('sharing along path (left same, right same):', shared, 'bits', bin(g)[3:])
x.append(5); print('append cost', cost(x.hash_tree_root))
x.pop(); print('pop cost (incl. summarize at pop time) then htr', cost(x.hash_tree_root))
c0 = cnt[0]; x.pop(); print('pop itself hashes', cnt[0]-c0, 'then', cost(x.hash_tree_root))
y = x.copy(); print('copy htr cost', cost(y.hash_tree_root))
z = L.view_from_backing(x.get_backing()); print('re-created view htr cost', cost(z.hash_tree_root))
class C(Container):
    a: uint64
    b: List[uint64, 1024]
    c: Vector[uint64, 8]
c = C(b=x)
print('container first', cost(c.hash_tree_root))
c.b[3] = 9
print('child mutation', cost(c.hash_tree_root))
c.c[3] = 9
print('vector child mutation', cost(c.hash_tree_root))
# partial: summarize element region then operate
V = List[C, 8]
v = V([C(a=i) for i in range(5)])
r0 = v.hash_tree_root()
bk = v.get_backing()
part = bk.summarize_into((1 << 4) | 1)()   # element 1 summarised
pv = V.view_from_backing(part)
print('partial root same', pv.hash_tree_root() == r0, 'len', len(pv))
print('read elem0', pv[0].a, 'elem2', pv[2].a)
try: print(pv[1].a)
except NavigationError as e: print('elem1 -> NavigationError')
pv[2] = C(a=77); v[2] = C(a=77); print('write elem2 same root', pv.hash_tree_root() == v.hash_tree_root())
# summarise region [4..7] (gindex 0b1011? contents depth 3: contents node 2; elements 16..23; region 4-7 = node 5) -> node (1<<2)|1 = 5
part2 = bk.summarize_into(5)()
pv2 = V.view_from_backing(part2)
try:
    pv2.append(C(a=9)); v2 = V([C(a=i) for i in range(5)]); v2.append(C(a=9))
    print('append through summarised non-zero region: same root as full?', pv2.hash_tree_root() == v2.hash_tree_root(), 'len', len(pv2))
except NavigationError: print('append -> NavigationError')
