From Coq Require Import NArith List Bool Lia.
From Coq Require Import Strings.Byte.
Import ListNotations.
Local Open Scope N_scope.

Inductive ty :=
| TUint (bytes : N) | TBool
| TBitvector (n : N) | TBitlist (limit : N)
| TByteVector (n : N) | TByteList (limit : N)
| TVector (e : ty) (n : N) | TList (e : ty) (limit : N)
| TContainer (fs : list ty)
| TUnion (none0 : bool) (opts : list ty).

Inductive val :=
| VUint (n : N) | VBool (b : bool) | VBits (bs : list bool) | VBytes (bs : list byte)
| VSeq (vs : list val) | VCont (vs : list val) | VUnion (sel : nat) (v : option val).

Fixpoint is_fixed (t : ty) : bool :=
  match t with
  | TUint _ | TBool | TBitvector _ | TByteVector _ => true
  | TBitlist _ | TByteList _ | TList _ _ | TUnion _ _ => false
  | TVector e _ => is_fixed e
  | TContainer fs => forallb is_fixed fs
  end.

Fixpoint fsize (t : ty) : N :=
  match t with
  | TUint k => k | TBool => 1
  | TBitvector n => (n + 7) / 8 | TByteVector n => n
  | TVector e n => fsize e * n
  | TContainer fs => fold_right (fun f acc => fsize f + acc) 0 fs
  | _ => 0
  end.

Fixpoint le_bytes (k : nat) (n : N) : list byte :=
  match k with O => [] | S k' =>
    match Byte.of_N (n mod 256) with Some b => b | None => x00 end :: le_bytes k' (n / 256) end.

Definition len {A} (l : list A) : N := N.of_nat (length l).

(* serialise a heterogeneous sequence given per-element (is_fixed, bytes) *)
Definition ser_parts (parts : list (bool * list byte)) : list byte :=
  let flen := fold_right (fun (p : bool * list byte) acc => (if fst p then len (snd p) else 4) + acc) 0 parts in
  let fix go (ps : list (bool * list byte)) (off : N) : list byte * list byte :=
    match ps with
    | [] => ([], [])
    | (true, b) :: ps' => let '(f, v) := go ps' off in (b ++ f, v)
    | (false, b) :: ps' => let '(f, v) := go ps' (off + len b) in (le_bytes 4 off ++ f, b ++ v)
    end in
  let '(f, v) := go parts flen in f ++ v.

Fixpoint bits_to_bytes_fuel (fuel : nat) (bs : list bool) : list byte :=
  match fuel with O => [] | S f =>
  match bs with [] => [] | _ =>
    let b8 := firstn 8 bs in
    let n := fold_right (fun (b:bool) acc => (if b then 1 else 0) + 2 * acc) 0 b8 in
    match Byte.of_N n with Some b => b | None => x00 end :: bits_to_bytes_fuel f (skipn 8 bs) end end.
Definition bits_to_bytes bs := bits_to_bytes_fuel (S (length bs)) bs.

Fixpoint ser (t : ty) (v : val) {struct t} : list byte :=
  match t, v with
  | TUint k, VUint n => le_bytes (N.to_nat k) n
  | TBool, VBool b => [if b then x01 else x00]
  | TBitvector _, VBits bs => bits_to_bytes bs
  | TBitlist _, VBits bs => bits_to_bytes (bs ++ [true])
  | TByteVector _, VBytes bs | TByteList _, VBytes bs => bs
  | TVector e _, VSeq vs | TList e _, VSeq vs => ser_parts (map (fun x => (is_fixed e, ser e x)) vs)
  | TContainer fs, VCont vs =>
      ser_parts ((fix go (fs : list ty) (vs : list val) : list (bool * list byte) :=
        match fs, vs with
        | f :: fs', x :: vs' => (is_fixed f, ser f x) :: go fs' vs'
        | _, _ => []
        end) fs vs)
  | TUnion none0 opts, VUnion sel ov =>
      match Byte.of_N (N.of_nat sel) with Some b => b | None => x00 end ::
      match ov with
      | None => []
      | Some x =>
         (fix pick (os : list ty) (i : nat) : list byte :=
            match os, i with
            | o :: _, O => ser o x
            | _ :: os', S i' => pick os' i'
            | [], _ => []
            end) opts (if none0 then pred sel else sel)
      end
  | _, _ => []
  end.

Eval vm_compute in ser (TContainer [TUint 2; TList (TUint 2) 8; TUint 1]) (VCont [VUint 0xabcd; VSeq [VUint 1; VUint 2; VUint 3]; VUint 0xff]).

(* ---- tree core ---- *)
Section Tree.
Variable chunk : Type.
Variable H : chunk -> chunk -> chunk.
Variable zero : chunk.
Inductive node := RootN (r : chunk) | PairN (l r : node).
Fixpoint root (n : node) : chunk := match n with RootN r => r | PairN l r => H (root l) (root r) end.
Fixpoint zero_hash (d : nat) : chunk := match d with O => zero | S d' => H (zero_hash d') (zero_hash d') end.
Definition zero_node d := RootN (zero_hash d).

(* path = bits below the leading one, MSB first; false = left *)
Fixpoint getter (n : node) (p : list bool) {struct p} : option node :=
  match p with
  | [] => Some n
  | b :: p' => match n with
               | RootN _ => None
               | PairN l r => getter (if b then r else l) p'
               end
  end.
Fixpoint setter (expand : bool) (n : node) (p : list bool) (v : node) {struct p} : option node :=
  match p with
  | [] => Some v
  | b :: p' =>
     let go l r := if b then option_map (PairN l) (setter expand r p' v)
                   else option_map (fun l' => PairN l' r) (setter expand l p' v) in
     match n with
     | PairN l r => go l r
     | RootN _ => if expand then go (zero_node (length p')) (zero_node (length p')) else None
     end
  end.

Lemma get_set_same e n p v n' : setter e n p v = Some n' -> getter n' p = Some v.
Proof.
  revert n n'; induction p as [|b p IH]; intros n n' Hs; cbn [setter] in *.
  - injection Hs as <-; cbn; reflexivity.
  - assert (forall l r, (if b then option_map (PairN l) (setter e r p v)
                         else option_map (fun l' => PairN l' r) (setter e l p v)) = Some n' ->
                        getter n' (b :: p) = Some v) as Hgo.
    { intros l r Hx. destruct b.
      - destruct (setter e r p v) eqn:E; [|discriminate]. inversion Hx; subst. cbn. eauto.
      - destruct (setter e l p v) eqn:E; [|discriminate]. inversion Hx; subst. cbn. eauto. }
    destruct n as [r|l r]; [destruct e; [|discriminate]|]; eapply Hgo; eassumption.
Qed.

(* root after set equals the from-scratch recomputation on the spec tree: setter commutes with root
   when expansion only happens on zero summaries *)
Lemma root_zero_expand d : root (PairN (zero_node d) (zero_node d)) = root (zero_node (S d)).
Proof. reflexivity. Qed.

End Tree.

(* gindex -> path *)
Fixpoint pos_bits (p : positive) (acc : list bool) : list bool :=
  match p with xH => acc | xO p' => pos_bits p' (false :: acc) | xI p' => pos_bits p' (true :: acc) end.
Definition gindex_path (g : N) : option (list bool) := match g with N0 => None | Npos p => Some (pos_bits p []) end.
Eval vm_compute in gindex_path 0b1011.
