import sys, io, json, random, hashlib, traceback
sys.path.insert(0, __import__('os').environ.get('RM','/repo'))
from remerkleable.basic import boolean, uint8, uint16, uint32, uint64, uint128, uint256
from remerkleable.complex import Container, Vector, List
from remerkleable.bitfields import Bitvector, Bitlist
from remerkleable.byte_arrays import ByteVector, ByteList
from remerkleable.union import Union
from remerkleable.tree import NavigationError

UINTS = {1: uint8, 2: uint16, 4: uint32, 8: uint64, 16: uint128, 32: uint256}
Z = b'\x00' * 32
def H(a, b): return hashlib.sha256(a + b).digest()
ZH = [Z]
for _ in range(80): ZH.append(H(ZH[-1], ZH[-1]))

# abstract types: ('uint',k) ('bool',) ('bitvec',n) ('bitlist',n) ('bytevec',n) ('bytelist',n) ('vec',t,n) ('list',t,n) ('cont',[t..]) ('union',none?,[t..])
cnt = [0]
def pytype(t):
    k = t[0]
    if k == 'uint': return UINTS[t[1]]
    if k == 'bool': return boolean
    if k == 'bitvec': return Bitvector[t[1]]
    if k == 'bitlist': return Bitlist[t[1]]
    if k == 'bytevec': return ByteVector[t[1]]
    if k == 'bytelist': return ByteList[t[1]]
    if k == 'vec': return Vector[T(t[1]), t[2]]
    if k == 'list': return List[T(t[1]), t[2]]
    if k == 'cont':
        cnt[0] += 1
        ann = {f'f{i}': T(ft) for i, ft in enumerate(t[1])}
        return type(f'C{cnt[0]}', (Container,), {'__annotations__': ann})
    if k == 'union':
        opts = ([None] if t[1] else []) + [T(o) for o in t[2]]
        return Union.__class_getitem__(tuple(opts))
_tc = {}
def T(t):
    key = repr(t)
    if key not in _tc: _tc[key] = pytype(t)
    return _tc[key]

def is_basic(t): return t[0] in ('uint', 'bool')
def bsize(t): return t[1] if t[0] == 'uint' else 1
def is_fixed(t):
    k = t[0]
    if k in ('uint', 'bool', 'bitvec', 'bytevec'): return True
    if k in ('bitlist', 'bytelist', 'list', 'union'): return False
    if k == 'vec': return is_fixed(t[1])
    if k == 'cont': return all(is_fixed(f) for f in t[1])
def fsize(t):
    k = t[0]
    if k == 'uint': return t[1]
    if k == 'bool': return 1
    if k == 'bitvec': return (t[1] + 7) // 8
    if k == 'bytevec': return t[1]
    if k == 'vec': return fsize(t[1]) * t[2]
    if k == 'cont': return sum(fsize(f) for f in t[1])
def minmax(t):
    k = t[0]
    if is_fixed(t): return fsize(t), fsize(t)
    if k == 'bitlist': return 1, t[1] // 8 + 1
    if k == 'bytelist': return 0, t[1]
    if k == 'list':
        a, b = minmax(t[1]); o = 0 if is_fixed(t[1]) else 4
        return 0, (b + o) * t[2]
    if k == 'vec':
        a, b = minmax(t[1]); return (a + 4) * t[2], (b + 4) * t[2]
    if k == 'cont':
        lo = hi = 0
        for f in t[1]:
            a, b = minmax(f); o = 0 if is_fixed(f) else 4
            lo += a + o; hi += b + o
        return lo, hi
    if k == 'union':
        mm = ([(0, 0)] if t[1] else []) + [minmax(o) for o in t[2]]
        return 1 + min(a for a, _ in mm), 1 + max(b for _, b in mm)

def bits_bytes(bits):
    out = bytearray((len(bits) + 7) // 8)
    for i, b in enumerate(bits):
        if b: out[i // 8] |= 1 << (i % 8)
    return bytes(out)
def ser(t, v):
    k = t[0]
    if k == 'uint': return v.to_bytes(t[1], 'little')
    if k == 'bool': return b'\x01' if v else b'\x00'
    if k == 'bitvec': return bits_bytes(v)
    if k == 'bitlist': return bits_bytes(list(v) + [True])
    if k in ('bytevec', 'bytelist'): return bytes(v)
    if k in ('vec', 'list'): return ser_seq([t[1]] * len(v), v)
    if k == 'cont': return ser_seq(t[1], v)
    if k == 'union':
        sel, val = v
        if t[1] and sel == 0: return b'\x00'
        return bytes([sel]) + ser(t[2][sel - (1 if t[1] else 0)], val)
def ser_seq(ts, vs):
    parts = [ser(a, b) for a, b in zip(ts, vs)]
    fixed = [p if is_fixed(a) else None for a, p in zip(ts, parts)]
    flen = sum(len(p) if p is not None else 4 for p in fixed)
    out = b''; var = b''
    for a, p, f in zip(ts, parts, fixed):
        if f is not None: out += p
        else:
            out += (flen + len(var)).to_bytes(4, 'little'); var += p
    return out + var
def depth_of(n): return 0 if n <= 1 else (n - 1).bit_length()
def merk(chunks, limit):
    d = depth_of(limit)
    def go(cs, d):
        if not cs: return ZH[d]
        if d == 0: return cs[0]
        half = 1 << (d - 1)
        return H(go(cs[:half], d - 1), go(cs[half:], d - 1))
    assert len(chunks) <= max(1, limit) or limit == 0 and not chunks, (len(chunks), limit)
    return go(chunks, d)
def chunks_of(b):
    b = b + b'\x00' * (-len(b) % 32)
    return [b[i:i + 32] for i in range(0, len(b), 32)]
def mixin(r, n): return H(r, n.to_bytes(32, 'little'))
def htr(t, v):
    k = t[0]
    if is_basic(t): return chunks_of(ser(t, v))[0]
    if k == 'bitvec': return merk(chunks_of(bits_bytes(v)), (t[1] + 255) // 256)
    if k == 'bitlist': return mixin(merk(chunks_of(bits_bytes(v)), (t[1] + 255) // 256), len(v))
    if k == 'bytevec': return merk(chunks_of(bytes(v)), (t[1] + 31) // 32)
    if k == 'bytelist': return mixin(merk(chunks_of(bytes(v)), (t[1] + 31) // 32), len(v))
    if k == 'vec':
        if is_basic(t[1]): return merk(chunks_of(b''.join(ser(t[1], e) for e in v)), (t[2] * bsize(t[1]) + 31) // 32)
        return merk([htr(t[1], e) for e in v], t[2])
    if k == 'list':
        if is_basic(t[1]): return mixin(merk(chunks_of(b''.join(ser(t[1], e) for e in v)), (t[2] * bsize(t[1]) + 31) // 32), len(v))
        return mixin(merk([htr(t[1], e) for e in v], t[2]), len(v))
    if k == 'cont': return merk([htr(f, e) for f, e in zip(t[1], v)], len(t[1]))
    if k == 'union':
        sel, val = v
        if t[1] and sel == 0: return mixin(Z, 0)
        return mixin(htr(t[2][sel - (1 if t[1] else 0)], val), sel)

def gen_type(r, depth):
    ks = ['uint', 'bool', 'bitvec', 'bitlist', 'bytevec', 'bytelist']
    if depth > 0: ks += ['vec', 'list', 'cont', 'union'] * 2
    k = r.choice(ks)
    sz = lambda: r.choice([1, 2, 3, 4, 5, 7, 8, 9, 15, 16, 17, 31, 32, 33, 63, 64, 65, 255, 256, 257, 511, 512, 513, 600])
    small = lambda: r.choice([1, 2, 3, 4, 5, 6, 7, 8, 9, 15, 16, 17, 33])
    if k == 'uint': return ('uint', r.choice([1, 2, 4, 8, 16, 32]))
    if k == 'bool': return ('bool',)
    if k in ('bitvec', 'bitlist', 'bytevec', 'bytelist'): return (k, sz())
    if k in ('vec', 'list'):
        e = gen_type(r, depth - 1)
        return (k, e, small() if not is_basic(e) else sz())
    if k == 'cont': return ('cont', [gen_type(r, depth - 1) for _ in range(r.choice([1, 2, 3, 4, 5, 8, 9]))])
    if k == 'union':
        return ('union', r.random() < 0.4, [gen_type(r, depth - 1) for _ in range(r.choice([1, 2, 3]))])
def gen_val(r, t, full=None):
    k = t[0]
    if k == 'uint': return r.choice([0, 1, (1 << (8 * t[1])) - 1, r.getrandbits(8 * t[1])])
    if k == 'bool': return r.random() < 0.5
    if k == 'bitvec': return [r.random() < 0.5 for _ in range(t[1])]
    def ln(limit):
        return r.choice([0, 1, limit, limit // 2, max(0, limit - 1), r.randint(0, limit)])
    if k == 'bitlist': return [r.random() < 0.5 for _ in range(ln(t[1]))]
    if k == 'bytevec': return bytes(r.getrandbits(8) for _ in range(t[1]))
    if k == 'bytelist': return bytes(r.getrandbits(8) for _ in range(ln(t[1])))
    if k == 'vec': return [gen_val(r, t[1]) for _ in range(t[2])]
    if k == 'list': return [gen_val(r, t[1]) for _ in range(ln(t[2]))]
    if k == 'cont': return [gen_val(r, f) for f in t[1]]
    if k == 'union':
        n = len(t[2]) + (1 if t[1] else 0)
        sel = r.randrange(n)
        if t[1] and sel == 0: return (0, None)
        return (sel, gen_val(r, t[2][sel - (1 if t[1] else 0)]))
def build(t, v):
    k = t[0]; P = T(t)
    if is_basic(t): return P(v)
    if k in ('bitvec', 'bitlist'): return P(list(v))
    if k in ('bytevec', 'bytelist'): return P(v)
    if k in ('vec', 'list'): return P([build(t[1], e) for e in v])
    if k == 'cont': return P(**{f'f{i}': build(f, e) for i, (f, e) in enumerate(zip(t[1], v))})
    if k == 'union':
        sel, val = v
        if t[1] and sel == 0: return P(selector=0, value=None)
        return P(selector=sel, value=build(t[2][sel - (1 if t[1] else 0)], val))
def zero(t):
    k = t[0]
    if k == 'uint': return 0
    if k == 'bool': return False
    if k == 'bitvec': return [False] * t[1]
    if k == 'bitlist': return []
    if k == 'bytevec': return b'\x00' * t[1]
    if k == 'bytelist': return b''
    if k == 'vec': return [zero(t[1])] * t[2]
    if k == 'list': return []
    if k == 'cont': return [zero(f) for f in t[1]]
    if k == 'union':
        if t[1]: return (0, None)
        return (0, zero(t[2][0]))

fails = {}
def fail(tag, t, v, info):
    fails.setdefault(tag, [])
    if len(fails[tag]) < 3: fails[tag].append((t, v if len(repr(v)) < 200 else '...', info))
def main(seed, n):
    r = random.Random(seed)
    for it in range(n):
        t = gen_type(r, r.choice([0, 1, 1, 2, 2, 3]))
        try:
            P = T(t)
        except Exception as e:
            fail('type-build', t, None, repr(e)); continue
        v = gen_val(r, t)
        try:
            x = build(t, v)
        except Exception as e:
            fail('build', t, v, traceback.format_exc()[-300:]); continue
        es, er = ser(t, v), htr(t, v)
        try:
            if x.hash_tree_root() != er: fail('C01 htr', t, v, '')
            b = x.encode_bytes()
            if b != es: fail('C02 enc', t, v, (b.hex(), es.hex()))
            st = io.BytesIO(); n_ = x.serialize(st)
            if st.getvalue() != es or n_ != len(es): fail('C02 stream', t, v, (n_, len(es)))
            if bytes(x) != es: fail('C02 bytes()', t, v, '')
            if x.value_byte_length() != len(es): fail('C11 vbl', t, v, (x.value_byte_length(), len(es)))
            lo, hi = minmax(t)
            if (P.is_fixed_byte_length(), P.min_byte_length(), P.max_byte_length()) != (is_fixed(t), lo, hi):
                fail('C11 type', t, None, ((P.is_fixed_byte_length(), P.min_byte_length(), P.max_byte_length()), (is_fixed(t), lo, hi)))
            if is_fixed(t) and P.type_byte_length() != fsize(t): fail('C11 tbl', t, None, '')
            # decode
            y = P.decode_bytes(es)
            if y.hash_tree_root() != er or y.encode_bytes() != es or not (y == x): fail('C03 decode', t, v, '')
            pre, suf = b'\xaa' * r.randint(0, 5), b'\xbb' * r.randint(0, 5)
            st = io.BytesIO(pre + es + suf); st.seek(len(pre))
            y = P.deserialize(st, len(es))
            if y.hash_tree_root() != er or st.tell() != len(pre) + len(es): fail('C03 stream', t, v, (st.tell(), len(pre) + len(es)))
            # obj
            o = x.to_obj()
            y = P.from_obj(o)
            if y.hash_tree_root() != er: fail('C16 obj', t, v, '')
            y = P.from_obj(json.loads(json.dumps(o)))
            if y.hash_tree_root() != er: fail('C16 json', t, v, '')
            # default
            d = P() if not is_basic(t) else P.default(None)
            zv = zero(t)
            if d.hash_tree_root() != htr(t, zv) or d.encode_bytes() != ser(t, zv): fail('C12 default', t, None, '')
            if P.default_node().merkle_root() != htr(t, zv): fail('C12 default_node', t, None, '')
            if P.default(None).hash_tree_root() != htr(t, zv): fail('C12 default()', t, None, '')
            # copy
            c = x.copy()
            if c.hash_tree_root() != er: fail('copy', t, v, '')
        except Exception as e:
            fail('EXC', t, v, traceback.format_exc()[-400:])
    for k, v in fails.items():
        print('==', k, len(v))
        for f in v: print('   ', f)
    print('done', n)
if __name__ == '__main__': main(int(sys.argv[1]), int(sys.argv[2]))
