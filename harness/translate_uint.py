"""translate_uint.py — FAIL-CLOSED translator: remerkleable/basic.py `class uint` (constructor, coerce_view, every
arithmetic / bitwise operator method) -> Gallina definitions over Z.

The operand model is the one of coq/theories/ModelBasic.v: `self` is a value a of a uint class of byte length bl;
`other` is (k : okind, b : Z) — a uint of the same class, a uint of another width, or a plain int.  Python's int
methods reached through super() are the functions py_* of coq/trans/PyInt.v (hand-written, trusted).  Anything the
translator does not recognise raises Untranslatable: the generated file is then not produced and the check
reports that the tie is broken.  Output is Coq text; nothing is evaluated."""
import ast
import sys

ERR = {"ValueError": "EValue", "OperationNotSupported": "EOther", "Exception": "EOther", "TypeError": "EType"}
PYOPS = {"__add__": "py_add", "__sub__": "py_sub", "__mul__": "py_mul", "__mod__": "py_mod", "__floordiv__": "py_floordiv",
         "__pow__": "py_pow", "__rpow__": "py_rpow", "__lshift__": "py_lshift", "__rshift__": "py_rshift",
         "__and__": "py_and", "__xor__": "py_xor", "__or__": "py_or"}
BIN = {ast.BitAnd: "Z.land", ast.BitOr: "Z.lor", ast.BitXor: "Z.lxor", ast.Add: "Z.add", ast.Sub: "Z.sub", ast.Mult: "Z.mul",
       ast.LShift: "Z.shiftl", ast.RShift: "Z.shiftr"}
CMP = {ast.Lt: "%s <? %s", ast.Gt: "%s >? %s", ast.LtE: "%s <=? %s", ast.GtE: "%s >=? %s", ast.Eq: "%s =? %s",
       ast.NotEq: "negb (%s =? %s)"}


class Untranslatable(Exception):
    pass


def bad(node, why):
    raise Untranslatable("line %s: %s: %s" % (getattr(node, "lineno", "?"), why, ast.dump(node)[:200]))


class Method:
    """translation of one method.  env: python local name -> Coq name of a Z variable"""

    def __init__(self, fn, known):
        self.fn = fn
        self.known = known          # names of already translated methods
        args = [a.arg for a in fn.args.args]
        self.recv = args[0]         # self / cls
        self.params = args[1:]
        self.env = {}
        self.fresh = 0
        self.is_new = fn.name == "__new__"
        self.is_coerce = fn.name == "coerce_view"
        if self.is_new:
            if self.params != ["value"]:
                bad(fn, "unexpected constructor parameters")
            self.env["value"] = "value"
        elif self.is_coerce:
            if self.params != ["v"]:
                bad(fn, "unexpected coerce_view parameters")
            self.other = "v"
        else:
            self.other = self.params[0] if self.params else None
            for extra in self.params[1:]:
                # only `modulo=None` of __pow__/__rpow__ is accepted, and it must stay None
                d = fn.args.defaults
                if extra != "modulo" or not d or not (isinstance(d[-1], ast.Constant) and d[-1].value is None):
                    bad(fn, "unexpected parameter")

    def tmp(self):
        self.fresh += 1
        return "tmp%d" % self.fresh

    # ---- recognisers
    def is_recv_class(self, e):
        """self.__class__  /  cls"""
        if self.recv == "cls":
            return isinstance(e, ast.Name) and e.id == "cls"
        return isinstance(e, ast.Attribute) and e.attr == "__class__" and isinstance(e.value, ast.Name) and e.value.id == "self"

    def is_super(self, e):
        return isinstance(e, ast.Call) and isinstance(e.func, ast.Name) and e.func.id == "super" and not e.args

    def is_other(self, e):
        return isinstance(e, ast.Name) and self.other is not None and e.id == self.other

    def is_self(self, e):
        return isinstance(e, ast.Name) and e.id == "self" and self.recv == "self"

    # ---- pure integer expressions (cannot fail): returns a Coq term of type Z
    def pure(self, e):
        if isinstance(e, ast.Constant) and isinstance(e.value, int) and not isinstance(e.value, bool):
            return "%d" % e.value if e.value >= 0 else "(%d)" % e.value
        if isinstance(e, ast.Name):
            if e.id in self.env:
                return self.env[e.id]
            if self.is_self(e):
                return "a"
            if self.is_other(e):
                return "b"
            bad(e, "unknown name")
        if isinstance(e, ast.BinOp) and type(e.op) in BIN:
            return "(%s %s %s)" % (BIN[type(e.op)], self.pure(e.left), self.pure(e.right))
        if isinstance(e, ast.Call) and isinstance(e.func, ast.Attribute) and not e.args and not e.keywords:
            f = e.func
            if f.attr == "type_byte_length":
                if self.is_recv_class(f.value) or self.is_self(f.value):
                    return "bl"
                # v.__class__.type_byte_length() of the other operand (guarded by isinstance(v, uint) in the source)
                if isinstance(f.value, ast.Attribute) and f.value.attr == "__class__" and self.is_other(f.value.value):
                    return "(kbytes bl k)"
            if f.attr == "bit_length":
                return "(bit_length %s)" % self.pure(f.value)
        if isinstance(e, ast.Call) and isinstance(e.func, ast.Name) and e.func.id == "int" and len(e.args) == 1 and not e.keywords:
            return self.pure(e.args[0])            # int(x) of an int-like operand
        bad(e, "not a pure integer expression")

    # ---- conditions: Coq term of type bool
    def cond(self, e):
        if isinstance(e, ast.UnaryOp) and isinstance(e.op, ast.Not):
            return "(negb %s)" % self.cond(e.operand)
        if isinstance(e, ast.BoolOp):
            op = "&&" if isinstance(e.op, ast.And) else "||"
            return "(" + (" %s " % op).join(self.cond(x) for x in e.values) + ")"
        if isinstance(e, ast.Compare) and len(e.ops) == 1 and type(e.ops[0]) in CMP:
            return "(" + CMP[type(e.ops[0])] % (self.pure(e.left), self.pure(e.comparators[0])) + ")"
        if isinstance(e, ast.Call) and isinstance(e.func, ast.Name) and e.func.id == "isinstance" and len(e.args) == 2:
            x, c = e.args
            if self.is_other(x) and isinstance(c, ast.Name):
                if c.id == "uint":
                    return "(is_uint k)"
                if c.id == "int":
                    return "true"           # every operand of the model is an int
                if c.id == "bytes":
                    return "false"          # ... and none is a bytes object
        bad(e, "unknown condition")

    # ---- expressions that may raise: Coq term of type result Z
    def expr(self, e):
        if isinstance(e, ast.Call) and not e.keywords:
            f = e.func
            # self.__class__(E) / cls(E): the constructor
            if self.is_recv_class(f) and len(e.args) == 1:
                return self.bind(e.args[0], lambda x: "t___new__ bl %s" % x)
            if isinstance(f, ast.Attribute):
                # self.__class__.coerce_view(other)
                if f.attr == "coerce_view" and self.is_recv_class(f.value) and len(e.args) == 1 and self.is_other(e.args[0]):
                    return "t_coerce_view bl k b"
                # super().__op__(E [, modulo]): Python's int method on the value of self
                if self.is_super(f.value):
                    if f.attr == "__new__" and self.is_new and len(e.args) == 2 and \
                            isinstance(e.args[0], ast.Name) and e.args[0].id == "cls":
                        return "Ok %s" % self.pure(e.args[1])
                    if f.attr in PYOPS and 1 <= len(e.args) <= 2:
                        if len(e.args) == 2 and not (isinstance(e.args[1], ast.Name) and e.args[1].id == "modulo"):
                            bad(e, "unexpected second argument")
                        return self.bind(e.args[0], lambda y: "%s a %s" % (PYOPS[f.attr], y))
                if f.attr.startswith("__") and f.attr.endswith("__") and len(e.args) == 1:
                    name = "t_" + f.attr
                    if name not in self.known:
                        bad(e, "call of a method that is not translated (yet)")
                    arg = e.args[0]
                    # self.__op__(other) / self.__op__(<local int>)
                    if self.is_self(f.value):
                        if self.is_other(arg):
                            return "%s bl a k b" % name
                        return "%s bl a KInt %s" % (name, self.pure(arg))
                    # other.__op__(self): the other operand's own method (reached only when other is a uint)
                    if self.is_other(f.value) and self.is_self(arg):
                        return "%s (kbytes bl k) b (KOther (8 * bl)) a" % name
                    # <value of this class>.__op__(self): e.g. coerce_view(other).__sub__(self)
                    if self.is_self(arg) and self.yields_own_class(f.value):
                        return self.bind(f.value, lambda c: "%s bl %s KSame a" % (name, c))
        if isinstance(e, ast.BinOp) and type(e.op) in BIN:
            # an operator applied to (possibly failing) operands of plain-int type
            return self.bind(e.left, lambda x: self.bind(e.right, lambda y: "Ok (%s %s %s)" % (BIN[type(e.op)], x, y)))
        return "Ok %s" % self.pure(e)

    def yields_own_class(self, e):
        return isinstance(e, ast.Call) and (self.is_recv_class(e.func) or
                                            (isinstance(e.func, ast.Attribute) and e.func.attr == "coerce_view" and self.is_recv_class(e.func.value)))

    def bind(self, e, k):
        """evaluate e (may fail), continue with k(name of its value)"""
        try:
            return k(self.pure(e))
        except Untranslatable:
            pass
        x = self.tmp()
        return "(do %s <- %s; %s)" % (x, self.expr(e), k(x))

    # ---- statements
    def block(self, stmts):
        if not stmts:
            raise Untranslatable("method %s: control reaches the end without return / raise" % self.fn.name)
        s, rest = stmts[0], stmts[1:]
        if isinstance(s, ast.Expr) and isinstance(s.value, ast.Constant) and isinstance(s.value.value, str):
            return self.block(rest)                      # docstring
        if isinstance(s, ast.Return) and s.value is not None:
            return self.expr(s.value)
        if isinstance(s, ast.Raise) and s.exc is not None:
            exc = s.exc.func if isinstance(s.exc, ast.Call) else s.exc
            if isinstance(exc, ast.Name):
                return "Err %s" % ERR.get(exc.id, "EOther")
            bad(s, "unknown raise")
        if isinstance(s, ast.Assign) and len(s.targets) == 1 and isinstance(s.targets[0], ast.Name):
            name = s.targets[0].id
            val = self.pure(s.value)
            self.env[name] = name
            return "(let %s := %s in %s)" % (name, val, self.block(rest))
        if isinstance(s, ast.If) and not s.orelse:
            c = self.cond(s.test)
            if c == "false":
                return self.block(rest)                  # `if isinstance(v, bytes): ...` — dead for integer operands
            saved = dict(self.env)
            body = self.block(s.body)                    # must end in return / raise (fail-closed otherwise)
            self.env = saved
            return "(if %s then %s else %s)" % (c, body, self.block(rest))
        bad(s, "unsupported statement")

    def emit(self):
        body = self.block(self.fn.body)
        if self.is_new:
            return "Definition t___new__ (bl value : Z) : result Z :=\n  %s.\n" % body
        if self.is_coerce:
            return "Definition t_coerce_view (bl : Z) (k : okind) (b : Z) : result Z :=\n  %s.\n" % body
        if self.other is None:
            return "Definition t_%s (bl a : Z) : result Z :=\n  %s.\n" % (self.fn.name, body)
        return "Definition t_%s (bl a : Z) (k : okind) (b : Z) : result Z :=\n  %s.\n" % (self.fn.name, body)


WANTED = ["__new__", "coerce_view",
          "__add__", "__radd__", "__sub__", "__rsub__", "__mul__", "__rmul__", "__mod__", "__rmod__", "__floordiv__",
          "__rfloordiv__", "__truediv__", "__rtruediv__", "__pow__", "__rpow__", "__lshift__", "__rlshift__", "__rshift__",
          "__rrshift__", "__and__", "__rand__", "__xor__", "__rxor__", "__or__", "__ror__", "__neg__", "__invert__",
          "__pos__", "__abs__"]


def translate(path):
    tree = ast.parse(open(path).read())
    cls = [n for n in tree.body if isinstance(n, ast.ClassDef) and n.name == "uint"]
    if len(cls) != 1:
        raise Untranslatable("class uint not found exactly once")
    fns = {n.name: n for n in cls[0].body if isinstance(n, ast.FunctionDef)}
    missing = [w for w in WANTED if w not in fns]
    if missing:
        raise Untranslatable("methods missing from class uint: %s" % missing)
    # an operator method the translator does not know about would change behaviour unseen: refuse
    extra = [n for n in fns if n.startswith("__") and n.endswith("__") and n not in WANTED and
             n not in ("__slots__", "__index__", "__int__", "__hash__", "__repr__", "__str__")]
    if extra:
        raise Untranslatable("operator methods the translator does not know: %s" % extra)
    out = ["(* GENERATED from remerkleable/basic.py (class uint) by harness/translate_uint.py on every run — do not edit *)",
           "Require Import RM.Base RM.ModelBasic RMT.PyInt.", "Local Open Scope Z_scope.", ""]
    known = set()
    order = ["__new__", "coerce_view"] + [n for n in fns if n in WANTED and n not in ("__new__", "coerce_view")]
    for name in order:
        m = Method(fns[name], known)
        out.append("(* basic.py:%d %s *)" % (fns[name].lineno, name))
        out.append(m.emit())
        known.add("t_" + name)
    return "\n".join(out)


if __name__ == "__main__":
    try:
        sys.stdout.write(translate(sys.argv[1]))
    except Untranslatable as ex:
        sys.stderr.write("UNTRANSLATABLE: %s\n" % ex)
        sys.exit(2)
