"""translate_tree.py — FAIL-CLOSED translator: the generalized-index arithmetic of remerkleable/tree.py
(get_depth, to_gindex, get_anchor_gindex, concat_gindices) -> Gallina definitions over Z.

Python ints are Z; a function returns `result Z` (raise -> Err).  Shifts go through py_shl / py_shr of
coq/trans/PyInt.v (ValueError on a negative count); everything else is exact integer arithmetic.  A `for x in xs:`
loop over an iterable parameter whose body updates ONE variable defined before the loop becomes a fold_left over
`list Z` with a `result Z` accumulator.  Anything the translator does not recognise raises Untranslatable."""
import ast
import sys

BIN = {ast.BitAnd: "Z.land", ast.BitOr: "Z.lor", ast.BitXor: "Z.lxor", ast.Add: "Z.add", ast.Sub: "Z.sub", ast.Mult: "Z.mul"}
SHIFT = {ast.LShift: "py_shl", ast.RShift: "py_shr"}
CMP = {ast.Lt: "%s <? %s", ast.Gt: "%s >? %s", ast.LtE: "%s <=? %s", ast.GtE: "%s >=? %s", ast.Eq: "%s =? %s",
       ast.NotEq: "negb (%s =? %s)"}
WANTED = {"get_depth": ["elem_count"], "to_gindex": ["index", "depth"], "get_anchor_gindex": ["gindex"],
          "concat_gindices": ["steps"]}
LISTS = {"steps"}


class Untranslatable(Exception):
    pass


def bad(node, why):
    raise Untranslatable("line %s: %s: %s" % (getattr(node, "lineno", "?"), why, ast.dump(node)[:200]))


class Fn:
    def __init__(self, fn):
        self.fn = fn
        self.params = [a.arg for a in fn.args.args]
        if self.params != WANTED[fn.name] or fn.args.defaults or fn.args.kwonlyargs or fn.args.vararg or fn.args.kwarg:
            bad(fn, "unexpected parameters")
        self.env = set(p for p in self.params if p not in LISTS)
        self.fresh = 0

    def tmp(self):
        self.fresh += 1
        return "tmp%d" % self.fresh

    def pure(self, e):
        if isinstance(e, ast.Constant) and isinstance(e.value, int) and not isinstance(e.value, bool):
            return "%d" % e.value if e.value >= 0 else "(%d)" % e.value
        if isinstance(e, ast.Name) and e.id in self.env:
            return e.id
        if isinstance(e, ast.BinOp) and type(e.op) in BIN:
            return "(%s %s %s)" % (BIN[type(e.op)], self.pure(e.left), self.pure(e.right))
        if isinstance(e, ast.Call) and isinstance(e.func, ast.Attribute) and e.func.attr == "bit_length" and not e.args and not e.keywords:
            return "(bit_length %s)" % self.pure(e.func.value)
        if isinstance(e, ast.Call) and isinstance(e.func, ast.Name) and e.func.id == "Gindex" and len(e.args) == 1 and not e.keywords:
            return self.pure(e.args[0])          # Gindex = NewType("Gindex", int): the identity
        bad(e, "not a pure integer expression")

    def expr(self, e):
        """result Z"""
        if isinstance(e, ast.BinOp) and type(e.op) in SHIFT:
            return self.bind(e.left, lambda x: self.bind(e.right, lambda y: "%s %s %s" % (SHIFT[type(e.op)], x, y)))
        if isinstance(e, ast.BinOp) and type(e.op) in BIN:
            return self.bind(e.left, lambda x: self.bind(e.right, lambda y: "Ok (%s %s %s)" % (BIN[type(e.op)], x, y)))
        if isinstance(e, ast.Call) and isinstance(e.func, ast.Name) and e.func.id == "Gindex" and len(e.args) == 1 and not e.keywords:
            return self.expr(e.args[0])
        if isinstance(e, ast.Call) and isinstance(e.func, ast.Attribute) and e.func.attr == "bit_length" and not e.args and not e.keywords:
            return self.bind(e.func.value, lambda x: "Ok (bit_length %s)" % x)
        return "Ok %s" % self.pure(e)

    def bind(self, e, k):
        try:
            return k(self.pure(e))
        except Untranslatable:
            pass
        x = self.tmp()
        return "(do %s <- %s; %s)" % (x, self.expr(e), k(x))

    def cond(self, e):
        if isinstance(e, ast.Compare) and len(e.ops) == 1 and type(e.ops[0]) in CMP:
            return "(" + CMP[type(e.ops[0])] % (self.pure(e.left), self.pure(e.comparators[0])) + ")"
        bad(e, "unknown condition")

    def assign(self, name, e, rest_k):
        """name := e (may fail), then rest"""
        self_env_before = set(self.env)
        t = self.expr(e)
        self.env = self_env_before | {name}
        if t.startswith("Ok "):
            return "(let %s := %s in %s)" % (name, t[3:], rest_k())
        return "(do %s <- %s; %s)" % (name, t, rest_k())

    def block(self, stmts, end):
        """end: term for falling off the end of the block (None = not allowed)"""
        if not stmts:
            if end is None:
                raise Untranslatable("function %s: control reaches the end without return / raise" % self.fn.name)
            return end()
        s, rest = stmts[0], stmts[1:]
        if isinstance(s, ast.Expr) and isinstance(s.value, ast.Constant) and isinstance(s.value.value, str):
            return self.block(rest, end)
        if isinstance(s, ast.Return) and s.value is not None and end is None:
            return self.expr(s.value)
        if isinstance(s, ast.Raise) and s.exc is not None and end is None:
            return "Err EOther"
        if isinstance(s, ast.Assign) and len(s.targets) == 1 and isinstance(s.targets[0], ast.Name):
            return self.assign(s.targets[0].id, s.value, lambda: self.block(rest, end))
        if isinstance(s, ast.AugAssign) and isinstance(s.target, ast.Name) and s.target.id in self.env:
            e = ast.BinOp(left=ast.Name(id=s.target.id, ctx=ast.Load()), op=s.op, right=s.value)
            return self.assign(s.target.id, e, lambda: self.block(rest, end))
        if isinstance(s, ast.If) and not s.orelse and end is None:
            c = self.cond(s.test)
            saved = set(self.env)
            body = self.block(s.body, None)
            self.env = saved
            return "(if %s then %s else %s)" % (c, body, self.block(rest, end))
        if isinstance(s, ast.For) and not s.orelse and isinstance(s.target, ast.Name) and isinstance(s.iter, ast.Name) \
                and s.iter.id in LISTS and s.iter.id in self.params and end is None:
            # the one variable the body updates that exists before the loop is the accumulator
            assigned = [n.target.id if isinstance(n, ast.AugAssign) else n.targets[0].id for n in s.body
                        if isinstance(n, (ast.Assign, ast.AugAssign))]
            accs = sorted(set(a for a in assigned if a in self.env))
            if len(accs) != 1:
                bad(s, "loop must update exactly one outer variable")
            acc = accs[0]
            saved = set(self.env)
            self.env = saved | {s.target.id}
            body = self.block(s.body, lambda: "Ok %s" % acc)
            self.env = saved
            loop = "(fold_left (fun r %s => do %s <- r; %s) %s (Ok %s))" % (s.target.id, acc, body, s.iter.id, acc)
            return "(do %s <- %s; %s)" % (acc, loop, self.block(rest, end))
        bad(s, "unsupported statement")

    def emit(self):
        body = self.block(self.fn.body, None)
        ps = " ".join("(%s : %s)" % (p, "list Z" if p in LISTS else "Z") for p in self.params)
        return "Definition t_%s %s : result Z :=\n  %s.\n" % (self.fn.name, ps, body)


def translate(path):
    tree = ast.parse(open(path).read())
    fns = {n.name: n for n in tree.body if isinstance(n, ast.FunctionDef)}
    missing = [w for w in WANTED if w not in fns]
    if missing:
        raise Untranslatable("functions missing from tree.py: %s" % missing)
    out = ["(* GENERATED from remerkleable/tree.py by harness/translate_tree.py on every run — do not edit *)",
           "Require Import RM.Base RMT.PyInt.", "From Coq Require Import List.", "Local Open Scope Z_scope.", ""]
    for name in WANTED:
        out.append("(* tree.py:%d %s *)" % (fns[name].lineno, name))
        out.append(Fn(fns[name]).emit())
    return "\n".join(out)


if __name__ == "__main__":
    try:
        sys.stdout.write(translate(sys.argv[1]))
    except Untranslatable as ex:
        sys.stderr.write("UNTRANSLATABLE: %s\n" % ex)
        sys.exit(2)
