"""Operation histories on views: generator (shadow-executed on the library to stay mostly valid),
executor, Coq emission.  Used by C04, C05, C06, C14 (and C17/C19/C20 variants)."""
from ssz import *  # noqa
from remerkleable.core import View

MUTABLE_TOP = [
    ["list", ["uint", 8], 1024], ["list", ["uint", 1], 70], ["list", ["uint", 2], 17], ["list", ["bool"], 40],
    ["list", ["uint", 32], 5], ["list", ["uint", 16], 4],
    ["list", ["cont", [["uint", 1], ["uint", 2]]], 8], ["list", ["bytevec", 4], 5], ["list", ["list", ["uint", 1], 3], 4],
    ["vec", ["uint", 2], 17], ["vec", ["cont", [["uint", 8], ["list", ["uint", 1], 4]]], 3], ["vec", ["bool"], 33],
    ["bitlist", 16], ["bitlist", 512], ["bitlist", 600], ["bitlist", 256], ["bitvec", 9], ["bitvec", 257],
    ["cont", [["uint", 2], ["list", ["uint", 2], 8], ["vec", ["uint", 1], 3], ["bitlist", 12]]],
    ["cont", [["cont", [["vec", ["cont", [["uint", 1], ["list", ["uint", 8], 5]]], 2], ["uint", 4]]], ["bool"]]],
    ["union", True, [["uint", 1], ["list", ["uint", 4], 7]]],
    ["union", False, [["uint", 1], ["cont", [["uint", 1], ["bitlist", 9]]]]],
    ["union", True, [["uint", 2], ["uint", 2], ["list", ["uint", 1], 3], ["uint", 2]]],      # one type at several selectors
    ["cont", [["union", False, [["list", ["uint", 1], 3], ["list", ["uint", 1], 3]]], ["uint", 1]]],
    ["list", ["union", True, [["uint", 2], ["bitvec", 9]]], 6],
    ["cont", [["union", False, [["cont", [["uint", 1]]], ["uint", 8]]], ["list", ["bitlist", 300], 4]]],
    ["list", ["list", ["cont", [["uint", 1]]], 3], 3],
    ["vec", ["uint", 8], 9],          # 2^k + 1 chunks, the last one partly used
]
COMPOSITE = ("vec", "list", "cont", "union", "bitvec", "bitlist")


def arg_py(e, a):
    if a[0] == "none":
        return None
    if a[0] == "other":
        return UINTS[a[1]](a[2])
    v = a[1]
    if a[0] == "viewalt" and e is not None:
        return to_py_alt(e, v)
    if e is None:
        return v
    if a[0] == "view" or e[0] in ("cont", "union"):
        return to_py(e, v)
    if e[0] in ("vec", "list", "bitvec", "bitlist", "bytevec", "bytelist"):
        return to_plain(e, v) if _plain_ok(e) else to_py(e, v)
    return v


def _plain_ok(e):
    k = e[0]
    if k in ("bitvec", "bitlist", "bytevec", "bytelist"):
        return True
    if k in ("vec", "list"):
        # cls(*v) with a single element that is itself a list is read as "the list of elements":
        # nested plain lists are ambiguous in the library's constructor API, so pass views instead
        return is_basic(e[1])
    return False


def arg_coq(e, a):
    if a[0] == "none":
        return "ANone"
    if a[0] == "other":
        return "(AUintOther %d %d)" % (a[1], a[2])
    if e is None:
        return "(AVal (VUint 0))"      # a non-None value where no value is expected
    try:
        return "(AVal %s)" % val_coq(e, a[1])
    except Exception:
        return "ANone"


class Shadow:
    """the implementation under test, driven command by command"""

    def __init__(self, t, v):
        # the all-default content starts from the DEFAULT-CONSTRUCTED value (cls(): default_node / zero subtrees),
        # every other content from the constructor given the elements
        self.views = [T(t)() if v == zero_value(t) else to_py(t, v)]
        self.types = [t]
        self.parent = [None]

    def elem_type(self, vi, i):
        t = self.types[vi]
        if t[0] in ("vec", "list"):
            return t[1]
        if t[0] == "cont":
            return t[1][i] if 0 <= i < len(t[1]) else None
        if t[0] in ("bitvec", "bitlist"):
            return ["bool"]
        return None

    def run(self, c):
        op, vi = c[0], c[1]
        x, t = self.views[vi], self.types[vi]
        if op == "get":
            i = c[2]
            if t[0] == "cont":
                r = getattr(x, "f%d" % i) if i >= 0 else getattr(x, "fminus")
            else:
                r = x[i]
            if t[0] not in ("bitvec", "bitlist"):
                self.views.append(r)
                self.types.append(self.elem_type(vi, i))
                self.parent.append((vi, i))
        elif op == "value":
            r = x.value()
            if r is not None:
                self.views.append(r)
                self.types.append(union_opt(t, x.selector()))
                self.parent.append((vi, ("sel", x.selector())))
        elif op == "set":
            i, a = c[2], c[3]
            pv = arg_py(self.elem_type(vi, i), a)
            if t[0] == "cont":
                if i < 0:
                    setattr(x, "fminus", pv)
                else:
                    setattr(x, "f%d" % i, pv)
            else:
                x[i] = pv
        elif op == "bitset":
            x[c[2]] = arg_py(["bool"], c[3])
        elif op == "append":
            x.append(arg_py(self.elem_type(vi, 0), c[2]))
        elif op == "pop":
            x.pop()
        elif op == "change":
            sel, a = c[2], c[3]
            o = union_opt(t, sel) if t[0] == "union" and 0 <= sel < union_count(t) else None
            x.change(selector=sel, value=arg_py(o, a))
        elif op == "copy":
            self.views.append(x.copy())
            self.types.append(t)
            self.parent.append(None)
        elif op in ("iter", "slice"):
            for _, th in expand(self, c):
                th()
        else:
            raise ValueError(op)

    def register(self, vi, i, r):
        self.views.append(r)
        self.types.append(self.elem_type(vi, i))
        self.parent.append((vi, i))

    def stale(self, vi):
        """is some link of the hook chain of view vi no longer valid in its parent (slot popped away,
        union switched to another option)?  Mutating through such a view is outside C05/C14's premise."""
        while self.parent[vi] is not None:
            p, i = self.parent[vi]
            px, pt = self.views[p], self.types[p]
            try:
                if isinstance(i, tuple):
                    if px.selector() != i[1]:
                        return True
                elif pt[0] == "list" and i >= len(px):
                    return True
            except Exception:
                return True
            vi = p
        return False

    def observe(self):
        out = []
        for x in self.views:
            out.append([attempt(lambda: x.hash_tree_root(), anyerr=True),
                        attempt(lambda: bytes(x.encode_bytes()), anyerr=True)])
        return out


def expand(sh, c):
    """the sub-steps (model-level command, thunk on the implementation) of history command c.  Element views of a
    vector / list are obtained by indexing ("get"), by ITERATING the parent ("iter": one next() per sub-step, the
    iterator stays alive) or by SLICING it ("slice": the slice is taken at the first sub-step); for the model all
    three are a sequence of element reads."""
    op, vi = c[0], c[1]
    if op == "iter":
        box = {}

        def step(i):
            if "it" not in box:
                box["it"] = iter(sh.views[vi])
                sh.iters = getattr(sh, "iters", []) + [box["it"]]
            sh.register(vi, i, next(box["it"]))
        return [(["get", vi, i], (lambda i=i: step(i))) for i in range(c[2])]
    if op == "slice":
        box = {}

        def step(i):
            if "rs" not in box:
                x = sh.views[vi]
                box["rs"] = x[c[2]:min(c[3], len(x))]
            if i - c[2] >= len(box["rs"]):
                raise IndexError(i)
            sh.register(vi, i, box["rs"][i - c[2]])
        return [(["get", vi, i], (lambda i=i: step(i))) for i in range(c[2], c[3])]
    return [(c, lambda: sh.run(c))]


def cmd_coq(sh_types, c, elem_t):
    op, vi = c[0], c[1]
    if op == "get":
        return "(CGet %s %s)" % (cnat(vi), cZ(c[2]))
    if op == "value":
        return "(CValue %s)" % cnat(vi)
    if op == "set":
        return "(CSet %s %s %s)" % (cnat(vi), cZ(c[2]), arg_coq(elem_t, c[3]))
    if op == "bitset":
        return "(CBitSet %s %s %s)" % (cnat(vi), cZ(c[2]), arg_coq(["bool"], c[3]))
    if op == "append":
        return "(CAppend %s %s)" % (cnat(vi), arg_coq(elem_t, c[2]))
    if op == "pop":
        return "(CPop %s)" % cnat(vi)
    if op == "change":
        return "(CChange %s %s %s)" % (cnat(vi), cZ(c[2]), arg_coq(elem_t, c[3]))
    if op == "copy":
        return "(CCopy %s)" % cnat(vi)
    raise ValueError(op)


def elem_for(sh, c):
    """abstract type the argument of command c is coerced to (None if there is none)"""
    op, vi = c[0], c[1]
    t = sh.types[vi]
    if op == "set":
        return sh.elem_type(vi, c[2])
    if op == "append":
        return t[1] if t[0] == "list" else (["bool"] if t[0] == "bitlist" else None)
    if op == "change":
        return union_opt(t, c[2]) if t[0] == "union" and 0 <= c[2] < union_count(t) else None
    return None


def execute(inp):
    """run the history on the implementation; returns (coq term, observations, stats)"""
    t, v, cmds = inp["t"], inp["v"], inp["cmds"]
    sh = Shadow(t, v)
    obs = [sh.observe()]
    coq_cmds = []
    nfail = 0
    for c0 in cmds:
        for c, th in expand(sh, c0):
            et = elem_for(sh, c)
            coq_cmds.append(cmd_coq(sh.types, c, et))
            r = attempt(th, anyerr=True)
            ok = not isinstance(r, E)
            nfail += 0 if ok else 1
            obs.append([ok, sh.observe()])
    coq = "(%s, %s, %s)" % (ty_coq(t), val_coq(t, v), clist(coq_cmds))
    return coq, obs, {"failed": nfail, "views": len(sh.views)}


def lazy_disagreement(inp, eager_obs):
    """model-free: the same history run with NOTHING observed (no root, no encoding asked) until the end must leave every
    held view with the root and encoding the step-by-step run ended with — shortcuts that depend on whether a node has
    been hashed yet only show this way.  eager_obs = the observation list of execute(inp)."""
    try:
        sh = Shadow(inp["t"], inp["v"])
        for c0 in inp["cmds"]:
            for c, th in expand(sh, c0):
                attempt(th, anyerr=True)
        final = ob_norm(sh.observe())
        want = ob_norm(eager_obs[-1][1] if len(eager_obs) > 1 else eager_obs[0])
        if final != want:
            return "the history run without any observation in between ends with other roots / encodings than the step-by-step run"
    except Exception as e:  # noqa
        return "the history could not be replayed without observations: %r" % (e,)
    return None


# ----------------------------------------------------------------------------- generation
def gen_arg(rng, e, valid=True):
    if e is None:
        return ["none"]
    if valid:
        if e[0] in ("list", "vec", "bitlist", "bytelist", "cont") and rng.random() < 0.2:
            # a view of ANOTHER class that the library coerces into the element type (same content)
            return ["viewalt", gen_value(rng, e, cap=5)]
        return ["val", gen_value(rng, e, cap=5)]
    k = e[0]
    r = rng.random()
    if k == "uint":
        if r < 0.4:
            return ["val", (1 << (8 * e[1])) + rng.randrange(0, 3)]
        w = rng.choice([x for x in UINTS if x != e[1]])
        return ["other", w, rng.randrange(0, 200)]
    if k == "bool":
        return ["val", 2]
    if k in ("bitvec", "bytevec"):
        n = e[1] + rng.choice([-1, 1])
        return ["val", "0" * n if k == "bitvec" else "00" * n]
    if k in ("bitlist", "bytelist"):
        n = e[1] + 1
        return ["val", "1" * n if k == "bitlist" else "ab" * n] if n < 2000 else ["none"]
    # wrong-length / over-limit sequences: as plain data, or as a VIEW of another sequence type (larger limit, list for
    # vector) that holds them legitimately — coercion must still check the target's length / limit
    how = "viewalt" if rng.random() < 0.5 else "val"
    if k == "vec":
        return [how, [gen_value(rng, e[1], cap=3) for _ in range(e[2] + rng.choice([-1, 1]))]] if e[2] < 40 else ["none"]
    if k == "list":
        return [how, [gen_value(rng, e[1], cap=3) for _ in range(e[2] + 1)]] if e[2] < 40 else ["none"]
    if k == "union":
        return ["val", [union_count(e) + rng.randrange(0, 2), None]]
    return ["none"]


def gen_history(rng, t, n_cmds, p_invalid=0.0, p_child=0.0, p_copy=0.0, top_only=False, p_iter=0.0):
    """returns input dict; commands are chosen by looking at the live implementation objects"""
    v = gen_value(rng, t, cap=6) if rng.random() < 0.88 else zero_value(t)
    if t[0] in ("list", "bitlist") and rng.random() < 0.5:
        # start near a chunk / subtree boundary
        per = 256 if t[0] == "bitlist" else (32 // bsize(t[1]) if is_basic(t[1]) else 1)
        tgt = rng.choice([per, 2 * per, per - 1, per + 1, 4 * per, 3 * per])
        tgt = min(tgt, t[1] if t[0] == "bitlist" else t[2], 600)
        v = gen_bits(rng, tgt) if t[0] == "bitlist" else [gen_value(rng, t[1], cap=3) for _ in range(tgt)]
    sh = Shadow(t, v)
    cmds = []
    run_mode, run_left = None, 0
    for _ in range(n_cmds):
        cands = [i for i, ty in enumerate(sh.types) if ty is not None and ty[0] in COMPOSITE]
        if top_only:
            cands = [0]
        if not cands:
            break
        vi = rng.choice(cands) if rng.random() < 0.7 else cands[-1]
        ty, x = sh.types[vi], sh.views[vi]
        k = ty[0]
        invalid = rng.random() < p_invalid
        try:
            ln = len(x) if k in ("vec", "list", "bitvec", "bitlist") else (len(ty[1]) if k == "cont" else 0)
        except Exception:
            ln = 0
        r = rng.random()
        c = None
        if r < p_copy:
            c = ["copy", vi]
        elif r < p_copy + p_child and k in ("vec", "list", "cont", "union") and len(sh.views) < 9:
            if k == "union":
                c = ["value", vi]
            elif ln > 0 and k in ("vec", "list") and ln <= 6 and len(sh.views) + ln < 14 and rng.random() < p_iter:
                a = rng.randrange(0, ln)
                c = ["iter", vi, ln] if rng.random() < 0.6 else ["slice", vi, a, rng.randrange(a + 1, ln + 1)]
            elif ln > 0:
                i = rng.randrange(0, ln) if not invalid else rng.choice([ln, -1, ln + 3])
                c = ["get", vi, i]
        if c is None:
            if k in ("list", "bitlist"):
                limit = ty[2] if k == "list" else ty[1]
                if run_left > 0 and top_only:
                    mode = run_mode
                    run_left -= 1
                else:
                    mode = rng.choice(["append", "pop", "set", "append", "pop"])
                    if top_only and rng.random() < 0.3:
                        run_mode, run_left = mode, rng.randrange(2, 7)
                if invalid:
                    mode = rng.choice(["append_full", "pop_empty", "set_oob", "set_bad", "append_bad"])
                et = ty[1] if k == "list" else ["bool"]
                if mode == "append" and ln < limit:
                    c = ["append", vi, gen_arg(rng, et)]
                elif mode == "pop" and ln > 0:
                    c = ["pop", vi]
                elif mode == "set" and ln > 0:
                    i = rng.choice([0, ln - 1, rng.randrange(0, ln)])
                    c = ["set" if k == "list" else "bitset", vi, i, gen_arg(rng, et)]
                elif mode == "append_full":
                    c = ["append", vi, gen_arg(rng, et)]           # only fails when full
                elif mode == "pop_empty":
                    c = ["pop", vi]
                elif mode == "set_oob":
                    c = ["set" if k == "list" else "bitset", vi, rng.choice([ln, ln + 1, -1, -ln - 1]), gen_arg(rng, et)]
                elif mode in ("set_bad", "append_bad") and k == "bitlist":
                    c = ["pop", vi]
                elif mode == "set_bad" and ln > 0 and k == "list":
                    c = ["set", vi, rng.randrange(0, ln), gen_arg(rng, et, valid=False)]
                elif mode == "append_bad" and k == "list":
                    c = ["append", vi, gen_arg(rng, et, valid=False)]
            elif k in ("vec", "bitvec"):
                et = ty[1] if k == "vec" else ["bool"]
                i = rng.randrange(0, ln) if not invalid or rng.random() < 0.4 else rng.choice([ln, -1, ln + 7])
                a = gen_arg(rng, et, valid=(k == "bitvec") or not (invalid and 0 <= i < ln))
                c = ["set" if k == "vec" else "bitset", vi, i, a]
                if invalid and rng.random() < 0.15:
                    c = rng.choice([["pop", vi], ["append", vi, gen_arg(rng, et)]])
            elif k == "cont":
                i = rng.randrange(0, ln) if not invalid or rng.random() < 0.5 else rng.choice([ln, ln + 2])
                et = ty[1][i] if 0 <= i < ln else None
                a = gen_arg(rng, et, valid=not (invalid and 0 <= i < ln)) if et is not None else ["val", 1]
                c = ["set", vi, i, a]
            elif k == "union":
                n = union_count(ty)
                sel = rng.randrange(0, n) if not invalid or rng.random() < 0.4 else rng.choice([n, n + 1, -1])
                o = union_opt(ty, sel) if 0 <= sel < n else None
                if o is None:
                    # a value for the None option: any non-None value is invalid, also the falsy ones
                    a = ["none"] if not invalid or not (0 <= sel < n) else ["val", rng.choice([1, 0, 0, False, [], ""])]
                else:
                    a = gen_arg(rng, o, valid=not invalid) if not (invalid and rng.random() < 0.3) else ["none"]
                c = ["change", vi, sel, a]
        if c is not None and c[0] == "set" and isinstance(c[3], list) and c[3][0] == "other" and rng.random() < 0.5:
            # a wrong-width integer that is numerically EQUAL to what the slot holds already (still to be refused)
            try:
                cur = int(x[c[2]]) if k != "cont" else int(getattr(x, "f%d" % c[2]))
                if cur < (1 << (8 * c[3][1])):
                    c[3][2] = cur
            except Exception:
                pass
        elif c is not None and c[0] == "set" and k in ("vec", "list") and isinstance(c[3], list) and c[3][0] == "val" \
                and ty[1][0] == "uint" and 0 <= c[2] < ln and rng.random() < 0.2:
            # re-assign what the slot holds already (through a child view older than its parent's slot this still
            # writes the child's whole content back)
            try:
                c[3][1] = int(x[c[2]])
            except Exception:
                pass
        if c is None:
            continue
        cmds.append(c)
        try:
            sh.run(c)
        except Exception:
            pass
    return {"t": t, "v": v, "cmds": cmds}


def simple_mutation(rng, vi, ty, x):
    """a valid mutating command through view vi of type ty"""
    k = ty[0]
    try:
        ln = len(x) if k in ("vec", "list", "bitvec", "bitlist") else 0
    except Exception:
        ln = 0
    if k == "cont":
        i = rng.randrange(0, len(ty[1]))
        return ["set", vi, i, gen_arg(rng, ty[1][i])]
    if k == "list":
        return ["append", vi, gen_arg(rng, ty[1])] if ln < ty[2] else ["set", vi, 0, gen_arg(rng, ty[1])]
    if k == "vec":
        return ["set", vi, rng.randrange(0, max(ln, 1)), gen_arg(rng, ty[1])]
    if k == "bitlist":
        return ["append", vi, ["val", True]] if ln < ty[1] else ["bitset", vi, 0, ["val", True]]
    if k == "bitvec":
        return ["bitset", vi, rng.randrange(0, max(ln, 1)), ["val", True]]
    if k == "union":
        o = union_opt(ty, 0)
        return ["change", vi, 0, ["none"] if o is None else gen_arg(rng, o)]
    return None


def add_stale_tail(rng, inp):
    """extend a history by: take the child view of the LAST element of a held list of composite elements, pop the list,
    then mutate through the (now stale) child view, then append to the list again.  The write through the stale view
    must not reach the list (the implementation raises; the model says the same) and every enclosing view must stay
    what it was."""
    sh = Shadow(inp["t"], inp["v"])
    for c in inp["cmds"]:
        try:
            sh.run(c)
        except Exception:
            pass
    cands = []
    for vi, (ty, x) in enumerate(zip(sh.types, sh.views)):
        if ty is not None and ty[0] == "list" and ty[1][0] in ("cont", "list", "vec", "bitlist", "bitvec", "union"):
            try:
                if len(x) >= 1 and not sh.stale(vi):
                    cands.append(vi)
            except Exception:
                pass
    if not cands or len(sh.views) > 11:
        return None
    vi = rng.choice(cands)
    ln = len(sh.views[vi])
    tail = [["get", vi, ln - 1]]
    sh.run(tail[0])
    nv = len(sh.views) - 1
    tail.append(["pop", vi])
    try:
        sh.run(tail[1])
    except Exception:
        return None
    for _ in range(rng.randrange(1, 3)):
        m = simple_mutation(rng, nv, sh.types[nv], sh.views[nv])
        if m is None:
            return None
        tail.append(m)
        try:
            sh.run(m)
        except Exception:
            pass
    if rng.random() < 0.5:
        tail.append(["append", vi, gen_arg(rng, sh.types[vi][1])])
    return dict(inp, cmds=inp["cmds"] + tail)


def shrink_history(inp):
    cmds = inp["cmds"]
    n = len(cmds)
    if n > 1:
        yield dict(inp, cmds=cmds[:n // 2])
        yield dict(inp, cmds=cmds[:n - 1])
    for i in range(n - 1):
        c2 = cmds[:i] + cmds[i + 1:]
        # dropping a get/value/copy shifts later view ids: only drop commands that create no view
        if cmds[i][0] not in ("get", "value", "copy", "iter", "slice"):
            yield dict(inp, cmds=c2)
