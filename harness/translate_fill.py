"""translate_fill.py — FAIL-CLOSED translator: the tree builders of remerkleable/tree.py
(subtree_fill_to_depth, subtree_fill_to_length, subtree_fill_to_contents) -> Gallina.

Typed little language: int variables are Z, `bottom` and indexed list elements are `node`, `nodes` is `list node`.
A function returns `result node`.  Recursive functions get a fuel argument (structural recursion on fuel; running out
of fuel is an error value, excluded by the equivalence theorems); the public wrapper supplies S (Z.to_nat depth).
The counting `while d > 0: ...; d -= 1` loop becomes Nat.iter.  Python list indexing is py_nth (IndexError when out of
range), slices nodes[:k] / nodes[k:] are firstn / skipn, len() is the length, shifts go through py_shl / py_shr.
Anything else raises Untranslatable."""
import ast
import sys

BIN = {ast.BitAnd: "Z.land", ast.BitOr: "Z.lor", ast.BitXor: "Z.lxor", ast.Add: "Z.add", ast.Sub: "Z.sub", ast.Mult: "Z.mul"}
SHIFT = {ast.LShift: "py_shl", ast.RShift: "py_shr"}
CMP = {ast.Lt: "%s <? %s", ast.Gt: "%s >? %s", ast.LtE: "%s <=? %s", ast.GtE: "%s >=? %s", ast.Eq: "%s =? %s",
       ast.NotEq: "negb (%s =? %s)"}
SIG = {"subtree_fill_to_depth": [("bottom", "node"), ("depth", "Z")],
       "subtree_fill_to_length": [("bottom", "node"), ("depth", "Z"), ("length", "Z")],
       "subtree_fill_to_contents": [("nodes", "list node"), ("depth", "Z")]}
ERR = {"NavigationError": "ENav", "Exception": "EOther"}
RENAME = {"node": "node_", "length": "length_"}      # Python identifiers that would shadow Coq names used by the output


def rn(x):
    return RENAME.get(x, x)


class Untranslatable(Exception):
    pass


def bad(node, why):
    raise Untranslatable("line %s: %s: %s" % (getattr(node, "lineno", "?"), why, ast.dump(node)[:200]))


class Fn:
    def __init__(self, fn, done):
        self.fn = fn
        self.done = done                 # already translated total functions (name -> True)
        ps = [a.arg for a in fn.args.args]
        for n in ast.walk(fn):
            if isinstance(n, ast.Name):
                n.id = rn(n.id)
        if ps != [p for p, _ in SIG[fn.name]] or fn.args.defaults or fn.args.vararg or fn.args.kwarg or fn.args.kwonlyargs:
            bad(fn, "unexpected parameters")
        self.ty = {rn(p): t for p, t in SIG[fn.name]}
        self.fresh = 0
        self.recursive = any(isinstance(n, ast.Call) and isinstance(n.func, ast.Name) and n.func.id == fn.name
                             for n in ast.walk(fn))

    def tmp(self):
        self.fresh += 1
        return "tmp%d" % self.fresh

    # ---- integers
    def pint(self, e):
        """pure Z term"""
        if isinstance(e, ast.Constant) and isinstance(e.value, int) and not isinstance(e.value, bool):
            return "%d" % e.value if e.value >= 0 else "(%d)" % e.value
        if isinstance(e, ast.Name) and self.ty.get(e.id) == "Z":
            return e.id
        if isinstance(e, ast.BinOp) and type(e.op) in BIN:
            return "(%s %s %s)" % (BIN[type(e.op)], self.pint(e.left), self.pint(e.right))
        if isinstance(e, ast.Call) and isinstance(e.func, ast.Name) and e.func.id == "len" and len(e.args) == 1 \
                and isinstance(e.args[0], ast.Name) and self.ty.get(e.args[0].id) == "list node":
            return "(Z.of_nat (length %s))" % e.args[0].id
        bad(e, "not a pure integer expression")

    def eint(self, e):
        """result Z"""
        if isinstance(e, ast.BinOp) and type(e.op) in SHIFT:
            return self.bindi(e.left, lambda x: self.bindi(e.right, lambda y: "%s %s %s" % (SHIFT[type(e.op)], x, y)))
        if isinstance(e, ast.BinOp) and type(e.op) in BIN:
            return self.bindi(e.left, lambda x: self.bindi(e.right, lambda y: "Ok (%s %s %s)" % (BIN[type(e.op)], x, y)))
        return "Ok %s" % self.pint(e)

    def bindi(self, e, k):
        try:
            return k(self.pint(e))
        except Untranslatable:
            pass
        x = self.tmp()
        return "(do %s <- %s; %s)" % (x, self.eint(e), k(x))

    def cond(self, e, k):
        """evaluate a comparison (operands may shift), continue with k(bool term) : result _"""
        if isinstance(e, ast.Compare) and len(e.ops) == 1 and type(e.ops[0]) in CMP:
            return self.bindi(e.left, lambda x: self.bindi(e.comparators[0], lambda y: k("(" + CMP[type(e.ops[0])] % (x, y) + ")")))
        bad(e, "unknown condition")

    # ---- lists
    def plist(self, e):
        if isinstance(e, ast.Name) and self.ty.get(e.id) == "list node":
            return e.id
        if isinstance(e, ast.Subscript) and isinstance(e.slice, ast.Slice) and e.slice.step is None:
            base = self.plist(e.value)
            lo, hi = e.slice.lower, e.slice.upper
            if lo is None and hi is not None:
                return "(firstn (Z.to_nat %s) %s)" % (self.pint(hi), base)
            if hi is None and lo is not None:
                return "(skipn (Z.to_nat %s) %s)" % (self.pint(lo), base)
        bad(e, "not a list expression")

    # ---- nodes: result node
    def enode(self, e):
        if isinstance(e, ast.Name) and self.ty.get(e.id) == "node":
            return "Ok %s" % e.id
        if isinstance(e, ast.Subscript) and not isinstance(e.slice, ast.Slice):
            return "py_nth %s %s" % (self.plist(e.value), self.pint(e.slice))
        if isinstance(e, ast.IfExp):
            return self.cond(e.test, lambda c: "(if %s then %s else %s)" % (c, self.enode(e.body), self.enode(e.orelse)))
        if isinstance(e, ast.Call) and isinstance(e.func, ast.Name) and not e.keywords:
            f, args = e.func.id, e.args
            if f == "PairNode" and len(args) == 2:
                a, b = self.tmp(), self.tmp()
                return "(do %s <- %s; do %s <- %s; Ok (PairN %s %s))" % (a, self.enode(args[0]), b, self.enode(args[1]), a, b)
            if f == "zero_node" and len(args) == 1:
                return self.bindi(args[0], lambda d: "Ok (zero_node H (Z.to_nat %s))" % d)
            if f in SIG and (f == self.fn.name or f in self.done) and len(args) == len(SIG[f]):
                name = ("t_%s_fuel fuel'" % f) if f == self.fn.name else ("t_%s" % f)
                return self.call(name, list(zip(args, [t for _, t in SIG[f]])), [])
        bad(e, "not a node expression")

    def call(self, name, todo, acc):
        if not todo:
            return "%s %s" % (name, " ".join(acc))
        (a, t), rest = todo[0], todo[1:]
        if t == "Z":
            return self.bindi(a, lambda x: self.call(name, rest, acc + [x]))
        if t == "list node":
            return self.call(name, rest, acc + [self.plist(a)])
        x = self.tmp()
        return "(do %s <- %s; %s)" % (x, self.enode(a), self.call(name, rest, acc + [x]))

    # ---- statements
    def block(self, stmts):
        if not stmts:
            raise Untranslatable("function %s: control reaches the end without return / raise" % self.fn.name)
        s, rest = stmts[0], stmts[1:]
        if isinstance(s, ast.Expr) and isinstance(s.value, ast.Constant) and isinstance(s.value.value, str):
            return self.block(rest)
        if isinstance(s, ast.Return) and s.value is not None:
            return self.enode(s.value)
        if isinstance(s, ast.Raise) and s.exc is not None:
            exc = s.exc.func if isinstance(s.exc, ast.Call) else s.exc
            if isinstance(exc, ast.Name) and exc.id in ERR:
                return "Err %s" % ERR[exc.id]
            bad(s, "unknown raise")
        if isinstance(s, ast.Assign) and len(s.targets) == 1 and isinstance(s.targets[0], ast.Name):
            name = s.targets[0].id
            if self.ty.get(name, "Z") == "Z" and not (isinstance(s.value, ast.Name) and self.ty.get(s.value.id) == "node"):
                t = self.eint(s.value)
                self.ty[name] = "Z"
                if t.startswith("Ok "):
                    return "(let %s := %s in %s)" % (name, t[3:], self.block(rest))
                return "(do %s <- %s; %s)" % (name, t, self.block(rest))
            t = self.enode(s.value)
            self.ty[name] = "node"
            return "(do %s <- %s; %s)" % (name, t, self.block(rest))
        if isinstance(s, ast.If):
            saved = dict(self.ty)
            body = self.block(s.body)
            self.ty = dict(saved)
            if s.orelse:
                other = self.block(s.orelse)
                self.ty = dict(saved)
                if rest:
                    bad(s, "statements after an if / else whose branches both end")
            else:
                other = self.block(rest)
            return self.cond(s.test, lambda c: "(if %s then %s else %s)" % (c, body, other))
        # the counting loop of subtree_fill_to_depth:  while d > 0: v = <expr of v>; d -= 1
        if isinstance(s, ast.While) and not s.orelse and isinstance(s.test, ast.Compare) and len(s.test.ops) == 1 \
                and isinstance(s.test.ops[0], ast.Gt) and isinstance(s.test.left, ast.Name) and self.ty.get(s.test.left.id) == "Z" \
                and isinstance(s.test.comparators[0], ast.Constant) and s.test.comparators[0].value == 0 and len(s.body) == 2:
            cnt = s.test.left.id
            upd, dec = s.body
            ok_dec = isinstance(dec, ast.AugAssign) and isinstance(dec.op, ast.Sub) and isinstance(dec.target, ast.Name) \
                and dec.target.id == cnt and isinstance(dec.value, ast.Constant) and dec.value.value == 1
            if ok_dec and isinstance(upd, ast.Assign) and len(upd.targets) == 1 and isinstance(upd.targets[0], ast.Name) \
                    and self.ty.get(upd.targets[0].id) == "node":
                v = upd.targets[0].id
                if any(isinstance(n, ast.Name) and n.id == cnt for n in ast.walk(upd.value)):
                    bad(s, "loop body reads the counter")
                step = self.enode(upd.value)
                # the counter is 0 after the loop (or unchanged if it was <= 0)
                after = "(let %s := (if %s >? 0 then 0 else %s) in %s)" % (cnt, cnt, cnt, self.block(rest))
                return "(do %s <- Nat.iter (Z.to_nat %s) (fun r => do %s <- r; %s) (Ok %s); %s)" % (v, cnt, v, step, v, after)
        bad(s, "unsupported statement")

    def emit(self):
        body = self.block(self.fn.body)
        ps = " ".join("(%s : %s)" % (rn(p), t) for p, t in SIG[self.fn.name])
        names = " ".join(rn(p) for p, _ in SIG[self.fn.name])
        if self.recursive:
            return ("Fixpoint t_%s_fuel (fuel : nat) %s {struct fuel} : result node :=\n  match fuel with\n  | O => Err EOther\n"
                    "  | S fuel' =>\n    %s\n  end.\nDefinition t_%s %s : result node := t_%s_fuel (S (Z.to_nat depth)) %s.\n"
                    % (self.fn.name, ps, body, self.fn.name, ps, self.fn.name, names))
        return "Definition t_%s %s : result node :=\n  %s.\n" % (self.fn.name, ps, body)


def translate(path):
    tree = ast.parse(open(path).read())
    fns = {n.name: n for n in tree.body if isinstance(n, ast.FunctionDef)}
    missing = [w for w in SIG if w not in fns]
    if missing:
        raise Untranslatable("functions missing from tree.py: %s" % missing)
    out = ["(* GENERATED from remerkleable/tree.py by harness/translate_fill.py on every run — do not edit *)",
           "Require Import RM.Base RM.Tree RMT.PyInt.", "From Coq Require Import List.", "Local Open Scope Z_scope.",
           "Section WithHash.", "Variable H : bytes -> bytes -> bytes.", ""]
    done = {}
    for name in SIG:
        out.append("(* tree.py:%d %s *)" % (fns[name].lineno, name))
        out.append(Fn(fns[name], done).emit())
        done[name] = True
    out.append("End WithHash.")
    return "\n".join(out) + "\n"


if __name__ == "__main__":
    try:
        sys.stdout.write(translate(sys.argv[1]))
    except Untranslatable as ex:
        sys.stderr.write("UNTRANSLATABLE: %s\n" % ex)
        sys.exit(2)
