"""shared generator of (type, byte string) inputs for the decoder properties C09 / C10"""
import io
from vfam import *  # noqa

DEC_TYPES = [
    ["bool"], ["uint", 2], ["vec", ["bool"], 2], ["list", ["bool"], 4], ["bitvec", 3], ["bitvec", 9], ["bitlist", 3],
    ["bitlist", 8], ["bitlist", 300], ["bytevec", 2], ["bytelist", 3],
    ["cont", [["uint", 2]]], ["cont", [["uint", 1], ["list", ["uint", 1], 4]]],
    ["cont", [["list", ["uint", 2], 3], ["uint", 1], ["bitlist", 5]]],
    ["list", ["list", ["uint", 1], 3], 3], ["vec", ["bytelist", 2], 2], ["list", ["bitlist", 9], 3],
    ["union", True, [["uint", 1]]], ["union", False, [["uint", 2], ["list", ["uint", 1], 2]]],
    ["list", ["union", True, [["uint", 1], ["bytelist", 2]]], 3],
    ["cont", [["vec", ["bool"], 2], ["union", True, [["bool"]]]]],
    ["list", ["cont", [["uint", 1], ["bytelist", 3]]], 2],
    ["vec", ["cont", [["uint", 2], ["bool"]]], 2], ["list", ["uint", 4], 5], ["list", ["bitvec", 4], 4],
    # lengths beyond one chunk (256 bits / 32 bytes): the multi-chunk code paths of the bit / byte decoders
    ["bitvec", 257], ["bitvec", 300], ["bitvec", 513], ["bitvec", 256], ["bitlist", 257], ["bitlist", 600],
    ["bitlist", 256], ["bytevec", 33], ["bytelist", 65], ["vec", ["bool"], 33], ["list", ["uint", 2], 40],
    ["cont", [["bitvec", 300], ["bitlist", 300]]], ["list", ["bitvec", 260], 2], ["vec", ["uint", 8], 5],
]


def corrupt(rng, enc):
    b = bytearray(enc)
    r = rng.random()
    if rng.random() < 0.15 and len(b) >= 4:
        # gap: bump every offset-looking word >= the first one by k and insert k bytes where it pointed
        for i in range(0, min(len(b) - 3, 40)):
            w = int.from_bytes(b[i:i + 4], "little")
            if i + 4 <= w <= len(b):
                k = rng.choice([1, 1, 2, 4])
                for j in range(i, min(w, len(b) - 3), 1):
                    w2 = int.from_bytes(b[j:j + 4], "little")
                    if w <= w2 <= len(b) and (j - i) % 4 == 0:
                        b[j:j + 4] = (w2 + k).to_bytes(4, "little")
                b[w:w] = bytes(rng.getrandbits(8) for _ in range(k))
                return bytes(b)
    if r < 0.22 and len(b) >= 4:           # shift an aligned 4-byte little-endian word (an offset, most likely)
        i = 4 * rng.randrange(0, max(1, min(len(b) // 4, 6)))
        w = int.from_bytes(b[i:i + 4], "little") + rng.choice([-8, -4, -1, 1, 4, 8, 3])
        b[i:i + 4] = (w % (1 << 32)).to_bytes(4, "little")
    elif r < 0.3 and len(b) >= 8:          # swap two offsets
        b[0:4], b[4:8] = b[4:8], b[0:4]
    elif r < 0.42 and len(b) > 0:          # truncate
        del b[rng.randrange(0, len(b)):]
    elif r < 0.54:                         # extend
        b += bytes(rng.choice([0, 0, 1, 255]) for _ in range(rng.choice([1, 1, 2, 4])))
    elif r < 0.68 and len(b) > 0:          # flip a bit
        i = rng.randrange(0, len(b))
        b[i] ^= 1 << rng.randrange(0, 8)
    elif r < 0.8 and len(b) > 0:           # touch the last byte: padding / delimiter bits
        b[-1] = rng.choice([0, b[-1] | 0x80, b[-1] | 0xF0, b[-1] << 1 & 0xFF, 1, 2])
    elif r < 0.9 and len(b) > 0:           # a byte that should be 0/1 or a selector
        i = rng.choice([0, len(b) - 1, rng.randrange(0, len(b))])
        b[i] = rng.choice([2, 3, 0x80, 0xFF, 1, 0])
    else:                                  # insert a gap
        i = rng.randrange(0, len(b) + 1)
        b[i:i] = bytes(rng.choice([1, 2, 4]))
    return bytes(b)


def gen_tb(ctx, n_random, n_short):
    rng = ctx.rng
    types = list(DEC_TYPES)
    # exhaustive: every string of length <= 1 for types that can be that short, plus every length-2 string
    # for a few tiny types
    for t in types:
        yield {"t": t, "b": ""}
        if T(t).min_byte_length() <= 1:
            for x in range(256):
                yield {"t": t, "b": "%02x" % x}
    # every value of the LAST and of the FIRST byte of valid encodings (padding bits, delimiter bit, booleans,
    # selectors, offsets' low byte), for every listed type
    for t in types:
        for rep in range(2 if ctx.thorough else 1):
            try:
                enc = bytes(to_py(t, gen_value(rng, t, cap=6)).encode_bytes())
            except Exception:
                continue
            if not enc or len(enc) > 200:
                continue
            step = 1 if ctx.thorough else 3
            for x in range(0, 256, step):
                yield {"t": t, "b": (enc[:-1] + bytes([x])).hex()}
            for x in list(range(0, 256, 5 if not ctx.thorough else 1)):
                yield {"t": t, "b": (bytes([x]) + enc[1:]).hex()}
    for t in types[:n_short]:
        for x in range(0, 65536, 1 if ctx.thorough else 97):
            yield {"t": t, "b": "%04x" % x}
    made = 0
    while made < n_random:
        if rng.random() < 0.6:
            t = rng.choice(types)
        else:
            t = gen_type(rng, rng.choice([1, 2, 2, 3]), big_ok=False)
            if type_size(t) > 10:
                continue
        try:
            enc = bytes(to_py(t, gen_value(rng, t, cap=6)).encode_bytes())
        except Exception:
            continue
        if len(enc) > 120:
            continue
        r = rng.random()
        if r < 0.25:
            b = enc
        elif r < 0.9:
            b = corrupt(rng, enc)
            if rng.random() < 0.2:
                b = corrupt(rng, b)
        else:
            b = bytes(rng.getrandbits(8) for _ in range(rng.randrange(0, 12)))
        made += 1
        yield {"t": t, "b": b.hex()}


def decode(t, b):
    C = T(t)
    if is_basic(t):
        return C.deserialize(io.BytesIO(b), len(b))
    return C.decode_bytes(b)


def readable(t, x, depth=0):
    """every element of the decoded value can be read; lengths within limits"""
    k = t[0]
    if k in ("uint", "bool"):
        int(x)
        if k == "uint":
            assert 0 <= int(x) < (1 << (8 * t[1]))
        else:
            assert int(x) in (0, 1)
    elif k in ("bytevec", "bytelist"):
        assert len(x) == t[1] if k == "bytevec" else len(x) <= t[1]
    elif k in ("bitvec", "bitlist"):
        assert len(x) == t[1] if k == "bitvec" else len(x) <= t[1]
        for i in range(len(x)):
            assert int(x[i]) in (0, 1)
    elif k in ("vec", "list"):
        assert len(x) == t[2] if k == "vec" else len(x) <= t[2]
        for i in range(len(x)):
            readable(t[1], x[i], depth + 1)
    elif k == "cont":
        for i, f in enumerate(t[1]):
            readable(f, getattr(x, "f%d" % i), depth + 1)
    elif k == "union":
        sel = x.selector()
        assert 0 <= sel < union_count(t)
        o = union_opt(t, sel)
        if o is None:
            assert x.value() is None
        else:
            readable(o, x.value(), depth + 1)


def observe_decode(t, b):
    """[accepted, [root, [reenc, count], redecoded root]]"""
    x = attempt(lambda: decode(t, b), anyerr=True)
    if isinstance(x, E):
        return [False, []], None
    root = attempt(lambda: x.hash_tree_root(), anyerr=True)

    def ser():
        st = io.BytesIO()
        cnt = x.serialize(st)
        return [st.getvalue(), int(cnt)]
    se = attempt(ser, anyerr=True)
    re = attempt(lambda: decode(t, bytes(x.encode_bytes())).hash_tree_root(), anyerr=True)
    return [True, [root, se, re]], x


def content_of(t, x):
    """abstract value (ssz.py JSON form) read back element by element from a library value"""
    k = t[0]
    if k == "uint":
        return int(x)
    if k == "bool":
        return bool(x)
    if k in ("bytevec", "bytelist"):
        return bytes(x).hex()
    if k in ("bitvec", "bitlist"):
        return "".join("1" if x[i] else "0" for i in range(len(x)))
    if k in ("vec", "list"):
        return [content_of(t[1], x[i]) for i in range(len(x))]
    if k == "cont":
        return [content_of(f, getattr(x, "f%d" % i)) for i, f in enumerate(t[1])]
    if k == "union":
        sel = x.selector()
        o = union_opt(t, sel)
        return [sel, None if o is None else content_of(o, x.value())]
