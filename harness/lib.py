"""Shared machinery of the correspondence check (DESIGN.md section 3).

A property module provides
    TITLE, P_NAMES-style tagging through Case.names, and
    gen_inputs(ctx)      -> iterable of JSON-able inputs (deterministic in ctx.rng)
    build(inp)           -> Case  (runs the implementation from /repo, emits the Coq term)
    COQ_IMPORTS, COQ_FN  -> which Run*.v glue evaluates a case to an `ob`
    THEOREMS             -> property theorems expected in coq/props/<id>.v
This file does the rest: corpus first, sharding into cases_*.v, coqc in parallel, parsing of the
mismatch list, P/M classification, replay files, known findings, evidence.
"""
import hashlib
import json
import os
import random
import re
import signal
import subprocess
import sys
import time
from concurrent.futures import ThreadPoolExecutor

VERIF = os.path.dirname(os.path.dirname(os.path.abspath(__file__)))
REPO = os.environ.get("VERIF_REPO", "/repo")
COQ = os.path.join(VERIF, "coq")
BUILD = os.path.join(VERIF, "build")
EVID = os.path.join(VERIF, "evidence")
REPLAYS = os.path.join(EVID, "replays")
COQ_ARGS = ["-Q", os.path.join(COQ, "theories"), "RM", "-Q", os.path.join(COQ, "props"), "RMP",
            "-Q", os.path.join(COQ, "run"), "RMR", "-Q", os.path.join(COQ, "trans"), "RMT"]

if REPO not in sys.path:
    sys.path.insert(0, REPO)


# ----------------------------------------------------------------------------- errors
class Hang(BaseException):
    pass


def err_tag(e):
    """Python exception -> the err enum of Base.v (DESIGN 2.10)."""
    from remerkleable.tree import NavigationError
    if isinstance(e, NavigationError):
        return "nav"
    if isinstance(e, IndexError):
        return "index"
    if isinstance(e, KeyError):
        return "key"
    if isinstance(e, ValueError):
        return "value"
    if isinstance(e, TypeError):
        return "type"
    if isinstance(e, AttributeError):
        return "attr"
    if isinstance(e, ZeroDivisionError):
        return "zerodiv"
    return "other"


class E:
    """an error observation"""
    __slots__ = ("tag",)

    def __init__(self, tag):
        self.tag = tag

    def __eq__(self, o):
        return isinstance(o, E) and o.tag == self.tag

    def __hash__(self):
        return hash(("E", self.tag))

    def __repr__(self):
        return "E" + self.tag


def attempt(f, *a, anyerr=False, **kw):
    """run f; map an ordinary exception to E(tag); BaseExceptions that are not Exceptions propagate"""
    try:
        return f(*a, **kw)
    except Exception as e:  # noqa
        return E("other" if anyerr else err_tag(e))


def with_timeout(seconds, f, *a, **kw):
    def on_alarm(signum, frame):
        raise Hang()
    old = signal.signal(signal.SIGALRM, on_alarm)
    signal.setitimer(signal.ITIMER_REAL, seconds)
    try:
        return f(*a, **kw)
    finally:
        signal.setitimer(signal.ITIMER_REAL, 0)
        signal.signal(signal.SIGALRM, old)


# ----------------------------------------------------------------------------- observations
def ob_coq(o):
    """python observation -> Coq term of type ob"""
    if isinstance(o, bool):
        return "(OZ %d)" % (1 if o else 0)
    if isinstance(o, int):
        return "(OZ (%d))" % o
    if isinstance(o, (bytes, bytearray)):
        return '(OB (X "%s"))' % bytes(o).hex()
    if isinstance(o, E):
        return "(OE E%s)" % {"nav": "Nav", "index": "Index", "key": "Key", "value": "Value", "type": "Type",
                             "attr": "Attr", "zerodiv": "ZeroDiv", "other": "Other"}[o.tag]
    if isinstance(o, (list, tuple)):
        return "(OL [" + "; ".join(ob_coq(x) for x in o) + "])"
    if isinstance(o, str):
        return '(OB (X "%s"))' % o.encode().hex()
    if o is None:
        return "(OL [])"
    raise TypeError("cannot emit observation %r" % (o,))


def ob_norm(o):
    """canonical python form (what ob_parse returns) of an observation"""
    if isinstance(o, bool):
        return 1 if o else 0
    if isinstance(o, int):
        return int(o)
    if isinstance(o, (bytes, bytearray)):
        return bytes(o)
    if isinstance(o, E):
        return o
    if isinstance(o, (list, tuple)):
        return [ob_norm(x) for x in o]
    if isinstance(o, str):
        return o.encode()
    if o is None:
        return []
    raise TypeError(o)


def ob_parse(s):
    """inverse of Run.ob_show"""
    pos = 0

    def go():
        nonlocal pos
        c = s[pos]
        pos += 1
        if c == "Z":
            m = re.compile(r"-?\d+").match(s, pos)
            pos = m.end()
            return int(m.group())
        if c == "B":
            m = re.compile(r"[0-9a-f]*").match(s, pos)
            pos = m.end()
            return bytes.fromhex(m.group())
        if c == "E":
            m = re.compile(r"[a-z]+").match(s, pos)
            pos = m.end()
            return E(m.group())
        if c == "[":
            out = []
            while s[pos] != "]":
                out.append(go())
                assert s[pos] == ";", s[pos:pos + 20]
                pos += 1
            pos += 1
            return out
        raise ValueError("bad ob string at %d: %r" % (pos, s[max(0, pos - 10):pos + 10]))
    v = go()
    assert pos == len(s), (pos, len(s))
    return v


def ob_json(o):
    if isinstance(o, bytes):
        return "0x" + o.hex()
    if isinstance(o, E):
        return "ERR:" + o.tag
    if isinstance(o, list):
        return [ob_json(x) for x in o]
    return o


# ----------------------------------------------------------------------------- Coq term helpers
def cN(n):
    return "%d%%N" % n


def cnat(n):
    assert 0 <= n < 5000, n
    return "%d%%nat" % n


def cZ(n):
    return "(%d)%%Z" % n


def cbytes(b):
    return '(X "%s")' % bytes(b).hex()


def cbool(b):
    return "true" if b else "false"


def clist(xs):
    return "[" + "; ".join(xs) + "]"


def copt(x):
    return "None" if x is None else "(Some %s)" % x


# ----------------------------------------------------------------------------- cases
class Case:
    def __init__(self, inp, coq, obs, names, nontrivial=True, kind=""):
        self.inp = inp            # JSON-able input (replayable through build)
        self.coq = coq            # Coq term: the model-side input
        self.obs = ob_norm(obs)   # observation made on the implementation (top level: list)
        self.names = names        # one name per top-level observable, 'P:...' or 'M:...'
        self.nontrivial = nontrivial
        self.kind = kind
        assert isinstance(self.obs, list) and len(self.obs) == len(names), (len(self.obs), names)

    def key(self):
        return hashlib.sha256(json.dumps(self.inp, sort_keys=True).encode()).hexdigest()[:16]


class Ctx:
    def __init__(self, prop, tier, seed):
        self.prop, self.tier, self.seed = prop, tier, seed
        self.rng = random.Random("%s/%d" % (prop, seed))
        self.t0 = time.time()
        self.dist = {}

    def count(self, key, n=1):
        self.dist[key] = self.dist.get(key, 0) + n

    @property
    def thorough(self):
        return self.tier == "thorough"


def ensure_built():
    """full .vo build of the development (no-op when up to date); serialised by a lock"""
    import fcntl
    os.makedirs(BUILD, exist_ok=True)
    with open(os.path.join(BUILD, ".lock"), "w") as lk:
        fcntl.flock(lk, fcntl.LOCK_EX)
        if not os.path.exists(os.path.join(COQ, "Makefile")):
            subprocess.run(["coq_makefile", "-f", "_CoqProject", "-o", "Makefile"], cwd=COQ, check=True,
                           stdout=subprocess.DEVNULL, stderr=subprocess.DEVNULL)
        r = subprocess.run(["timeout", "3000", "make", "-j16"], cwd=COQ, stdout=subprocess.PIPE,
                           stderr=subprocess.STDOUT, text=True)
    return r.returncode == 0, r.stdout[-4000:]


def check_theorems(prop, expected):
    """compile props/<prop>.v and read its Print Assumptions output.
    returns (ok, details): every expected theorem must be present and closed under the global context
    (or depend only on axioms named in ALLOWED_AXIOMS)."""
    src = os.path.join(COQ, "props", prop + ".v")
    if not expected and os.environ.get("VERIF_BRINGUP"):
        return True, {"theorems": [], "note": "bring-up mode: no theorems checked"}
    if not os.path.exists(src):
        return False, {"error": "missing " + src}
    text = open(src).read()
    for bad in ("Admitted", "admit.", "Axiom ", "Parameter ", "Conjecture ", "Unset Guard", "bypass_check"):
        if bad in text:
            return False, {"error": "forbidden token %r in props/%s.v" % (bad, prop)}
    r = subprocess.run(["timeout", "600", "coqc"] + COQ_ARGS + [src], cwd=COQ, stdout=subprocess.PIPE,
                       stderr=subprocess.STDOUT, text=True)
    if r.returncode != 0:
        return False, {"error": "coqc props/%s.v failed" % prop, "output": r.stdout[-3000:]}
    closed = r.stdout.count("Closed under the global context")
    axioms = re.findall(r"^Axioms:\n((?:.+\n)+)", r.stdout, flags=re.M)
    present = [t for t in expected if re.search(r"(Theorem|Lemma|Example)\s+%s\b" % re.escape(t), text)]
    n_print = len(re.findall(r"Print Assumptions", text))
    det = {"theorems": present, "missing": [t for t in expected if t not in present],
           "print_assumptions": n_print, "closed": closed, "axioms": axioms}
    ok = (not det["missing"]) and closed == n_print and n_print >= len(expected) and not axioms
    if ok and os.environ.get("VERIF_TIER_RUNNING") == "thorough":
        # independent re-check of the compiled property file and everything it depends on
        rc = subprocess.run(["timeout", "2400", "coqchk", "-o"] + COQ_ARGS + ["RMP." + prop], cwd=COQ,
                            stdout=subprocess.PIPE, stderr=subprocess.STDOUT, text=True)
        m = re.search(r"\* Axioms:\s*(.*?)\n\s*\n", rc.stdout, flags=re.S)
        det["coqchk"] = {"rc": rc.returncode, "axioms": (m.group(1).strip() if m else "?")}
        ok = rc.returncode == 0 and det["coqchk"]["axioms"] == "<none>"
    return ok, det


def check_translation(prop, spec):
    """second tie (DESIGN 3b): translate the source named by `spec` from REPO's CURRENT working tree into Gallina with
    the fail-closed translator, compile the generated definitions and then the hand-written equivalence proofs
    (coq/trans/<proofs>) against them.  returns (ok, details)."""
    import importlib
    import shutil
    import tempfile
    det = {"translator": spec["translator"], "source": spec["source"], "proofs": spec["proofs"]}
    tr = importlib.import_module(spec["translator"])
    try:
        text = tr.translate(os.path.join(REPO, spec["source"]))
    except tr.Untranslatable as ex:
        det["error"] = "the translator refuses the source (fail-closed): %s" % ex
        return False, det
    except Exception as ex:  # noqa
        det["error"] = "the translator could not read the source: %r" % (ex,)
        return False, det
    det["generated_sha256"] = hashlib.sha256(text.encode()).hexdigest()
    proofs_src = os.path.join(COQ, "trans", spec["proofs"])
    ptext = open(proofs_src).read()
    for badtok in ("Admitted", "admit.", "Axiom ", "Parameter ", "Conjecture ", "Unset Guard", "bypass_check"):
        if badtok in ptext or badtok in text:
            det["error"] = "forbidden token %r in the generated file or its proofs" % badtok
            return False, det
    os.makedirs(BUILD, exist_ok=True)
    d = tempfile.mkdtemp(prefix="trans_%s_" % prop, dir=BUILD)
    try:
        open(os.path.join(d, spec["gen"]), "w").write(text)
        shutil.copy(proofs_src, os.path.join(d, spec["proofs"]))
        args = COQ_ARGS + ["-Q", d, "RMG"]
        for f in (spec["gen"], spec["proofs"]):
            r = subprocess.run(["timeout", "600", "coqc"] + args + [os.path.join(d, f)], cwd=COQ, stdout=subprocess.PIPE,
                               stderr=subprocess.STDOUT, text=True)
            if r.returncode != 0:
                det["error"] = "coqc %s failed: the code no longer matches the model it was proved equal to" % f
                det["output"] = r.stdout[-2500:]
                return False, det
        closed = r.stdout.count("Closed under the global context")
        n_print = len(re.findall(r"Print Assumptions", ptext))
        missing = [t for t in spec["theorems"] if not re.search(r"(Theorem|Lemma)\s+%s\b" % re.escape(t), ptext)]
        det.update({"theorems": [t for t in spec["theorems"] if t not in missing], "missing": missing,
                    "print_assumptions": n_print, "closed": closed})
        ok = (not missing) and closed == n_print and n_print >= len(spec["theorems"]) and "Axioms:" not in r.stdout
        if ok and os.environ.get("VERIF_TIER_RUNNING") == "thorough":
            # independent re-check of the equivalence proofs, the generated definitions and everything they depend on
            rc = subprocess.run(["timeout", "2400", "coqchk", "-o"] + args + ["RMG." + spec["proofs"][:-2]], cwd=COQ,
                                stdout=subprocess.PIPE, stderr=subprocess.STDOUT, text=True)
            m = re.search(r"\* Axioms:\s*(.*?)\n\s*\n", rc.stdout, flags=re.S)
            det["coqchk"] = {"rc": rc.returncode, "axioms": (m.group(1).strip() if m else "?")}
            ok = rc.returncode == 0 and det["coqchk"]["axioms"] == "<none>"
        return ok, det
    finally:
        shutil.rmtree(d, ignore_errors=True)


SHARD = 300


def run_model(ctx, imports, fn, case_ty, cases, sub=""):
    """evaluate the model on all cases inside Coq; returns {index: model_obs} for the mismatching ones,
    plus the list of shards that failed to compile (fail-closed)."""
    d = os.path.join(BUILD, ctx.prop + sub)
    os.makedirs(d, exist_ok=True)
    for f in os.listdir(d):
        if f.startswith("cases_"):
            os.remove(os.path.join(d, f))
    SHARD = int(getattr(sys.modules.get('props.' + ctx.prop.lower()), 'SHARD', 300))
    shards = [cases[i:i + SHARD] for i in range(0, len(cases), SHARD)]
    files = []
    for k, sh in enumerate(shards):
        path = os.path.join(d, "cases_%d.v" % k)
        with open(path, "w") as f:
            f.write("From Coq Require Import String.\nRequire Import RMR.Run %s.\nOpen Scope string_scope.\n"
                    "Set Printing Width 100000000.\nSet Printing Depth 100000000.\n" % " ".join(imports))
            f.write("Definition cases : list (%s * ob) := [\n" % case_ty)
            f.write(";\n".join("(%s, %s)" % (c.coq, ob_coq(c.obs)) for c in sh))
            f.write("\n].\nEval vm_compute in (mismatches %s cases).\n" % fn)
        files.append(path)

    def one(path):
        r = subprocess.run("ulimit -s unlimited; exec timeout 900 coqc " + " ".join(COQ_ARGS) + " " + path,
                           shell=True, cwd=d, stdout=subprocess.PIPE, stderr=subprocess.STDOUT, text=True)
        return r.returncode, r.stdout
    with ThreadPoolExecutor(max_workers=16) as ex:
        outs = list(ex.map(one, files))
    mism, failed = {}, []
    for k, (rc, out) in enumerate(outs):
        if rc != 0 or "= " not in out:
            failed.append({"shard": k, "rc": rc, "output": out[-2000:]})
            continue
        for m in re.finditer(r'\((\d+)(?:%N)?,\s*"([^"]*)"\)', out):
            mism[k * SHARD + int(m.group(1))] = ob_parse(m.group(2))
    
    return mism, failed, len(shards)


def p_diff(c, model):
    if isinstance(model, list) and len(model) == len(c.obs):
        return [c.names[i] for i in range(len(model)) if model[i] != c.obs[i]]
    return ["P:shape"]


def minimise(ctx, mod, case, model):
    """greedy shrinking of a failing case: all candidates of a round are evaluated in one coqc batch"""
    shrink = getattr(mod, "shrink", None)
    if shrink is None:
        return case, model
    cur, cur_model = case, model
    for _ in range(10):
        cands = []
        for inp in shrink(cur.inp):
            try:
                cands.append(with_timeout(20, mod.build, inp))
            except BaseException:
                continue
            if len(cands) >= 80:
                break
        if not cands:
            break
        mism, failed, _ = run_model(ctx, mod.COQ_IMPORTS, mod.COQ_FN, mod.COQ_CASE_TY, cands, sub="_min")
        nxt = None
        for i, c in enumerate(cands):
            if i in mism and any(n.startswith("P:") for n in p_diff(c, mism[i])):
                nxt = (c, mism[i])
                break
        if nxt is None:
            break
        cur, cur_model = nxt
    return cur, cur_model


# ----------------------------------------------------------------------------- findings
def load_known():
    p = os.path.join(VERIF, "known_findings.json")
    if not os.path.exists(p):
        return []
    return json.load(open(p)).get("findings", [])


def match_known(prop, case, known, mod):
    for k in known:
        if k.get("property") == prop and k.get("kind") == "known":
            m = getattr(mod, "matches_known", None)
            if m is not None and m(case, k.get("match", {})):
                return k
            if k.get("match", {}).get("input") == case.inp:
                return k
    return None


def write_replay(prop, payload):
    os.makedirs(REPLAYS, exist_ok=True)
    h = hashlib.sha256(json.dumps(payload, sort_keys=True, default=str).encode()).hexdigest()[:12]
    path = os.path.join(REPLAYS, "%s-%s.json" % (prop, h))
    with open(path, "w") as f:
        json.dump(payload, f, indent=1, default=str)
    return path


def load_corpus(prop):
    d = os.path.join(VERIF, "corpus", prop)
    out = []
    if os.path.isdir(d):
        for fn in sorted(os.listdir(d)):
            if fn.endswith(".json"):
                j = json.load(open(os.path.join(d, fn)))
                out.append(j["input"] if isinstance(j, dict) and "input" in j else j)
    return out


TRUSTED_BASE = [
    "Coq 8.16.1 kernel (coqc); vm_compute (with primitive Uint63 in Sha256.v) used only to RUN the model "
    "in the correspondence check and for finite sweeps over bytes; no native_compute",
    "no axioms: every property theorem prints 'Closed under the global context' (checked on every run)",
    "hand-written Gallina model of remerkleable (coq/theories/*.v), tied to /repo's working tree by this "
    "differential correspondence check only; its strength is bounded by the generators",
    "Python harness (generators, exception->enum mapping, canonicalisation), CPython int/bytes/io.BytesIO/json, "
    "hashlib.sha256; Sha256.v validated against hashlib by every root comparison of every run",
    "reading of the SSZ specification transcribed in Spec.v; interpretation choices of DESIGN.md 2.11",
]


def source_fingerprint():
    """sha256 of every module of the package under test (VERIF_REPO or /repo)"""
    import hashlib
    repo = os.environ.get("VERIF_REPO", "/repo")
    out = {}
    pkg = os.path.join(repo, "remerkleable")
    for fn in sorted(os.listdir(pkg)):
        if fn.endswith(".py"):
            out[fn] = hashlib.sha256(open(os.path.join(pkg, fn), "rb").read()).hexdigest()
    return out


def source_changed():
    """files of the package that differ from the tree the model was last validated against
    (source_fingerprint.json, committed).  A difference is NOT a violation: it only makes the quick tier
    draw more cases (the model may no longer describe the code, so the correspondence is explored deeper)."""
    p = os.path.join(VERIF, "source_fingerprint.json")
    try:
        base = json.load(open(p))
    except Exception:
        return []
    cur = source_fingerprint()
    return sorted(k for k in set(base) | set(cur) if base.get(k) != cur.get(k))


def gen_safely(mod, ctx, crashes, tag):
    """the input generators run the implementation (to know which views a history holds, which values are valid).  On a
    broken tree that can raise: keep what was generated, restart the generator on another sub-stream a few times, and
    record the crash — it is reported as a broken obligation if no failing input is found otherwise."""
    import traceback
    out = []
    for attempt_no in range(12):
        it = iter(mod.gen_inputs(ctx))
        crashed = False
        while True:
            try:
                out.append(next(it))
            except StopIteration:
                break
            except Hang:
                raise
            except Exception:  # noqa
                crashes.append(traceback.format_exc()[-1800:])
                crashed = True
                break
        if not crashed:
            break
        ctx.rng = random.Random("%s/%d/%s/regen%d" % (ctx.prop, ctx.seed, tag, attempt_no))
    return out


def main(mod, prop, tier, seed, replay=None):
    ctx = Ctx(prop, tier, seed)
    t0 = time.time()
    os.environ["VERIF_TIER_RUNNING"] = tier
    violations = []       # (kind, payload)
    notes = []
    ok_build, build_out = ensure_built()
    thm_ok, thm_det = (False, {"error": "build failed", "output": build_out}) if not ok_build else \
        check_theorems(prop, mod.THEOREMS)
    if ok_build and getattr(mod, "TRANSLATED", None):
        specs = mod.TRANSLATED if isinstance(mod.TRANSLATED, list) else [mod.TRANSLATED]
        thm_det["translation"] = []
        for spec in specs:
            tr_ok, tr_det = check_translation(prop, spec)
            thm_det["translation"].append(tr_det)
            thm_ok = thm_ok and tr_ok

    # ---- inputs: corpus first, then generated
    if replay:
        j = json.load(open(replay))
        inputs = [j["input"]] if "input" in j else []
        if not inputs:
            print("replay file names no input (%s)" % j.get("broken", "?"))
    else:
        gen_crashes = []
        inputs = load_corpus(prop) + gen_safely(mod, ctx, gen_crashes, "main")
        changed = source_changed()
        if changed and tier == "quick" and not getattr(mod, "NO_ESCALATE", False):
            # the code differs from the validated tree: two more rounds of generated inputs, other seeds
            for extra in (1, 2):
                ctx.rng = random.Random("%s/%d/extra%d" % (prop, seed, extra))
                inputs += gen_safely(mod, ctx, gen_crashes, "extra%d" % extra)
            ctx.count("escalated_rounds", 2)
            notes.append("source differs from the validated tree (%s): quick tier escalated to 3 rounds of inputs"
                         % ", ".join(changed))
    cases, seen, build_errors = [], set(), []
    for inp in inputs:
        try:
            c = with_timeout(getattr(mod, "CASE_TIMEOUT", 20), mod.build, inp)
        except Hang:
            c = None
            if getattr(mod, "HANG_IS_VIOLATION", False):
                violations.append(("P", {"input": inp, "observed": "implementation did not terminate within the "
                                         "per-case timeout", "names": ["P:terminates"]}))
            else:
                build_errors.append({"input": inp, "error": "timeout"})
        except Exception as e:  # harness failure on this input: fail closed below
            c = None
            build_errors.append({"input": inp, "error": repr(e)[:300]})
        if c is None:
            continue
        k = c.key()
        if k in seen:
            continue
        seen.add(k)
        cases.append(c)
        ctx.count("kind:" + (c.kind or "default"))

    mism, failed, nshards = ({}, [], 0)
    if ok_build and cases:
        mism, failed, nshards = run_model(ctx, mod.COQ_IMPORTS, mod.COQ_FN, mod.COQ_CASE_TY, cases)

    known = load_known()
    known_hits = []
    # ---- classify disagreements
    m_only = []
    for idx in sorted(mism):
        c = cases[idx]
        model = mism[idx]
        diff = p_diff(c, model)
        refine = getattr(mod, "refine_diff", None)
        if refine is not None:
            diff = refine(c, model, diff)
        if any(n.startswith("P:") for n in diff) and len(violations) < 1 and not replay \
                and match_known(prop, c, known, mod) is None:
            c, model = minimise(ctx, mod, c, model)
            diff = p_diff(c, model)
        payload = {"property": prop, "input": c.inp, "observable_names": c.names,
                   "expected_model": ob_json(model), "observed_impl": ob_json(c.obs), "differing": diff,
                   "how": "./check %s --replay <this file>" % prop}
        if any(n.startswith("P:") for n in diff):
            k = match_known(prop, c, known, mod)
            if k is not None:
                known_hits.append(k)
            else:
                violations.append(("P", payload))
        else:
            m_only.append(payload)

    # property-specific direct oracle on the implementation's own observations (no model involved)
    direct = getattr(mod, "direct_violation", None)
    if direct is not None:
        for c in cases:
            why = direct(c)
            if why:
                k = match_known(prop, c, known, mod)
                if k is not None:
                    if k not in known_hits:
                        known_hits.append(k)
                    continue
                violations.append(("P", {"property": prop, "input": c.inp, "observed_impl": ob_json(c.obs),
                                         "direct_oracle": why}))

    lines = []
    for k in known_hits:
        lines.append("KNOWN-FINDING: property=%s %s" % (prop, k.get("what", "")))
    seen_v = set()
    for kind, payload in violations:
        key = json.dumps(payload.get("input"), sort_keys=True, default=str)
        if key in seen_v:
            continue
        seen_v.add(key)
        if len(seen_v) > int(os.environ.get("VERIF_MAXVIOL", "5")):
            break
        path = write_replay(prop, payload)
        lines.append("VIOLATION property=%s replay=%s" % (prop, path))
    nfif = []
    if not violations:
        if not ok_build or not thm_ok:
            nfif.append({"broken": "proof obligation", "detail": thm_det})
        if failed:
            nfif.append({"broken": "correspondence shard did not evaluate", "detail": failed[:3]})
        if build_errors:
            nfif.append({"broken": "harness could not run the implementation on an input",
                         "detail": build_errors[:5]})
        if not replay and gen_crashes:
            nfif.append({"broken": "the input generator could not run the implementation (it raised on a value / "
                                   "operation the generator knows to be valid)", "detail": gen_crashes[:3]})
        if m_only:
            nfif.append({"broken": "model-internal observable differs (no property-level difference found)",
                         "detail": m_only[:5]})
        if not cases and not replay:
            nfif.append({"broken": "no cases generated"})
        for b in nfif:
            b["property"] = prop
            path = write_replay(prop, b)
            lines.append("VIOLATION property=%s replay=%s no-failing-input-found" % (prop, path))
            break

    nviol = len([l for l in lines if l.startswith("VIOLATION")])
    distinct_nontrivial = len({c.key() for c in cases if c.nontrivial})
    obligations = len(mod.THEOREMS) + nshards
    discharged = (len(thm_det.get("theorems", [])) if thm_ok else 0) + (nshards - len(failed))
    if mism or build_errors:
        discharged = min(discharged, obligations - 1)
    samples = [{"input": c.inp, "observed": ob_json(c.obs), "names": c.names} for c in cases[:2]]
    samples += [{"input": c.inp, "observed": ob_json(c.obs), "names": c.names}
                for c in cases[len(cases) // 2:len(cases) // 2 + 1]]
    ev = {
        "property_id": prop, "tier": tier, "seed": seed, "level": "proof",
        "coverage": {
            "obligations": obligations, "discharged": discharged,
            "checker_cmd": "cd coq && make && coqc -Q theories RM -Q props RMP -Q run RMR props/%s.v "
                           "(Print Assumptions under every theorem); then coqc on %d generated "
                           "build/%s/cases_*.v shards (model evaluated by vm_compute against the "
                           "implementation's observations)" % (prop, nshards, prop),
            "trusted_base": TRUSTED_BASE + list(getattr(mod, "EXTRA_TRUST", [])),
            "theorems": thm_det,
            "partial": list(getattr(mod, "PARTIAL", [])),
            "evaluations": len(cases), "distinct_nontrivial": distinct_nontrivial,
            "rule": getattr(mod, "RULE", ""),
            "samples": samples,
            "distribution": ctx.dist,
            "notes": notes,
            "model_mismatches": len(mism), "model_only_mismatches": len(m_only),
            "known_findings_hit": [k.get("what") for k in known_hits],
            "exhaustive": bool(getattr(mod, "EXHAUSTIVE", {}).get(tier, False)),
        },
        "assumptions": list(getattr(mod, "ASSUMPTIONS", [])),
        "wall_s": round(time.time() - t0, 2),
        "violations": nviol,
    }
    if not replay:
        os.makedirs(EVID, exist_ok=True)
        with open(os.path.join(EVID, prop + ".json"), "w") as f:
            json.dump(ev, f, indent=1, default=str)
    for l in lines:
        print(l)
    print("%s %s: %d cases, %d shards, %d model mismatches, theorems %s, %.1fs" % (
        prop, tier, len(cases), nshards, len(mism), "ok" if thm_ok else "NOT OK", time.time() - t0))
    return 1 if nviol else 0
