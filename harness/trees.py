"""JSON tree descriptions <-> implementation nodes <-> Coq node terms."""
from lib import *  # noqa
from remerkleable.tree import RootNode, PairNode, zero_node, Node, NavigationError


class NoChildren:
    """a VirtualSource that knows no children: every node it backs is a leaf"""

    def get_left(self, key):
        raise NavigationError

    def get_right(self, key):
        raise NavigationError

    def is_leaf(self, key):
        return True


def virtual_leaf(root):
    from remerkleable.virtual import VirtualNode
    return VirtualNode(root, NoChildren())


def tree_py(t):
    k = t[0]
    if k == "R":
        return RootNode(bytes.fromhex(t[1]))
    if k == "Z":
        return zero_node(t[1])
    if k == "V":                          # a lazily loaded (virtual) leaf with this root
        return virtual_leaf(bytes.fromhex(t[1]))
    if k == "VZ":                         # a lazily loaded leaf whose root is the zero hash of height t[1]
        return virtual_leaf(zero_node(t[1]).merkle_root())
    if k == "P":
        return PairNode(tree_py(t[1]), tree_py(t[2]))
    raise ValueError(t)


def tree_coq(t):
    k = t[0]
    if k == "R":
        return '(R "%s")' % t[1]
    if k == "Z":
        return "(Zn %s)" % cnat(t[1])
    if k == "V":
        return '(V "%s")' % t[1]
    if k == "VZ":
        return "(VZn %s)" % cnat(t[1])
    if k == "P":
        return "(P %s %s)" % (tree_coq(t[1]), tree_coq(t[2]))
    raise ValueError(t)


def tree_same(n, t):
    """does the implementation node n still have exactly the structure/roots of description t"""
    k = t[0]
    if k == "P":
        if n.is_leaf():
            return False
        return tree_same(n.get_left(), t[1]) and tree_same(n.get_right(), t[2])
    if not n.is_leaf():
        return False
    want = bytes.fromhex(t[1]) if k in ("R", "V") else zero_node(t[1]).merkle_root()
    return n.merkle_root() == want


def tree_depth(t):
    return 1 + max(tree_depth(t[1]), tree_depth(t[2])) if t[0] == "P" else 0


def chunk(b):
    return ["R", (bytes([b]) * 32).hex()]


def rand_tree(rng, depth, leaves):
    if depth == 0 or rng.random() < 0.25:
        return rng.choice(leaves)
    return ["P", rand_tree(rng, depth - 1, leaves), rand_tree(rng, depth - 1, leaves)]


def all_trees(depth, leaves):
    if depth == 0:
        return list(leaves)
    sub = all_trees(depth - 1, leaves)
    return list(leaves) + [["P", a, b] for a in sub for b in sub]
