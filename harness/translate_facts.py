"""translate_facts.py — FAIL-CLOSED translator: the size facts of the SSZ type classes
(is_fixed_byte_length / min_byte_length / max_byte_length / type_byte_length of List, Vector (+ its pre-computed
fixed-size override), Container, Bitlist, Bitvector, ByteList, Union, the fixed-length helper, boolean, uintN) ->
Gallina definitions over `facts` records (coq/trans/PyInt.v: fx, mn, mx, tbl of a type).

Vocabulary: cls.element_cls() is the element type's facts `e`; cls.limit() / cls.vector_length() is `n`;
cls.fields().values() is `fs : list facts`; cls.options() is `opts : list (option facts)` (None option = None);
OFFSET_BYTE_LENGTH is read from core.py.  Anything else raises Untranslatable."""
import ast
import os
import sys


class Untranslatable(Exception):
    pass


def bad(node, why):
    raise Untranslatable("line %s: %s: %s" % (getattr(node, "lineno", "?"), why, ast.dump(node)[:220]))


BIN = {ast.Add: "Z.add", ast.Sub: "Z.sub", ast.Mult: "Z.mul", ast.FloorDiv: "Z.div"}
FACT = {"max_byte_length": "mx", "min_byte_length": "mn", "is_fixed_byte_length": "fx"}


class M:
    """one method; kind of receiver decides the parameters: 'seq' (e, n), 'lim' (n), 'cont' (fs), 'union' (opts), 'fixed' (tbl)"""

    def __init__(self, owner, fn, kind, offset, siblings):
        self.owner, self.fn, self.kind, self.offset, self.siblings = owner, fn, kind, offset, siblings
        self.env = {}                    # local name -> ("int", coq) | ("facts", coq)
        self.helpers = {}                # nested def name -> coq lambda over option facts

    def facts_of(self, e):
        """an expression denoting a type -> coq term of type facts"""
        if isinstance(e, ast.Name) and e.id in self.env and self.env[e.id][0] == "facts":
            return self.env[e.id][1]
        if isinstance(e, ast.Call) and isinstance(e.func, ast.Attribute) and e.func.attr == "element_cls" \
                and isinstance(e.func.value, ast.Name) and e.func.value.id == "cls" and not e.args and self.kind == "seq":
            return "e"
        bad(e, "not a type expression")

    def boolean(self, e):
        if isinstance(e, ast.Constant) and isinstance(e.value, bool):
            return "true" if e.value else "false"
        if isinstance(e, ast.UnaryOp) and isinstance(e.op, ast.Not):
            return "(negb %s)" % self.boolean(e.operand)
        if isinstance(e, ast.Call) and isinstance(e.func, ast.Attribute) and e.func.attr == "is_fixed_byte_length" and not e.args:
            if isinstance(e.func.value, ast.Name) and e.func.value.id == "cls":
                return self.sibling("is_fixed_byte_length")
            return "(fx %s)" % self.facts_of(e.func.value)
        # all(f.is_fixed_byte_length() for f in cls.fields().values())
        if isinstance(e, ast.Call) and isinstance(e.func, ast.Name) and e.func.id == "all" and len(e.args) == 1 \
                and isinstance(e.args[0], ast.GeneratorExp) and len(e.args[0].generators) == 1:
            g = e.args[0].generators[0]
            if self.is_fields(g.iter) and isinstance(g.target, ast.Name) and not g.ifs:
                saved = dict(self.env)
                self.env[g.target.id] = ("facts", g.target.id)
                body = self.boolean(e.args[0].elt)
                self.env = saved
                return "(forallb (fun %s => %s) fs)" % (g.target.id, body)
        if isinstance(e, ast.Compare) and len(e.ops) == 1 and isinstance(e.ops[0], ast.Is) and isinstance(e.left, ast.Name) \
                and isinstance(e.comparators[0], ast.Constant) and e.comparators[0].value is None \
                and self.env.get(e.left.id, ("", ""))[0] == "opt":
            return "(match %s with None => true | Some _ => false end)" % self.env[e.left.id][1]
        bad(e, "unknown boolean expression")

    def is_fields(self, e):
        return self.kind == "cont" and isinstance(e, ast.Call) and isinstance(e.func, ast.Attribute) and e.func.attr == "values" \
            and isinstance(e.func.value, ast.Call) and isinstance(e.func.value.func, ast.Attribute) \
            and e.func.value.func.attr == "fields" and isinstance(e.func.value.func.value, ast.Name) and e.func.value.func.value.id == "cls"

    def sibling(self, name):
        if name not in self.siblings:
            bad(self.fn, "call of an untranslated sibling method %s" % name)
        return "(%s %s)" % (self.siblings[name], PARAMS[self.kind][1])

    def integer(self, e):
        if isinstance(e, ast.Constant) and isinstance(e.value, int) and not isinstance(e.value, bool):
            return str(e.value)
        if isinstance(e, ast.Name):
            if e.id == "OFFSET_BYTE_LENGTH":
                return str(self.offset)
            if e.id in self.env and self.env[e.id][0] == "int":
                return self.env[e.id][1]
            bad(e, "unknown name")
        if isinstance(e, ast.BinOp) and type(e.op) in BIN:
            return "(%s %s %s)" % (BIN[type(e.op)], self.integer(e.left), self.integer(e.right))
        if isinstance(e, ast.Call) and isinstance(e.func, ast.Attribute) and not e.args and not e.keywords:
            a, v = e.func.attr, e.func.value
            if isinstance(v, ast.Name) and v.id == "cls":
                if a in ("limit", "vector_length") and self.kind in ("seq", "lim"):
                    return "n"
                if a == "type_byte_length" and self.kind == "fixed":
                    return "tbl0"
                if a in ("min_byte_length", "max_byte_length"):
                    return self.sibling(a)
            elif a in ("max_byte_length", "min_byte_length"):
                if isinstance(v, ast.Name) and self.env.get(v.id, ("", ""))[0] == "opt":
                    bad(e, "size of an option that may be None")
                return "(%s %s)" % (FACT[a], self.facts_of(v))
        # 1 + min(map(helper, cls.options()))
        if isinstance(e, ast.Call) and isinstance(e.func, ast.Name) and e.func.id in ("min", "max") and len(e.args) == 1 \
                and isinstance(e.args[0], ast.Call) and isinstance(e.args[0].func, ast.Name) and e.args[0].func.id == "map" \
                and len(e.args[0].args) == 2 and isinstance(e.args[0].args[0], ast.Name) and e.args[0].args[0].id in self.helpers \
                and self.kind == "union":
            opt = e.args[0].args[1]
            if isinstance(opt, ast.Call) and isinstance(opt.func, ast.Attribute) and opt.func.attr == "options" \
                    and isinstance(opt.func.value, ast.Name) and opt.func.value.id == "cls":
                return "(py_%s (map %s opts))" % (e.func.id, self.helpers[e.args[0].args[0].id])
        bad(e, "not an integer expression")

    def helper(self, fn):
        """def f(x): if x is None: return A  else: return x.<size>()   ->  fun x => match x with None => A | Some y => <size> y end"""
        if len(fn.args.args) != 1 or len(fn.body) != 1 or not isinstance(fn.body[0], ast.If):
            bad(fn, "unsupported nested function")
        x = fn.args.args[0].arg
        i = fn.body[0]
        self.env[x] = ("opt", x)
        c = self.boolean(i.test)
        if not (len(i.body) == 1 and isinstance(i.body[0], ast.Return) and len(i.orelse) == 1 and isinstance(i.orelse[0], ast.Return)):
            bad(fn, "unsupported nested function body")
        a = self.integer(i.body[0].value)
        r = i.orelse[0].value
        if not (isinstance(r, ast.Call) and isinstance(r.func, ast.Attribute) and r.func.attr in ("min_byte_length", "max_byte_length")
                and isinstance(r.func.value, ast.Name) and r.func.value.id == x and not r.args):
            bad(fn, "unsupported nested function result")
        del self.env[x]
        if c != "(match %s with None => true | Some _ => false end)" % x:
            bad(fn, "unsupported nested function test")
        return "(fun %s => match %s with None => %s | Some y => %s y end)" % (x, x, a, FACT[r.func.attr])

    def block(self, stmts, ret_bool):
        if not stmts:
            bad(self.fn, "control reaches the end without return / raise")
        s, rest = stmts[0], stmts[1:]
        if isinstance(s, ast.Expr) and isinstance(s.value, ast.Constant):
            return self.block(rest, ret_bool)
        if isinstance(s, ast.FunctionDef):
            self.helpers[s.name] = self.helper(s)
            return self.block(rest, ret_bool)
        if isinstance(s, ast.Return) and s.value is not None:
            t = self.boolean(s.value) if ret_bool else self.integer(s.value)
            return ("Ok %s" % t) if self.raises else t
        if isinstance(s, ast.Raise):
            return "Err EOther"
        if isinstance(s, ast.Assign) and len(s.targets) == 1 and isinstance(s.targets[0], ast.Name):
            name = s.targets[0].id
            try:
                f = self.facts_of(s.value)
                self.env[name] = ("facts", f)
                return self.block(rest, ret_bool)
            except Untranslatable:
                pass
            v = self.integer(s.value)
            self.env[name] = ("int", name)
            return "(let %s := %s in %s)" % (name, v, self.block(rest, ret_bool))
        if isinstance(s, ast.AugAssign) and isinstance(s.target, ast.Name) and isinstance(s.op, ast.Add) \
                and self.env.get(s.target.id, ("", ""))[0] == "int":
            name = s.target.id
            return "(let %s := (Z.add %s %s) in %s)" % (name, name, self.integer(s.value), self.block(rest, ret_bool))
        if isinstance(s, ast.If):
            c = self.boolean(s.test)
            # `if c: x += k` (no else, body does not end): a conditional update of one variable
            if not s.orelse and len(s.body) == 1 and isinstance(s.body[0], ast.AugAssign) and isinstance(s.body[0].target, ast.Name) \
                    and isinstance(s.body[0].op, ast.Add) and self.env.get(s.body[0].target.id, ("", ""))[0] == "int":
                name = s.body[0].target.id
                return "(let %s := (if %s then (Z.add %s %s) else %s) in %s)" % (
                    name, c, name, self.integer(s.body[0].value), name, self.block(rest, ret_bool))
            saved = dict(self.env)
            a = self.block(s.body, ret_bool)
            self.env = dict(saved)
            b = self.block(s.orelse if s.orelse else rest, ret_bool)
            if s.orelse and rest:
                bad(s, "statements after if / else")
            return "(if %s then %s else %s)" % (c, a, b)
        if isinstance(s, ast.For) and not s.orelse and isinstance(s.target, ast.Name) and self.is_fields(s.iter):
            accs = sorted({n.target.id for n in ast.walk(s) if isinstance(n, ast.AugAssign) and isinstance(n.target, ast.Name)})
            if len(accs) != 1 or self.env.get(accs[0], ("", ""))[0] != "int":
                bad(s, "loop must update exactly one integer variable")
            acc = accs[0]
            saved = dict(self.env)
            self.env[s.target.id] = ("facts", s.target.id)
            was = self.raises
            self.raises = False
            body = self.loop_body(s.body, acc)
            self.raises = was
            self.env = saved
            return "(let %s := fold_left (fun %s %s => %s) fs %s in %s)" % (acc, acc, s.target.id, body, acc, self.block(rest, ret_bool))
        bad(s, "unsupported statement")

    def loop_body(self, stmts, acc):
        if not stmts:
            return acc
        s, rest = stmts[0], stmts[1:]
        if isinstance(s, ast.AugAssign) and isinstance(s.target, ast.Name) and s.target.id == acc and isinstance(s.op, ast.Add):
            return "(let %s := (Z.add %s %s) in %s)" % (acc, acc, self.integer(s.value), self.loop_body(rest, acc))
        if isinstance(s, ast.If) and not s.orelse and len(s.body) == 1 and isinstance(s.body[0], ast.AugAssign) \
                and isinstance(s.body[0].target, ast.Name) and s.body[0].target.id == acc and isinstance(s.body[0].op, ast.Add):
            return "(let %s := (if %s then (Z.add %s %s) else %s) in %s)" % (
                acc, self.boolean(s.test), acc, self.integer(s.body[0].value), acc, self.loop_body(rest, acc))
        bad(s, "unsupported loop statement")

    def emit(self, name):
        ret_bool = self.fn.name == "is_fixed_byte_length"
        self.raises = any(isinstance(n, ast.Raise) for n in ast.walk(self.fn))
        if [a.arg for a in self.fn.args.args] != ["cls"]:
            bad(self.fn, "unexpected parameters")
        body = self.block(self.fn.body, ret_bool)
        ty = "bool" if ret_bool else ("result Z" if self.raises else "Z")
        return "Definition %s %s : %s :=\n  %s.\n" % (name, PARAMS[self.kind][0], ty, body)


PARAMS = {"seq": ("(e : facts) (n : Z)", "e n"), "lim": ("(n : Z)", "n"), "cont": ("(fs : list facts)", "fs"),
          "union": ("(opts : list (option facts))", "opts"), "fixed": ("(tbl0 : Z)", "tbl0")}
# (file, class, kind, methods)
PLAN = [("core.py", "FixedByteLengthViewHelper", "fixed", ["is_fixed_byte_length", "min_byte_length", "max_byte_length"]),
        ("complex.py", "List", "seq", ["is_fixed_byte_length", "min_byte_length", "max_byte_length"]),
        ("complex.py", "Vector", "seq", ["is_fixed_byte_length", "min_byte_length", "max_byte_length"]),
        ("complex.py", "Container", "cont", ["is_fixed_byte_length", "min_byte_length", "max_byte_length", "type_byte_length"]),
        ("bitfields.py", "Bitlist", "lim", ["is_fixed_byte_length", "min_byte_length", "max_byte_length"]),
        ("bitfields.py", "Bitvector", "lim", ["type_byte_length"]),
        ("byte_arrays.py", "ByteList", "lim", ["is_fixed_byte_length", "min_byte_length", "max_byte_length"]),
        ("union.py", "Union", "union", ["is_fixed_byte_length", "min_byte_length", "max_byte_length"])]


def classes(tree):
    return {n.name: n for n in ast.walk(tree) if isinstance(n, ast.ClassDef)}


def methods(cls):
    return {n.name: n for n in cls.body if isinstance(n, ast.FunctionDef)}


def const_return(fn):
    real = [s for s in fn.body if not (isinstance(s, ast.Expr) and isinstance(s.value, ast.Constant))]
    if len(real) == 1 and isinstance(real[0], ast.Return) and isinstance(real[0].value, ast.Constant) \
            and isinstance(real[0].value.value, int) and not isinstance(real[0].value.value, bool):
        return real[0].value.value
    bad(fn, "expected `return <int literal>`")


def translate(pkg):
    trees = {f: ast.parse(open(os.path.join(pkg, f)).read()) for f in ("core.py", "complex.py", "bitfields.py", "byte_arrays.py", "union.py", "basic.py")}
    offs = [n for n in trees["core.py"].body if isinstance(n, ast.Assign) and len(n.targets) == 1 and isinstance(n.targets[0], ast.Name)
            and n.targets[0].id == "OFFSET_BYTE_LENGTH"]
    if len(offs) != 1 or not isinstance(offs[0].value, ast.Constant) or not isinstance(offs[0].value.value, int):
        raise Untranslatable("OFFSET_BYTE_LENGTH is not a literal in core.py")
    offset = offs[0].value.value
    out = ["(* GENERATED from remerkleable/{core,complex,bitfields,byte_arrays,union,basic}.py by harness/translate_facts.py on every run — do not edit *)",
           "Require Import RM.Base RMT.PyInt.", "From Coq Require Import List.", "Local Open Scope Z_scope.", "",
           "Definition t_OFFSET_BYTE_LENGTH : Z := %d." % offset, ""]
    for f, cname, kind, ms in PLAN:
        cs = classes(trees[f])
        if cname not in cs:
            raise Untranslatable("class %s not found in %s" % (cname, f))
        have = methods(cs[cname])
        sib = {}
        # a size method defined on the class but not in the plan would go unseen: refuse
        for extra in ("is_fixed_byte_length", "min_byte_length", "max_byte_length", "type_byte_length"):
            if extra in have and extra not in ms:
                raise Untranslatable("%s.%s exists but is not in the translation plan" % (cname, extra))
        order = sorted(ms, key=lambda m: 1 if m == "type_byte_length" and cname == "Container" else 0)
        for mname in order:
            if mname not in have:
                raise Untranslatable("%s.%s not found" % (cname, mname))
            name = "t_%s_%s" % (cname, mname)
            out.append("(* %s:%d %s.%s *)" % (f, have[mname].lineno, cname, mname))
            out.append(M(cname, have[mname], kind, offset, sib).emit(name))
            sib[mname] = name
    # the pre-computed override for vectors of fixed-size elements (Vector.__class_getitem__)
    vec = methods(classes(trees["complex.py"])["Vector"])
    if "__class_getitem__" not in vec:
        raise Untranslatable("Vector.__class_getitem__ not found")
    g = vec["__class_getitem__"]
    ifs = [n for n in ast.walk(g) if isinstance(n, ast.If) and isinstance(n.test, ast.Call) and isinstance(n.test.func, ast.Attribute)
           and n.test.func.attr == "is_fixed_byte_length" and isinstance(n.test.func.value, ast.Name) and n.test.func.value.id == "element_view_cls"]
    if len(ifs) != 1:
        raise Untranslatable("the fixed-size override of Vector.__class_getitem__ was not found exactly once")
    body = ifs[0].body
    asg = [s for s in body if isinstance(s, ast.Assign) and isinstance(s.targets[0], ast.Name) and s.targets[0].id == "byte_length"]
    others = [s for s in body if isinstance(s, ast.Assign) and s not in asg]
    if not (len(others) == 1 and isinstance(others[0].targets[0], ast.Name) and others[0].targets[0].id == "out_typ"):
        raise Untranslatable("unexpected statements in the fixed-size override")
    cds = [s for s in body if isinstance(s, ast.ClassDef)]
    if len(asg) != 1 or len(cds) != 1 or not (isinstance(asg[0].targets[0], ast.Name) and asg[0].targets[0].id == "byte_length"):
        raise Untranslatable("unexpected shape of the fixed-size override")
    v = asg[0].value
    ok = isinstance(v, ast.BinOp) and isinstance(v.op, ast.Mult) and isinstance(v.left, ast.Call) and isinstance(v.left.func, ast.Attribute) \
        and v.left.func.attr == "type_byte_length" and isinstance(v.left.func.value, ast.Name) and v.left.func.value.id == "element_view_cls" \
        and isinstance(v.right, ast.Name) and v.right.id == "length"
    if not ok:
        bad(asg[0], "unexpected byte_length expression")
    om = methods(cds[0])
    if sorted(om) != ["max_byte_length", "min_byte_length", "type_byte_length"]:
        raise Untranslatable("unexpected methods in the fixed-size override: %s" % sorted(om))
    for k, fn in om.items():
        real = [s for s in fn.body if not (isinstance(s, ast.Expr) and isinstance(s.value, ast.Constant))]
        if not (len(real) == 1 and isinstance(real[0], ast.Return) and isinstance(real[0].value, ast.Name) and real[0].value.id == "byte_length"):
            bad(fn, "override method does not return byte_length")
    out.append("(* complex.py:%d Vector.__class_getitem__: sizes pre-computed when the element type is fixed-size *)" % ifs[0].lineno)
    out.append("Definition t_FixedVector_byte_length (e_tbl : Z) (n : Z) : Z :=\n  (Z.mul e_tbl n).\n")
    # basic types: type_byte_length literals
    bc = classes(trees["basic.py"])
    sizes = []
    for cname in ("boolean", "uint8", "uint16", "uint32", "uint64", "uint128", "uint256"):
        if cname not in bc or "type_byte_length" not in methods(bc[cname]):
            raise Untranslatable("basic.py: %s.type_byte_length not found" % cname)
        sizes.append((cname, const_return(methods(bc[cname])["type_byte_length"])))
    for cname, k in sizes:
        out.append("Definition t_%s_type_byte_length : Z := %d." % (cname, k))
    return "\n".join(out) + "\n"


if __name__ == "__main__":
    try:
        sys.stdout.write(translate(sys.argv[1]))
    except Untranslatable as ex:
        sys.stderr.write("UNTRANSLATABLE: %s\n" % ex)
        sys.exit(2)
