import argparse, importlib, os, sys
sys.path.insert(0, os.path.dirname(os.path.abspath(__file__)))
sys.setrecursionlimit(10000)
import lib

ap = argparse.ArgumentParser()
ap.add_argument("prop")
ap.add_argument("--tier", default=os.environ.get("VERIF_TIER", "quick"))
ap.add_argument("--replay")
a = ap.parse_args()
seed = int(os.environ.get("VERIF_SEED", "1"))
mod = importlib.import_module("props." + a.prop.lower())
sys.exit(lib.main(mod, a.prop, a.tier, seed, a.replay))
