import argparse, importlib, os, sys, traceback
sys.path.insert(0, os.path.dirname(os.path.abspath(__file__)))
sys.setrecursionlimit(10000)
import lib

ap = argparse.ArgumentParser()
ap.add_argument("prop")
ap.add_argument("--tier", default=os.environ.get("VERIF_TIER", "quick"))
ap.add_argument("--replay")
a = ap.parse_args()
seed = int(os.environ.get("VERIF_SEED", "1"))
try:
    mod = importlib.import_module("props." + a.prop.lower())
    rc = lib.main(mod, a.prop, a.tier, seed, a.replay)
except (KeyboardInterrupt, SystemExit):
    raise
except BaseException:  # noqa
    # fail closed: the check itself could not run to the end on this tree (the implementation raised where the harness
    # relies on it, e.g. while importing or setting up).  The property is not shown to hold.
    tb = traceback.format_exc()
    sys.stderr.write(tb)
    path = lib.write_replay(a.prop, {"property": a.prop, "broken": "the check could not run to the end on this tree",
                                     "detail": tb[-3000:]})
    print("VIOLATION property=%s replay=%s no-failing-input-found" % (a.prop, path))
    rc = 1
sys.exit(rc)
