"""C06 — backings are persistent: snapshots and copies never change."""
from hist import *  # noqa

THEOREMS = ["C06_heap_frame", "C06_setter_extends", "C06_root_frame", "C06_copy_isolated", "C06_copy_has_no_hook", "C06_only_the_chain_changes", "C06_forest_copy", "C06_off_trail_value_kept"]
PARTIAL = ["C06_only_the_chain_changes covers commands through hooked views with a VALID hook chain (any depth): only the cells of that chain change, so never the view a copy was taken from; for stale chains (slot popped away / union switched) the model theorem does not apply and the claim rests on the correspondence and the snapshot oracle; node-level immutability is C06_heap_frame"]
COQ_IMPORTS = ["RM.Types", "RM.ModelStore", "RMR.RunH"]
COQ_FN = "RunH.run"
COQ_CASE_TY = "RunH.case"
CASE_TIMEOUT = 60
SHARD = 20
RULE = ("mutable types x histories with copy() taken at random points (copies are held views: compared with the model "
        "after every command) and get_backing() snapshots taken before every command; at the end every snapshot node is "
        "re-read (root recomputed from scratch by walking the tree, encoding through a fresh view, child identity) and "
        "must equal what it was when taken — also after summarize_into / setter / getter calls made directly on the final, "
        "hashed backing; the history is also replayed with nothing hashed on the way (unhashed snapshots re-read at the end); non-trivial = >= 2 mutations after the first snapshot")


def gen_inputs(ctx):
    rng = ctx.rng
    n = 900 if ctx.thorough else 200
    for i in range(n):
        t = MUTABLE_TOP[i % len(MUTABLE_TOP)]
        yield gen_history(rng, t, rng.randrange(4, 22), p_child=0.2, p_copy=0.15)


def fresh_root(n):
    """root recomputed without trusting any cache"""
    import hashlib
    if n.is_leaf():
        return bytes(n.merkle_root())
    return hashlib.sha256(fresh_root(n.get_left()) + fresh_root(n.get_right())).digest()


def shape(n, depth=0):
    """identity structure of a tree: (id, children...)"""
    if n.is_leaf() or depth > 12:
        return (id(n), bytes(n.merkle_root()))
    return (id(n), shape(n.get_left(), depth + 1), shape(n.get_right(), depth + 1))


def build(inp):
    coq, obs, st = execute(inp)
    names = ["P:initial"] + ["P:step%d" % (i + 1) for i in range(len(inp["cmds"]))]
    c = Case(inp, coq, obs, names, nontrivial=len([x for x in inp["cmds"] if x[0] not in ("get", "value", "copy")]) >= 2,
             kind=inp["t"][0])
    # snapshots (model-free): taken before each command from every held backed view
    c.why = None
    sh = Shadow(inp["t"], inp["v"])
    snaps = []
    for k, cmd in enumerate(inp["cmds"]):
        for vi, x in enumerate(sh.views):
            if hasattr(x, "_backing") and len(snaps) < 40:
                nd = x.get_backing()
                snaps.append((k, vi, sh.types[vi], nd, bytes(nd.merkle_root()), fresh_root(nd), shape(nd),
                              attempt(lambda: bytes(T(sh.types[vi]).view_from_backing(nd).encode_bytes()), anyerr=True)))
        try:
            sh.run(cmd)
        except Exception:
            pass
    # the tree API itself (model-free): summaries and writes made FROM an already hashed backing that other holders share
    # return new trees and leave the receiver as it was
    try:
        from remerkleable.tree import RootNode, zero_node
        top = sh.views[0]
        if hasattr(top, "_backing"):
            nd = top.get_backing()
            snaps.append((len(inp["cmds"]), 0, sh.types[0], nd, bytes(nd.merkle_root()), fresh_root(nd), shape(nd),
                          attempt(lambda: bytes(T(sh.types[0]).view_from_backing(nd).encode_bytes()), anyerr=True)))
            pos, frontier = [], [(1, nd)]
            for _ in range(6):
                nxt = []
                for g, n_ in frontier:
                    if not n_.is_leaf():
                        nxt += [(2 * g, n_.get_left()), (2 * g + 1, n_.get_right())]
                pos += [g for g, _ in nxt]
                frontier = nxt[:16]
            seedv = len(json.dumps(inp["cmds"]))
            for j in range(min(len(pos), 8)):
                g = pos[(seedv * 7 + j * 5) % len(pos)]
                attempt(lambda: nd.summarize_into(g)(), anyerr=True)
                attempt(lambda: nd.setter(g)(RootNode(b"\x11" * 32)), anyerr=True)
                attempt(lambda: nd.setter(g, True)(zero_node(0)), anyerr=True)
                attempt(lambda: nd.getter(g).merkle_root(), anyerr=True)
    except Exception:  # noqa
        pass
    # unobserved replay (model-free): the same history with NOTHING hashed on the way — no view, no snapshot has a cached
    # root while the commands run (shortcuts that write into nodes "nobody has hashed yet" only show then)
    try:
        sh2 = Shadow(inp["t"], inp["v"])
        snaps2 = []
        for k, cmd in enumerate(inp["cmds"]):
            for vi, x in enumerate(sh2.views):
                if hasattr(x, "_backing") and len(snaps2) < 40:
                    nd = x.get_backing()
                    snaps2.append((k, vi, nd, fresh_root(nd), shape(nd)))
            try:
                sh2.run(cmd)
            except Exception:
                pass
        for (k, vi, nd, fr0, sh0) in snaps2:
            if fresh_root(nd) != fr0 and c.why is None:
                c.why = "unhashed snapshot of view %d taken before command %d changed its root (history run without hashing anything)" % (vi, k + 1)
            elif shape(nd) != sh0 and c.why is None:
                c.why = "unhashed snapshot of view %d taken before command %d had a child replaced in place" % (vi, k + 1)
    except Exception:  # noqa
        pass
    for (k, vi, ty, nd, r0, fr0, sh0, enc0) in snaps:
        if bytes(nd.merkle_root()) != r0 or fresh_root(nd) != fr0:
            c.why = "snapshot of view %d taken before command %d changed its root" % (vi, k + 1)
        elif shape(nd) != sh0:
            c.why = "snapshot of view %d taken before command %d had a child replaced in place" % (vi, k + 1)
        elif attempt(lambda: bytes(T(ty).view_from_backing(nd).encode_bytes()), anyerr=True) != enc0:
            c.why = "snapshot of view %d taken before command %d decodes differently now" % (vi, k + 1)
        if c.why:
            break
    return c


def direct_violation(c):
    return c.why


shrink = shrink_history
