"""C09 — decoding arbitrary bytes is safe: clean rejection or a well-formed value."""
from decfam import *  # noqa

THEOREMS = ["C09_sound", "C09_stable", "C09_total", "C09_uint_stable", "C09_bool_sound"]
PARTIAL = ["C09_sound / C09_stable are full statements about the decoder model for every type (accepted => well-formed value, constructor backing, consistent root / encoding / length, stable), under scope <= available bytes (decode_bytes always) and, for the re-decoding step, encodings shorter than 2^32 bytes; `ordinary exception` vs. crash, Python-level readability of every element and the exception classes are runtime facts covered by the correspondence + model-free oracles (readability, limits, content / root / encoding consistency, encode-decode stability) on random, exhaustive-short and corrupted inputs"]
COQ_IMPORTS = ["RM.Types", "RMR.RunV"]
COQ_FN = "RunV.run_dec"
COQ_CASE_TY = "(ty * bytes)"
# accept/reject is the subject of C10/C03; here it only ties the model to the code (M).  The decoded value's
# root / encoding / reported length / second decode (P) are compared whenever both sides accept.
NAMES = ["M:accepted", "P:decoded_value"]
HANG_IS_VIOLATION = True
RULE = ("same input space as C10 with a different seed stream; verdict: termination, ordinary exception or a value "
        "whose invariants hold (limits, ranges, selector, every element readable) and whose root, encoding, reported "
        "length and re-decoding agree; non-trivial = accepted by the implementation or longer than 1 byte")


def gen_inputs(ctx):
    return gen_tb(ctx, 4000 if ctx.thorough else 900, 25 if ctx.thorough else 6)


def build(inp):
    t, b = inp["t"], bytes.fromhex(inp["b"])
    obs, x = observe_decode(t, b)
    c = Case(inp, "(%s, %s)" % (ty_coq(t), cbytes(b)), obs, NAMES, nontrivial=(obs[0] or len(b) > 1),
             kind=("accepted" if obs[0] else "rejected"))
    c.why = None
    if x is not None:
        root, se, re = obs[1]
        try:
            readable(t, x)
        except Exception as e:
            c.why = "decoded value is not fully readable / violates a type invariant: %r" % (e,)
        if c.why is None:
            # content (read element by element) vs root / encoding: a fresh value with that content must agree
            try:
                fresh = to_py(t, content_of(t, x))
                if fresh.hash_tree_root() != root:
                    c.why = "decoded value's root differs from a fresh value with the same element-wise content"
                elif not isinstance(se, E) and bytes(fresh.encode_bytes()) != se[0]:
                    c.why = "decoded value's encoding differs from a fresh value with the same element-wise content"
            except Exception as e:
                c.why = "decoded value's content cannot be rebuilt into a value: %r" % (e,)
        if c.why is None:
            if isinstance(root, E) or isinstance(se, E) or isinstance(re, E):
                c.why = "decoded value cannot be hashed / re-encoded / re-decoded"
            elif re != root:
                c.why = "root changes under a further encode/decode cycle"
            elif se[1] != len(se[0]) or attempt(lambda: int(x.value_byte_length()), anyerr=True) != len(se[0]):
                c.why = "reported byte length differs from the encoding's length"
            else:
                C = T(t)
                if not (C.min_byte_length() <= len(se[0]) <= C.max_byte_length()):
                    c.why = "encoding length outside the type's bounds"
    return c


def direct_violation(c):
    return c.why


def refine_diff(c, model, diff):
    """when model and implementation disagree on acceptance, the decoded-value observation is not comparable"""
    if isinstance(model, list) and model and model[0] != c.obs[0]:
        return ["M:accepted"]
    return diff
