"""C07 — tree read/write by generalized index obeys get/set laws."""
from lib import *  # noqa
from trees import *  # noqa

THEOREMS = ["C07_set_get_same", "C07_set_get_other", "C07_set_get_other_inv", "C07_set_noexpand_ok",
            "C07_errors_are_navigation", "C07_nonzero_leaf_never_discarded", "C07_expand_zero",
            "C07_summarize", "C07_gindex_below_one"]
COQ_IMPORTS = ["RMR.RunC07"]
COQ_FN = "RunC07.run"
COQ_CASE_TY = "RunC07.case"
RULE = ("trees over the leaf alphabet {zero chunk, zero summaries Z(0..3), two non-zero chunks} (random shapes; "
        "all shapes of depth<=2 in the thorough tier) x gindex (0, all small ones, deep random ones) x expand on/off "
        "x replacement node; plus built all-zero subtrees (pairs whose root is a zero hash) of height 1-4 hung below "
        "other siblings with the target inside them; plus pair trees holding lazily loaded (virtual, childless) leaves, zero-rooted "
        "ones included; non-trivial = gindex >= 2 and the tree is not a single leaf; distinct by input JSON")
EXHAUSTIVE = {"quick": False, "thorough": False}
NAMES = ["P:get", "P:set", "P:set_probes", "P:orig_untouched", "P:summarize"]
LEAVES = [["Z", 0], ["Z", 1], ["Z", 2], ["Z", 3], chunk(7), chunk(9)]
REPL = [chunk(0xaa), ["P", chunk(0xbb), chunk(0xcc)], ["Z", 0], ["Z", 1]]


def probes_for(g):
    ps = set(range(1, 16)) | {g, g ^ 1, g >> 1, 2 * g, 2 * g + 1, g >> 2}
    return sorted(p for p in ps if p >= 1)


def gen_inputs(ctx):
    rng = ctx.rng
    if ctx.thorough:
        for t in all_trees(2, LEAVES):
            for g in list(range(0, 32)):
                for e in (False, True):
                    yield {"tree": t, "g": g, "expand": e, "v": REPL[(g + len(str(t))) % len(REPL)]}
    n = 6000 if ctx.thorough else 1500
    for _ in range(n):
        t = rand_tree(rng, rng.choice([1, 2, 3, 3, 4, 5]), LEAVES)
        r = rng.random()
        if r < 0.05:
            g = 0
        elif r < 0.75:
            g = rng.randrange(1, 2 << (tree_depth(t) + 1))
        else:
            g = rng.getrandbits(rng.choice([6, 10, 20, 40])) | 1 << rng.choice([5, 9, 19, 39])
        yield {"tree": t, "g": g, "expand": rng.random() < 0.5, "v": rng.choice(REPL)}
    # deep sparse trees: a zero summary of exactly the right height somewhere on a long path
    for _ in range(300 if ctx.thorough else 60):
        d = rng.choice([8, 17, 33, 40])
        g = (1 << d) | rng.getrandbits(d)
        bits = [(g >> (d - 1 - i)) & 1 for i in range(d)]
        k = rng.randrange(0, d)            # the leaf sits after k steps
        off = rng.choice([0, 0, 0, 1])     # 1: wrong height -> must fail
        t = ["Z", min(d - k + off, 60)]
        for i in reversed(range(k)):
            sib = rng.choice([chunk(5), ["Z", rng.randrange(0, 4)]])
            t = ["P", sib, t] if bits[i] else ["P", t, sib]
        yield {"tree": t, "g": g, "expand": rng.random() < 0.8, "v": rng.choice(REPL)}
    yield from gen_zero_built(ctx)
    # lazily loaded leaves (VirtualNode whose source knows no children) inside ordinary pair trees: they are leaves like
    # any other — navigation below them fails, a zero-rooted one on the path of an expanding write is expanded
    vleaves = LEAVES + [["V", chunk(7)[1]], ["V", chunk(9)[1]], ["VZ", 0], ["VZ", 1], ["VZ", 2], ["VZ", 3]] * 2
    for _ in range(1500 if ctx.thorough else 300):
        t = rand_tree(rng, rng.choice([1, 2, 3, 3, 4]), vleaves)
        if t[0] != "P":
            continue                      # a virtual node at the very top is C20's subject
        d = tree_depth(t)
        g = rng.randrange(1, 2 << (d + 2)) if rng.random() < 0.7 else (1 << rng.choice([3, 5, 8])) | rng.getrandbits(3)
        yield {"tree": t, "g": g, "expand": rng.random() < 0.6, "v": rng.choice(REPL)}


def zero_built(rng, h, force=True):
    """an all-zero subtree of height h with some of it actually built out of pairs (its root is the zero hash of
    height h although it is not a leaf)"""
    if h == 0 or (not force and rng.random() < 0.4):
        return ["Z", h]
    return ["P", zero_built(rng, h - 1, rng.random() < 0.5), zero_built(rng, h - 1, False)] if rng.random() < 0.5 else \
           ["P", zero_built(rng, h - 1, False), zero_built(rng, h - 1, rng.random() < 0.5)]


def gen_zero_built(ctx):
    """writes whose path runs through a BUILT all-zero subtree: it must be walked like any other pair, its
    off-path parts kept as they are"""
    rng = ctx.rng
    for _ in range(1200 if ctx.thorough else 250):
        h = rng.choice([1, 2, 2, 3, 3, 4])
        t = zero_built(rng, h)
        g = 1
        for _ in range(rng.randrange(0, 3)):          # hang it below a few non-zero / other siblings
            sib = rng.choice([chunk(5), ["Z", rng.randrange(0, 4)], ["P", chunk(7), ["Z", 0]]])
            if rng.random() < 0.5:
                t, g = ["P", t, sib], None
            else:
                t, g = ["P", sib, t], None
        # a target inside (or just below) the zero subtree
        d = tree_depth(t)
        g = (1 << d) | rng.getrandbits(d) if rng.random() < 0.8 else rng.randrange(1, 2 << (d + 1))
        g >>= rng.choice([0, 0, 0, 1])
        yield {"tree": t, "g": max(g, 1), "expand": rng.random() < 0.8, "v": rng.choice(REPL)}


def build(inp):
    t, g, e, v = inp["tree"], inp["g"], inp["expand"], inp["v"]
    n = tree_py(t)
    vn = tree_py(v)
    probes = probes_for(g)
    if (g + len(json.dumps(t))) % 2 == 0:
        n.merkle_root()          # every pair of the receiver has its root cached: writes must still not touch it

    def rootof(f):
        return attempt(lambda: f().merkle_root())
    o_get = rootof(lambda: n.getter(g))
    # expand off is requested the way callers do it: half of the time by leaving the argument out (its default)
    if not e and (g + len(json.dumps(v))) % 2 == 0:
        res = attempt(lambda: n.setter(g)(vn))
    elif e and (g + len(json.dumps(v))) % 2 == 0:
        res = attempt(lambda: n.setter(g, expand=True)(vn))
    else:
        res = attempt(lambda: n.setter(g, e)(vn))
    if isinstance(res, E):
        o_set, o_probes = res, []
    else:
        o_set = res.merkle_root()
        same = attempt(lambda: res.getter(g) is vn)
        o_probes = [same] + [rootof(lambda q=q: res.getter(q)) for q in probes]
    sm = attempt(lambda: n.summarize_into(g)())
    o_orig = tree_same(n, t)     # after the write AND the summary: the receiver is structurally what it was
    if isinstance(sm, E):
        o_sum = sm
    else:
        x = attempt(lambda: sm.getter(g))
        o_sum = [sm.merkle_root(), x if isinstance(x, E) else [x.is_leaf(), x.merkle_root()]]
    coq = "(%s, %s, %s, %s, %s)" % (tree_coq(t), cN(g), cbool(e), tree_coq(v), clist(cN(q) for q in probes))
    return Case(inp, coq, [o_get, o_set, o_probes, o_orig, o_sum], NAMES,
                nontrivial=(g >= 2 and t[0] == "P"), kind="expand" if e else "plain")


def shrink(inp):
    t, g = inp["tree"], inp["g"]

    def subs(t):
        """trees with one pair replaced by one of its children or by a leaf"""
        if t[0] != "P":
            return
        yield t[1]
        yield t[2]
        for lf in (["Z", 0], chunk(7)):
            yield lf
        for a in subs(t[1]):
            yield ["P", a, t[2]]
        for b in subs(t[2]):
            yield ["P", t[1], b]
    if g > 3:
        for g2 in (g >> 1, (1 << (g.bit_length() - 2)) | (g & ((1 << (g.bit_length() - 2)) - 1))):
            yield dict(inp, g=g2)
    for t2 in subs(t):
        yield dict(inp, tree=t2)
    if inp["v"] != chunk(0xaa):
        yield dict(inp, v=chunk(0xaa))
