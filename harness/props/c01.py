"""C01 — hash_tree_root equals SSZ-spec merkleization, whatever the construction route."""
import io
from vfam import *  # noqa

THEOREMS = ["C01_constructor", "C01_fill_contents", "C01_fill_length", "C01_any_representation", "C01_get_depth", "C01_decode_route", "C01_decode_any", "C01_any_repr_root", "C01_import_route", "C01_default_route", "C01_mutation_route"]
PARTIAL = ["the model theorems cover every route the property lists: constructor (C01_constructor), decoding (C01_decode_route / C01_decode_any), object import (C01_import_route), default (C01_default_route), mutation (C01_mutation_route, with C05_cmd_on_chain for enclosing views); what is not a theorem is that the Python classes compute what the model computes (correspondence: five routes per value) and type expressions outside wf_ty (limits >= 2^64, empty containers)"]
# second tie: the tree builders of remerkleable/tree.py (every composite value and every default is built by them) are
# TRANSLATED on every run (harness/translate_fill.py, fail-closed) and proved equal to the model's (coq/trans/FillEq.v)
TRANSLATED = {"translator": "translate_fill", "source": "remerkleable/tree.py", "gen": "FillGen.v", "proofs": "FillEq.v",
              "theorems": ["eq_fill_to_depth", "eq_fill_to_length", "eq_fill_to_contents"]}
COQ_IMPORTS = ["RM.Types", "RMR.RunV"]
COQ_FN = "RunV.run_c01"
COQ_CASE_TY = "(ty * val)"
NAMES = ["P:root_constructor", "P:root_decoded", "P:root_from_obj", "P:root_default_then_mutated", "P:root_default_sparsely_mutated"]
RULE = ("random type expressions (10 kinds, nesting <= 3, lengths/limits from chunk / power-of-two boundary sets, up "
        "to 2^40) x random values (boundary lengths, all-zero/all-one/random content) x routes {constructor, "
        "decode_bytes(encode_bytes), from_obj(to_obj), default mutated element by element into the value (every third "
        "element / field handed over as a view of another class with the same content), default with "
        "only the NON-ZERO fields / elements / bits assigned (zero sub-values keep their default backing)}; "
        "non-trivial = composite type and non-zero value")


def gen_inputs(ctx):
    return gen_tv(ctx, 1500 if ctx.thorough else 350)


def stale_poke(t, x):
    """some mutation through view x of type t"""
    k = t[0]
    if k == "cont":
        f = t[1][0]
        setattr(x, "f0", to_py(f, gen_nonzero(f)))
    elif k == "list":
        if len(x) < t[2]:
            x.append(to_py(t[1], gen_nonzero(t[1])))
        elif len(x):
            x.pop()
    elif k == "vec":
        x[0] = to_py(t[1], gen_nonzero(t[1]))
    elif k == "bitlist":
        if len(x) < t[1]:
            x.append(True)
        elif len(x):
            x.pop()
    elif k == "bitvec":
        x[0] = not bool(x[0])
    elif k == "union":
        o = union_opt(t, 0)
        x.change(selector=0, value=None if o is None else to_py(o, gen_nonzero(o)))


def gen_nonzero(t):
    """a fixed non-default value of type t"""
    k = t[0]
    if k == "uint":
        return 1
    if k == "bool":
        return True
    if k == "bitvec":
        return "1" * t[1]
    if k == "bitlist":
        return "1" * min(t[1], 3)
    if k == "bytevec":
        return "ab" * t[1]
    if k == "bytelist":
        return "ab" * min(t[1], 3)
    if k == "vec":
        return [gen_nonzero(t[1]) for _ in range(t[2])]
    if k == "list":
        return [gen_nonzero(t[1]) for _ in range(min(t[2], 2))]
    if k == "cont":
        return [gen_nonzero(f) for f in t[1]]
    if k == "union":
        n = union_count(t)
        sel = n - 1
        o = union_opt(t, sel)
        return [sel, None if o is None else gen_nonzero(o)]
    raise ValueError(t)


def mutate_into(t, v):
    """start from the default value and mutate it, element by element, into v"""
    C = T(t)
    k = t[0]
    x = C.default(None) if is_basic(t) else C()
    if is_basic(t) or k in ("bytevec", "bytelist"):
        return to_py(t, v)
    if k == "bitvec":
        for i, c in enumerate(v):
            x[i] = (c == "1")
    elif k == "bitlist":
        for c in v:
            x.append(c == "1")
        if len(v) < t[1]:                 # one more than needed, popped again
            x.append(True)
            x.pop()
    elif k == "vec":
        for i, e in enumerate(v):
            x[i] = mutate_into(t[1], e) if i % 3 != 1 else to_py_alt(t[1], e)
    elif k == "list":
        # every third element arrives as a view of ANOTHER class with the same content (larger limit, list for
        # vector, a second container class): append / assignment coerce it to the element type
        for i, e in enumerate(v):
            x.append(mutate_into(t[1], e) if i % 3 != 0 else to_py_alt(t[1], e))
        if len(v) < t[2]:                 # one more than needed (a non-default element where there is one), popped again
            x.append(mutate_into(t[1], v[-1]) if v else T(t[1]).default(None) if is_basic(t[1]) else T(t[1])())
            stale = x[len(x) - 1] if not is_basic(t[1]) and t[1][0] not in ("bytevec", "bytelist") else None
            x.pop()
            if stale is not None:
                # a write through the child view of the popped element must not reach the list any more
                try:
                    stale_poke(t[1], stale)
                except Exception:
                    pass
    elif k == "cont":
        for i, (f, e) in enumerate(zip(t[1], v)):
            setattr(x, "f%d" % i, mutate_into(f, e) if i % 3 != 2 else to_py_alt(f, e))
    elif k == "union":
        sel, e = v
        o = union_opt(t, sel)
        x.change(selector=sel, value=None if o is None else mutate_into(o, e))
    return x


def mutate_sparse(t, v):
    """start from the default value and assign only what differs from the zero value: every zero field / element /
    union value keeps the backing that default_node() built for it"""
    C = T(t)
    k = t[0]
    if is_basic(t) or k in ("bytevec", "bytelist"):
        return to_py(t, v)
    x = C()
    if k == "bitvec":
        for i, c in enumerate(v):
            if c == "1":
                x[i] = True
    elif k == "bitlist":
        for c in v:
            x.append(c == "1")
    elif k == "vec":
        for i, e in enumerate(v):
            if e != zero_value(t[1]):
                x[i] = mutate_sparse(t[1], e)
    elif k == "list":
        for e in v:
            x.append(mutate_sparse(t[1], e))
    elif k == "cont":
        for i, (f, e) in enumerate(zip(t[1], v)):
            if e != zero_value(f):
                setattr(x, "f%d" % i, mutate_sparse(f, e))
    elif k == "union":
        if v != zero_value(t):
            sel, e = v
            o = union_opt(t, sel)
            x.change(selector=sel, value=None if o is None else mutate_sparse(o, e))
    return x


def build(inp):
    t, v = inp["t"], inp["v"]
    C = T(t)
    x = attempt(lambda: to_py(t, v), anyerr=True)
    if isinstance(x, E):
        obs = [x, x, x, x, x]
    else:
        r1 = attempt(lambda: x.hash_tree_root(), anyerr=True)
        if is_basic(t):
            def dec():
                enc = x.encode_bytes()
                return C.deserialize(io.BytesIO(enc), len(enc)).hash_tree_root()
        else:
            def dec():
                return C.decode_bytes(x.encode_bytes()).hash_tree_root()
        r2 = attempt(dec, anyerr=True)
        r3 = attempt(lambda: C.from_obj(x.to_obj()).hash_tree_root(), anyerr=True)
        r4 = attempt(lambda: mutate_into(t, v).hash_tree_root(), anyerr=True)
        r5 = attempt(lambda: mutate_sparse(t, v).hash_tree_root(), anyerr=True)
        obs = [r1, r2, r3, r4, r5]
    return Case(inp, "(%s, %s)" % (ty_coq(t), val_coq(t, v)), obs, NAMES, nontrivial=nontrivial_tv(t, v), kind=t[0])
