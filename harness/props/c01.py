"""C01 — hash_tree_root equals SSZ-spec merkleization, whatever the construction route."""
import io
from vfam import *  # noqa

THEOREMS = ["C01_constructor", "C01_fill_contents", "C01_fill_length", "C01_any_representation", "C01_get_depth"]
PARTIAL = ["C01_any_route for decoded / imported / mutated values follows from C03 / C16 / C04 producing the same backing content; proved here for the constructor route and for every CRep representation, tied for the other routes by the correspondence (root_decoded, root_from_obj)"]
COQ_IMPORTS = ["RM.Types", "RMR.RunV"]
COQ_FN = "RunV.run_c01"
COQ_CASE_TY = "(ty * val)"
NAMES = ["P:root_constructor", "P:root_decoded", "P:root_from_obj"]
RULE = ("random type expressions (10 kinds, nesting <= 3, lengths/limits from chunk / power-of-two boundary sets, up "
        "to 2^40) x random values (boundary lengths, all-zero/all-one/random content) x routes {constructor, "
        "decode_bytes(encode_bytes), from_obj(to_obj)}; non-trivial = composite type and non-zero value")


def gen_inputs(ctx):
    return gen_tv(ctx, 1500 if ctx.thorough else 350)


def build(inp):
    t, v = inp["t"], inp["v"]
    C = T(t)
    x = attempt(lambda: to_py(t, v), anyerr=True)
    if isinstance(x, E):
        obs = [x, x, x]
    else:
        r1 = attempt(lambda: x.hash_tree_root(), anyerr=True)
        if is_basic(t):
            def dec():
                enc = x.encode_bytes()
                return C.deserialize(io.BytesIO(enc), len(enc)).hash_tree_root()
        else:
            def dec():
                return C.decode_bytes(x.encode_bytes()).hash_tree_root()
        r2 = attempt(dec, anyerr=True)
        r3 = attempt(lambda: C.from_obj(x.to_obj()).hash_tree_root(), anyerr=True)
        obs = [r1, r2, r3]
    return Case(inp, "(%s, %s)" % (ty_coq(t), val_coq(t, v)), obs, NAMES, nontrivial=nontrivial_tv(t, v), kind=t[0])
