"""C15 — all read paths agree with each other and with equality / hashing."""
from vfam import *  # noqa
from remerkleable.core import BasicView

THEOREMS = ["C15_index_reads_content", "C15_node_iter_agrees_with_indexing", "C15_packed_iter_agrees_with_indexing", "C15_bit_iter_agrees_with_indexing", "C15_list_reads", "C15_eq_iff_root", "C15_hash_consistent", "C15_equal_content_equal", "C15_root_iff_content", "C15_eq_iff_content"]
PARTIAL = ["all three stack iterators (NodeIter, PackedIter, BitfieldIter) are proved equal to indexing for every tree / depth / count (binary-increment invariant + intra-chunk counter incl. the 255->0 wrap); == is root equality and, under collision-freeness of the pair hash (Hinj), exactly content equality for any two representations (C15_root_iff_content, C15_eq_iff_content); that the Python iterators / slicing / __eq__ are these model functions is tied by the correspondence on lengths sweeping every subtree boundary"]
COQ_IMPORTS = ["RM.Types", "RMR.RunC15"]
COQ_FN = "RunC15.run"
COQ_CASE_TY = "RunC15.case"
SHARD = 60
NAMES = ["P:reads", "P:equal"]
SEQS = [["list", ["uint", 8], 1024], ["list", ["uint", 1], 2048], ["vec", ["uint", 2], 17], ["list", ["bool"], 600],
        ["list", ["uint", 32], 40], ["list", ["uint", 16], 33], ["list", ["cont", [["uint", 1], ["uint", 2]]], 70],
        ["list", ["bytevec", 4], 65], ["vec", ["cont", [["uint", 8]]], 5], ["bitlist", 2048], ["bitvec", 513],
        ["bitlist", 512], ["list", ["bitlist", 9], 9], ["vec", ["list", ["uint", 1], 3], 9],
        ["cont", [["uint", 1], ["list", ["uint", 2], 4], ["bitvec", 9], ["bool"], ["bytelist", 7]]],
        ["cont", [["uint", 8]] * 9], ["list", ["union", True, [["uint", 1]]], 17]]
RULE = ("17 sequence / bitfield / container types + random ones x values whose lengths sweep 0..2^d+1 for d<=6 "
        "(thorough: all of them; quick: a sample) so the stack iterators cross every subtree boundary, + random values; "
        "read paths: len, x[i] for every i, in-range slices (all (a, b) for short sequences, else both empty ends, whole, "
        "prefixes, suffixes, omitted bounds and random inner ones), iter(), the same iterator object walked again (after a full walk and "
        "after a walk abandoned part-way), readonly_iter(), container iteration, bit "
        "iteration, to_obj — compared with the model's get and iterator machines and (model-free) with each other; "
        "pairs (equal content via different routes / one-element difference) for == and hash; "
        "non-trivial = length >= 2")


def value_of_len(rng, t, n):
    k = t[0]
    if k in ("bitlist", "bitvec"):
        return gen_bits(rng, n)
    return [gen_value(rng, t[1], cap=3) for _ in range(n)]


def gen_inputs(ctx):
    rng = ctx.rng
    lens = sorted(set(list(range(0, 12)) + [15, 16, 17, 31, 32, 33, 63, 64, 65, 66, 127, 128, 129, 255, 256, 257, 511, 512, 513]))
    for t in SEQS:
        k = t[0]
        if k == "cont":
            for _ in range(6 if ctx.thorough else 2):
                v = gen_value(rng, t)
                yield {"t": t, "v": v, "w": gen_value(rng, t) if rng.random() < 0.5 else v}
            continue
        lim = t[1] if k in ("bitlist", "bitvec") else t[2]
        cand = [lim] if k in ("vec", "bitvec") else [n for n in lens if n <= lim]
        if not ctx.thorough and len(cand) > 9:
            cand = rng.sample(cand, 9)
        for n in cand:
            v = value_of_len(rng, t, n)
            w = v
            r = rng.random()
            if r < 0.4 and n > 0:
                w = list(v) if not isinstance(v, str) else v
                i = rng.randrange(0, n)
                if isinstance(v, str):
                    w = v[:i] + ("0" if v[i] == "1" else "1") + v[i + 1:]
                else:
                    w[i] = gen_value(rng, t[1], cap=3)
            elif r < 0.6:
                w = value_of_len(rng, t, n)
            yield {"t": t, "v": v, "w": w}
    n = 600 if ctx.thorough else 120
    for inp in gen_tv(ctx, n, big_ok=False):
        t = inp["t"]
        if t[0] in ("vec", "list", "bitvec", "bitlist", "cont"):
            inp["w"] = gen_value(rng, t) if rng.random() < 0.6 else inp["v"]
            yield inp


def elem_obs(e, x):
    if is_basic(e):
        return bytes(x.encode_bytes())
    return bytes(x.hash_tree_root())


def slice_bounds(ll, seed):
    """in-range slices: all of them for short sequences, else the edges (empty at both ends, whole, prefixes, suffixes,
    omitted bounds) and a few inner ones"""
    if ll <= 9:
        out = [(a, b) for a in range(ll + 1) for b in range(a, ll + 1)]
    else:
        import random
        r = random.Random(seed)
        out = [(0, 0), (0, 1), (0, ll), (ll, ll), (ll - 1, ll), (1, ll - 1), (ll // 3, ll - ll // 4)]
        out += [tuple(sorted((r.randrange(0, ll + 1), r.randrange(0, ll + 1)))) for _ in range(6)]
    return out + [(None, 0), (None, ll // 2), (ll // 2, None), (None, None), (0, None), (None, ll)]


def slices_disagree(x, idx, conv, seed):
    ll = len(idx)
    for a, b in slice_bounds(ll, seed):
        got = attempt(lambda: [conv(z) for z in x[a:b]], anyerr=True)
        if got != idx[a:b]:
            return "slice [%s:%s] of a sequence of length %d disagrees with indexing" % (
                "" if a is None else a, "" if b is None else b, ll)
    return None


def rewalk_disagrees(mk_iter, idx, conv):
    """the same iterator OBJECT walked again — after a complete walk and after a walk abandoned part-way (the stack
    iterators reset themselves in __iter__) — presents the same content"""
    it = attempt(mk_iter, anyerr=True)
    if isinstance(it, E) or not hasattr(it, "__iter__") or iter(it) is not it:
        return None
    first = attempt(lambda: [conv(z) for z in it], anyerr=True)
    if first != idx:
        return None          # reported by the single-walk comparison
    again = attempt(lambda: [conv(z) for z in it], anyerr=True)
    if again != idx:
        return "walking the same read-only iterator a second time presents other content"
    stop = (2 * len(idx)) // 3
    if stop:
        def partial_then_full():
            k = 0
            for _ in it:
                k += 1
                if k == stop:
                    break
            return [conv(z) for z in it]
        third = attempt(partial_then_full, anyerr=True)
        if third != idx:
            return "re-walking a read-only iterator abandoned after %d elements presents other content" % stop
    return None


def union_export_disagrees(x, t, depth=0):
    """object export of every union inside the value agrees with its selector() and value() (walks fields / elements)"""
    k = t[0]
    try:
        if k == "union":
            ob = x.to_obj()
            val = x.value()
            if ob.get("selector") != int(x.selector()):
                return "to_obj() of a union reports another selector than selector()"
            if (ob.get("value") is None) != (val is None):
                return "to_obj() of a union reports value None although value() is %r" % (val,)
            if val is not None and ob["value"] != val.to_obj():
                return "to_obj() of a union disagrees with value().to_obj()"
            o = union_opt(t, int(x.selector()))
            return union_export_disagrees(val, o, depth + 1) if o is not None and depth < 3 else None
        if k == "cont" and depth < 3:
            for i, ft in enumerate(t[1]):
                r = union_export_disagrees(getattr(x, "f%d" % i), ft, depth + 1)
                if r:
                    return r
        if k in ("vec", "list") and depth < 3 and not is_basic(t[1]):
            for i in range(min(len(x), 4)):
                r = union_export_disagrees(x[i], t[1], depth + 1)
                if r:
                    return r
    except Exception as e:  # noqa
        return "export of a union inside the value raised %r" % (e,)
    return None


def build(inp):
    t, v, w = inp["t"], inp["v"], inp["w"]
    x, y = to_py(t, v), to_py(t, w)
    k = t[0]
    why = None
    if k in ("vec", "list"):
        e = t[1]
        ll = len(x)
        idx = [elem_obs(e, x[i]) for i in range(ll)]
        ro = attempt(lambda: [elem_obs(e, z) for z in x.readonly_iter()], anyerr=True)
        it = [elem_obs(e, z) for z in iter(x)]
        ob = x.to_obj()
        kept = list(iter(x))                       # all elements first, looked at afterwards (as list(v), a, b = v do)
        kept_obs = [elem_obs(e, z) for z in kept]
        unpacked = [elem_obs(e, z) for z in (lambda *a: a)(*x)]
        if it != idx:
            why = "iter() disagrees with indexing"
        elif kept_obs != idx:
            why = "the elements kept from list(iter(v)) are not the elements indexing gives (a yielded element changed afterwards)"
        elif unpacked != idx:
            why = "unpacking (*v) disagrees with indexing"
        if why is None:
            # two read-only iterations alive at the same time (over x and over another value of the same type), in lock step,
            # and an export of the other value in the middle of a walk
            try:
                idy = [elem_obs(e, y[i]) for i in range(len(y))]
                pairs = [(elem_obs(e, p), elem_obs(e, q)) for p, q in zip(x.readonly_iter(), y.readonly_iter())]
                if pairs != list(zip(idx, idy)):
                    why = "two read-only iterators walked in lock step (zip) hand out other elements than indexing"
                seen = []
                for z in x.readonly_iter():
                    y.to_obj()
                    bytes(y.encode_bytes())
                    seen.append(elem_obs(e, z))
                if seen != idx and why is None:
                    why = "a read-only walk during which another value of the same type is exported / encoded hands out other elements than indexing"
            except Exception as ex:  # noqa
                why = "lock-step read-only iteration raised %r" % (ex,)
        if why is not None:
            pass
        elif slices_disagree(x, idx, lambda z: elem_obs(e, z), ll):
            why = slices_disagree(x, idx, lambda z: elem_obs(e, z), ll)
        elif rewalk_disagrees(lambda: x.readonly_iter(), idx, lambda z: elem_obs(e, z)):
            why = rewalk_disagrees(lambda: x.readonly_iter(), idx, lambda z: elem_obs(e, z))
        elif len(ob) != ll:
            why = "to_obj() length disagrees with len()"
        elif is_basic(e) and e[0] == "uint" and e[1] <= 8 and [int(z) for z in ob] != [int.from_bytes(z, "little") for z in idx]:
            why = "to_obj() disagrees with indexing"
        reads = [ll, idx, ro]
    elif k in ("bitvec", "bitlist"):
        ll = len(x)
        idx = [bool(x[i]) for i in range(ll)]
        it = attempt(lambda: [bool(z) for z in iter(x)], anyerr=True)
        why = slices_disagree(x, idx, bool, ll) or rewalk_disagrees(lambda: iter(x), idx, bool)
        reads = [ll, idx, it]
    else:
        ll = len(t[1])
        idx = [bytes(getattr(x, "f%d" % i).hash_tree_root()) for i in range(ll)]
        it = attempt(lambda: [bytes(z.hash_tree_root()) for z in iter(x)], anyerr=True)
        kept = attempt(lambda: [bytes(z.hash_tree_root()) for z in list(iter(x))], anyerr=True)
        if kept != it:
            why = "the field views kept from list(iter(container)) differ from those looked at one by one"
        un = attempt(lambda: [bytes(z.hash_tree_root()) for z in (lambda *a: a)(*x)], anyerr=True)
        if un != it:
            why = "unpacking disagrees with iteration"
        ob = x.to_obj()
        if list(ob.keys()) != ["f%d" % i for i in range(ll)]:
            why = "to_obj() keys are not the field names in order"
        reads = [ll, idx, it]
    if why is None:
        why = union_export_disagrees(x, t)
    eq = bool(x == y)
    roots_eq = x.hash_tree_root() == y.hash_tree_root()
    if eq != roots_eq:
        why = "== disagrees with hash-tree-root equality"
    if eq != (v == w):
        why = "== disagrees with content equality"
    if eq and hash(x) != hash(y):
        why = "equal values have different hashes"
    c = Case(inp, "(%s, %s, %s)" % (ty_coq(t), val_coq(t, v), val_coq(t, w)), [reads, eq], NAMES,
             nontrivial=ll >= 2, kind=k)
    c.why = why
    return c


def direct_violation(c):
    return c.why
