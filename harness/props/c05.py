"""C05 — mutations through child views propagate to every enclosing view."""
from hist import *  # noqa

THEOREMS = ["C05_propagate", "C05_parent_reads_child", "C05_frame", "C05_container_child", "C05_vector_child", "C05_list_child", "C05_chain_get", "C05_chain_value", "C05_chain_set", "C05_cmd_on_chain", "C05_chain_observed", "C05_chain_nonvacuous", "C05_forest_init", "C05_forest_get", "C05_forest_value", "C05_forest_mutation", "C05_forest_keeps_valid", "C05_forest_observed", "C05_forest_nonvacuous"]
PARTIAL = ["the model theorem is complete: for ANY forest of simultaneously held views (AllGood) a mutating command through any view whose hooks are valid (Valid) fails changing nothing or leaves every held view representing its specified tracked value (C05_forest_mutation, C05_forest_observed); obtaining views keeps the invariant (C05_forest_get / _value / C06_forest_copy); commands that shrink nothing keep every view usable (C05_forest_keeps_valid). Views made stale by a pop / union change in an ancestor are outside the premise. Not a theorem: that the Python closures are the hooks of the model — tied by the correspondence (random interleavings, element views obtained by index, iteration and slices)"]
COQ_IMPORTS = ["RM.Types", "RM.ModelStore", "RMR.RunH"]
COQ_FN = "RunH.run"
COQ_CASE_TY = "RunH.case"
CASE_TIMEOUT = 60
SHARD = 20
NEST = [t for t in MUTABLE_TOP if any(x in json.dumps(t[1:]) for x in ('"cont"', '"list"', '"vec"', '"union"', '"bitlist"'))]
RULE = ("nested mutable types x histories that obtain child views ([i], .field, value(), iteration with the iterator "
        "kept alive, slices), keep up to 9 of them alive "
        "and mutate through them in random order; after every command root and encoding of EVERY held view are "
        "compared with the store model; non-trivial = at least one mutation through a child view at depth >= 1")


def gen_inputs(ctx):
    rng = ctx.rng
    n = 1000 if ctx.thorough else 220
    for i in range(n):
        t = NEST[i % len(NEST)]
        yield gen_history(rng, t, rng.randrange(4, 26), p_child=0.35, p_iter=0.4)


def build(inp):
    coq, obs, st = execute(inp)
    names = ["P:initial"] + ["P:step%d" % (i + 1) for i in range(len(obs) - 1)]
    deep = any(c[0] in ("set", "append", "pop", "bitset", "change") and c[1] > 0 for c in inp["cmds"])
    return Case(inp, coq, obs, names, nontrivial=deep, kind=inp["t"][0])


shrink = shrink_history
