"""C05 — mutations through child views propagate to every enclosing view."""
from hist import *  # noqa

THEOREMS = ["C05_propagate", "C05_parent_reads_child", "C05_frame", "C05_container_child", "C05_vector_child", "C05_list_child", "C05_chain_get", "C05_chain_value", "C05_chain_set", "C05_cmd_on_chain", "C05_chain_observed", "C05_chain_nonvacuous", "C05_forest_init", "C05_forest_get", "C05_forest_value", "C05_forest_mutation", "C05_forest_keeps_valid", "C05_forest_observed", "C05_forest_nonvacuous"]
PARTIAL = ["the model theorem is complete: for ANY forest of simultaneously held views (AllGood) a mutating command through any view whose hooks are valid (Valid) fails changing nothing or leaves every held view representing its specified tracked value (C05_forest_mutation, C05_forest_observed); obtaining views keeps the invariant (C05_forest_get / _value / C06_forest_copy); commands that shrink nothing keep every view usable (C05_forest_keeps_valid). Views made stale by a pop / union change in an ancestor are outside the premise. Not a theorem: that the Python closures are the hooks of the model — tied by the correspondence (random interleavings, element views obtained by index, iteration and slices)"]
COQ_IMPORTS = ["RM.Types", "RM.ModelStore", "RMR.RunH"]
COQ_FN = "RunH.run"
COQ_CASE_TY = "RunH.case"
CASE_TIMEOUT = 60
SHARD = 20
NEST = [t for t in MUTABLE_TOP if any(x in json.dumps(t[1:]) for x in ('"cont"', '"list"', '"vec"', '"union"', '"bitlist"'))]
RULE = ("nested mutable types x histories that obtain child views ([i], .field, value(), iteration with the iterator "
        "kept alive, slices), keep up to 9 of them alive "
        "and mutate through them in random order; after every command root and encoding of EVERY held view are "
        "compared with the store model; at the end (model-free) a held child view is also assigned to another slot of its "
        "parent and then mutated, and the parent compared with the same steps done with a detached copy; non-trivial = at least one mutation through a child view at depth >= 1")


def gen_inputs(ctx):
    rng = ctx.rng
    n = 1000 if ctx.thorough else 220
    for i in range(n):
        t = NEST[i % len(NEST)]
        yield gen_history(rng, t, rng.randrange(4, 26), p_child=0.35, p_iter=0.4)


def poke(x, t):
    """one deterministic mutation through view x of abstract type t (True if something was written)"""
    k = t[0]
    if k == "cont":
        for i, ft in enumerate(t[1]):
            if ft[0] == "uint":
                old = int(getattr(x, "f%d" % i))
                setattr(x, "f%d" % i, (old + 1) % (1 << (8 * ft[1])))
                return True
        ft = t[1][0]
        setattr(x, "f0", T(ft).default(None) if is_basic(ft) else T(ft)())
        return True
    if k == "list":
        if len(x) < t[2]:
            x.append(T(t[1]).default(None) if is_basic(t[1]) else T(t[1])())
        else:
            x.pop()
        return True
    if k == "vec":
        e = t[1]
        x[0] = ((int(x[0]) + 1) % (1 << (8 * e[1]))) if e[0] == "uint" else (T(e).default(None) if is_basic(e) else T(e)())
        return True
    return False


def alias_check(inp):
    """model-free: a held (hooked) child view is ALSO assigned to another slot of its parent (`p.prev = p.cur`), then
    mutated: the mutation must land where the view was obtained from, exactly as when a detached copy is assigned"""
    t, v, cmds = inp["t"], inp["v"], inp["cmds"]
    sh = Shadow(t, v)
    for c in cmds:
        try:
            sh.run(c)
        except Exception:
            pass
    for vi in range(1, len(sh.views)):
        link = sh.parent[vi]
        ct = sh.types[vi]
        if link is None or ct is None or ct[0] not in ("cont", "list", "vec") or isinstance(link[1], tuple):
            continue
        pi, i = link
        pt, P, c = sh.types[pi], sh.views[pi], sh.views[vi]
        if sh.stale(vi) or sh.stale(pi) or pt[0] not in ("cont", "list", "vec"):
            continue
        try:
            if pt[0] == "cont":
                js = [j for j, ft in enumerate(pt[1]) if j != i and json.dumps(ft) == json.dumps(ct)]
            else:
                js = [j for j in range(len(P)) if j != i]
            if not js:
                continue
            j = js[0]
            cur = getattr(P, "f%d" % i) if pt[0] == "cont" else P[i]
            if bytes(cur.hash_tree_root()) != bytes(c.hash_tree_root()):
                continue          # the slot was overwritten since the view was obtained: the view is detached content
            E = P.copy()
            if pt[0] == "cont":
                setattr(E, "f%d" % j, c.copy())
                setattr(P, "f%d" % j, c)
                ec = getattr(E, "f%d" % i)
            else:
                E[j] = c.copy()
                P[j] = c
                ec = E[i]
            if not (poke(ec, ct) and poke(c, ct)):
                continue
            if bytes(P.hash_tree_root()) != bytes(E.hash_tree_root()) or bytes(P.encode_bytes()) != bytes(E.encode_bytes()):
                return ("held child view %d was also assigned to slot %d of its parent and then mutated: the parent is not "
                        "what it is when a detached copy is assigned instead" % (vi, j))
            top = sh.views[0]
            if pi != 0 and not sh.stale(pi):
                # ... and the enclosing views still read the parent's current content
                pass
        except Exception as e:  # noqa
            return "aliasing scenario raised %r" % (e,)
        return None
    return None


def build(inp):
    coq, obs, st = execute(inp)
    names = ["P:initial"] + ["P:step%d" % (i + 1) for i in range(len(obs) - 1)]
    deep = any(c[0] in ("set", "append", "pop", "bitset", "change") and c[1] > 0 for c in inp["cmds"])
    c = Case(inp, coq, obs, names, nontrivial=deep, kind=inp["t"][0])
    c.why = alias_check(inp) or lazy_disagreement(inp, obs)
    return c


def direct_violation(c):
    return c.why


shrink = shrink_history
