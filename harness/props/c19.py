"""C19 — updates share all untouched subtrees and re-hash only the changed path."""
from hist import *  # noqa
from trees import *  # noqa
import remerkleable.tree as rtree
from remerkleable.tree import get_depth

THEOREMS = ["C19_setter_allocates_only", "C19_setter_sharing", "C19_setter_refines", "C19_cached_free", "C19_idle", "C19_potential", "C19_write_cost", "C19_rebind_cost", "C19_rehash_bound", "C19_nothing_to_hash"]
PARTIAL = ["heap model: a write allocates only, shares every off-path child, refines the pure write; hashes + (uncached pair objects) is invariant under merkle_root() (C19_potential), a write adds one uncached pair per path step (two where a zero summary is expanded), so the next root costs at most what was unhashed + the changed path (C19_rehash_bound) and nothing when nothing is unhashed (C19_nothing_to_hash). View operations are compositions of these writes (1-3 setter calls + rebind_right), so the bounds add up; that the Python view methods perform exactly these compositions, and object identity of off-path subtrees at view level, are checked model-free by the correspondence (parallel identity walk, hash counter)"]
COQ_IMPORTS = ["RMR.RunC19"]
COQ_FN = "RunC19.run"
COQ_CASE_TY = "RunC19.case"
SHARD = 150
NAMES = ["P:ok", "P:root", "P:siblings_shared", "M:fresh_nodes_le_model", "M:hashes_in_op_le_model",
         "P:hashes_of_next_root_le_model", "P:idle_hashes"]
LEAVES = [["Z", 0], ["Z", 1], ["Z", 2], chunk(7), chunk(9)]
REPL = [chunk(0xaa), ["P", chunk(0xbb), chunk(0xcc)], ["Z", 0]]
RULE = ("(a) tree level, against the heap model: random trees x {setter(g, expand)(v), summarize_into(g)(), "
        "rebind_right(v)} with roots cached beforehand or not: sibling identity (`is`) along the path, hashes "
        "performed by the operation, by the next merkle_root(), by a second one; (b) view level, model-free: mutable "
        "types x values x (a few mutations, then) one mutation: walking old and new backing in parallel, every subtree "
        "off the paths to the changed chunk / field / length is the same object (`is`) as before, the next hash_tree_root() performs <= 2*depth+3+|new value| hashes, a second one / a copy's "
        "/ a re-created view's performs none; (c) containers constructed from hashed field views, also of other class "
        "objects of the same type, and coercion of a container of another class: field backings shared; "
        "(d) the same sharing rule for one mutation as the first use of a view over a virtual (lazily loaded) tree; "
        "non-trivial = path length >= 2")


class Counter:
    def __init__(self):
        self.n = 0
        self.orig = rtree.merkle_hash

    def __enter__(self):
        def counted(a, b):
            self.n += 1
            return self.orig(a, b)
        rtree.merkle_hash = counted
        return self

    def __exit__(self, *a):
        rtree.merkle_hash = self.orig


def reachable(n, acc):
    if id(n) in acc:
        return
    acc[id(n)] = n
    if not n.is_leaf():
        reachable(n.get_left(), acc)
        reachable(n.get_right(), acc)


def gen_inputs(ctx):
    rng = ctx.rng
    n = 3000 if ctx.thorough else 600
    for _ in range(n):
        t = rand_tree(rng, rng.choice([1, 2, 3, 3, 4, 5]), LEAVES)
        r = rng.random()
        if r < 0.7:
            g = rng.randrange(1, 2 << (tree_depth(t) + 1))
            op = ["set", g, rng.random() < 0.5, rng.choice(REPL)]
        elif r < 0.9:
            op = ["summarize", rng.randrange(1, 2 << tree_depth(t))]
        else:
            op = ["rebind_right", rng.choice(REPL)]
        yield {"kind": "tree", "tree": t, "pre": rng.random() < 0.7, "op": op}
    m = 500 if ctx.thorough else 120
    for i in range(m):
        t = MUTABLE_TOP[i % len(MUTABLE_TOP)]
        h = gen_history(rng, t, 1 if i % 3 == 0 else rng.randrange(2, 8), top_only=True)
        if h["cmds"]:
            h["kind"] = "view"
            yield h
    # the same sharing rule when the backing is a lazily loaded (virtual) tree and the write is its FIRST use
    for i in range(m // 2):
        t = MUTABLE_TOP[i % len(MUTABLE_TOP)]
        h = gen_history(rng, t, 1, top_only=True)
        if h["cmds"] and t[0] != "union":
            h["kind"] = "virtview"
            yield h
    # constructors given (hashed) field views, also of other class objects
    conts = [t for t in NESTED + MUTABLE_TOP if t[0] == "cont"]
    for i in range(m // 2):
        t = conts[i % len(conts)]
        yield {"kind": "ctor", "t": t, "v": gen_value(rng, t, cap=5)}
    # default-constructed values and one view bound to several positions: their trees bind the SAME node object on both
    # sides of many pairs
    for i in range(m // 3):
        k = rng.choice(["vec", "vec", "bitvec", "bytevec", "twice"])
        yield {"kind": "defaults", "shape": k, "n": rng.choice([5, 8, 9, 16, 33, 64, 100, 600, 1000]),
               "w": rng.choice([1, 2, 8, 32]), "idx": rng.randrange(0, 1 << 20)}
    # child views of one value (src[k], container.field, elements while iterating) appended / assigned into another value
    for i in range(m // 3):
        yield {"kind": "childshare", "n": rng.choice([1, 2, 3, 5]), "fields": rng.choice([2, 4]), "seed": rng.randrange(1 << 30),
               "elem": rng.choice(["cont", "list", "vec"])}
    # slice assignment of already hashed composite values (fresh views, or child views sliced out of another list)
    for i in range(m // 3):
        n = rng.choice([2, 3, 4, 5, 7, 8])
        a = rng.randrange(0, n - 1)
        b = rng.randrange(a + 1, n + 1)
        yield {"kind": "sliceshare", "seq": rng.choice(["list", "vec"]), "n": n, "a": a, "b": b,
               "from_other": rng.random() < 0.5, "fields": rng.choice([2, 3, 4]), "seed": rng.randrange(1 << 30)}
    # nested: mutations through child views and assignment of already hashed composite values
    for i in range(m):
        t = NESTED[i % len(NESTED)]
        h = gen_history(rng, t, rng.randrange(3, 10), p_child=0.4)
        if h["cmds"]:
            h["kind"] = "nested"
            yield h


def build_tree_case(inp):
    t, pre, op = inp["tree"], inp["pre"], inp["op"]
    n = tree_py(t)
    if pre:
        n.merkle_root()
    vn = tree_py(op[-1]) if op[0] in ("set", "rebind_right") else None
    old = {}
    reachable(n, old)
    if vn is not None:
        reachable(vn, old)
    with Counter() as c:
        if op[0] == "set":
            res = attempt(lambda: n.setter(op[1], op[2])(vn), anyerr=True)
            path = [(op[1] >> i) & 1 for i in reversed(range(op[1].bit_length() - 1))] if op[1] >= 1 else []
        elif op[0] == "summarize":
            res = attempt(lambda: n.summarize_into(op[1])(), anyerr=True)
            path = [(op[1] >> i) & 1 for i in reversed(range(op[1].bit_length() - 1))] if op[1] >= 1 else []
        else:
            res = attempt(lambda: n.rebind_right(vn), anyerr=True)
            path = [1]
        h_op = c.n
    if op[0] == "set":
        cop = "(OpSet %s %s %s)" % (cN(op[1]), cbool(op[2]), tree_coq(op[3]))
    elif op[0] == "summarize":
        cop = "(OpSummarize %s)" % cN(op[1])
    else:
        cop = "(OpRebindRight %s)" % tree_coq(op[1])
    if isinstance(res, E):
        return Case(inp, "(%s, %s, %s, (0%%N, 0%%N, 0%%N))" % (tree_coq(t), cbool(pre), cop), [E("other")], ["P:ok"],
                    nontrivial=False, kind="tree:" + op[0] + ":err")
    new = {}
    reachable(res, new)
    fresh = len([k for k in new if k not in old])
    share = []
    o, x = n, res
    for b in path:
        if o.is_leaf() or x.is_leaf():
            break
        share.append((o.get_left() if b else o.get_right()) is (x.get_left() if b else x.get_right()))
        o, x = (o.get_right(), x.get_right()) if b else (o.get_left(), x.get_left())
    with Counter() as c:
        rt = res.merkle_root()
        h_root = c.n
    with Counter() as c:
        res.merkle_root()
        idle = c.n
    coq = "(%s, %s, %s, (%s, %s, %s))" % (tree_coq(t), cbool(pre), cop, cN(fresh), cN(h_op), cN(h_root))
    return Case(inp, coq, [True, rt, share, True, True, True, idle], NAMES, nontrivial=len(path) >= 2,
                kind="tree:" + op[0])


def view_depth(t):
    k = t[0]
    if k in ("list", "vec"):
        n = t[2]
        cc = (n * bsize(t[1]) + 31) // 32 if is_basic(t[1]) else n
        return get_depth(cc) + (1 if k == "list" else 0)
    if k in ("bitlist", "bitvec"):
        return get_depth((t[1] + 255) // 256) + (1 if k == "bitlist" else 0)
    if k == "cont":
        return get_depth(len(t[1]))
    return 1


def changed_positions(t, x, cmd):
    """gindices (in the backing of the top view x of type t, BEFORE the command) of the positions command cmd may
    change; None = everything (union change)"""
    k, op = t[0], cmd[0]
    if k == "union":
        return None
    ln = len(x) if k in ("vec", "list", "bitvec", "bitlist") else 0
    if k in ("vec", "list"):
        per = 32 // bsize(t[1]) if is_basic(t[1]) else 1
        cc = (t[2] + per - 1) // per
    elif k in ("bitvec", "bitlist"):
        per, cc = 256, (t[1] + 255) // 256
    else:
        per, cc = 1, len(t[1])
    cd = get_depth(cc)
    base = (2 << cd) if k in ("list", "bitlist") else (1 << cd)
    if op in ("set", "bitset"):
        i = cmd[2]
        return [base + (i if i >= 0 else i + ln) // per] if k != "cont" else [base + i]
    if op == "append":
        return [base + ln // per, 3]
    if op == "pop":
        return [base + (ln - 1) // per, 3]
    return []


def sharing_violation(old, new, changed):
    """model-free: every subtree of `new` that is not on a path to a changed position must be the very same node
    object as in `old` (or, where `old` had a zero summary that the path expanded, a childless zero node)"""
    def on_path(g):
        return any(c >> (c.bit_length() - g.bit_length()) == g for c in changed if c.bit_length() >= g.bit_length())

    def walk(o, n, g):
        if g in changed:
            return None
        if not on_path(g):
            if o is not None and n is not o:
                return "the subtree at gindex %d, off every changed path, is not the same node object as before" % g
            if o is None and not n.is_leaf():
                return "a fresh subtree was allocated at gindex %d, off every changed path" % g
            return None
        if n.is_leaf():
            return None
        oc = (None, None) if (o is None or o.is_leaf()) else (o.get_left(), o.get_right())
        return walk(oc[0], n.get_left(), 2 * g) or walk(oc[1], n.get_right(), 2 * g + 1)
    return walk(old, new, 1)


def build_view_case(inp):
    t, v, cmds = inp["t"], inp["v"], inp["cmds"]
    x = to_py(t, v)
    sh = Shadow(t, v)
    sh.views[0] = x
    for pre in cmds[:-1]:           # a few earlier mutations first: the checked one then starts from a worked-on tree
        attempt(lambda: sh.run(pre), anyerr=True)
    cmd = cmds[-1]
    x.hash_tree_root()
    old = {}
    reachable(x.get_backing(), old)
    old_backing = x.get_backing()
    chg = attempt(lambda: changed_positions(t, x, cmd), anyerr=True)
    r = attempt(lambda: sh.run(cmd), anyerr=True)
    why = None
    if not isinstance(r, E) and not isinstance(chg, E) and chg is not None:
        why = sharing_violation(old_backing, x.get_backing(), chg)
    new = {}
    reachable(x.get_backing(), new)
    fresh = [n for k, n in new.items() if k not in old]
    fresh_pairs = len([n for n in fresh if not n.is_leaf()])
    d = view_depth(t)
    # nodes of a newly inserted composite value are new by necessity: bound them by the value's own tree size
    arg_nodes = 0
    if cmd[0] in ("set", "append", "change") and not isinstance(r, E):
        et = elem_for(sh, cmd)
        a = cmd[-1]
        if et is not None and a[0] in ("val", "viewalt") and not is_basic(et):
            tmp = {}
            reachable(to_py(et, a[1]).get_backing(), tmp)
            arg_nodes = len(tmp)
    bound = 2 * d + 3 + arg_nodes
    if fresh_pairs > bound:
        why = "mutation allocated %d new pair nodes, more than 2*depth+3+|new value| = %d" % (fresh_pairs, bound)
    with Counter() as c:
        x.hash_tree_root()
        h1 = c.n
    if h1 > bound and why is None:
        why = "hash_tree_root() after the mutation performed %d hashes, more than %d" % (h1, bound)
    with Counter() as c:
        x.hash_tree_root()
        x.copy().hash_tree_root()
        T(t).view_from_backing(x.get_backing()).hash_tree_root()
        if c.n != 0 and why is None:
            why = "hash_tree_root() performed %d hashes although nothing changed" % c.n
    cs = Case(inp, "(R \"00\", false, (OpSummarize 1%N), (0%N, 0%N, 0%N))", [True, b"\x00", [], True, True, True, 0], NAMES,
              nontrivial=True, kind="view:" + cmd[0])
    cs.why = why
    return cs


NESTED = [t for t in MUTABLE_TOP if any(x in json.dumps(t[1:]) for x in ('"cont"', '"list"', '"vec"', '"union"', '"bitlist"'))]
NESTED += [["cont", [["cont", [["uint", 8]] * 8], ["uint", 1]]], ["list", ["cont", [["uint", 8]] * 9], 4],
           ["vec", ["list", ["uint", 8], 64], 2], ["cont", [["list", ["uint", 8], 1024], ["vec", ["cont", [["uint", 1]] * 5], 3]]]]


def child_gindex(pt, px, link):
    """static gindex of the position a child view was obtained from"""
    if isinstance(link, tuple):
        return 2
    if pt[0] == "cont":
        return int(type(px).key_to_static_gindex("f%d" % link))
    return int(type(px).key_to_static_gindex(link))


def build_nested_case(inp):
    """model-free: after a mutation through a (possibly deep) child view, every enclosing view holds the child's
    backing OBJECT at the child's position; an assigned, already hashed composite value is inserted as the same
    object; the next hash_tree_root() of the top view hashes no more than the changed paths"""
    t, v, cmds = inp["t"], inp["v"], inp["cmds"]
    sh = Shadow(t, v)
    why = None
    for k, cmd in enumerate(cmds):
        if cmd[1] >= len(sh.views):
            break
        sh.views[0].hash_tree_root()
        mutating = cmd[0] in ("set", "append", "pop", "bitset", "change")
        stale = sh.stale(cmd[1])
        et = elem_for(sh, cmd) if mutating else None
        argview = None
        if mutating and cmd[0] == "set" and et is not None and not is_basic(et) and et[0] not in ("bytevec", "bytelist") \
                and cmd[-1][0] == "val":
            try:
                argview = to_py(et, cmd[-1][1])
                argview.hash_tree_root()
            except Exception:
                argview = None
        try:
            if argview is not None:
                x, pt = sh.views[cmd[1]], sh.types[cmd[1]]
                if pt[0] == "cont":
                    setattr(x, "f%d" % cmd[2], argview)
                else:
                    x[cmd[2]] = argview
            else:
                sh.run(cmd)
            ok = True
        except Exception:
            ok = False
        if not (mutating and ok) or stale or why:
            continue
        # (1) the assigned hashed value is inserted as the very same node object
        if argview is not None:
            x, pt = sh.views[cmd[1]], sh.types[cmd[1]]
            g = child_gindex(pt, x, cmd[2])
            if x.get_backing().getter(g) is not argview.get_backing():
                why = "command %d: the assigned (already hashed) value's backing was rebuilt instead of shared" % (k + 1)
        # (2) every enclosing view holds the child's backing object at the child's position
        vi = cmd[1]
        depth_sum = view_depth(sh.types[vi]) + 2
        while sh.parent[vi] is not None and why is None:
            pi, link = sh.parent[vi]
            px, pt = sh.views[pi], sh.types[pi]
            g = child_gindex(pt, px, link)
            if px.get_backing().getter(g) is not sh.views[vi].get_backing():
                why = "command %d: enclosing view %d does not share the mutated child's backing object" % (k + 1, pi)
            depth_sum += view_depth(pt) + 2
            vi = pi
        # (3) hashes of the next root of the top view: bounded by the changed paths (+ a new, unhashed value)
        arg_nodes = 0
        a = cmd[-1]
        if argview is None and et is not None and isinstance(a, list) and a and a[0] in ("val", "viewalt") and not is_basic(et):
            try:
                tmp = {}
                reachable(to_py(et, a[1]).get_backing(), tmp)
                arg_nodes = len(tmp)
            except Exception:
                pass
        with Counter() as c:
            sh.views[0].hash_tree_root()
            if c.n > depth_sum + arg_nodes + 1 and why is None:
                why = "command %d: next hash_tree_root() performed %d hashes, more than the changed paths (%d)" % (
                    k + 1, c.n, depth_sum + arg_nodes + 1)
        with Counter() as c:
            sh.views[0].hash_tree_root()
            if c.n != 0 and why is None:
                why = "command %d: a second hash_tree_root() performed %d hashes" % (k + 1, c.n)
    cs = Case(inp, "(R \"00\", false, (OpSummarize 1%N), (0%N, 0%N, 0%N))", [True, b"\x00", [], True, True, True, 0], NAMES,
              nontrivial=True, kind="nested")
    cs.why = why
    return cs


def build_ctor_case(inp):
    """model-free: a container constructed from field views — also views whose class is another class object of the same
    type — shares every field's backing (the very same node object), and so does coercing a container of another class
    with the same fields (assignment / append of a sibling fork's value)"""
    t, v = inp["t"], inp["v"]
    why = None
    try:
        kw, comp = {}, []
        for i, (ft, x) in enumerate(zip(t[1], v)):
            if ft[0] in ("list", "vec", "bitlist", "bitvec", "cont"):
                C2 = fresh_class(ft) if i % 2 == 0 else T(ft)
                fv = C2(**{"f%d" % j: to_py(g, y) for j, (g, y) in enumerate(zip(ft[1], x))}) if ft[0] == "cont" \
                    else C2([to_py(ft[1], y) for y in x]) if ft[0] in ("list", "vec") else C2([c == "1" for c in x])
                fv.hash_tree_root()
                comp.append(i)
            else:
                fv = to_py(ft, x)
            kw["f%d" % i] = fv
        X = T(t)(**kw)
        for i in comp:
            g = int(type(X).key_to_static_gindex("f%d" % i))
            if X.get_backing().getter(g) is not kw["f%d" % i].get_backing() and why is None:
                why = "constructor: the backing of field view %d (%s class) was rebuilt instead of shared" % (
                    i, "another" if i % 2 == 0 else "the same")
        with Counter() as c:
            X.hash_tree_root()
            if c.n > 2 * len(t[1]) + 2 and why is None:
                why = "root of a container built from hashed field views took %d hashes" % c.n
        # coercion of a container of ANOTHER class with the same fields: field backings shared
        Y = fresh_class(t)(**kw)
        Y.hash_tree_root()
        holder = List[T(t), 4]()
        holder.append(Y)
        Z = holder[0]
        for i in comp:
            g = int(type(X).key_to_static_gindex("f%d" % i))
            if Z.get_backing().getter(g) is not kw["f%d" % i].get_backing() and why is None:
                why = "append of a container of another class: field %d was rebuilt instead of shared" % i
    except Exception as e:  # noqa
        why = "constructor sharing scenario raised %r" % (e,)
    cs = Case(inp, "(R \"00\", false, (OpSummarize 1%N), (0%N, 0%N, 0%N))", [True, b"\x00", [], True, True, True, 0], NAMES,
              nontrivial=True, kind="ctor")
    cs.why = why
    return cs


def build_sliceshare_case(inp):
    """model-free: `dst[a:b] = values` with already hashed composite values inserts the very node objects it was given
    (no rebuild), and the next root hashes only the changed paths"""
    import random as _r
    why = None
    try:
        rr = _r.Random(inp["seed"])
        et = ["cont", [["uint", 8]] * inp["fields"]]
        n, a, b = inp["n"], inp["a"], inp["b"]
        st = ["list", et, 8] if inp["seq"] == "list" else ["vec", et, n]
        mk = lambda: [rr.randrange(1, 1 << 40) for _ in range(inp["fields"])]  # noqa
        dst = to_py(st, [mk() for _ in range(n)])
        dst.hash_tree_root()
        if inp["from_other"]:
            src = to_py(["list", et, 8], [mk() for _ in range(8)])
            src.hash_tree_root()
            vals = src[a:b]
        else:
            vals = [to_py(et, mk()) for _ in range(b - a)]
            for x in vals:
                x.hash_tree_root()
        backs = [x.get_backing() for x in vals]
        dst[a:b] = vals
        depth = type(dst).tree_depth()
        for k, nb in enumerate(backs):
            got = dst.get_backing().getter((1 << depth) | (a + k)) if inp["seq"] == "vec" else \
                dst.get_backing().getter((1 << depth) | (a + k))
            if got is not nb and why is None:
                why = "slice assignment: element %d was rebuilt instead of sharing the assigned (hashed) value's backing" % (a + k)
        with Counter() as c:
            dst.hash_tree_root()
            bound = (b - a) * (depth + 1) + 2
            if c.n > bound and why is None:
                why = "root after a slice assignment of %d hashed values took %d hashes (bound %d)" % (b - a, c.n, bound)
    except Exception as e:  # noqa
        why = "slice-assignment sharing scenario raised %r" % (e,)
    cs = Case(inp, "(R \"00\", false, (OpSummarize 1%N), (0%N, 0%N, 0%N))", [True, b"\x00", [], True, True, True, 0], NAMES,
              nontrivial=True, kind="sliceshare")
    cs.why = why
    return cs


def build_defaults_case(inp):
    """model-free: a hashed value hashes nothing when asked again (also through a copy / a view re-created from its
    backing), and one write costs no more than its path — also when the tree binds one node object on both sides of
    its pairs (default values, one view assigned to several positions)"""
    why = None
    try:
        k, n, w = inp["shape"], inp["n"], inp["w"]
        if k == "vec":
            t = ["vec", ["uint", w], n]
            x = T(t)()
            wr = lambda y: y.__setitem__(inp["idx"] % n, 1)  # noqa
        elif k == "bitvec":
            t = ["bitvec", max(n, 2)]
            x = T(t)()
            wr = lambda y: y.__setitem__(inp["idx"] % max(n, 2), True)  # noqa
        elif k == "bytevec":
            t = ["vec", ["bytevec", 48], max(2, n % 40)]
            x = T(t)()
            wr = lambda y: y.__setitem__(inp["idx"] % max(2, n % 40), b"\x01" * 48)  # noqa
        else:
            et = ["cont", [["uint", 8], ["uint", 8]]]
            t = ["list", et, 64]
            p = to_py(et, [inp["idx"] + 1, 7])
            x = T(t)(*[p] * (2 + n % 14))
            wr = lambda y: y.__setitem__(inp["idx"] % (2 + n % 14), to_py(et, [3, 4]))  # noqa
        x.hash_tree_root()
        with Counter() as c:
            x.hash_tree_root()
        if c.n != 0:
            why = "a second hash_tree_root() of an unchanged %s value took %d hashes" % (k, c.n)
        with Counter() as c:
            x.copy().hash_tree_root()
            type(x).view_from_backing(x.get_backing()).hash_tree_root()
        if c.n != 0 and why is None:
            why = "hash_tree_root() of a copy / re-created view of a hashed %s value took %d hashes" % (k, c.n)
        depth = type(x).tree_depth()
        wr(x)
        with Counter() as c:
            x.hash_tree_root()
        if c.n > depth + 2 and why is None:
            why = "the root after one write into a hashed %s value (tree depth %d) took %d hashes" % (k, depth, c.n)
    except Exception as e:  # noqa
        why = "default-value hashing scenario raised %r" % (e,)
    cs = Case(inp, "(R \"00\", false, (OpSummarize 1%N), (0%N, 0%N, 0%N))", [True, b"\x00", [], True, True, True, 0], NAMES,
              nontrivial=True, kind="defaults:" + inp["shape"])
    cs.why = why
    return cs


def build_childshare_case(inp):
    """model-free: a composite child view (still hooked to its parent) that is appended / assigned into ANOTHER value is
    inserted as the very node object it has — no rebuild — and the next root hashes only the changed paths"""
    import random as _r
    why = None
    try:
        rr = _r.Random(inp["seed"])
        nf = inp["fields"]
        et = {"cont": ["cont", [["uint", 8]] * nf], "list": ["list", ["uint", 8], 9], "vec": ["vec", ["uint", 4], 5]}[inp["elem"]]
        mk = lambda: ([rr.randrange(1, 1 << 30) for _ in range(nf)] if inp["elem"] == "cont" else  # noqa
                      [rr.randrange(1, 1 << 30) for _ in range(rr.randrange(1, 6))] if inp["elem"] == "list" else
                      [rr.randrange(1, 1 << 30) for _ in range(5)])
        src = to_py(["list", et, 16], [mk() for _ in range(4 + inp["n"])])
        holder = to_py(["cont", [["uint", 8], et]], [7, mk()])
        src.hash_tree_root()
        holder.hash_tree_root()
        dst = to_py(["list", et, 16], [mk() for _ in range(inp["n"])])
        dst.hash_tree_root()
        depth = type(dst).tree_depth()
        moved = []
        c1 = src[1]
        dst.append(c1)
        moved.append((len(dst) - 1, c1.get_backing(), "src[1] appended"))
        c2 = holder.f1
        dst.append(c2)
        moved.append((len(dst) - 1, c2.get_backing(), "a container field appended"))
        for k, el in enumerate(src):
            if k >= 2:
                break
            dst.append(el)
            moved.append((len(dst) - 1, el.get_backing(), "an element appended while iterating the source"))
        c3 = src[3]
        dst[0] = c3
        moved.append((0, c3.get_backing(), "src[3] assigned to dst[0]"))
        for pos, nb, what in moved:
            if dst.get_backing().getter((1 << depth) | pos) is not nb and why is None:
                why = "%s: the element was rebuilt instead of sharing the source's subtree" % what
        with Counter() as c:
            dst.hash_tree_root()
            bound = len(moved) * (depth + 1) + 2
            if c.n > bound and why is None:
                why = "root after inserting %d hashed child views took %d hashes (bound %d)" % (len(moved), c.n, bound)
    except Exception as e:  # noqa
        why = "child-view sharing scenario raised %r" % (e,)
    cs = Case(inp, "(R \"00\", false, (OpSummarize 1%N), (0%N, 0%N, 0%N))", [True, b"\x00", [], True, True, True, 0], NAMES,
              nontrivial=True, kind="childshare:" + inp["elem"])
    cs.why = why
    return cs


class RootKeyed:
    """a VirtualSource over a materialised, hashed tree: children looked up by root"""

    def __init__(self, node):
        self.tbl = {}
        self.fill(node)

    def fill(self, n):
        if n.is_leaf():
            return
        self.tbl[bytes(n.merkle_root())] = (bytes(n.get_left().merkle_root()), bytes(n.get_right().merkle_root()))
        self.fill(n.get_left())
        self.fill(n.get_right())

    def _side(self, key, k):
        from remerkleable.virtual import VirtualNode
        from remerkleable.tree import NavigationError
        if bytes(key) not in self.tbl:
            raise NavigationError
        return VirtualNode(self.tbl[bytes(key)][k], self)

    def get_left(self, key):
        return self._side(key, 0)

    def get_right(self, key):
        return self._side(key, 1)

    def is_leaf(self, key):
        return bytes(key) not in self.tbl


def build_virtview_case(inp):
    """one mutation as the first use of a view over a virtual tree: whatever is off the changed path must be the very
    child objects the OLD backing hands out (before and after: a virtual node's children are stable)"""
    t, v, cmd = inp["t"], inp["v"], inp["cmds"][-1]
    why = None
    try:
        from remerkleable.virtual import VirtualNode
        mat = to_py(t, v)
        root = mat.hash_tree_root()
        x = T(t).view_from_backing(VirtualNode(root, RootKeyed(mat.get_backing())))
        sh = Shadow(t, v)
        sh.views[0] = x
        old_backing = x.get_backing()
        chg = attempt(lambda: changed_positions(t, mat, cmd), anyerr=True)      # read off the materialised twin
        r = attempt(lambda: sh.run(cmd), anyerr=True)
        if not isinstance(r, E) and not isinstance(chg, E) and chg is not None:
            why = sharing_violation(old_backing, x.get_backing(), chg)
            if why is None and not old_backing.is_leaf() and (old_backing.get_left() is not old_backing.get_left()
                                or old_backing.get_right() is not old_backing.get_right()):
                why = "the old virtual backing hands out another child object on every call"
            if why is None and old_backing.merkle_root() != root:
                why = "the old virtual backing changed its root"
    except Exception as e:  # noqa
        why = "virtual-backing sharing scenario raised %r" % (e,)
    cs = Case(inp, "(R \"00\", false, (OpSummarize 1%N), (0%N, 0%N, 0%N))", [True, b"\x00", [], True, True, True, 0], NAMES,
              nontrivial=True, kind="virtview:" + cmd[0])
    cs.why = why
    return cs


def build(inp):
    if inp["kind"] == "virtview":
        return build_virtview_case(inp)
    if inp["kind"] == "childshare":
        return build_childshare_case(inp)
    if inp["kind"] == "defaults":
        return build_defaults_case(inp)
    if inp["kind"] == "sliceshare":
        return build_sliceshare_case(inp)
    if inp["kind"] == "ctor":
        return build_ctor_case(inp)
    if inp["kind"] == "nested":
        return build_nested_case(inp)
    if inp["kind"] == "tree":
        c = build_tree_case(inp)
        c.why = None
        return c
    return build_view_case(inp)


def direct_violation(c):
    return c.why
