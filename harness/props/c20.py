"""C20 — lazily loaded (virtual) trees behave exactly like materialised trees."""
from hist import *  # noqa
from remerkleable.tree import NavigationError

THEOREMS = ["C20_root", "C20_get", "C20_set", "C20_virtual_root_node", "C20_memo", "C20_view_start", "C20_related_roots", "C20_view_get", "C20_view_set", "C20_lengths", "C20_list_append", "C20_list_pop", "C20_bits_get", "C20_bits_set", "C20_bitlist_append", "C20_bitlist_pop", "C20_union_value", "C20_encoding", "C20_store_start", "C20_store_command", "C20_store_history", "C20_store_observed", "C20_node_iter", "C20_packed_iter", "C20_bit_iter", "C20_export"]
PARTIAL = ["view level: every mutating / reading view operation of the model (element and field get / set, lengths, append, pop, bit get / set, Bitlist append / pop, union selector / value) is proved to compute on the virtual tree exactly what it computes on the materialised tree — same data, same errors, related backings (C20_view_* ...), serialisation gives the same bytes for every type (C20_encoding), and at store level ANY command — hence any history through any held views, hooks included — gives the same results on a store of virtual-backed views as on the materialised store, with every held view keeping the same root and encoding (C20_store_command / _history / _observed); the read-only iterators and object export over virtual trees are proved equal too (C20_*_iter, C20_export); the Python VirtualNode class itself (memoisation, the source protocol) are tied by the correspondence and the model-free comparison with the materialised tree", "a childless VirtualNode at the very top raises NavigationError on setter(expand=True) where a RootNode expands (C20_set requires the top node to have children; view backings always do)", "C20_memo counts successful fetches: a leaf virtual node whose get_left fails asks its source again on the next get_left unless is_leaf was asked first"]
ASSUMPTIONS = ["consistent src m: the external source is a root-keyed store of the materialised tree and no leaf root equals a pair root"]
COQ_IMPORTS = ["RM.Types", "RM.ModelStore", "RMR.RunC20"]
COQ_FN = "RunC20.run"
COQ_CASE_TY = "RunC20.case"
CASE_TIMEOUT = 60
SHARD = 20
RULE = ("mutable types x values x read / mutation histories run on a view whose backing is VirtualNode(root, store), "
        "the store being a root-keyed table of the materialised backing that raises NavigationError for leaves and "
        "logs every call; after every command root + encoding of every held view vs the model (VirtN + src table) and "
        "(model-free) vs the same history on the materialised tree; no (node, question) pair is asked twice; "
        "every prefix of the history is also replayed on a fresh virtual tree with NO read in between (write-before-read) and "
        "its final observation compared with the materialised run; non-trivial = >= 2 commands")


class Store:
    """root-keyed source of a materialised tree"""

    def __init__(self, node):
        self.tbl = {}
        self.log = []
        self.proxies = []
        self.fill(node)

    def fill(self, n):
        if n.is_leaf():
            return
        self.tbl[bytes(n.merkle_root())] = (bytes(n.get_left().merkle_root()), bytes(n.get_right().merkle_root()))
        self.fill(n.get_left())
        self.fill(n.get_right())

    def _mk(self, r):
        """every node gets its own proxy of the store, so calls can be attributed to the asking node"""
        from remerkleable.virtual import VirtualNode
        return VirtualNode(r, NodeProxy(self))

    def get_left(self, key):
        self.log.append((bytes(key), "left"))
        if bytes(key) not in self.tbl:
            raise NavigationError
        return self._mk(self.tbl[bytes(key)][0])

    def get_right(self, key):
        self.log.append((bytes(key), "right"))
        if bytes(key) not in self.tbl:
            raise NavigationError
        return self._mk(self.tbl[bytes(key)][1])

    def is_leaf(self, key):
        self.log.append((bytes(key), "leaf"))
        return bytes(key) not in self.tbl


class NodeProxy:
    def __init__(self, store):
        self.store = store
        self.asked = []
        store.proxies.append(self)

    def get_left(self, key):
        r = self.store.get_left(key)      # a failed fetch (leaf) hands out no child and is not cached by the node
        self.asked.append("left")
        return r

    def get_right(self, key):
        r = self.store.get_right(key)
        self.asked.append("right")
        return r

    def is_leaf(self, key):
        self.asked.append("leaf")
        return self.store.is_leaf(key)


def lazy_run(t, v, cmds, k, store):
    """run cmds[:k] with no observation in between.  store=None: on the materialised tree, returning the list of
    (success flags, final observation) for every prefix length; otherwise on a fresh virtual tree over store,
    returning that pair for prefix length k."""
    from remerkleable.virtual import VirtualNode
    per_prefix = []
    for kk in (range(1, k + 1) if store is None else [k]):
        sh = Shadow(t, v)
        if store is not None:
            sh.views[0] = T(t).view_from_backing(VirtualNode(sh.views[0].hash_tree_root(), NodeProxy(store)))
        oks = []
        for c in cmds[:kk]:
            if c[1] >= len(sh.views):
                oks.append(None)
                continue
            oks.append(not isinstance(attempt(lambda: sh.run(c), anyerr=True), E))
        per_prefix.append([oks, sh.observe()])
    return per_prefix if store is None else per_prefix[0]


def gen_inputs(ctx):
    rng = ctx.rng
    n = 900 if ctx.thorough else 200
    for i in range(n):
        t = MUTABLE_TOP[i % len(MUTABLE_TOP)]
        inp = gen_history(rng, t, rng.randrange(2, 14), p_child=0.25)
        inp["gs"] = [rng.randrange(1, 2 << rng.choice([2, 3, 4, 5, 6, 7])) for _ in range(8)]
        yield inp


def build(inp):
    t, v, cmds, gs = inp["t"], inp["v"], inp["cmds"], inp["gs"]
    mat = to_py(t, v)
    try:
        from remerkleable.virtual import VirtualNode
        VirtualNode(mat.hash_tree_root(), Store(mat.get_backing()))
    except Exception as e:
        # a virtual tree cannot even be created: that is itself a violation ("can be created")
        coq = "(%s, %s, [], [])" % (ty_coq(t), val_coq(t, v))
        c = Case(inp, coq, [E("other")], ["P:virtual_tree_can_be_created"], nontrivial=True, kind="creation")
        c.why = "a virtual tree cannot be created: %r" % (e,)
        return c
    store = Store(mat.get_backing())
    vroot = VirtualNode(mat.hash_tree_root(), NodeProxy(store))
    vview = T(t).view_from_backing(vroot)
    shv = Shadow(t, v)
    shv.views[0] = vview
    shm = Shadow(t, v)
    # navigation probes run on the SAME virtual root the view is built on (memoised state is shared), including
    # paths that run through leaves
    nav = [attempt(lambda g=g: vroot.getter(g).merkle_root(), anyerr=True) for g in gs]
    navm = [attempt(lambda g=g: mat.get_backing().getter(g).merkle_root(), anyerr=True) for g in gs]
    from remerkleable.tree import leaf_iter
    lv = attempt(lambda: [bytes(x.merkle_root()) for x in leaf_iter(vroot)], anyerr=True)
    lm = attempt(lambda: [bytes(x.merkle_root()) for x in leaf_iter(mat.get_backing())], anyerr=True)
    obs = [[shv.observe(), nav]]
    # a root-keyed store cannot tell a zero summary (leaf) from an expanded zero subtree with the same root: the
    # comparison with the materialised tree at NODE level presupposes that no leaf root is also a pair root
    # (the premise `consistent` of the C20 theorems); views never navigate into summaries, so the view-level
    # comparison below does not need it
    leaf_roots = set(lm) if not isinstance(lm, E) else set()
    consistent = not any(r in store.tbl for r in leaf_roots)
    why = None if (nav == navm or not consistent) else "navigation on the virtual node differs from the materialised tree"
    if why is None and consistent and lv != lm:
        why = "leaf iteration over the virtual tree differs from the materialised tree (after the navigation probes)"
    coq_cmds = []
    for k, c in enumerate(cmds):
        if c[1] >= len(shv.views):
            coq_cmds.append(cmd_coq(shv.types, c, None))
            obs.append([False, shv.observe()])
            continue
        et = elem_for(shv, c)
        coq_cmds.append(cmd_coq(shv.types, c, et))
        rv = attempt(lambda: shv.run(c), anyerr=True)
        rm = attempt(lambda: shm.run(c), anyerr=True)
        ov, om = shv.observe(), shm.observe()
        obs.append([not isinstance(rv, E), ov])
        if why is None and (isinstance(rv, E) != isinstance(rm, E) or ov != om):
            why = "command %d behaves differently on the virtual tree than on the materialised tree" % (k + 1)
    # navigation probes AFTER the history (leaf-ness of many nodes is known by now: encode_bytes asked it), on the held
    # top-level backings: every position that exists in the materialised tree and the two positions below every leaf
    if why is None and consistent:
        try:
            vb, mb = shv.views[0].get_backing(), shm.views[0].get_backing()
            pos, frontier = [1], [(1, mb)]
            for _ in range(7):
                nxt = []
                for g, n_ in frontier:
                    if n_.is_leaf():
                        pos += [2 * g, 2 * g + 1]
                    else:
                        nxt += [(2 * g, n_.get_left()), (2 * g + 1, n_.get_right())]
                pos += [g for g, _ in nxt]
                frontier = nxt[:24]
            for g in pos[:120]:
                pv = attempt(lambda: bytes(vb.getter(g).merkle_root()))
                pm = attempt(lambda: bytes(mb.getter(g).merkle_root()))
                if pv != pm:
                    why = "after the history, getter(%d) on the virtual tree gives %r, on the materialised tree %r" % (g, pv, pm)
                    break
        except Exception as e:  # noqa
            why = "navigation probes after the history could not be run: %r" % (e,)
    for pr in store.proxies:
        if why is None and len(set(pr.asked)) != len(pr.asked):
            why = "a virtual node obtained the same child / leaf answer from its source twice: %r" % (pr.asked,)
    # write-before-read schedules: the run above observes (root + encoding of every held view) after every command,
    # so every sibling along a later write path has been fetched and memoised by then.  Replay every prefix of the
    # history on a FRESH virtual tree with no observation in between and look only at the end: the writes then go
    # through virtual nodes none of whose children was fetched before.
    mat_obs = lazy_run(t, v, cmds, len(cmds), None)
    for k in range(1, len(cmds) + 1):
        if why is not None:
            break
        st2 = Store(mat.get_backing())
        lz = attempt(lambda: lazy_run(t, v, cmds, k, st2), anyerr=True)
        if isinstance(lz, E) or lz != mat_obs[k - 1]:
            why = ("the first %d commands run without any read in between on a fresh virtual tree end differently "
                   "than on the materialised tree" % k)
        for pr in st2.proxies:
            if why is None and len(set(pr.asked)) != len(pr.asked):
                why = "write-before-read schedule: a virtual node asked its source twice: %r" % (pr.asked,)
    coq = "(%s, %s, %s, %s)" % (ty_coq(t), val_coq(t, v), clist(coq_cmds), clist(cN(g) for g in gs))
    names = ["P:initial"] + ["P:step%d" % (i + 1) for i in range(len(cmds))]
    c = Case(inp, coq, obs, names, nontrivial=len(cmds) >= 2, kind=t[0])
    c.why = why
    return c


def direct_violation(c):
    return c.why


shrink = shrink_history
