"""C02 — encode_bytes / serialize equal SSZ-spec serialization."""
import io
from vfam import *  # noqa

THEOREMS = ["C02_sequence_offsets", "C02_sequence_fixed", "C02_container_offsets", "C02_uint", "C02_bool", "C02_length_within_bounds", "C02_constructed", "C02_any_representation"]
PARTIAL = ["C02_constructed / C02_any_representation are full statements for every type: the constructor's tree and ANY representation of a value serialise to the spec bytes, and every mutating operation preserves representation (C04, C05_cmd_on_chain); the Python glue (encode_bytes, serialize(stream), bytes()) is tied by the correspondence, also after mutation histories (C04 harness)"]
COQ_IMPORTS = ["RM.Types", "RMR.RunV"]
COQ_FN = "RunV.run_c02"
COQ_CASE_TY = "(ty * val)"
NAMES = ["P:encode_bytes", "P:serialize_stream", "P:dunder_bytes"]
RULE = ("random types x values as in C01; observables encode_bytes(), serialize(stream) into a stream with a random "
        "prefix (bytes written, returned count), bytes(value); model-free: the same value reached by mutation encodes to the "
        "same bytes, the first time and again; non-trivial = composite type and non-zero value")


def gen_inputs(ctx):
    return gen_tv(ctx, 1500 if ctx.thorough else 350)


def build(inp):
    t, v = inp["t"], inp["v"]
    x = attempt(lambda: to_py(t, v), anyerr=True)
    if isinstance(x, E):
        obs = [x, x, x]
    else:
        o1 = attempt(lambda: bytes(x.encode_bytes()), anyerr=True)

        def ser():
            pre = b"\xa5" * (len(json.dumps(v)) % 7)
            st = io.BytesIO()
            st.write(pre)
            cnt = x.serialize(st)
            out = st.getvalue()
            assert out[:len(pre)] == pre
            return [out[len(pre):], int(cnt)]
        o2 = attempt(ser, anyerr=True)
        o3 = attempt(lambda: bytes(x), anyerr=True)
        obs = [o1, o2, o3]
    c = Case(inp, "(%s, %s)" % (ty_coq(t), val_coq(t, v)), obs, NAMES, nontrivial=nontrivial_tv(t, v), kind=t[0])
    c.why = None
    if not isinstance(x, E) and not isinstance(obs[0], E) and not is_basic(t):
        # model-free: the same value reached by mutation (default value, then element / bit writes, appends, one element
        # too many popped back) encodes to the same bytes — the first time and again (serialising must not disturb it)
        try:
            from props.c01 import mutate_into
            m = mutate_into(t, v)
            e1, e2, e3 = bytes(m.encode_bytes()), bytes(m.encode_bytes()), bytes(m)
            st = io.BytesIO()
            cnt = m.serialize(st)
            if e1 != obs[0]:
                c.why = "the value reached by mutation encodes differently from the constructed one"
            elif e2 != e1 or e3 != e1 or st.getvalue() != e1 or int(cnt) != len(e1):
                c.why = "encoding the same (mutated) value again gives other bytes / another count than the first time"
            elif bytes(m.hash_tree_root()) != bytes(x.hash_tree_root()):
                c.why = "serialising a mutated value disturbed its root"
        except Exception as ex:  # noqa
            c.why = "the value could not be reached by mutation / encoded: %r" % (ex,)
    return c


def direct_violation(c):
    return c.why
