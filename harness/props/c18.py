"""C18 — history changelog and tree diff report exactly the real changes."""
from lib import *  # noqa
from trees import *  # noqa
from remerkleable.history import get_target_history
from remerkleable.tree import get_diff, leaf_iter

THEOREMS = ["C18_history", "C18_history_nonempty", "C18_diff_empty", "C18_diff_sound", "C18_graft", "C18_leaves", "C18_diff_exact", "C18_diff_left_to_right", "C18_diff_exact_inj"]
PARTIAL = ["the model theorems cover the whole statement: changelog = lookup + drop repeats (C18_history, Hinj), diff empty / sound / exactly the minimal differing pairs, left to right, never nested (C18_diff_exact, C18_diff_left_to_right, C18_diff_exact_inj), graft reproduces the root, leaf iteration; the Python generators are tied by the correspondence (exact pair lists)"]
ASSUMPTIONS = ["Hinj (collision-freeness of the pair hash) is a premise of C18_history"]
COQ_IMPORTS = ["RMR.RunC18"]
COQ_FN = "RunC18.run"
COQ_CASE_TY = "RunC18.case"
SHARD = 60
NAMES = ["P:target_history", "P:diff_pairs", "P:graft_root", "P:leaves"]
LEAVES = [["Z", 0], chunk(1), chunk(2), chunk(3), ["Z", 1]]
RULE = ("histories of 1-8 keyed trees related by random writes with repeats and reversions x target gindex (1, paths "
        "under changed and unchanged siblings, paths through leaves); random tree pairs for diff / graft / leaf "
        "iteration; non-trivial = history of >= 3 entries with >= 2 distinct roots at the target; distinct by input")


def full_tree(rng, d):
    if d == 0:
        return rng.choice(LEAVES[:4])
    return ["P", full_tree(rng, d - 1), full_tree(rng, d - 1)]


def set_at(t, path, v):
    if not path:
        return v
    if t[0] != "P":
        return t
    return ["P", set_at(t[1], path[1:], v), t[2]] if path[0] == 0 else ["P", t[1], set_at(t[2], path[1:], v)]


def gen_inputs(ctx):
    rng = ctx.rng
    n = 2500 if ctx.thorough else 500
    for _ in range(n):
        d = rng.choice([1, 2, 3, 3, 4])
        base = full_tree(rng, d) if rng.random() < 0.8 else rand_tree(rng, d, LEAVES)
        hist, cur, past = [], base, [base]
        for k in range(rng.randrange(1, 9)):
            r = rng.random()
            if r < 0.25:
                pass                                    # repeat
            elif r < 0.4:
                cur = rng.choice(past)                  # reversion
            else:
                path = [rng.randrange(2) for _ in range(rng.randrange(1, d + 1))]
                cur = set_at(cur, path, rng.choice(LEAVES[:4] + [["P", chunk(4), chunk(5)]]))
            past.append(cur)
            hist.append([k * 10 + rng.randrange(0, 5), cur])
        g = rng.choice([1, 1, 2, 3, 0]) if rng.random() < 0.25 else rng.randrange(1, 2 << d)
        a = rng.choice(past)
        b = rng.choice(past) if rng.random() < 0.7 else rand_tree(rng, d, LEAVES)
        yield {"hist": hist, "g": g, "a": a, "b": b}


def build(inp):
    hist = [(k, tree_py(t)) for k, t in inp["hist"]]
    g = inp["g"]

    def th():
        return [[int(k), n.merkle_root()] for k, n in get_target_history(hist, g)]
    o_h = attempt(th, anyerr=True)
    a, b = tree_py(inp["a"]), tree_py(inp["b"])
    o_d = attempt(lambda: [[x.merkle_root(), y.merkle_root()] for x, y in get_diff(a, b)], anyerr=True)

    def graft():
        # positions of the reported pairs, found by walking both trees the way the diff is specified
        out = a
        def walk(x, y, g):
            nonlocal out
            if x.merkle_root() == y.merkle_root():
                return
            if x.is_leaf() or y.is_leaf():
                out = out.setter(g)(y)
                return
            walk(x.get_left(), y.get_left(), 2 * g)
            walk(x.get_right(), y.get_right(), 2 * g + 1)
        walk(a, b, 1)
        return out.merkle_root()
    o_g = attempt(graft, anyerr=True)
    o_l = [x.merkle_root() for x in leaf_iter(a)]
    coq = "(%s, %s, %s, %s)" % (clist("(%s, %s)" % (cN(k), tree_coq(t)) for k, t in inp["hist"]), cN(g),
                                tree_coq(inp["a"]), tree_coq(inp["b"]))
    roots = set()
    if not isinstance(o_h, E):
        roots = {r for _, r in o_h}
    c = Case(inp, coq, [o_h, o_d, o_g, o_l], NAMES, nontrivial=(len(hist) >= 3 and len(roots) >= 2), kind="g%d" % min(g, 4))
    # model-free oracles straight from the property statement
    c.why = None
    if not isinstance(o_h, E):
        looked = []
        try:
            for k, n in hist:
                looked.append((k, n.getter(g).merkle_root()))
        except Exception:
            looked = None
        if looked is not None:
            want = []
            for k, r in looked:
                if not want or want[-1][1] != r:
                    want.append([k, r])
            if want != o_h:
                c.why = "changelog differs from looking the position up in every entry and dropping consecutive repeats"
    if a.merkle_root() == b.merkle_root() and o_d:
        c.why = "diff of trees with equal roots is not empty"
    if not isinstance(o_g, E) and o_g != b.merkle_root():
        c.why = "grafting the diff's second members into the first tree does not give the second tree's root"
    return c


def direct_violation(c):
    return c.why


def shrink(inp):
    h = inp["hist"]
    for i in range(len(h)):
        if len(h) > 1:
            yield dict(inp, hist=h[:i] + h[i + 1:])
