"""C03 — decoding inverts encoding (bytes and stream-with-scope)."""
import io
from vfam import *  # noqa

THEOREMS = ["C03_roundtrip", "C03_decode_encode", "C03_uint_roundtrip", "C03_uint_same_value", "C03_bool_roundtrip"]
PARTIAL = ["C03_roundtrip is the full statement for every type (decoded backing = constructed backing, suffix untouched) under the premise that the encoding is shorter than 2^32 bytes (4-byte SSZ offsets); the stream is modelled as its remaining bytes, so an arbitrary PREFIX before the encoding and the Python stream object are covered by the correspondence (random prefix / suffix, exact scope; success, root, re-encoding, ==, bytes consumed), as is the == operator itself"]
COQ_IMPORTS = ["RM.Types", "RMR.RunV"]
COQ_FN = "RunV.run_c03"
COQ_CASE_TY = "(ty * val * bytes)"
NAMES = ["P:accepted", "P:root", "P:reencoding", "P:equal_to_original", "P:consumed"]
RULE = ("random types x values as in C01, the encoding placed in a stream after a random prefix and before a random "
        "suffix, decoded with deserialize(stream, len(encoding)); observables: success, root, re-encoding, == original, "
        "bytes consumed; non-trivial = composite type and non-zero value")


def gen_inputs(ctx):
    rng = ctx.rng
    for inp in gen_tv(ctx, 1500 if ctx.thorough else 350):
        inp["prefix"] = rng.randrange(0, 9)
        inp["suffix"] = bytes(rng.getrandbits(8) for _ in range(rng.choice([0, 0, 1, 4, 5, 33]))).hex()
        yield inp


def build(inp):
    t, v = inp["t"], inp["v"]
    sfx = bytes.fromhex(inp["suffix"])
    C = T(t)

    def run():
        x = to_py(t, v)
        enc = bytes(x.encode_bytes())
        pre = b"\x5a" * inp["prefix"]
        st = io.BytesIO(pre + enc + sfx)
        st.seek(len(pre))
        y = C.deserialize(st, len(enc))
        return [True, y.hash_tree_root(), bytes(y.encode_bytes()), bool(y == x), st.tell() - len(pre)]
    o = attempt(run, anyerr=True)
    obs = [o] + [[]] * 4 if isinstance(o, E) else o
    if isinstance(o, E):
        return Case(inp, "(%s, %s, %s)" % (ty_coq(t), val_coq(t, v), cbytes(sfx)), [o], ["P:accepted"],
                    nontrivial=nontrivial_tv(t, v), kind=t[0])
    return Case(inp, "(%s, %s, %s)" % (ty_coq(t), val_coq(t, v), cbytes(sfx)), o, NAMES,
                nontrivial=nontrivial_tv(t, v), kind=t[0])
