"""C17 — partial trees: summaries keep the root, excluded data is never misread."""
from hist import *  # noqa
from remerkleable.tree import NavigationError, RootNode

THEOREMS = ["C17_root", "C17_get", "C17_set", "C17_set_expand", "C17_errors", "C17_summarize", "C17_writes_stay_related", "C17_view_get", "C17_view_set", "C17_list_append", "C17_list_pop", "C17_bits_get", "C17_bits_set", "C17_bitlist_append", "C17_bitlist_pop", "C17_union_value", "C17_lengths", "C17_encoding", "C17_store_start", "C17_store_command", "C17_store_observed", "C17_node_iter", "C17_packed_iter", "C17_bit_iter", "C17_export", "C17_export_is_value", "C17_two_way_reading", "C17_view_ops_two_way", "C17_view_get_complete", "C17_store_errors", "C17_iterators_complete", "C17_export_complete", "C17_export_total"]
PARTIAL = ["the model theorems cover the statement at tree, view and store level: every view operation, serialisation (C17_encoding) and ANY store command with its hook propagation (C17_store_command) that succeeds on the partial tree succeeds on the complete tree with the same data and related (equally rooted) backings, so histories through any held views compose; failures at tree level are navigation errors (C17_errors). the read-only iterators and object export over a partial tree hand out the complete tree's nodes / elements / object whenever they return (C17_node_iter, C17_packed_iter, C17_bit_iter, C17_export), and a successful export of a partial version of a tree representing a value imports back to that value (C17_export_is_value). The other direction is proved too (PartialErrors.v, premise Hinj): where the complete tree answers, every view operation and the serialisation on the partial tree give the related answer or fail with a navigation error (an index error where the code re-labels it: Bitlist bit access) — C17_view_ops_two_way — and a store command with its hook propagation that succeeds on the complete store fails on the partial store only with such an error (C17_store_errors). The same for the three iterators and the object export (C17_iterators_complete, C17_export_complete; C17_export_total: the export of any partial version of a tree representing a value is the value's export or a navigation / index error). NOT proved: iterator OBJECTS stepped on after a failure (the model's iterators are one-shot loops) — covered by the correspondence (every read path of every held view: complete answer or navigation / index error; stepped iterators)"]
ASSUMPTIONS = ["Hinj (collision-freeness of the pair hash) is a premise of C17_set_expand"]
COQ_IMPORTS = ["RM.Types", "RM.ModelStore", "RMR.RunC17"]
COQ_FN = "RunC17.run"
COQ_CASE_TY = "RunC17.case"
CASE_TIMEOUT = 60
SHARD = 20
RULE = ("mutable types x values x 1-4 random tree positions replaced by bare summaries via summarize_into (element "
        "subtrees, chunk parents, zero padding, the contents root; every sixth case a wide composite with a right-hand "
        "subtree two or more levels above its elements summarised) x histories of reads (child views) and mutations on "
        "the partial view; after every command: error class (navigation / index / other) and root + encoding (or error "
        "class) of every held view vs the model; model-free: root unchanged by summarising, and every command either "
        "gives the same result as on the complete tree or fails with a navigation / index error, and at the end every "
        "read path of every held view (len, index, slice, iter, readonly_iter, container iteration, to_obj) gives the "
        "complete tree's answer or a navigation / index error, and an iterator driven by next() beyond a navigation "
        "error only ever hands out the element of its position; "
        "non-trivial = >= 1 summarised position that is not the root and >= 2 commands")


def tag3(e):
    from lib import err_tag
    t = err_tag(e)
    return t if t in ("nav", "index") else "other"


def att3(f):
    try:
        return f()
    except Exception as e:  # noqa
        return E(tag3(e))


class PShadow(Shadow):
    def __init__(self, t, view):
        self.views = [view]
        self.types = [t]
        self.parent = [None]

    def observe(self):
        return [[att3(lambda: x.hash_tree_root()), att3(lambda: bytes(x.encode_bytes()))] for x in self.views]


def PShadowProbe(sh):
    """a throw-away copy of a shadow (copies of the views) to try a command without keeping its effect"""
    p = PShadow.__new__(PShadow)
    p.views = [x.copy() if hasattr(x, "_backing") else x for x in sh.views]
    p.types = list(sh.types)
    p.parent = [None] * len(sh.views)
    return p


EXTRA_TYPES = [
    ["cont", [["uint", 8], ["bytelist", 96]]], ["list", ["bytelist", 40], 4], ["cont", [["bytevec", 48], ["bitlist", 600]]],
    ["vec", ["bytelist", 65], 2], ["cont", [["list", ["uint", 8], 64], ["bytelist", 33], ["bitvec", 300]]],
    ["list", ["cont", [["bytelist", 70], ["uint", 1]]], 3], ["union", False, [["bytelist", 64], ["uint", 1]]],
]


# wide composites: a summary can sit two or more levels above the elements, in the middle of an iteration
_PT = ["cont", [["uint", 8], ["uint", 2]]]
WIDE_TYPES = [["vec", _PT, 8], ["list", _PT, 16], ["cont", [["uint", 8]] * 8], ["vec", ["bytevec", 48], 9],
              ["cont", [["uint", 8], _PT, ["uint", 4], ["bitvec", 9], ["uint", 1], ["uint", 1], _PT, ["bool"], ["uint", 2]]],
              ["list", ["list", ["uint", 8], 4], 12]]


def existing_positions(node, max_depth=9):
    """generalized indices of the nodes that really exist in a backing (breadth first)"""
    out, frontier = [], [(1, node)]
    for _ in range(max_depth):
        nxt = []
        for g, n in frontier:
            if not n.is_leaf():
                nxt += [(2 * g, n.get_left()), (2 * g + 1, n.get_right())]
        out += [g for g, _ in nxt]
        frontier = nxt[:64]
    return out


def gen_inputs(ctx):
    rng = ctx.rng
    n = 900 if ctx.thorough else 220
    types = MUTABLE_TOP + EXTRA_TYPES * 2
    for i in range(n):
        t = types[i % len(types)]
        wide = i % 6 == 5
        if wide:
            t = WIDE_TYPES[(i // 6) % len(WIDE_TYPES)]
        inp = gen_history(rng, t, rng.randrange(2, 14), p_child=0.35)
        for _ in range(30):
            if not (wide and t[0] == "list" and len(inp["v"]) < 8):
                break
            inp = gen_history(rng, t, rng.randrange(2, 14), p_child=0.35)
        try:
            pos = existing_positions(to_py(inp["t"], inp["v"]).get_backing())
        except Exception:
            pos = []
        inner = [g for g in pos if g & 1 and g.bit_length() <= max(x.bit_length() for x in pos) - 2] if pos else []
        if wide and inner and rng.random() < 0.8:
            # right-hand subtrees well above the elements: a run of elements in the middle / at the end is excluded
            inp["gs"] = [rng.choice(inner) for _ in range(rng.randrange(1, 3))]
        elif pos and rng.random() < 0.8:
            inp["gs"] = [rng.choice(pos) for _ in range(rng.randrange(1, 4))]
        else:
            depth = rng.choice([1, 2, 3, 4, 5])
            inp["gs"] = [rng.randrange(2, 2 << depth) for _ in range(rng.randrange(1, 5))]
        # make sure children are read: append reads of every top-level position
        k = inp["t"][0]
        ln = len(inp["v"]) if k in ("vec", "list", "cont") else 0
        for j in range(min(ln, 4)):
            inp["cmds"].append(["get", 0, j])
        if k == "union":
            inp["cmds"].append(["value", 0])
        yield inp


def stepped(make_iter, conv, n):
    """drive an iterator by hand and keep calling next() after a navigation / index error: [(call number, value)] of
    the calls that returned something"""
    it = make_iter()
    got = []
    for call in range(n + 3):
        try:
            got.append((call, conv(next(it))))
        except StopIteration:
            break
        except Exception as e:  # noqa
            if tag3(e) not in ("nav", "index"):
                return E(tag3(e))
    return got


def stepped_wrong(got, full):
    """a value handed out by a stepped iterator must be the element at its position: the j-th value returned, or
    (for an iterator that moves on after a failure) the element of that call number"""
    if isinstance(got, E) or isinstance(full, E):
        return False
    for j, (call, val) in enumerate(got):
        ok = (j < len(full) and val == full[j]) or (call < len(full) and val == full[call])
        if not ok:
            return True
    return False


def read_paths(x, t):
    """every way of reading a view's content (model-free): each must give the complete tree's answer or fail with a
    navigation / index error on a partial tree"""
    k = t[0] if t else None
    out = {}
    if k in ("vec", "list", "bitvec", "bitlist"):
        conv = (lambda z: bool(z)) if k in ("bitvec", "bitlist") else (lambda z: bytes(z.hash_tree_root()))
        out["len"] = att3(lambda: len(x))
        out["iter"] = att3(lambda: [conv(z) for z in iter(x)])
        if hasattr(x, "readonly_iter"):
            out["readonly_iter"] = att3(lambda: [conv(z) for z in x.readonly_iter()])
        n_ = att3(lambda: len(x))
        if not isinstance(n_, E):
            out["stepped:iter"] = att3(lambda: stepped(lambda: iter(x), conv, n_))
            if hasattr(x, "readonly_iter"):
                out["stepped:readonly_iter"] = att3(lambda: stepped(lambda: x.readonly_iter(), conv, n_))
        out["index"] = att3(lambda: [conv(x[i]) for i in range(len(x))])
        out["slice"] = att3(lambda: [conv(z) for z in x[0:len(x)]])
    elif k == "cont":
        out["iter"] = att3(lambda: [bytes(z.hash_tree_root()) for z in iter(x)])
        out["stepped:iter"] = att3(lambda: stepped(lambda: iter(x), lambda z: bytes(z.hash_tree_root()), len(t[1])))
        out["fields"] = att3(lambda: [bytes(getattr(x, "f%d" % i).hash_tree_root()) for i in range(len(t[1]))])
    if k is not None and hasattr(x, "to_obj"):
        out["to_obj"] = att3(lambda: json.dumps(x.to_obj(), sort_keys=True, default=str))
    return out


def build(inp):
    t, v, gs, cmds = inp["t"], inp["v"], inp["gs"], inp["cmds"]
    full = to_py(t, v)
    nd = full.get_backing()
    root0 = nd.merkle_root()
    flags = []
    for g in gs:
        try:
            nd = nd.summarize_into(g)()
            flags.append(True)
        except Exception:
            flags.append(False)
    part = T(t).view_from_backing(nd)
    shp, shf = PShadow(t, part), PShadow(t, to_py(t, v))
    obs = [[flags, shp.observe()]]
    coq_cmds = []
    why = None
    baseline = True
    # the generator numbered the views by running the commands on the COMPLETE value.  On the partial tree a
    # read can fail where the generator's succeeded, so later view numbers would address other views than the
    # command was written for (and its argument would not fit them).  `shg` replays the generator's numbering;
    # once the two numberings differ, only commands on the top-level view (number 0, always the same view)
    # are kept, the others are dropped for implementation and model alike.
    shg = Shadow(t, v)
    kept = 0
    if nd.merkle_root() != root0:
        why = "summarising changed the root"
    for k, c in enumerate(cmds):
        diverged = len(shg.views) != len(shp.views)
        try:
            if c[1] < len(shg.views):
                shg.run(c)
        except Exception:
            pass
        if diverged and c[1] != 0:
            continue
        kept += 1
        if c[1] >= len(shp.views):
            # the view this command addresses was never obtained on the partial tree (its get failed)
            coq_cmds.append(cmd_coq(shp.types, c, None))
            obs.append([E("other"), shp.observe()])
            baseline = False
            continue
        et = elem_for(shp, c)
        coq_cmds.append(cmd_coq(shp.types, c, et))
        if shp.stale(c[1]):
            baseline = False     # mutation through a stale child view (DESIGN C14 observation): no baseline
        rp = att3(lambda: shp.run(c))
        if not baseline:
            pass
        elif isinstance(rp, E):
            # the command needed an excluded subtree (or is invalid): it is not applied to the complete tree
            if rp.tag not in ("nav", "index") and why is None:
                rf = att3(lambda: PShadowProbe(shf).run(c))
                if not isinstance(rf, E):
                    why = "command %d fails on the partial tree with a %s error, not a navigation/index error" % (k + 1, rp.tag)
        else:
            rf = att3(lambda: shf.run(c))
            if isinstance(rf, E) and why is None:
                why = "command %d succeeds on the partial tree but fails on the complete tree" % (k + 1)
        op = shp.observe()
        obs.append([True if not isinstance(rp, E) else rp, op])
        if baseline and why is None and len(shf.views) == len(shp.views):
            of = shf.observe()
            for (pr, pe), (fr, fe) in zip(op, of):
                if pr != fr:
                    why = "after command %d a held view's root differs from the complete tree's" % (k + 1)
                elif isinstance(pe, E) and pe.tag not in ("nav", "index") and not isinstance(fe, E):
                    why = "after command %d encoding fails with a %s error" % (k + 1, pe.tag)
                elif not isinstance(pe, E) and pe != fe:
                    why = "after command %d a held view's encoding differs from the complete tree's" % (k + 1)
    # every read path of every held view: the complete tree's answer, or a navigation / index error
    if baseline and why is None and len(shf.views) == len(shp.views):
        for j, (px, fx) in enumerate(zip(shp.views, shf.views)):
            rp_, rf_ = read_paths(px, shp.types[j]), read_paths(fx, shf.types[j])
            for name, got in rp_.items():
                want = rf_.get(name)
                if name.startswith("stepped:"):
                    full_seq = rf_.get(name[len("stepped:"):])
                    if stepped_wrong(got, full_seq) and why is None:
                        why = ("view %d: %s stepped with next() beyond a navigation error hands out a value that is not "
                               "the element at that position" % (j, name[len("stepped:"):]))
                    continue
                if isinstance(got, E):
                    if got.tag not in ("nav", "index") and not isinstance(want, E) and why is None:
                        why = "view %d: %s fails on the partial tree with a %s error" % (j, name, got.tag)
                elif got != want and why is None:
                    why = "view %d: %s returns other data on the partial tree than on the complete tree" % (j, name)
    coq = "(%s, %s, %s, %s)" % (ty_coq(t), val_coq(t, v), clist(cN(g) for g in gs), clist(coq_cmds))
    names = ["P:summarised"] + ["P:step%d" % (i + 1) for i in range(kept)]
    c = Case(inp, coq, obs, names, nontrivial=(any(flags) and kept >= 2), kind=t[0])
    c.why = why
    return c


def direct_violation(c):
    return c.why


shrink = shrink_history
