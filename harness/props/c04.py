"""C04 — a mutated view is indistinguishable from a fresh value with the same content."""
from hist import *  # noqa

THEOREMS = ["C04_tree_set", "C04_tree_append", "C04_root_of_representation", "C04_step", "C04_history", "C04_observables", "C04_fresh_is_representation", "C04_indistinguishable", "C04_constructed_is_representation", "C04_container_set", "C04_vector_set", "C04_list_set", "C04_list_append", "C04_list_value_history", "C04_list_pop", "C04_tree_pop", "C04_union_change", "C04_union_change_none", "C04_packed_vector_set", "C04_packed_list_set", "C04_list_set_any", "C04_list_append_any", "C04_list_pop_any", "C04_list_history_any", "C04_bitvector_set", "C04_bitlist_set", "C04_bitlist_append", "C04_bitlist_pop"]
PARTIAL = ["every mutating operation named by the property (element / field assignment, append, pop, bit set, Bitlist append / pop, union change; packed and composite elements) is proved to map a representation of a value to a representation of the updated value, and every representation is proved indistinguishable (root, encoding, length) from the fresh value; histories are proved for lists (any element type) and compose for nested views through the C05 child theorems; NOT proved: that the Python methods are exactly these model functions, coercion of the assigned Python object to the element type, and root caching (C19 covers the heap) — tied by the correspondence on random mutation histories (content, length, encoding, root vs. fresh value after every step)"]
COQ_IMPORTS = ["RM.Types", "RM.ModelStore", "RMR.RunH"]
COQ_FN = "RunH.run"
COQ_CASE_TY = "RunH.case"
CASE_TIMEOUT = 60
SHARD = 20
RULE = ("25 mutable types (lists / bitlists of several limits started at chunk and subtree boundaries, vectors, "
        "bitvectors, containers, unions, nested) x random histories of valid top-level mutations (set, field set, append, "
        "pop, bit set, union change; runs of append/pop across boundaries; every fourth history also mutates through "
        "child views obtained earlier and kept while the value changes by other routes); after every step root and encoding of the "
        "view are compared with the model AND with a value freshly constructed from the view's exported content; "
        "non-trivial = at least 3 mutations; distinct by input JSON")


def gen_inputs(ctx):
    rng = ctx.rng
    n = 1200 if ctx.thorough else 260
    for i in range(n):
        t = MUTABLE_TOP[i % len(MUTABLE_TOP)] if rng.random() < 0.85 else None
        if t is None:
            t = gen_type(rng, 2, big_ok=False)
            if t[0] not in COMPOSITE or type_size(t) > 9:
                continue
        if i % 4 == 3:
            # mutations that reach the value through held child views (obtained earlier, kept while the value changes
            # by other routes): still 'the content the sequence implies'
            yield gen_history(rng, t, rng.randrange(6, 24), p_child=0.3)
        elif i % 4 == 1:
            # 'with every argument': some commands carry an argument the operation must refuse (index next to the valid
            # range, wrong-width / over-length value, append to a full list ...) — the value must stay what it was
            yield gen_history(rng, t, rng.randrange(3, 28), top_only=True, p_invalid=0.2)
        else:
            yield gen_history(rng, t, rng.randrange(3, 28), top_only=True)


def build(inp):
    coq, obs, st = execute(inp)
    names = ["P:initial"] + ["P:step%d" % (i + 1) for i in range(len(inp["cmds"]))]
    c = Case(inp, coq, obs, names, nontrivial=len(inp["cmds"]) >= 3, kind=inp["t"][0])
    # direct oracle: the final view against a fresh value built from its own exported content
    c.why = None
    try:
        x = Shadow(inp["t"], inp["v"])
        for cmd in inp["cmds"]:
            try:
                x.run(cmd)
            except Exception:
                pass
        top = x.views[0]
        C = T(inp["t"])
        fresh = C.from_obj(top.to_obj())
        if fresh.hash_tree_root() != top.hash_tree_root():
            c.why = "root differs from a fresh value with the same exported content"
        elif bytes(fresh.encode_bytes()) != bytes(top.encode_bytes()):
            c.why = "encoding differs from a fresh value with the same exported content"
        else:
            # ... indistinguishable also as a dictionary key / set member: equal, and hashing like the fresh value
            try:
                same = (top == fresh) and hash(top) == hash(fresh)
            except Exception as ex:  # noqa
                same = False
                c.why = "the mutated view cannot be hashed / compared like a fresh value: %r" % (ex,)
            if not same and c.why is None:
                c.why = "the mutated view is not == / does not hash like a fresh value with the same content"
    except Exception as e:
        c.why = "mutated view cannot be exported / rebuilt: %r" % (e,)
    if c.why is None:
        c.why = neighbour_copy_disagrees(x)
    if c.why is None:
        c.why = lazy_disagreement(inp, obs)
    return c


def neighbour_copy_disagrees(sh):
    """model-free: on copies of every held vector / list / container view, the composite element (field) sitting NEXT to a
    slot is written into that slot — once as the very view obtained from the neighbour (same node object), once as an
    equal value decoded afresh from its bytes: both copies must end with the same root and encoding"""
    for x, t in zip(sh.views, sh.types):
        if t is None or t[0] not in ("vec", "list", "cont"):
            continue
        try:
            if t[0] == "cont":
                tys = list(t[1])
                get, put = (lambda v, i: getattr(v, "f%d" % i)), (lambda v, i, a: setattr(v, "f%d" % i, a))
            else:
                tys = [t[1]] * min(len(x), 6)
                get, put = (lambda v, i: v[i]), (lambda v, i, a: v.__setitem__(i, a))
            for i in range(len(tys)):
                for j in (i - 1, i + 1):
                    if not (0 <= j < len(tys)) or tys[i] != tys[j] or is_basic(tys[i]):
                        continue
                    a, b = x.copy(), x.copy()
                    put(a, j, get(a, i))
                    put(b, j, T(tys[i]).decode_bytes(bytes(get(b, i).encode_bytes())))
                    if a.hash_tree_root() != b.hash_tree_root() or bytes(a.encode_bytes()) != bytes(b.encode_bytes()):
                        return ("slot %d of a %s assigned the view of its neighbour %d differs from the same slot assigned "
                                "an equal value built afresh" % (j, t[0], i))
        except Exception as ex:  # noqa
            return "assigning the neighbouring element view into a slot raised %r" % (ex,)
    return None


def direct_violation(c):
    return c.why


shrink = shrink_history
