"""C16 — object export / import round-trips and survives JSON."""
from vfam import *  # noqa

THEOREMS = ["C16_hex_roundtrip", "C16_json_idempotent", "C16_uint_roundtrip", "C16_bool_roundtrip", "C16_roundtrip", "C16_json_invariant"]
PARTIAL = ["C16_roundtrip is the full statement for every type (any representation, also through JSON) under the model's field naming f0, f1, ... with fewer than 10^20 fields per container; the documented plain SHAPE of the exported object (numbers vs. hex strings, tuples vs. lists, key names of the real classes) and the alternative input spellings accepted by from_obj (decimal strings, byte lists, bit strings) are covered by the correspondence (exact tagged shape, alternative spellings; all roots = original)"]
COQ_IMPORTS = ["RM.Types", "RMR.RunC16"]
COQ_FN = "RunC16.run"
COQ_CASE_TY = "RunC16.case"
NAMES = ["P:to_obj", "P:from_obj_root", "P:from_json_root", "P:spellings_root", "P:original_root"]
RULE = ("random types x values as in C01 (unions inside sequences, lists of bitfields / byte lists, 128/256-bit "
        "integers inside composites); observables: to_obj() (exact plain shape, tagged encoding of int / bool / str / "
        "list / tuple / dict / None), from_obj(to_obj()), from_obj(json.loads(json.dumps(to_obj()))), and import of "
        "alternative spellings (decimal-string integers, '0101' bit strings, un-prefixed hex) — all roots must equal "
        "the original's; non-trivial = composite type and non-zero value")


def enc(o):
    if isinstance(o, bool):
        return [100, o]
    if isinstance(o, int):
        return int(o)
    if isinstance(o, str):
        return o
    if isinstance(o, list):
        return [101] + [enc(x) for x in o]
    if isinstance(o, tuple):
        return [102] + [enc(x) for x in o]
    if isinstance(o, dict):
        return [103] + [[k, enc(x)] for k, x in o.items()]
    if o is None:
        return [104]
    raise TypeError("to_obj() produced a non-plain object: %r" % (type(o),))


def respell(t, v):
    k = t[0]
    if k == "uint":
        return str(v)
    if k == "bool":
        return bool(v)
    if k in ("bitvec", "bitlist"):
        return v
    if k in ("bytevec", "bytelist"):
        return v
    if k in ("vec", "list"):
        return [respell(t[1], x) for x in v]
    if k == "cont":
        return {"f%d" % i: respell(f, x) for i, (f, x) in enumerate(zip(t[1], v))}
    if k == "union":
        sel, x = v
        o = union_opt(t, sel)
        return {"selector": sel, "value": None if o is None else respell(o, x)}


def gen_inputs(ctx):
    return gen_tv(ctx, 1500 if ctx.thorough else 350)


def build(inp):
    t, v = inp["t"], inp["v"]
    C = T(t)
    x = to_py(t, v)
    o = attempt(lambda: x.to_obj(), anyerr=True)
    if isinstance(o, E):
        obs = [o, o, o, o, x.hash_tree_root()]
    else:
        o1 = attempt(lambda: enc(o), anyerr=True)
        r1 = attempt(lambda: C.from_obj(o).hash_tree_root(), anyerr=True)
        r2 = attempt(lambda: C.from_obj(json.loads(json.dumps(o))).hash_tree_root(), anyerr=True)
        r3 = attempt(lambda: C.from_obj(respell(t, v)).hash_tree_root(), anyerr=True)
        obs = [o1, r1, r2, r3, x.hash_tree_root()]
    c = Case(inp, "(%s, %s)" % (ty_coq(t), val_coq(t, v)), obs, NAMES, nontrivial=nontrivial_tv(t, v), kind=t[0])
    c.why = None
    for name, r in zip(NAMES[1:4], obs[1:4]):
        if r != obs[4]:
            c.why = "%s differs from the original's root" % name
    return c


def direct_violation(c):
    return c.why
