"""C10 — decoding accepts only the canonical encoding."""
from decfam import *  # noqa

THEOREMS = ["C10_canonical", "C10_injective", "C10_language", "C10_stream", "C10_uint_canonical", "C10_bool_canonical", "C10_bool_rejects_other"]
PARTIAL = ["C10_canonical / C10_injective / C10_language / C10_stream are full statements about the decoder model for every type; C10_language's `valid => accepted` direction assumes encodings shorter than 2^32 bytes; that the Python decoders behave as the model on every byte string is tied by the correspondence (accepted language compared on exhaustive short strings, exhaustive first / last bytes of valid encodings, structure-aware corruptions; model-free: accepted => re-encoding reproduces the input)"]
COQ_IMPORTS = ["RM.Types", "RMR.RunV"]
COQ_FN = "RunV.run_dec"
COQ_CASE_TY = "(ty * bytes)"
NAMES = ["P:accepted", "P:decoded_value"]
HANG_IS_VIOLATION = True
RULE = ("25 hand-picked small types + random types x byte strings: every string of length <= 1, sampled (thorough: all) "
        "length-2 strings for the first types, valid encodings, structure-aware corruptions of valid encodings "
        "(offset +-1/4/8, swapped offsets, truncation, extension, bit flip, padding / delimiter bits, non-0/1 "
        "booleans, selectors, gaps) and short random strings; non-trivial = neither empty nor rejected by the model "
        "at the first length check (measured as: accepted by the implementation or longer than 1 byte)")


def gen_inputs(ctx):
    return gen_tb(ctx, 4000 if ctx.thorough else 900, 25 if ctx.thorough else 6)


def build(inp):
    t, b = inp["t"], bytes.fromhex(inp["b"])
    obs, x = observe_decode(t, b)
    c = Case(inp, "(%s, %s)" % (ty_coq(t), cbytes(b)), obs, NAMES, nontrivial=(obs[0] or len(b) > 1),
             kind=("accepted" if obs[0] else "rejected"))
    return c


def direct_violation(c):
    """accepted => re-encoding reproduces the input exactly (no model involved)"""
    if not c.obs[0]:
        return None
    se = c.obs[1][1]
    b = bytes.fromhex(c.inp["b"])
    if isinstance(se, E):
        return "accepted but cannot be re-encoded"
    if se[0] != b:
        return "accepted non-canonical input: re-encodes as %s" % se[0].hex()
    return None
