"""C10 — decoding accepts only the canonical encoding."""
from decfam import *  # noqa

THEOREMS = ["C10_uint_canonical", "C10_bool_canonical", "C10_bool_rejects_other"]
PARTIAL = ["C10_canonical / C10_language are proved for uintN and boolean (scoped stream decoding); for composite kinds the accepted language of the implementation is compared with the model on the same input space as C09 and, model-free, every accepted input must re-encode to itself"]
COQ_IMPORTS = ["RM.Types", "RMR.RunV"]
COQ_FN = "RunV.run_dec"
COQ_CASE_TY = "(ty * bytes)"
NAMES = ["P:accepted", "P:decoded_value"]
HANG_IS_VIOLATION = True
RULE = ("25 hand-picked small types + random types x byte strings: every string of length <= 1, sampled (thorough: all) "
        "length-2 strings for the first types, valid encodings, structure-aware corruptions of valid encodings "
        "(offset +-1/4/8, swapped offsets, truncation, extension, bit flip, padding / delimiter bits, non-0/1 "
        "booleans, selectors, gaps) and short random strings; non-trivial = neither empty nor rejected by the model "
        "at the first length check (measured as: accepted by the implementation or longer than 1 byte)")


def gen_inputs(ctx):
    return gen_tb(ctx, 4000 if ctx.thorough else 900, 25 if ctx.thorough else 6)


def build(inp):
    t, b = inp["t"], bytes.fromhex(inp["b"])
    obs, x = observe_decode(t, b)
    c = Case(inp, "(%s, %s)" % (ty_coq(t), cbytes(b)), obs, NAMES, nontrivial=(obs[0] or len(b) > 1),
             kind=("accepted" if obs[0] else "rejected"))
    return c


def direct_violation(c):
    """accepted => re-encoding reproduces the input exactly (no model involved)"""
    if not c.obs[0]:
        return None
    se = c.obs[1][1]
    b = bytes.fromhex(c.inp["b"])
    if isinstance(se, E):
        return "accepted but cannot be re-encoded"
    if se[0] != b:
        return "accepted non-canonical input: re-encodes as %s" % se[0].hex()
    return None
