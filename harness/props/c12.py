"""C12 — default values are the SSZ zero values."""
from vfam import *  # noqa
from remerkleable.tree import to_gindex, get_depth

THEOREMS = ["C12_default_node", "C12_default_is_constructed", "C12_default_encoding", "C12_container_navigable", "C12_vector_navigable", "C12_zero_wellformed", "C12_equals_explicit", "C12_omitted_fields", "C12_chunks_navigable"]
PARTIAL = ["the model theorems cover the whole statement: the default backing is the constructor's backing of the zero value for every type (same tree, same encoding and root), container fields / composite vector elements / data chunks of bit-, byte- and packed vectors are navigable (C12_container_navigable, C12_vector_navigable, C12_chunks_navigable), omitted constructor fields take the zero value (C12_omitted_fields); the Python classmethods (default, default_node, Type()) are tied by the correspondence"]
# second tie: the tree builders of remerkleable/tree.py (every composite value and every default is built by them) are
# TRANSLATED on every run (harness/translate_fill.py, fail-closed) and proved equal to the model's (coq/trans/FillEq.v)
TRANSLATED = {"translator": "translate_fill", "source": "remerkleable/tree.py", "gen": "FillGen.v", "proofs": "FillEq.v",
              "theorems": ["eq_fill_to_depth", "eq_fill_to_length", "eq_fill_to_contents"]}
COQ_IMPORTS = ["RM.Types", "RMR.RunV"]
COQ_FN = "RunV.run_c12"
COQ_CASE_TY = "(ty * list N)"
NAMES = ["P:default_node_root", "P:default_encoding", "P:explicit_zero_root", "P:navigable",
         "P:default_view_root", "P:default_ctor"]
RULE = ("random types (vectors / bitvectors / byte vectors with non-power-of-two chunk counts favoured); observables: "
        "root of default_node(), encoding and root of Type.default(None), root of the explicitly constructed zero "
        "value, Type() where supported, and the root at every gindex of fixed structure up to depth 3; for unions also "
        "Union(selector=k) with the value omitted against the explicit zero value of option k (encoding, root, tree shape); "
        "non-trivial = composite type")


def gen_inputs(ctx):
    rng = ctx.rng
    for t in FIXED_TYPES:
        yield {"t": t}
    n = 1200 if ctx.thorough else 300
    for _ in range(n):
        t = gen_type(rng, rng.choice([0, 1, 2, 2, 3]))
        if type_size(t) <= 14:
            yield {"t": t}


def fixed_gindices(t):
    """gindices (up to depth 3 below the root) that lie inside fixed structure of the default tree"""
    k = t[0]
    out = [1]
    if k in ("vec", "bitvec", "bytevec", "cont"):
        if k == "vec":
            cc = (t[2] * bsize(t[1]) + 31) // 32 if is_basic(t[1]) else t[2]
        elif k == "bitvec":
            cc = (t[1] + 255) // 256
        elif k == "bytevec":
            cc = (t[1] + 31) // 32
        else:
            cc = len(t[1])
        d = get_depth(cc)
        for i in range(min(cc, 9)):
            g = to_gindex(i, d)
            out.append(g)
            while g > 1:
                g >>= 1
                out.append(g)
    if k in ("list", "bitlist", "bytelist", "union"):
        out += [2, 3]
    return sorted(set(out))


def shape_differs(a, b, depth=7):
    """the two trees differ in root or in where they can be navigated (down to `depth` levels)"""
    if a.merkle_root() != b.merkle_root():
        return "root"
    if a.is_leaf() != b.is_leaf():
        return "navigability"
    if a.is_leaf() or depth == 0:
        return None
    return shape_differs(a.get_left(), b.get_left(), depth - 1) or shape_differs(a.get_right(), b.get_right(), depth - 1)


def omitted_union_value(t, C):
    """Union(selector=k) with the value left out = Union(selector=k, value=<zero value of option k>)"""
    for sel in range(union_count(t)):
        o = union_opt(t, sel)
        a = C(selector=sel)
        b = C(selector=sel, value=None if o is None else to_py(o, zero_value(o)))
        if bytes(a.encode_bytes()) != bytes(b.encode_bytes()):
            return "Union(selector=%d) with the value omitted encodes differently from the explicit zero value" % sel
        d = shape_differs(a.get_backing(), b.get_backing())
        if d:
            return "Union(selector=%d) with the value omitted differs in %s from the explicit zero value" % (sel, d)
    return None


def build(inp):
    t = inp["t"]
    C = T(t)
    gs = fixed_gindices(t)
    dn = attempt(lambda: C.default_node(), anyerr=True)
    if isinstance(dn, E):
        obs = [dn, dn, dn, dn]
    else:
        o_root = dn.merkle_root()
        dv = attempt(lambda: C.default(None), anyerr=True)
        o_enc = attempt(lambda: bytes(dv.encode_bytes()), anyerr=True)
        o_zero = attempt(lambda: to_py(t, zero_value(t)).hash_tree_root(), anyerr=True)
        o_nav = [attempt(lambda g=g: dn.getter(g).merkle_root(), anyerr=True) for g in gs]
        obs = [o_root, o_enc, o_zero, o_nav]
    # routes that must agree with default_node (model-independent): default view root, Type()
    dvr = attempt(lambda: C.default(None).hash_tree_root(), anyerr=True)
    if is_basic(t):
        ctor = dvr            # uintN()/boolean() take a mandatory argument (DESIGN 2.11)
    else:
        ctor = attempt(lambda: C().hash_tree_root(), anyerr=True)
    case = Case(inp, "(%s, %s)" % (ty_coq(t), clist(cN(g) for g in gs)), obs, NAMES[:4], nontrivial=not is_basic(t), kind=t[0])
    case.extra = [dvr, ctor]
    case.union_why = attempt(lambda: omitted_union_value(t, C), anyerr=True) if t[0] == "union" else None
    return case


def direct_violation(c):
    if isinstance(c.obs[0], E):
        return None
    dvr, ctor = c.extra
    if dvr != c.obs[0]:
        return "Type.default(None).hash_tree_root() differs from default_node() root"
    if ctor != c.obs[0]:
        return "Type() differs from default_node() root: %r" % (ctor,)
    if c.union_why is not None:
        return "%s" % (c.union_why,)
    return None
