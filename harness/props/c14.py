"""C14 — constraint violations raise and leave the value unchanged."""
from hist import *  # noqa

THEOREMS = ["C14_unchanged", "C14_out_of_range_uint", "C14_other_width_refused", "C14_wrong_length", "C14_over_limit", "C14_index_out_of_bounds", "C14_pop_empty_append_full", "C14_invalid_selector", "C14_unchanged_on_chain", "C14_constructor_sound", "C14_constructor_rejects", "C14_constructor_accepts_iff", "C14_valid_denotes_itself", "C14_slice_all_or_nothing", "C14_element_set_progress", "C14_stale_union_write_refused", "C14_union_guard_passes"]
PARTIAL = ["unchanged-on-failure is proved for top-level views / copies (C14_unchanged) and for child views with a valid hook chain of any depth (C14_unchanged_on_chain); commands through STALE child views (slot popped away, union switched) are outside both theorems (and outside the property's premise as the harness reads it, DESIGN C14). The constructor theorems characterise mk on the abstract argument language (AVal / canon); Python argument spellings are tied by the correspondence"]
COQ_IMPORTS = ["RM.Types", "RM.ModelStore", "RMR.RunH"]
COQ_FN = "RunH.run2"
COQ_CASE_TY = "RunH.case2"
CASE_TIMEOUT = 60
SHARD = 20
RULE = ("mutable types x histories in which ~40% of the commands are invalid (out-of-range integer, other-width uint, "
        "wrong-length vector / bytes / bits, over-limit list, append to a full list, pop from an empty one, index out of "
        "bounds or negative, unknown field, invalid selector, None for a typed option), at top level and through child "
        "views; after each command: raised-or-not and root+encoding of every held view are compared with the model, and "
        "(model-free) a failed command must leave every held view exactly as before; constructors of containers / lists / "
        "vectors given, for one field or element, a view of ANOTHER type whose content does not fit (wrong vector length, "
        "over-limit list, out-of-range wider uint) must raise; slice assignments x[a:b] = values, at top level and through "
        "a child view (compared with ModelStore.slice_set and, model-free:) valid ones equal the "
        "element-wise assignments, invalid ones (uncoercible element, wrong count, past the end) raise and leave "
        "every held view unchanged; non-trivial = >= 1 failing command")


def gen_inputs(ctx):
    rng = ctx.rng
    n = 1000 if ctx.thorough else 240
    for i in range(n):
        t = MUTABLE_TOP[i % len(MUTABLE_TOP)]
        h = gen_history(rng, t, rng.randrange(4, 22), p_invalid=0.4, p_child=0.2)
        if i % 5 == 4:
            # a write through a child view made stale by a pop of its list: raises and leaves the list / enclosing views alone
            h = add_stale_tail(rng, gen_history(rng, t, rng.randrange(2, 8), p_child=0.3)) or h
        yield h
    # constructor-level violations (no history): the initial value itself is invalid
    for i in range(n // 4):
        t = MUTABLE_TOP[i % len(MUTABLE_TOP)]
        bad = gen_arg(rng, t, valid=False)
        if bad[0] == "val":
            yield {"t": t, "v": bad[1], "cmds": []}
    yield from gen_foreign(ctx)
    yield from gen_sliceset(ctx)


def foreign_view(rng, e):
    """(description, thunk building a view of ANOTHER type whose content violates e's constraints), or None"""
    k = e[0]
    if k == "vec":
        n2 = e[2] + rng.choice([1, 2, 4])
        vals = [gen_value(rng, e[1], cap=3) for _ in range(n2)]
        return ["vec", e[1], n2], vals
    if k == "list":
        big = e[2] + 5
        vals = [gen_value(rng, e[1], cap=3) for _ in range(e[2] + rng.choice([1, 2]))]
        return ["list", e[1], big], vals
    if k == "bitvec":
        n2 = e[1] + rng.choice([1, 8, 256])
        return ["bitvec", n2], gen_bits(rng, n2)
    if k == "bitlist":
        return ["bitlist", e[1] + 300], gen_bits(rng, e[1] + rng.choice([1, 9]))
    if k == "uint" and e[1] < 32:
        w2 = rng.choice([w for w in UINTS if w > e[1]])
        return ["uint", w2], (1 << (8 * e[1])) + rng.randrange(0, 200)
    return None


def gen_foreign(ctx):
    """constructors (Container fields, List / Vector elements) given a view of ANOTHER type whose content does not fit"""
    rng = ctx.rng
    n = 160 if ctx.thorough else 40
    pool = [t for t in MUTABLE_TOP + EXTRA_FOREIGN if t[0] in ("cont", "list", "vec")]
    out = 0
    tries = 0
    while out < n and tries < 50 * n:
        tries += 1
        t = rng.choice(pool)
        v = gen_value(rng, t, cap=4)
        slots = list(range(len(t[1]))) if t[0] == "cont" else list(range(len(v)))
        if not slots:
            continue
        i = rng.choice(slots)
        e = t[1][i] if t[0] == "cont" else t[1]
        if t[0] != "cont" and is_basic(e):
            continue                       # packed sequences convert their elements (and reject what does not fit)
        fv = foreign_view(rng, e)
        if fv is None:
            continue
        out += 1
        yield {"t": t, "v": v, "cmds": [], "foreign": {"slot": i, "t": fv[0], "v": fv[1]}}


EXTRA_FOREIGN = [["cont", [["vec", ["uint", 1], 4], ["uint", 1], ["list", ["uint", 2], 4]]],
                 ["list", ["vec", ["uint", 1], 4], 3], ["vec", ["list", ["uint", 1], 2], 2],
                 ["cont", [["bitvec", 9], ["bitlist", 12], ["uint", 2]]], ["list", ["bitlist", 9], 4]]


def build_foreign(inp):
    t, v, fo = inp["t"], inp["v"], inp["foreign"]
    i = fo["slot"]
    why = None
    try:
        alien = to_py(fo["t"], fo["v"])
        if t[0] == "cont":
            kw = {"f%d" % j: to_py(ft, x) for j, (ft, x) in enumerate(zip(t[1], v))}
            kw["f%d" % i] = alien
            thunk = lambda: T(t)(**kw)  # noqa
        else:
            els = [to_py(t[1], x) for x in v]
            els[i] = alien
            thunk = lambda: T(t)(*els)  # noqa
    except Exception as e:  # noqa
        thunk = None
    if thunk is not None:
        try:
            x = thunk()
            why = ("the constructor of %s accepted, for slot %d, a view of another type (%s) whose content does not fit "
                   "the slot's type" % (json.dumps(t)[:60], i, json.dumps(fo["t"])))
            try:
                if type(x).decode_bytes(x.encode_bytes()).hash_tree_root() == x.hash_tree_root():
                    why += " (the accepted value happens to survive a re-encoding)"
            except Exception:
                why += " (the accepted value does not survive a re-encoding)"
        except Exception:
            why = None
    coq, obs, _ = execute({"t": t, "v": v, "cmds": []})      # the well-formed base value, as usual, against the model
    c = Case(inp, coq, obs, ["P:initial"], nontrivial=True, kind="ctor_foreign_view")
    c.why = why
    return c


def gen_sliceset(ctx):
    """slice assignment x[a:b] = values on lists / vectors / bitfields: valid ones, and ones that must fail (an element
    that cannot be coerced, the wrong number of values, a slice reaching past the end)"""
    rng = ctx.rng
    n = 200 if ctx.thorough else 50
    pool = [t for t in MUTABLE_TOP if t[0] in ("list", "vec", "bitlist", "bitvec")]
    seqs = [t for t in pool if t[0] in ("list", "vec")]
    for q in range(n):
        t = pool[q % len(pool)]
        outer, cmds, v0 = None, [], None
        if q % 3 == 2:
            # the slice is assigned through a CHILD view (field / element of an enclosing value): hook propagation
            t = seqs[(q // 3) % len(seqs)]
            outer = rng.choice([["cont", [["uint", 8], t, ["bool"]]], ["vec", t, 2], ["list", t, 3]])
        v = gen_value(rng, t, cap=8)
        ln = len(v)
        if ln < 2:
            continue
        if outer is not None:
            idx = 1
            if outer[0] == "cont":
                v0 = [gen_value(rng, outer[1][0]), v, gen_value(rng, ["bool"])]
            else:
                v0 = [gen_value(rng, t, cap=8), v]
            cmds = [["get", 0, idx]]
        a = rng.randrange(0, ln - 1)
        b = rng.randrange(a + 1, ln + 1)
        e = ["bool"] if t[0] in ("bitlist", "bitvec") else t[1]
        vals = [gen_arg(rng, e) for _ in range(b - a)]
        mode = rng.choice(["ok", "ok", "bad_elem", "too_few", "too_many", "past_end"])
        if mode == "bad_elem":
            bad = gen_arg(rng, e, valid=False)
            if bad[0] == "none" or t[0] in ("bitlist", "bitvec") or b - a < 2:
                mode = "too_few"
            else:
                vals[rng.randrange(1, b - a)] = bad       # not the first one: something is written before it fails
        if mode == "too_few":
            vals = vals[:-1] if len(vals) > 1 else vals
            if len(vals) == b - a:
                mode = "ok"
        if mode == "too_many":
            vals = vals + [gen_arg(rng, e)]
        if mode == "past_end":
            b = ln + rng.choice([1, 2])
            vals = [gen_arg(rng, e) for _ in range(b - a)]
        if outer is not None:
            yield {"t": outer, "v": v0, "cmds": cmds, "sliceset": {"a": a, "b": b, "vals": vals, "mode": mode, "view": 1, "vt": t}}
        else:
            yield {"t": t, "v": v, "cmds": [], "sliceset": {"a": a, "b": b, "vals": vals, "mode": mode}}


def build_sliceset(inp):
    t, v, ss = inp["t"], inp["v"], inp["sliceset"]
    u = ss.get("view", 0)
    vt = ss.get("vt", t)                 # type of the view the slice is assigned through
    e = ["bool"] if vt[0] in ("bitlist", "bitvec") else vt[1]
    why = None
    # implementation run: the history (child view obtained), then the slice assignment; observed like a command
    coq0, obs, _ = execute({"t": t, "v": v, "cmds": inp["cmds"]})
    names = ["P:initial"] + ["P:step%d" % (i + 1) for i in range(len(obs) - 1)]
    slice_obs = None
    try:
        shx, shy = Shadow(t, v), Shadow(t, v)
        for c in inp["cmds"]:
            shx.run(c)
            shy.run(c)
        x, y = shx.views[u], shy.views[u]
        before = shx.observe()
        try:
            pvals = [arg_py(e, a) for a in ss["vals"]]
        except Exception:
            pvals = None          # the invalid element cannot even be built as a Python argument: nothing to run
        raised = None
        if pvals is None:
            raise StopIteration
        try:
            x[ss["a"]:ss["b"]] = pvals
        except Exception as ex:  # noqa
            raised = ex
        after = shx.observe()
        slice_obs = [raised is None, after]
        if ss["mode"] == "ok":
            # the same assignments one by one
            for k, pv in enumerate(pvals):
                y[ss["a"] + k] = pv
            if raised is not None:
                why = "a valid slice assignment raised %r" % (raised,)
            elif after != shy.observe():
                why = "slice assignment differs from assigning the same elements one by one (some held view)"
        else:
            if raised is None:
                why = "an invalid slice assignment (%s) was accepted" % ss["mode"]
            elif after != before:
                why = "a failed slice assignment (%s: %r) left a partial write behind (some held view changed)" % (ss["mode"], raised)
    except StopIteration:
        why = None
    except Exception as ex:  # noqa
        why = "slice assignment scenario could not be run: %r" % (ex,)
    if slice_obs is not None and vt[0] in ("list", "vec"):
        # the model runs the same slice assignment (ModelStore.slice_set)
        coq = "(%s, Some (%s, %s, %s, %s))" % (coq0, cnat(u), cZ(ss["a"]), cZ(ss["b"]), clist(arg_coq(e, a) for a in ss["vals"]))
        obs = obs + [slice_obs]
        names = names + ["P:slice_assignment"]
    else:
        coq = "(%s, None)" % coq0
    c = Case(inp, coq, obs, names, nontrivial=True, kind="sliceset:" + ss["mode"] + (":child" if u else ""))
    c.why = why
    return c


def matches_known(case, match):
    return match.get("site") == "constructor_given_view_of_another_type" and case.kind == "ctor_foreign_view"


def build(inp):
    if "sliceset" in inp:
        return build_sliceset(inp)
    c = build_plain(inp)
    c.coq = "(%s, None)" % c.coq          # RunH.case2: a history, optionally followed by a slice assignment
    return c


def build_plain(inp):
    if "foreign" in inp:
        return build_foreign(inp)
    try:
        to_py(inp["t"], inp["v"])
    except Exception:
        # invalid initial value: the constructor must raise; the model must reject it too
        c = Case(inp, "(%s, %s, [])" % (ty_coq(inp["t"]), val_coq(inp["t"], inp["v"])), [E("other")], ["P:constructor_raises"],
                 nontrivial=True, kind="ctor")
        c.why = None
        return c
    coq, obs, st = execute(inp)
    names = ["P:initial"] + ["P:step%d" % (i + 1) for i in range(len(inp["cmds"]))]
    c = Case(inp, coq, obs, names, nontrivial=st["failed"] > 0, kind=inp["t"][0])
    # model-free oracle: after a failed command every pre-existing view is unchanged
    c.why = None
    prev = obs[0]
    sh = Shadow(inp["t"], inp["v"])
    for k, (ok, cells) in enumerate(obs[1:]):
        cmd = inp["cmds"][k]
        stale = sh.stale(cmd[1])       # DESIGN C14: a stale child (slot popped / option switched) is excluded
        try:
            sh.run(cmd)
        except Exception:
            pass
        if not ok and not stale and cells[:len(prev)] != prev:
            c.why = "command %d (%s) raised but changed a held view" % (k + 1, json.dumps(cmd)[:80])
            break
        prev = cells
    if c.why is None:
        c.why = lazy_disagreement(inp, obs)
    return c


def direct_violation(c):
    return c.why


shrink = shrink_history
