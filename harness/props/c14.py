"""C14 — constraint violations raise and leave the value unchanged."""
from hist import *  # noqa

THEOREMS = ["C14_unchanged", "C14_out_of_range_uint", "C14_other_width_refused", "C14_wrong_length", "C14_over_limit", "C14_index_out_of_bounds", "C14_pop_empty_append_full", "C14_invalid_selector", "C14_unchanged_on_chain", "C14_constructor_sound", "C14_constructor_rejects", "C14_constructor_accepts_iff", "C14_valid_denotes_itself"]
PARTIAL = ["unchanged-on-failure is proved for top-level views / copies (C14_unchanged) and for child views with a valid hook chain of any depth (C14_unchanged_on_chain); commands through STALE child views (slot popped away, union switched) are outside both theorems (and outside the property's premise as the harness reads it, DESIGN C14). The constructor theorems characterise mk on the abstract argument language (AVal / canon); Python argument spellings are tied by the correspondence"]
COQ_IMPORTS = ["RM.Types", "RM.ModelStore", "RMR.RunH"]
COQ_FN = "RunH.run"
COQ_CASE_TY = "RunH.case"
CASE_TIMEOUT = 60
SHARD = 20
RULE = ("mutable types x histories in which ~40% of the commands are invalid (out-of-range integer, other-width uint, "
        "wrong-length vector / bytes / bits, over-limit list, append to a full list, pop from an empty one, index out of "
        "bounds or negative, unknown field, invalid selector, None for a typed option), at top level and through child "
        "views; after each command: raised-or-not and root+encoding of every held view are compared with the model, and "
        "(model-free) a failed command must leave every held view exactly as before; non-trivial = >= 1 failing command")


def gen_inputs(ctx):
    rng = ctx.rng
    n = 1000 if ctx.thorough else 240
    for i in range(n):
        t = MUTABLE_TOP[i % len(MUTABLE_TOP)]
        yield gen_history(rng, t, rng.randrange(4, 22), p_invalid=0.4, p_child=0.2)
    # constructor-level violations (no history): the initial value itself is invalid
    for i in range(n // 4):
        t = MUTABLE_TOP[i % len(MUTABLE_TOP)]
        bad = gen_arg(rng, t, valid=False)
        if bad[0] == "val":
            yield {"t": t, "v": bad[1], "cmds": []}


def build(inp):
    try:
        to_py(inp["t"], inp["v"])
    except Exception:
        # invalid initial value: the constructor must raise; the model must reject it too
        c = Case(inp, "(%s, %s, [])" % (ty_coq(inp["t"]), val_coq(inp["t"], inp["v"])), [E("other")], ["P:constructor_raises"],
                 nontrivial=True, kind="ctor")
        c.why = None
        return c
    coq, obs, st = execute(inp)
    names = ["P:initial"] + ["P:step%d" % (i + 1) for i in range(len(inp["cmds"]))]
    c = Case(inp, coq, obs, names, nontrivial=st["failed"] > 0, kind=inp["t"][0])
    # model-free oracle: after a failed command every pre-existing view is unchanged
    c.why = None
    prev = obs[0]
    sh = Shadow(inp["t"], inp["v"])
    for k, (ok, cells) in enumerate(obs[1:]):
        cmd = inp["cmds"][k]
        stale = sh.stale(cmd[1])       # DESIGN C14: a stale child (slot popped / option switched) is excluded
        try:
            sh.run(cmd)
        except Exception:
            pass
        if not ok and not stale and cells[:len(prev)] != prev:
            c.why = "command %d (%s) raised but changed a held view" % (k + 1, json.dumps(cmd)[:80])
            break
        prev = cells
    return c


def direct_violation(c):
    return c.why


shrink = shrink_history
