"""C13 — uintN operators are exact, range-checked and never wrap or widen silently."""
import operator
from lib import *  # noqa
from remerkleable.basic import uint, uint8, uint16, uint32, uint64, uint128, uint256

THEOREMS = ["C13_ctor", "C13_exact", "C13_never_widens", "C13_other_width_refused", "C13_bitwise_total",
            "C13_divmod_total", "C13_sub", "C13_lshift", "C13_rshift", "C13_reflected_shift_refused",
            "C13_invert", "C13_neg_truediv_unsupported", "C13_pow"]
# second tie: class uint of remerkleable/basic.py is TRANSLATED on every run (harness/translate_uint.py, fail-closed) and
# the generated definitions are proved equal to the model the C13 theorems are about (coq/trans/UintEq.v)
TRANSLATED = {"translator": "translate_uint", "source": "remerkleable/basic.py", "gen": "UintGen.v", "proofs": "UintEq.v",
              "theorems": ["eq_new", "eq_coerce_view", "eq_add", "eq_radd", "eq_sub", "eq_rsub", "eq_mul", "eq_rmul", "eq_mod",
                           "eq_rmod", "eq_floordiv", "eq_rfloordiv", "eq_truediv", "eq_rtruediv", "eq_pow", "eq_rpow",
                           "eq_lshift", "eq_rlshift", "eq_rshift", "eq_rrshift", "eq_and", "eq_rand", "eq_xor", "eq_rxor",
                           "eq_or", "eq_ror", "eq_neg", "eq_invert", "eq_pos", "eq_abs"]}
COQ_IMPORTS = ["RM.ModelBasic", "RMR.RunC13"]
COQ_FN = "RunC13.run"
COQ_CASE_TY = "RunC13.case"
RULE = ("width in {8..256} x operator (12 binary incl. reflected, 4 unary, constructor from plain ints and from uint views of every width) x operand kind (same uint "
        "type, other-width uint, plain int) x operands from {0,1,2,3,2^k-1,2^k,2^k+1,max-1,max,random}; "
        "every case whose result is a uint is repeated with user-defined uint types of the same width (two subclasses per width, and byte) and must return exactly that class; non-trivial = binary operator whose mathematical result is within a factor 4 of the range limit or that "
        "raises; distinct by input JSON")
NAMES = ["P:result_value_and_type"]
UT = {8: uint8, 16: uint16, 32: uint32, 64: uint64, 128: uint128, 256: uint256}
OPS = {"Add": operator.add, "Sub": operator.sub, "Mul": operator.mul, "FloorDiv": operator.floordiv,
       "Mod": operator.mod, "And": operator.and_, "Or": operator.or_, "Xor": operator.xor, "Pow": operator.pow,
       "LShift": operator.lshift, "RShift": operator.rshift, "TrueDiv": operator.truediv}
UNOPS = {"Neg": operator.neg, "Invert": operator.invert, "Pos": operator.pos, "Abs": operator.abs}
COERCING = ["Add", "Sub", "Mul", "FloorDiv", "Mod", "And", "Or", "Xor"]


def operand(rng, w):
    m = (1 << w) - 1
    r = rng.random()
    if r < 0.3:
        return rng.choice([0, 1, 2, 3, m, m - 1, m >> 1, (m >> 1) + 1])
    if r < 0.6:
        k = rng.randrange(0, w + 1)
        return max(0, min(m, (1 << k) + rng.choice([-1, 0, 1])))
    return rng.getrandbits(rng.randrange(1, w + 1))


def gen_inputs(ctx):
    rng = ctx.rng
    n = 40000 if ctx.thorough else 3500
    for _ in range(n):
        w = rng.choice(list(UT))
        r = rng.random()
        if r < 0.06:
            yield {"t": "ctor", "w": w, "x": rng.choice([-1, -5, 1 << w, (1 << w) - 1, 0, (1 << w) + 7,
                                                         operand(rng, w), -operand(rng, w)])}
            continue
        if r < 0.09:
            # the constructor applied to a uint VIEW of another (or the same) width: the value decides, not the type
            w2 = rng.choice(list(UT))
            m2 = (1 << w2) - 1
            x = rng.choice([0, 1, (1 << w) - 1, 1 << w, (1 << w) + 1, m2, m2 - 1, operand(rng, w2)])
            yield {"t": "ctor", "w": w, "x": min(x, m2), "xw": w2}
            continue
        if r < 0.14:
            yield {"t": "un", "w": w, "op": rng.choice(list(UNOPS)), "a": operand(rng, w)}
            continue
        op = rng.choice(list(OPS))
        a = operand(rng, w)
        kind = rng.choice(["same", "same", "int", "int", "other"])
        refl = kind == "int" and rng.random() < 0.5
        w2 = w
        if kind == "other":
            w2 = rng.choice([x for x in UT if x != w])
        b = operand(rng, w2)
        if kind == "int" and rng.random() < 0.15:
            b = rng.choice([-1, -b, 1 << w, (1 << w) + b])
        if op in ("LShift", "RShift"):
            b = rng.choice([0, 1, 7, 8, w - 1, w, w + 1, 300, b % 600])
            if kind in ("other", "same"):
                b = min(b, (1 << w2) - 1)
        if op == "Pow":
            if refl:
                a = rng.choice([0, 1, 2, 3, 7, 8, a % 70])
                b = rng.choice([0, 1, 2, 3, 15, 16, 17, b % 300]) if kind == "int" else b
            else:
                b = rng.choice([0, 1, 2, 3, 7, 8, 9, 63, 64, b % 70])
                if kind in ("other", "same"):
                    b = min(b, (1 << w2) - 1)
            if kind == "int" and b < 0 and not refl:
                b = -b
        yield {"t": "bin", "w": w, "op": op, "refl": refl, "a": a, "kind": kind, "w2": w2, "b": b}


# "a value of the uint operand's OWN type": user-defined uint types of the same width (as Slot / Epoch are of uint64),
# and byte next to uint8, must get results of their own class whatever other classes computed before
from remerkleable.basic import byte as _byte
SIBS = {w: [type("Slot%d" % w, (UT[w],), {}), type("Epoch%d" % w, (UT[w],), {})] for w in UT}
SIBS[8].append(_byte)


def own_type_violation(inp, w, expected):
    """re-run the case with each sibling class; the result must have the same numeric value and exactly that class"""
    for A in SIBS[w]:
        try:
            if inp["t"] == "ctor":
                r = A(inp["x"])
            elif inp["t"] == "un":
                r = UNOPS[inp["op"]](A(inp["a"]))
            else:
                b = A(inp["b"]) if inp["kind"] == "same" else inp["b"]
                f = OPS[inp["op"]]
                r = f(b, A(inp["a"])) if inp["refl"] else f(A(inp["a"]), b)
        except Exception as e:  # noqa
            return "%s: raises %s for the %s operand where %s returns %d" % (describe(inp), type(e).__name__, A.__name__, UT[w].__name__, expected)
        if type(r) is not A or int(r) != expected:
            return "%s: with %s operands the result is %s(%d), expected %s(%d)" % (describe(inp), A.__name__, type(r).__name__, int(r), A.__name__, expected)
    return None


def describe(inp):
    return " ".join("%s=%s" % (k, inp[k]) for k in ("t", "op", "refl", "a", "kind", "b", "x") if k in inp)


def direct_violation(c):
    return getattr(c, "why", None)


def obs_of(w, f):
    try:
        r = f()
    except Exception:
        return E("other")
    if isinstance(r, uint):
        return [int(r), type(r).type_byte_length() * 8]
    if isinstance(r, int) and not isinstance(r, bool):
        return [int(r), -1]          # widened to a plain int
    return [-1, -2]                  # something else entirely (float, NotImplemented...)


def build(inp):
    w = inp["w"]
    T = UT[w]
    if inp["t"] == "ctor":
        x = inp["x"]
        arg = UT[inp["xw"]](x) if "xw" in inp else x
        o = obs_of(w, lambda: T(arg))
        c = Case(inp, "(CCtor %s %s)" % (cZ(w), cZ(x)), [o], NAMES, nontrivial=True,
                 kind="ctor" + (":from_uint" if "xw" in inp else ""))
        if isinstance(o, list) and o[1] == w and "xw" not in inp:
            c.why = own_type_violation(inp, w, o[0])
        return c
    if inp["t"] == "un":
        a = T(inp["a"])
        o = obs_of(w, lambda: UNOPS[inp["op"]](a))
        c = Case(inp, "(CUn %s %s %s)" % (cZ(w), inp["op"], cZ(inp["a"])), [o], NAMES, kind="un:" + inp["op"])
        if isinstance(o, list) and o[1] == w:
            c.why = own_type_violation(inp, w, o[0])
        return c
    a = T(inp["a"])
    kind, b = inp["kind"], inp["b"]
    if kind == "same":
        bv, ck = T(b), "KSame"
    elif kind == "other":
        bv, ck = UT[inp["w2"]](b), "(KOther %s)" % cZ(inp["w2"])
    else:
        bv, ck = b, "KInt"
    f = OPS[inp["op"]]
    o = obs_of(w, (lambda: f(bv, a)) if inp["refl"] else (lambda: f(a, bv)))
    coq = "(CBin %s %s %s %s %s %s)" % (cZ(w), inp["op"], cbool(inp["refl"]), cZ(inp["a"]), ck, cZ(b))
    nontriv = isinstance(o, E) or (isinstance(o, list) and o[0] >= (1 << w) // 4)
    c = Case(inp, coq, [o], NAMES, nontrivial=nontriv, kind=("r" if inp["refl"] else "") + inp["op"] + ":" + kind)
    if isinstance(o, list) and o[1] == w and kind in ("same", "int"):
        c.why = own_type_violation(inp, w, o[0])
    return c


def shrink(inp):
    if inp["t"] != "bin":
        return
    for k in ("a", "b"):
        v = inp[k]
        for v2 in (0, 1, v >> 1, v - 1):
            if 0 <= v2 < v:
                yield dict(inp, **{k: v2})
