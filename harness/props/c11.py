"""C11 — type size facts are exact and values report their true byte length."""
from vfam import *  # noqa

THEOREMS = ["C11_facts", "C11_value_len", "C11_bounds", "C11_fixed_exact", "C11_value_len_any"]
PARTIAL = ["the whole statement is proved for the model (facts = spec facts for every type; reported length = |encoding| = |spec encoding|, within bounds, = fixed size, for every constructed value and for every representation of a value, i.e. also after decoding / import / mutation: C11_value_len_any); the Python value_byte_length() / type-level classmethods are tied by the correspondence"]
# second tie: the size-fact methods of the type classes (is_fixed_byte_length / min_byte_length / max_byte_length /
# type_byte_length of List, Vector and its fixed-size override, Container, Bitlist, Bitvector, ByteList, Union, the fixed-length
# helper, boolean, uintN) are TRANSLATED on every run (harness/translate_facts.py, fail-closed) and, composed along the class
# hierarchy, proved equal to the model's is_fixed_impl / min_impl / max_impl for every type (coq/trans/FactsEq.v)
TRANSLATED = {"translator": "translate_facts", "source": "remerkleable", "gen": "FactsGen.v", "proofs": "FactsEq.v",
              "theorems": ["eq_basic_sizes", "eq_facts", "eq_container_type_byte_length"]}
COQ_IMPORTS = ["RM.Types", "RMR.RunV"]
COQ_FN = "RunV.run_c11"
COQ_CASE_TY = "(ty * val)"
NAMES = ["P:is_fixed_byte_length", "P:type_byte_length", "P:min_byte_length", "P:max_byte_length",
         "P:value_byte_length", "P:spec_facts"]
RULE = ("random types x values as in C01; observables: the four class-method size facts and value_byte_length(), "
        "compared with the implementation model AND with the specification-side facts of Types.v; "
        "non-trivial = composite type")


def gen_inputs(ctx):
    return gen_tv(ctx, 1500 if ctx.thorough else 400)


def build(inp):
    t, v = inp["t"], inp["v"]
    C = T(t)
    fixed = bool(C.is_fixed_byte_length())
    tbl = attempt(lambda: int(C.type_byte_length()), anyerr=True)
    mn, mx = int(C.min_byte_length()), int(C.max_byte_length())
    vbl = attempt(lambda: int(to_py(t, v).value_byte_length()), anyerr=True)
    obs = [fixed, tbl, mn, mx, vbl, [fixed, mn, mx]]
    return Case(inp, "(%s, %s)" % (ty_coq(t), val_coq(t, v)), obs, NAMES, nontrivial=not is_basic(t), kind=t[0])


def direct_violation(c):
    """the reported value length must equal the real encoding length and lie within the type's bounds"""
    t, v = c.inp["t"], c.inp["v"]
    try:
        x = to_py(t, v)
        n = len(x.encode_bytes())
    except Exception:
        return None
    if x.value_byte_length() != n:
        return "value_byte_length() = %d but len(encode_bytes()) = %d" % (x.value_byte_length(), n)
    C = T(t)
    if not (C.min_byte_length() <= n <= C.max_byte_length()):
        return "encoding length %d outside [%d, %d]" % (n, C.min_byte_length(), C.max_byte_length())
    return None
