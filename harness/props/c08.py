"""C08 — paths yield the SSZ-spec generalized index and address the right node."""
from vfam import *  # noqa
from remerkleable.core import Path

THEOREMS = ["C08_static_eq_spec", "C08_invalid_key_rejected", "C08_path", "C08_to_gindex", "C08_concat_paths", "C08_node_step", "C08_node", "C08_mixin_node"]
PARTIAL = ["static index = spec index, rejection of invalid keys, bit-level concat law and node addressing on values (C08_node: any representation, whole paths through composite children, mix-in nodes) are proved; chunk addressing of packed elements / bits is proved inside the C02 serialisation theorem (packed_elems, bits_core) rather than as a C08 statement; C08_dynamic (gindex(view) / navigate_view of the Python objects agree with the static index) is covered by the correspondence (node_at_gindex observable, model-free dynamic oracle)"]
# second tie: the generalized-index arithmetic of remerkleable/tree.py is TRANSLATED on every run (harness/translate_tree.py,
# fail-closed) and the generated definitions are proved equal to the model's (coq/trans/TreeEq.v)
TRANSLATED = {"translator": "translate_tree", "source": "remerkleable/tree.py", "gen": "TreeGen.v", "proofs": "TreeEq.v",
              "theorems": ["eq_get_depth", "eq_to_gindex", "eq_get_anchor_gindex", "eq_concat_gindices"]}
COQ_IMPORTS = ["RM.Types", "RM.ModelPaths", "RMR.RunC08"]
COQ_FN = "RunC08.run"
COQ_CASE_TY = "RunC08.case"
NAMES = ["P:static_gindex", "P:navigate_type", "P:node_at_gindex", "P:spec_gindex"]
RULE = ("random types x random key sequences of depth 1-5 (field names, indices, '__len__', '__selector__'; ~30% of "
        "paths end in a key adjacent to the valid range: index = length/limit, -1, unknown field, selector = count) x "
        "a random value; observables: accepted/rejected at build + static gindex, type reached, root of "
        "backing.getter(gindex) — against the implementation model and against Spec.spec_step; model-free: "
        "gindex(view) and navigate_view agree with the static index whenever they return; the same path built key by "
        "key and by concatenating sub-paths at every split point (prefix object kept and used twice) has the same index = "
        "concat_gindices of the parts, operands unchanged; "
        "non-trivial = path of length >= 2 or an invalid key")


def key_coq(k):
    if k == "__len__":
        return "PLen"
    if k == "__selector__":
        return "PSel"
    if isinstance(k, str):
        return "(PField %s)" % cnat(int(k[1:]))
    return "(PInt %s)" % cZ(k)


def near_boundary(rng, hi, unit):
    """an index in [0, hi) close to a multiple of `unit` (chunk boundary) with high probability"""
    if hi <= 0:
        return 0
    cands = set()
    for m in range(0, hi // unit + 2):
        for d in (-8, -7, -6, -2, -1, 0, 1, 2, 7):
            x = m * unit + d
            if 0 <= x < hi:
                cands.add(x)
    cands |= {0, hi - 1, hi // 2}
    cands = sorted(c for c in cands if 0 <= c < hi)
    if cands and rng.random() < 0.75:
        return rng.choice(cands)
    return rng.randrange(0, hi)


def gen_path(rng, t, v, depth, invalid):
    """returns (keys, ok) following value v so that dynamic navigation is possible"""
    keys = []
    for d in range(depth):
        k = t[0]
        last = d == depth - 1
        bad = invalid and last
        if k in ("vec", "list"):
            n = t[2]
            if k == "list" and rng.random() < 0.15 and not bad:
                keys.append("__len__")
                return keys
            if bad:
                keys.append(rng.choice([n, -1, n + 1]))
                return keys
            if len(v) == 0:
                i = rng.randrange(0, n) if n > 0 else None
                if i is None:
                    return keys
                keys.append(i)
                return keys
            unit = 32 // bsize(t[1]) if is_basic(t[1]) else 1
            i = near_boundary(rng, len(v), unit) if rng.random() < 0.8 else near_boundary(rng, min(n, 5000), unit)
            keys.append(i)
            if i >= len(v):
                return keys
            t, v = t[1], v[i]
        elif k == "cont":
            if bad:
                keys.append("f%d" % (len(t[1]) + rng.randrange(0, 2)))
                return keys
            i = rng.randrange(0, len(t[1]))
            keys.append("f%d" % i)
            t, v = t[1][i], v[i]
        elif k == "union":
            n = union_count(t)
            if rng.random() < 0.2 and not bad:
                keys.append("__selector__")
                return keys
            if bad:
                keys.append(rng.choice([n, -1]))
                return keys
            sel = v[0]
            if union_opt(t, sel) is None:
                return keys
            keys.append(sel)
            t, v = union_opt(t, sel), v[1]
        elif k in ("bitvec", "bitlist", "bytevec", "bytelist"):
            n = t[1]
            if k in ("bitlist", "bytelist") and rng.random() < 0.2 and not bad:
                keys.append("__len__")
                return keys
            if bad or n == 0:
                keys.append(rng.choice([n, -1, n + 1]))
                return keys
            ln = len(v) if k in ("bitvec", "bitlist") else len(v) // 2
            unit = 256 if k in ("bitvec", "bitlist") else 32
            keys.append(near_boundary(rng, ln, unit) if ln > 0 and rng.random() < 0.6 else near_boundary(rng, min(n, 5000), unit))
            return keys
        else:
            if bad:
                keys.append(0)
            return keys
    return keys


def gen_inputs(ctx):
    rng = ctx.rng
    n = 2500 if ctx.thorough else 600
    made = 0
    while made < n:
        t = gen_type(rng, rng.choice([1, 2, 2, 3, 3]), big_ok=(rng.random() < 0.3))
        if type_size(t) > 14 or is_basic(t):
            continue
        v = gen_value(rng, t)
        keys = gen_path(rng, t, v, rng.randrange(1, 6), rng.random() < 0.3)
        if not keys:
            continue
        made += 1
        yield {"t": t, "v": v, "keys": keys}


def build(inp):
    t, v, keys = inp["t"], inp["v"], inp["keys"]
    C = T(t)
    p = attempt(lambda: Path.from_raw_path(C, keys), anyerr=True)
    x = to_py(t, v)
    if isinstance(p, E):
        obs = [p, p, p, p]
        dyn = nav = None
    else:
        g = attempt(lambda: int(p.gindex()), anyerr=True)
        ty = attempt(lambda: p.navigate_type().default_node().merkle_root(), anyerr=True)
        nd = attempt(lambda: x.get_backing().getter(g).merkle_root(), anyerr=True) if not isinstance(g, E) else g
        obs = [g, ty, nd, g]
        dyn = attempt(lambda: int(p.gindex(x)), anyerr=True)
        nav = attempt(lambda: p.navigate_view(x), anyerr=True)
    coq = "(%s, %s, %s)" % (ty_coq(t), clist(key_coq(k) for k in keys), val_coq(t, v))
    c = Case(inp, coq, obs, NAMES, nontrivial=(len(keys) >= 2 or isinstance(p, E)),
             kind="rejected" if isinstance(p, E) else "len%d" % len(keys))
    c.why = None
    if not isinstance(p, E) and not isinstance(obs[0], E):
        alg = attempt(lambda: path_algebra(C, keys, obs[0]), anyerr=True)
        if alg is not None:
            c.why = "path algebra: %s" % (alg,)
        if dyn is not None and not isinstance(dyn, E) and dyn != obs[0]:
            c.why = "gindex(view) = %d differs from the static gindex %d" % (dyn, obs[0])
        if nav is not None and not isinstance(nav, E):
            # Path.navigate_view(value) = navigating the views key by key (same class, same content)
            def stepwise():
                y = x
                for k_ in keys:
                    y = y.navigate_view(k_)
                return y
            sw = attempt(stepwise, anyerr=True)
            if not isinstance(sw, E):
                try:
                    same = type(nav) is type(sw) and bytes(nav.encode_bytes()) == bytes(sw.encode_bytes()) and \
                        bytes(nav.hash_tree_root()) == bytes(sw.hash_tree_root())
                except Exception:
                    same = False
                if not same:
                    c.why = "Path.navigate_view(value) is not what navigating the views key by key gives"
        if nav is not None and not isinstance(nav, E) and not isinstance(obs[2], E):
            try:
                from remerkleable.core import BasicView
                if isinstance(nav, BasicView):
                    ok = bytes(nav.encode_bytes()) in [obs[2][i:i + len(nav.encode_bytes())]
                                                       for i in range(0, 32, len(nav.encode_bytes()))] or \
                        (hasattr(nav, "__bool__") and True)
                else:
                    ok = nav.hash_tree_root() == obs[2]
                if not ok:
                    c.why = "navigate_view result does not match the node at the static gindex"
            except Exception:
                pass
    return c


def path_algebra(C, keys, g):
    """model-free: the same path built key by key and by concatenating sub-paths (a kept prefix used more than once)
    has the same index, concatenation = concat_gindices, and building a longer path leaves its operands unchanged"""
    from remerkleable.tree import concat_gindices
    q = Path(C)
    for k in keys:
        q = q / k
    if int(q.gindex()) != g:
        return "path built key by key has gindex %d, from_raw_path gives %d" % (int(q.gindex()), g)
    q2 = C
    for k in keys:
        q2 = q2 / k
    if int(q2.gindex()) != g:
        return "Type / key / ... has gindex %d, from_raw_path gives %d" % (int(q2.gindex()), g)
    for i in range(1, len(keys)):
        pre = Path.from_raw_path(C, keys[:i])
        g_pre, t_pre = int(pre.gindex()), pre.navigate_type()
        suf = Path.from_raw_path(t_pre, keys[i:])
        g_suf = int(suf.gindex())
        for attempt_no in (1, 2):
            r = pre / suf
            if int(r.gindex()) != g or int(concat_gindices([g_pre, g_suf])) != g:
                return ("concatenation #%d of the paths %r / %r has gindex %d, concat_gindices gives %d, the whole path %d"
                        % (attempt_no, keys[:i], keys[i:], int(r.gindex()), int(concat_gindices([g_pre, g_suf])), g))
            if int(pre.gindex()) != g_pre or pre.navigate_type() is not t_pre or int(suf.gindex()) != g_suf:
                return "concatenating %r / %r changed one of the operands" % (keys[:i], keys[i:])
        step = pre / keys[i]
        if int(pre.gindex()) != g_pre or len(step.path) != i + 1:
            return "extending the path %r by a key changed it" % (keys[:i],)
    return None


def direct_violation(c):
    return c.why
