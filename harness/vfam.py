"""shared generator of (type, value) inputs for the value-level properties"""
from ssz import *  # noqa

FIXED_TYPES = [
    ["vec", ["uint", 2], 17], ["vec", ["uint", 1], 33], ["list", ["uint", 8], 1024], ["list", ["uint", 1], 0],
    ["bitvec", 257], ["bitlist", 256], ["bitlist", 0], ["bytevec", 33], ["bytelist", 65],
    ["cont", [["uint", 2], ["list", ["uint", 2], 1024], ["uint", 1]]],
    ["list", ["cont", [["uint", 8], ["bytelist", 40]]], 5],
    ["union", True, [["uint", 1], ["list", ["uint", 4], 7]]],
    ["vec", ["list", ["bool"], 9], 3], ["list", ["bitlist", 300], 4], ["list", ["union", False, [["uint", 2], ["bitvec", 9]]], 6],
    ["cont", [["vec", ["bool"], 33], ["bitvec", 3], ["union", True, [["bytevec", 4]]]]],
    ["union", False, [["union", False, [["uint", 1]]]]],
    ["union", True, [["uint", 2], ["uint", 2], ["bitlist", 9], ["uint", 2]]],
    ["list", ["uint", 32], 3], ["vec", ["uint", 16], 3], ["list", ["bool"], 300],
    ["cont", [["uint", 1], ["list", ["bytelist", 4], 4]]], ["list", ["list", ["bytelist", 4], 4], 2],
    ["vec", ["list", ["bitlist", 9], 3], 2], ["cont", [["list", ["list", ["uint", 2], 3], 3], ["bitlist", 8]]],
    ["vec", ["cont", [["uint", 1], ["uint", 2]]], 3], ["vec", ["list", ["uint", 1], 4], 5], ["vec", ["union", False, [["uint", 2]]], 7],
    ["cont", [["vec", ["bytelist", 5], 3], ["uint", 8]]], ["vec", ["bitlist", 5], 9], ["vec", ["vec", ["uint", 8], 5], 3],
]


def gen_tv(ctx, n, big_ok=True):
    rng = ctx.rng
    for t in FIXED_TYPES:
        yield {"t": t, "v": zero_value(t)}
        for _ in range(2):
            yield {"t": t, "v": gen_value(rng, t)}
        yield {"t": t, "v": gen_full_value(rng, t)}
    made = 0
    while made < n:
        t = gen_type(rng, rng.choice([0, 1, 1, 2, 2, 3]), big_ok=big_ok)
        if type_size(t) > 14:
            continue
        for _ in range(rng.choice([1, 2])):
            yield {"t": t, "v": gen_value(rng, t) if rng.random() < 0.85 else gen_full_value(rng, t)}
            made += 1


def nontrivial_tv(t, v):
    """the value is not the zero value and the type is not a bare basic type"""
    return not is_basic(t) and v != zero_value(t)
