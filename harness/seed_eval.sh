#!/bin/bash
# usage: seed_eval.sh <worktree> <seed-id> <prop> [more props...]
# confirms a candidate change (suite passes, demo fails with / passes without), stores it under /verif/seeded/<seed-id>,
# and runs the given checks against the changed tree (VERIF_REPO) — never touches /repo.
W=$1; ID=$2; shift 2
OUT=/verif/seeded/$ID; mkdir -p $OUT
cp $W/_out/patch.diff $OUT/patch.diff; cp $W/_out/demo.py $OUT/demo.py; cp $W/_out/notes.txt $OUT/notes.txt 2>/dev/null
SUITE=$(cd $W && /venv/bin/python -m pytest -q -p no:cacheprovider --timeout=900 2>&1 | tail -1)
(cd $OUT && PYTHONPATH=$W /venv/bin/python demo.py >/dev/null 2>&1); DW=$?
(cd $OUT && PYTHONPATH=/repo /venv/bin/python demo.py >/dev/null 2>&1); DR=$?
echo "suite: $SUITE | demo with change exit=$DW | demo on /repo exit=$DR"
RES=""
for P in "$@"; do
  L=$(cd /verif && VERIF_REPO=$W timeout 1500 ./check $P --tier quick 2>&1 | grep -E "VIOLATION|quick:" | head -3 | tr '\n' ' ')
  echo "$P: $L"; RES="$RES$P: $L ;; "
done
echo "$SUITE|$DW|$DR|$RES" > $OUT/last_eval.txt
