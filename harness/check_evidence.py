#!/usr/bin/env python3
"""validates MANIFEST.json and every evidence/Cxx.json against the given schemas (run before committing)"""
import json, glob, sys
try:
    import jsonschema
except ImportError:
    sys.exit("run with python3-vt (jsonschema)")
ok = True
man = json.load(open('/verif/MANIFEST.json'))
jsonschema.validate(man, json.load(open('/root/.vp/MANIFEST.schema.json')))
es = json.load(open('/root/.vp/EVIDENCE.schema.json'))
for f in sorted(glob.glob('/verif/evidence/C*.json')):
    d = json.load(open(f))
    try:
        jsonschema.validate(d, es)
    except Exception as e:
        ok = False; print(f, "SCHEMA", str(e)[:200])
    c = d.get('coverage', {})
    if c.get('discharged') != c.get('obligations') or not c.get('obligations'):
        ok = False; print(f, "discharged", c.get('discharged'), "obligations", c.get('obligations'))
print("evidence ok" if ok else "EVIDENCE PROBLEMS")
sys.exit(0 if ok else 1)
