#!/bin/bash
# re-applies every seeded mutation in /verif/seeded to a scratch worktree of /repo (outside /repo and /verif),
# runs the property's quick check against it and reports whether it is still detected; removes the worktree.
# usage: reseed_all.sh            all seeds, the properties in parallel (5 at a time; seeds of one property in sequence,
#                                 because a check owns build/<property>)
#        reseed_all.sh --prop Cxx the seeds of one property
V=$(cd "$(dirname "$0")/.." && pwd)
cd "$V"
if [ "$1" != "--prop" ]; then
  (cd coq && make -j8 >/dev/null 2>&1)       # one build before the parallel checks
  ls seeded | sed 's/-.*//' | sort -u | xargs -P 5 -I{} "$0" --prop {}
  exit 0
fi
for d in seeded/$2-*/; do
  ID=$(basename $d); P=${ID%%-*}
  if grep -q '"neutralised_by"' $d/meta.json 2>/dev/null; then echo "$ID: neutralised by a later fix (see meta.json), skipped"; continue; fi
  W=/tmp/reseed_$ID
  git -C /repo worktree add -q --detach $W HEAD 2>/dev/null || { echo "$ID: worktree failed"; continue; }
  if (cd $W && git apply "$V"/$d/patch.diff 2>/dev/null); then
    L=$(VERIF_REPO=$W timeout 1500 ./check $P --tier quick 2>&1 | grep -E "VIOLATION|quick:" | head -2 | tr '\n' ' ')
    case "$L" in *VIOLATION*) echo "$ID: DETECTED  $L";; *) echo "$ID: MISSED    $L";; esac
  else
    echo "$ID: patch does not apply"
  fi
  git -C /repo worktree remove --force $W
  # the run against the mutated tree rewrote evidence/$P.json: restore it from the committed version
  git checkout -q -- evidence/$P.json 2>/dev/null
done
