#!/bin/bash
# re-applies every seeded mutation in /verif/seeded to a scratch worktree of /repo (outside /repo and /verif),
# runs the property's quick check against it and reports whether it is still detected; removes the worktree.
V=$(cd "$(dirname "$0")/.." && pwd)
cd "$V"
for d in seeded/*/; do
  ID=$(basename $d); P=${ID%%-*}
  W=/tmp/reseed_$ID
  git -C /repo worktree add -q --detach $W HEAD 2>/dev/null || { echo "$ID: worktree failed"; continue; }
  if (cd $W && git apply "$V"/$d/patch.diff 2>/dev/null); then
    L=$(VERIF_REPO=$W timeout 1500 ./check $P --tier quick 2>&1 | grep -E "VIOLATION|quick:" | head -2 | tr '\n' ' ')
    case "$L" in *VIOLATION*) echo "$ID: DETECTED  $L";; *) echo "$ID: MISSED    $L";; esac
  else
    echo "$ID: patch does not apply"
  fi
  git -C /repo worktree remove --force $W
  # the run against the mutated tree rewrote evidence/$P.json: restore it from the committed version
  git checkout -q -- evidence/$P.json 2>/dev/null
done
