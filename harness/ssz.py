"""Abstract SSZ types / values (JSON-able) <-> library classes and objects <-> Coq terms; generators.

types : ["uint",k] ["bool"] ["bitvec",n] ["bitlist",n] ["bytevec",n] ["bytelist",n]
        ["vec",t,n] ["list",t,n] ["cont",[t..]] ["union",none0,[t..]]
values: int | bool | "0101" (bits) | "hex" (bytes) | [..] (seq / container fields) | [sel, value-or-None] (union)
"""
from lib import *  # noqa
import hashlib
import os
from remerkleable.basic import boolean, uint8, uint16, uint32, uint64, uint128, uint256
from remerkleable.complex import Container, Vector, List
from remerkleable.bitfields import Bitvector, Bitlist
from remerkleable.byte_arrays import ByteVector, ByteList
from remerkleable.union import Union

UINTS = {1: uint8, 2: uint16, 4: uint32, 8: uint64, 16: uint128, 32: uint256}
_tc = {}
_cnt = [0]


def T(t):
    """library class of an abstract type"""
    key = json.dumps(t)
    if key in _tc:
        return _tc[key]
    k = t[0]
    if k == "uint":
        r = UINTS[t[1]]
    elif k == "bool":
        r = boolean
    elif k == "bitvec":
        r = Bitvector[t[1]]
    elif k == "bitlist":
        r = Bitlist[t[1]]
    elif k == "bytevec":
        r = ByteVector[t[1]]
    elif k == "bytelist":
        r = ByteList[t[1]]
    elif k == "vec":
        r = Vector[T(t[1]), t[2]]
    elif k == "list":
        r = List[T(t[1]), t[2]]
    elif k == "cont":
        _cnt[0] += 1
        ann = {"f%d" % i: T(ft) for i, ft in enumerate(t[1])}
        nf = len(ann)
        split = int(hashlib.sha256(key.encode()).hexdigest(), 16) % 3 == 0 and nf >= 2
        if split:
            # the same container type defined by INHERITANCE: a base class with the first fields (used first, so that
            # anything it caches on the class exists before the subclass is looked at), a subclass adding the rest
            k0 = 1 + int(hashlib.sha256(key.encode()).hexdigest()[:4], 16) % (nf - 1)
            items = list(ann.items())
            base = type("B%d" % _cnt[0], (Container,), {"__annotations__": dict(items[:k0])})
            for warm in ("fields", "is_fixed_byte_length", "min_byte_length", "max_byte_length", "tree_depth",
                         "default_node", "type_byte_length", "type_repr"):
                try:
                    getattr(base, warm)()
                except Exception:
                    pass
            try:
                base().encode_bytes()
                base().hash_tree_root()
            except Exception:
                pass
            try:
                for fk in list(base.fields().keys()):
                    base.key_to_static_gindex(fk)
                    base.navigate_type(fk)
                b0 = base()
                b0.to_obj()
                base.from_obj(b0.to_obj())
                base.decode_bytes(b0.encode_bytes())
                list(iter(b0))
                b0.copy()
                b0.value_byte_length()
            except Exception:
                pass
            r = type("C%d" % _cnt[0], (base,), {"__annotations__": dict(items[k0:])})
        else:
            r = type("C%d" % _cnt[0], (Container,), {"__annotations__": ann})
    elif k == "union":
        opts = ([None] if t[1] else []) + [T(o) for o in t[2]]
        r = Union.__class_getitem__(tuple(opts))
    else:
        raise ValueError(t)
    _tc[key] = r
    return r


def ty_coq(t):
    k = t[0]
    if k == "uint":
        return "(TUint %d)" % t[1]
    if k == "bool":
        return "TBool"
    if k in ("bitvec", "bitlist", "bytevec", "bytelist"):
        return "(%s %d)" % ({"bitvec": "TBitvector", "bitlist": "TBitlist", "bytevec": "TByteVector",
                             "bytelist": "TByteList"}[k], t[1])
    if k in ("vec", "list"):
        return "(%s %s %d)" % ("TVector" if k == "vec" else "TList", ty_coq(t[1]), t[2])
    if k == "cont":
        return "(TContainer %s)" % clist(ty_coq(f) for f in t[1])
    if k == "union":
        return "(TUnion %s %s)" % (cbool(t[1]), clist(ty_coq(o) for o in t[2]))
    raise ValueError(t)


def union_opt(t, sel):
    """abstract type of option sel (None for the None option)"""
    if t[1]:
        return None if sel == 0 else t[2][sel - 1]
    return t[2][sel]


def union_count(t):
    return len(t[2]) + (1 if t[1] else 0)


def val_coq(t, v):
    k = t[0]
    if k == "uint":
        return "(VUint %d)" % v
    if k == "bool":
        return "(VBool %s)" % cbool(v) if isinstance(v, bool) else "(VUint %d)" % v
    if k in ("bitvec", "bitlist"):
        return "(VBits %s)" % clist(cbool(c == "1") for c in v)
    if k in ("bytevec", "bytelist"):
        return "(VBytes %s)" % cbytes(bytes.fromhex(v))
    if k in ("vec", "list"):
        return "(VSeq %s)" % clist(val_coq(t[1], x) for x in v)
    if k == "cont":
        return "(VCont %s)" % clist(val_coq(f, x) for f, x in zip(t[1], v))
    if k == "union":
        sel, x = v
        o = union_opt(t, sel) if 0 <= sel < union_count(t) else None
        return "(VUnion %s %s)" % (cnat(sel), "None" if x is None or o is None else "(Some %s)" % val_coq(o, x))
    raise ValueError(t)


def _form(t, v, n):
    """which of n equivalent constructor spellings to use for this (type, value): fixed by the input itself, so that a
    case replays identically"""
    if os.environ.get("VERIF_CTOR_FORMS", "1") == "0":
        return 0
    return int(hashlib.sha256(json.dumps([t, v], sort_keys=True, default=str).encode()).hexdigest()[:6], 16) % n


def to_py(t, v):
    """construct the library object for value v of type t through the public constructors.  Each kind has several
    equivalent spellings (list / positional / generator / tuple arguments, views or plain values, bytes or int lists,
    coerce_view of bytes / hex text); which one is used is a function of the input."""
    k = t[0]
    C = T(t)
    if k == "uint":
        f = _form(t, v, 3)
        return C(v) if f < 2 else C(C(v))                  # from a plain int / from a view of the same type
    if k == "bool":
        return C(v)
    if k in ("bitvec", "bitlist"):
        bits = [c == "1" for c in v]
        f = _form(t, v, 4)
        if f == 1 and bits:
            return C(*bits)
        if f == 2:
            return C(b for b in bits)
        if f == 3:
            return C(tuple(bits))
        return C(bits)
    if k in ("bytevec", "bytelist"):
        bs = bytes.fromhex(v)
        f = _form(t, v, 4)
        if f == 1:
            return C(list(bs))
        if f == 2:
            return C.coerce_view(bs)
        if f == 3:
            return C(bytearray(bs))
        return C(bs)
    if k in ("vec", "list"):
        f = _form(t, v, 6)
        basic = is_basic(t[1])
        if basic and f == 4:
            els = [x for x in v]                           # plain ints / bools, coerced by the constructor
        else:
            els = [to_py(t[1], x) for x in v]
        if f == 1 and els:
            return C(*els)
        if f == 2:
            return C(e for e in els)
        if f == 3:
            return C(tuple(els))
        if f == 5 and basic and els:
            return C(*[x for x in v])
        return C(els)
    if k == "cont":
        f = _form(t, v, 3)
        kw = {}
        for i, (ft, x) in enumerate(zip(t[1], v)):
            if f == 1 and ft[0] in ("uint", "bool"):
                kw["f%d" % i] = x                          # plain value, coerced by the constructor
            elif f == 2 and ft[0] in ("bytevec", "bytelist"):
                kw["f%d" % i] = bytes.fromhex(x)
            else:
                kw["f%d" % i] = to_py(ft, x)
        return C(**kw)
    if k == "union":
        sel, x = v
        o = union_opt(t, sel)
        return C(selector=sel, value=None if o is None or x is None else to_py(o, x))
    raise ValueError(t)


def alt_type(t):
    """an abstract type DIFFERENT from t whose views of the same content are coerced into t by the library (a larger
    limit, a list for a vector, a fresh class object for a container); None if there is none"""
    k = t[0]
    if k in ("bitlist", "bytelist"):
        return [k, t[1] + 7]
    if k == "list":
        return ["list", t[1], t[2] + 3]
    if k == "vec":
        return ["list", t[1], t[2] + 2]
    return None


def to_py_alt(t, v):
    """a view with content v whose CLASS is not T(t) but is coerced into T(t) by assignment / append / construction"""
    k = t[0]
    if k == "cont":
        # a distinct container class object with the same fields (what a second evaluation of the same class body,
        # e.g. another fork's definition, gives)
        ann = {"f%d" % i: T(ft) for i, ft in enumerate(t[1])}
        _cnt[0] += 1
        C2 = type("A%d" % _cnt[0], (Container,), {"__annotations__": ann})
        return C2(**{"f%d" % i: to_py(ft, x) for i, (ft, x) in enumerate(zip(t[1], v))})
    a = alt_type(t)
    if a is None:
        return to_py(t, v)
    return to_py(a, v)


def fresh_class(t):
    """a NEW class object for type t with the same parameters (what evaluating the same type expression / class body a
    second time gives): same tree shape, different class identity"""
    k = t[0]
    if k == "list":
        return List[T(t[1]), t[2]]
    if k == "vec":
        return Vector[T(t[1]), t[2]]
    if k == "bitlist":
        return Bitlist[t[1]]
    if k == "bitvec":
        return Bitvector[t[1]]
    if k == "cont":
        _cnt[0] += 1
        return type("F%d" % _cnt[0], (Container,), {"__annotations__": {"f%d" % i: T(ft) for i, ft in enumerate(t[1])}})
    return T(t)


def to_plain(t, v):
    """plain python data accepted by the constructors' coercion (no View objects inside)"""
    k = t[0]
    if k in ("uint", "bool"):
        return v
    if k in ("bitvec", "bitlist"):
        return [c == "1" for c in v]
    if k in ("bytevec", "bytelist"):
        return bytes.fromhex(v)
    if k in ("vec", "list"):
        return [to_plain(t[1], x) for x in v]
    raise ValueError(t)


def is_basic(t):
    return t[0] in ("uint", "bool")


def bsize(t):
    return t[1] if t[0] == "uint" else 1


def is_fixed(t):
    k = t[0]
    if k in ("uint", "bool", "bitvec", "bytevec"):
        return True
    if k in ("bitlist", "bytelist", "list", "union"):
        return False
    if k == "vec":
        return is_fixed(t[1])
    return all(is_fixed(f) for f in t[1])


def zero_value(t):
    k = t[0]
    if k == "uint":
        return 0
    if k == "bool":
        return False
    if k == "bitvec":
        return "0" * t[1]
    if k == "bitlist":
        return ""
    if k == "bytevec":
        return "00" * t[1]
    if k == "bytelist":
        return ""
    if k == "vec":
        return [zero_value(t[1]) for _ in range(t[2])]
    if k == "list":
        return []
    if k == "cont":
        return [zero_value(f) for f in t[1]]
    if k == "union":
        return [0, None if t[1] else zero_value(t[2][0])]


# ----------------------------------------------------------------------------- generators
BOUNDARY = [1, 2, 3, 4, 5, 7, 8, 9, 15, 16, 17, 31, 32, 33, 63, 64, 65, 255, 256, 257, 511, 512, 513, 1023, 1024, 1025]
BIG = [1 << 20, (1 << 20) + 1, (1 << 32) - 1, 1 << 32, 1 << 40, (1 << 40) - 1]


def gen_len(rng, small=False, big_ok=True):
    r = rng.random()
    if small or r < 0.55:
        return rng.choice(BOUNDARY[:14])
    if r < 0.9 or not big_ok:
        return rng.choice(BOUNDARY)
    return rng.choice(BIG)


def gen_type(rng, depth, max_elems=40, var_ok=True, big_ok=True):
    """random type; max_elems bounds FIXED lengths (vector lengths) so values stay small"""
    ks = ["uint", "uint", "bool", "bitvec", "bitlist", "bytevec", "bytelist"]
    if depth > 0:
        ks += ["vec", "list", "cont", "union"] * 3
    k = rng.choice(ks)
    if k == "uint":
        return ["uint", rng.choice([1, 2, 4, 8, 16, 32])]
    if k == "bool":
        return ["bool"]
    if k == "bitvec":
        return ["bitvec", rng.choice(BOUNDARY[:22])]
    if k == "bytevec":
        return ["bytevec", rng.choice(BOUNDARY[:17])]
    if k in ("bitlist", "bytelist"):
        return [k, rng.choice([0] + BOUNDARY) if rng.random() < 0.9 or not big_ok else rng.choice(BIG)]
    if k == "vec":
        e = gen_type(rng, depth - 1, max_elems=8, big_ok=big_ok)
        n = rng.choice([x for x in BOUNDARY if x <= (max_elems * (4 if is_basic(e) else 1))] or [1])
        if not is_basic(e) and e[0] in ("vec", "cont"):
            n = min(n, 5)
        return ["vec", e, n]
    if k == "list":
        e = gen_type(rng, depth - 1, max_elems=8, big_ok=big_ok)
        return ["list", e, gen_len(rng, big_ok=big_ok) if rng.random() < 0.95 else 0]
    if k == "cont":
        return ["cont", [gen_type(rng, depth - 1, max_elems=8, big_ok=big_ok) for _ in range(rng.choice([1, 2, 3, 4, 5, 7, 9]))]]
    if k == "union":
        none0 = rng.random() < 0.4
        n = rng.choice([1, 2, 3, 4]) if not none0 else rng.choice([1, 2, 3])
        opts = [gen_type(rng, depth - 1, max_elems=8, big_ok=big_ok) for _ in range(n)]
        return ["union", none0, opts]


def gen_uint(rng, k):
    m = (1 << (8 * k)) - 1
    r = rng.random()
    if r < 0.35:
        return rng.choice([0, 1, m, m - 1, 1 << (8 * k - 1), 255, 256 & m])
    return rng.getrandbits(rng.randrange(1, 8 * k + 1))


def gen_count(rng, limit, cap):
    """a length in [0, min(limit, cap)] biased to boundaries"""
    hi = min(limit, cap)
    cands = [0, 1, hi, hi - 1, hi // 2, 31, 32, 33, 255, 256, 257, 7, 8, 9]
    cands = [c for c in cands if 0 <= c <= hi]
    if rng.random() < 0.6:
        return rng.choice(cands)
    return rng.randrange(0, hi + 1)


def gen_bits(rng, n):
    r = rng.random()
    if r < 0.15:
        return "0" * n
    if r < 0.3:
        return "1" * n
    return "".join(rng.choice("01") for _ in range(n))


def gen_value(rng, t, cap=40):
    k = t[0]
    if k == "uint":
        return gen_uint(rng, t[1])
    if k == "bool":
        return rng.random() < 0.5
    if k == "bitvec":
        return gen_bits(rng, t[1])
    if k == "bitlist":
        return gen_bits(rng, gen_count(rng, t[1], 520))
    if k == "bytevec":
        return bytes(rng.getrandbits(8) if rng.random() < 0.8 else 0 for _ in range(t[1])).hex()
    if k == "bytelist":
        return bytes(rng.getrandbits(8) for _ in range(gen_count(rng, t[1], 70))).hex()
    if k == "vec":
        return [gen_value(rng, t[1], cap=6) for _ in range(t[2])]
    if k == "list":
        c = cap * 4 if is_basic(t[1]) else (cap if t[1][0] not in ("vec", "cont", "list") else 5)
        return [gen_value(rng, t[1], cap=6) for _ in range(gen_count(rng, t[2], c))]
    if k == "cont":
        return [gen_value(rng, f, cap=6) for f in t[1]]
    if k == "union":
        sel = rng.randrange(0, union_count(t))
        o = union_opt(t, sel)
        return [sel, None if o is None else gen_value(rng, o, cap=6)]


def type_size(t):
    """rough size of a type description (to keep generated cases small)"""
    k = t[0]
    if k in ("vec", "list"):
        return 1 + type_size(t[1])
    if k == "cont":
        return 1 + sum(type_size(f) for f in t[1])
    if k == "union":
        return 1 + sum(type_size(f) for f in t[2])
    return 1


def has_nested_union(t, inside=False):
    k = t[0]
    if k == "union":
        return inside or any(has_nested_union(o, True) for o in t[2])
    if k in ("vec", "list"):
        return has_nested_union(t[1], inside)
    if k == "cont":
        return any(has_nested_union(f, inside) for f in t[1])
    return False


def gen_full_value(rng, t, budget=[0]):
    """a value with every variable-size part as long as its limit allows (when the limit is small)"""
    k = t[0]
    if k == "uint":
        return (1 << (8 * t[1])) - 1
    if k == "bool":
        return True
    if k == "bitvec":
        return "1" * t[1]
    if k == "bitlist":
        return "1" * min(t[1], 600)
    if k == "bytevec":
        return "ff" * t[1]
    if k == "bytelist":
        return "ff" * min(t[1], 100)
    if k == "vec":
        return [gen_full_value(rng, t[1]) for _ in range(t[2])]
    if k == "list":
        n = min(t[2], 40 if is_basic(t[1]) else 6)
        return [gen_full_value(rng, t[1]) for _ in range(n)]
    if k == "cont":
        return [gen_full_value(rng, f) for f in t[1]]
    if k == "union":
        sel = union_count(t) - 1
        o = union_opt(t, sel)
        return [sel, None if o is None else gen_full_value(rng, o)]
