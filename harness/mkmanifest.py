#!/usr/bin/env python3
"""Regenerates /verif/MANIFEST.json from the table below (run after adding a property module)."""
import json, os
V = os.path.dirname(os.path.dirname(os.path.abspath(__file__)))
BASE = ("cd /repo && /venv/bin/python -m pytest -ra -q -p no:cacheprovider --timeout=900 "
        "--continue-on-collection-errors")
NOTE = ("Trusted: Coq 8.16.1 kernel + vm_compute (used to run the model and for finite byte sweeps); no axioms "
        "(Print Assumptions checked per run); the hand-written Gallina model, tied to /repo only by the differential "
        "correspondence check (generator-bounded); the Python harness, CPython, hashlib; the SSZ reading in Spec.v. "
        "See DESIGN.md section 7.")
TEXT = {
    "C01": ("Theorem C01_constructor (Coq, induction on the type expression): for EVERY well-formed type (arbitrary nesting, "
            "every length/limit < 2^64) and EVERY well-formed value the constructor's backing has root = Spec.htr "
            "(naive 'pad to 2^d and hash pairwise' merkleisation, mix-ins); fill_to_contents / fill_to_length / get_depth "
            "proved against the spec; any representation (zero summaries or expanded zeros) has the same root. Every route "
            "the property lists is a theorem on the model: decoding (C01_decode_route / _any), object import "
            "(C01_import_route), default (C01_default_route), mutation (C01_mutation_route + C05_cmd_on_chain). The Python "
            "classes are tied to the model by the correspondence (five routes per value).",
            "Coq proof by induction on ty + CRep invariant; vm_compute correspondence + translation of tree.py's tree builders (subtree_fill_*) with machine-checked equivalence to the model", "5 (C01)"),
    "C02": ("Theorem C02_constructed (full statement): for EVERY type (uintN, boolean, bit/byte vectors and lists, packed and "
            "composite vectors/lists, containers, unions, any nesting) and every well-formed value, the backing tree the "
            "constructor builds serialises (getter-by-gindex reads, chunk slicing, bitlist delimiter bit, mix-in reads, "
            "offsets) to exactly the spec bytes and the returned count is their length, for any hash function; plus the "
            "offset / count bookkeeping theorems for ARBITRARY element encodings and the spec length bounds. Mutated "
            "backings and the Python glue (encode_bytes, serialize(stream), bytes()): correspondence.",
            "Coq proof (full serialize theorem, all types) + correspondence", "5 (C02)"),
    "C03": ("Theorem C03_roundtrip (full statement): for EVERY type and every well-formed value whose encoding is shorter "
            "than 2^32 bytes, decoding the spec encoding from a stream followed by an arbitrary suffix with the exact "
            "scope (or from bytes) succeeds, returns EXACTLY the backing tree the constructor builds (same content, root, "
            "equality) and leaves the suffix untouched, for any hash function; C03_decode_encode: re-encoding the decoded "
            "value gives the bytes back. Stream prefix, Python stream object, ==: correspondence (prefix / suffix around "
            "the encoding, exact scope; success, root, re-encoding, ==, bytes consumed).",
            "Coq proof (full round-trip theorem, all types) + correspondence", "5 (C03)"),
    "C04": ("Theorems: a representation relation Repr t v n (node n represents value v through ANY contents tree: zero "
            "summaries / expanded zeros in any mixture) with: C04_indistinguishable (every represented value of every type "
            "has the root, encoding and reported length of the freshly constructed value); constructor trees are "
            "representations; container field assignment, vector element assignment, list element assignment / append / pop "
            "(composite elements; pop = clear + summarise the emptied subtree found by the climb over trailing zero bits) "
            "and union change preserve representation, as single steps and as arbitrary valid histories over values, "
            "composing through any nesting depth; lists of ANY element type incl. packed basic elements (chunk splicing, "
            "append into the partial last chunk or a new chunk, pop with chunk drop + summarise), packed vectors, and the "
            "bit operations (bit set, Bitlist append / pop). Python methods vs. model functions, argument coercion: "
            "correspondence on histories (each step vs model and vs fresh value).",
            "Coq proof (CRep / Repr invariants, induction on depth, types and histories) + correspondence", "5 (C04)"),
    "C05": ("Theorems on the store-of-view-cells model (hooks as data): a write through a child view stores the new backing "
            "in the child and, through its hook, at the child's position in the parent; the parent then reads back exactly "
            "that backing; commands on unhooked views touch nothing else. Value level (C05_*_child): writing a child's new "
            "backing into a container / vector / list parent yields the parent's updated value with the fresh root and "
            "encoding. Store level, hook chains of ANY depth (StoreChain.v): chains of held views arise from [i] / .field / "
            "value() (C05_chain_get / _value); every mutating command through the bottom view either fails leaving the "
            "whole store untouched or gives the view the value the command specifies and rewrites EVERY enclosing view to "
            "its value with the nested slot replaced, hooks and types unchanged, nothing outside the chain touched "
            "(C05_cmd_on_chain), and each then has the root and encoding of that value (C05_chain_observed). Forests: for ANY "
            "set of simultaneously held views (AllGood) and any view with valid hooks, the same with the tracked value of "
            "every held view specified (C05_forest_mutation / _get / _value / _init), and assignment / append / bit "
            "assignment keep every view usable (C05_forest_keeps_valid), so histories in any order stay covered. That the "
            "Python closures are these hooks, for interleavings over up to 14 held views obtained by index, iteration "
            "and slices: correspondence.",
            "Coq proof on the store model and the Repr invariant + correspondence", "5 (C05)"),
    "C06": ("Theorems: on the node heap (addresses, caches) every later allocation / write / root computation leaves what "
            "every existing address denotes unchanged (append-only objects; only root caches are written); copies carry no "
            "hook and commands on a copy leave every other held view unchanged; a command through any view with a valid hook "
            "chain changes only the cells of that chain (C06_only_the_chain_changes); in a forest of held views a copy is "
            "tracked with the original's value at that moment and every view off the written trail keeps its tracked value, "
            "root and encoding (C06_forest_copy, C06_off_trail_value_kept). Tie: histories with copies + model-free "
            "snapshot oracle (root recomputed from scratch, child identity, re-decoding).",
            "Coq proof on heap + store models + correspondence", "5 (C06)"),
    "C07": ("Theorems (Coq, all H/src/trees/paths, by induction on the path): read-back, frame (both directions), "
            "write-succeeds-iff-readable, only navigation errors, non-zero leaf never discarded, expansion under a zero "
            "summary = write on the expanded zero tree, summarize keeps the root. Tie to code: tree.py getter/setter/"
            "summarize_into run against the model on generated trees x gindices x expand.",
            "Coq proof by induction over paths + vm_compute correspondence with tree.py", "5 (C07)"),
    "C08": ("Theorems: for every well-formed type and key, type navigation accepts the key iff the specification's "
            "get_generalized_index step is defined, and then key_to_static_gindex is defined and equals the spec's index "
            "(next_pow2(chunk_count)+i, x2 for lists, packed index arithmetic, __len__/__selector__ = 3) with the spec's "
            "type; whole paths are step-wise the spec's and Path.gindex() concatenates those steps; to_gindex i d = 2^d+i; "
            "concat_gindices concatenates the steps' paths at the bit level; C08_node: for ANY representation of a value "
            "and any path through composite children, the backing node at Path.gindex() represents the addressed sub-value "
            "and has its hash-tree-root; index 3 holds the length / selector. The index arithmetic of tree.py (get_depth, to_gindex, "
            "get_anchor_gindex, concat_gindices) is additionally TRANSLATED into Gallina on every run and proved equal to the "
            "model's (coq/trans/TreeEq.v). Dynamic indices / navigate_view / path algebra of the "
            "Python objects: correspondence + model-free oracle.",
            "Coq proof (case analysis on ty, N bit lemmas, Repr invariant) + translation of tree.py's index arithmetic with machine-checked equivalence + correspondence", "5 (C08)"),
    "C09": ("Theorems C09_sound / C09_stable (full statements, every type): whatever the decoder accepts (scope <= available "
            "bytes) is a well-formed value (lengths within limits, integers in range, valid selector), its backing is "
            "exactly the constructor's, its root is the spec root, re-encoding gives the consumed bytes and their count, and "
            "it survives a further encode / decode cycle; the decoder is a total function failing only with error values. "
            "Python behaviour on every byte string (exception classes, readability): correspondence over ~15k byte strings "
            "per run (exhaustive short strings, exhaustive first / last byte of valid encodings, structure-aware "
            "corruptions) + model-free oracles.",
            "Coq proof (decoder soundness, all types) + correspondence with model-free oracles", "5 (C09)"),
    "C10": ("Theorems C10_canonical / C10_injective / C10_language / C10_stream (full statements, every type): decoding "
            "success implies the input is the spec encoding of a well-formed value and re-encoding reproduces exactly the "
            "input; no two distinct byte strings decode to the same value; accepted strings = valid encodings (< 4 GiB); "
            "scoped stream form. Python decoders vs. model: accepted language compared on the C09 input space; "
            "model-free: accepted => re-encodes to itself.",
            "Coq proof (canonicity, all types) + correspondence", "5 (C10)"),
    "C11": ("Theorems: the implementation model's is_fixed / min / max / type_byte_length equal the specification's for "
            "every type (induction on ty); every well-formed value's spec encoding length lies in [min_len, max_len] and "
            "equals fsize for fixed types (full nesting); C11_value_len: for every constructed value of every type the reported "
            "byte count equals the length of the actual encoding (= the spec encoding), lies within the bounds and is the "
            "fixed size for fixed-size types. Mutated values / Python glue: correspondence + model-free oracle.",
            "Coq proof by induction on ty (lia) + C02 theorem + correspondence + translation of the type classes' size-fact methods with machine-checked equivalence to the model for every type", "5 (C11)"),
    "C12": ("Theorems: default_node(t) succeeds for every well-formed type and its root is Spec.htr t (zero_val t) "
            "(induction on ty through fill_to_length / fill_to_contents and the CRep invariant); zero_val is well-formed; "
            "default root = root of the explicitly constructed zero value; C12_default_is_constructed: the default backing IS "
            "the constructor's backing of the zero value (same tree) for every type, hence (C02) its encoding is the zero "
            "value's encoding; container fields and composite vector elements of the default are navigable and hold their "
            "own defaults, as are the data chunks of bit-, byte- and packed vectors (C12_chunks_navigable); a constructor call "
            "with omitted fields builds the tree of the value with zero values there (C12_omitted_fields). The Python "
            "classmethods are tied by the correspondence (every fixed-structure gindex up to depth 3).",
            "Coq proof by induction on ty + correspondence + translation of tree.py's tree builders (subtree_fill_*) with machine-checked equivalence to the model", "5 (C12)"),
    "C13": ("Theorems (Coq, every width w>=0, every operand): constructor accepts exactly [0,2^w); coercing operators "
            "(+ - * // % & | ^, both operand orders, same-type or plain-int operand) return the exact mathematical result "
            "or ValueError / ZeroDivisionError, never a wrapped or widened value; other-width operands refused; bitwise "
            "and div/mod never overflow; shifts = (a*2^s) mod 2^w and a/2^s; ~a = 2^w-1-a; neg/truediv unsupported. "
            "Tie to code, twice: (1) class uint of basic.py is TRANSLATED into Gallina on every run (fail-closed AST translator) and "
            "30 theorems eq_* prove the generated constructor / coerce_view / operator methods equal to the model for every "
            "width, operand kind and value (coq/trans/UintEq.v compiled against the fresh translation); (2) basic.py operators run "
            "against the model on boundary/random operands for all six widths, incl. user-defined uint subclasses.",
            "Coq proof (lia + Z bit lemmas) + translation of the source with machine-checked equivalence to the model + vm_compute correspondence with basic.py", "5 (C13)"),
    "C14": ("Theorems: a failing command on a top-level view or copy, or through a child view at the bottom of a valid hook "
            "chain of any depth, leaves the whole store unchanged (C14_unchanged, C14_unchanged_on_chain); the constructor "
            "of every type accepts exactly the arguments denoting a valid value and builds a backing representing it "
            "(C14_constructor_sound / _rejects / _accepts_iff, all types by induction); each listed violation class (out-of-range / other-width integer, wrong length, over "
            "limit, index out of bounds, pop on empty, append to full, invalid selector) is rejected by the model; slice assignment "
            "view[a:b] = values through any usable held list / vector view is ALL OR NOTHING (C14_slice_all_or_nothing: fails "
            "leaving the whole store as it was, or every element assignment succeeds — C14_element_set_progress — and every held "
            "view represents its updated value). Tie: "
            "histories with ~40% invalid commands, slice assignments at top level and through child views; model-free oracle 'raised => every held view unchanged'.",
            "Coq proof on the store model + correspondence", "5 (C14)"),
    "C15": ("Theorems: indexing a contents tree that represents ns returns the i-th represented node for every i (CRep_get, "
            "all depths, any zero summaries); len() / [i] of list views present the represented elements in order; == is "
            "equality of hash-tree-roots and, for a collision-free pair hash, exactly equality of contents for every type "
            "(C15_root_iff_content: packing, merkleisation and mix-ins are injective); equal views have equal hashes. All three stack iterators (NodeIter, PackedIter, "
            "BitfieldIter), modelled literally as machines, are PROVED to yield exactly what indexing yields, in order, for "
            "every tree, depth and count (binary-increment stack invariant, intra-chunk counters). Python iterators vs. "
            "the machines, slices, to_obj: correspondence on lengths sweeping every subtree boundary + model-free "
            "agreement oracle.",
            "Coq proof (CRep_get, iterator invariants) + correspondence", "5 (C15)"),
    "C16": ("Theorems: hex text round trip; JSON dump/load idempotent on exported objects; integers of every width and "
            "booleans export to the documented shape and import back to the same backing, also through JSON; C16_roundtrip "
            "(full statement, every type): export of ANY representation of a value (iterators, hex strings, field dicts "
            "with distinct names, union dicts) then import, directly or after a JSON dump / load, yields the freshly "
            "constructed backing with the spec root; a JSON dump / load never changes what an object imports to. Exact "
            "tagged shape of the real classes, alternative spellings: correspondence (all roots = original).",
            "Coq proof (object round trip, all types) + correspondence", "5 (C16)"),
    "C17": ("Theorems (all H, src, trees, paths): a partial tree (subtrees replaced by bare summaries) has the same root; "
            "every read / non-expanding write / expanding write that succeeds on it succeeds on the complete tree with "
            "related results and equal roots (expanding writes under Hinj, relying on the repaired setter); every failure "
            "is a navigation error; summarize_into produces such a tree. View level (PartialViews.v): element / field get and "
            "set, append, pop, bit get / set, Bitlist append / pop, union value and lengths that succeed on the partial tree "
            "succeed on the complete tree with the same data and again related backings; serialisation gives the same bytes "
            "(C17_encoding); store level (PartialStore.v): any command that succeeds on a store of views over partial trees, "
            "hook propagation included, succeeds on the complete store and the stores stay related (C17_store_command). "
            "Reads (PartialReads.v): the element iterator is simulated by the complete tree's, the packed / bit iterators and "
            "the object export agree with the complete tree whenever both return, and a successful export of a partial "
            "version of a tree representing a value is that value's export (C17_export_is_value). "
            "Other direction (PartialErrors.v, premise Hinj): where the complete tree answers, every view operation and the "
            "serialisation on the partial tree give the related answer or a navigation error (index error where the code "
            "re-labels it) — C17_view_ops_two_way; a store command that succeeds on the complete store fails on the partial "
            "store only with such an error (C17_store_errors); the same for the three iterators and the object export "
            "(C17_iterators_complete, C17_export_complete, C17_export_total). Iterator objects stepped on "
            "after a failure: correspondence + model-free comparison of every read path with the complete tree.",
            "Coq proof (simulation relation summ, induction on paths) + correspondence", "5 (C17)"),
    "C18": ("Theorems: get_target_history (model of the fixed code, recursion on the gindex path with per-level "
            "de-duplication) equals 'look the position up in every entry and drop consecutive repeats' on keys and roots, "
            "for all histories and targets (premise Hinj); never empty for a non-empty history; get_diff empty on equal "
            "roots, sound (pairs differ, one side a leaf, same position), EXACTLY the minimal differing pairs (reported at q iff "
            "the roots differ at q and above and the two subtrees are not both inner nodes; with Hinj: iff they differ at q), "
            "in strictly increasing left-to-right order and never nested; grafting its second members reproduces the "
            "second root; leaf_iter = leaves at leaf positions left to right. Tie: history.py / tree.py on generated "
            "histories (repeats, reversions) and tree pairs.",
            "Coq proof by induction on paths / trees + correspondence", "5 (C18)"),
    "C19": ("Theorems on the heap model: setter allocates only (no object or cache rewritten, no hash), the new pair at "
            "every path step keeps the OFF-PATH child address (same node object), the heap setter refines the pure "
            "setter through den, merkle_root on a cached node or leaf changes nothing and a second merkle_root is free; cost "
            "(HeapCost.v): hashes + number of uncached pair objects is invariant under merkle_root(), a write adds one uncached "
            "pair per path step (two where a zero summary is expanded), hence the root after a write hashes at most what was "
            "unhashed + the changed path, and nothing when nothing is unhashed (C19_rehash_bound, C19_nothing_to_hash). "
            "Tie: sibling identity (`is`) and hash counts (wrapped merkle_hash) of tree.py operations vs the heap model; "
            "view-level sharing and hash bound checked model-free.",
            "Coq proof on the heap model + correspondence", "5 (C19)"),
    "C20": ("Theorems (all H, sources, trees, paths): a tree whose subtrees are virtual nodes over a source consistent "
            "with the materialised tree has the same root, the same navigation results and navigation errors, and the "
            "same results of writes with and without expansion (simulation relation vrel); the memo state machine of a "
            "VirtualNode hands each child out of the source at most once. View level (VirtualViews.v): element / field get "
            "and set, lengths, append, pop, bit get / set, Bitlist append / pop, union value compute on the virtual tree "
            "exactly what they compute on the materialised tree (same data, same errors, related backings); serialisation gives "
            "the same bytes (C20_encoding); store level (VirtualStore.v): any command, hence any history through any held "
            "views with their hooks, gives the same results on both stores and every held view keeps the same root and "
            "encoding (C20_store_history / _observed). Python views over VirtualNode are tied by the correspondence (model with VirtN + table source, also "
            "write-before-read schedules) and model-free comparison with the materialised tree; "
            "per-node source-call log checked for repeats.",
            "Coq proof (simulation relation vrel, state-machine invariant) + correspondence", "5 (C20)"),
}
import importlib, sys
sys.path.insert(0, os.path.join(V, "harness"))
CLAIMED = {}
for pid, val in TEXT.items():
    src = open(os.path.join(V, "harness", "props", pid.lower() + ".py")).read()
    if "THEOREMS = []" not in src and os.path.exists(os.path.join(V, "coq", "props", pid + ".v")):
        CLAIMED[pid] = val
TODO_REASON = "machinery for this property is not built yet (work in progress; see DESIGN.md section 8 order)"
props = [json.loads(l) for l in open(os.path.join(V, "properties.jsonl"))]
checks, na = [], []
for p in props:
    i = p["id"]
    if i in CLAIMED:
        text, tech, ref = CLAIMED[i]
        checks.append({
            "property_id": i,
            "quick_cmd": "./check %s --tier quick" % i,
            "thorough_cmd": "./check %s --tier thorough" % i,
            "evidence_file": "/verif/evidence/%s.json" % i,
            "replay_cmd_template": "./check %s --replay {path}" % i,
            "engine": "coq-model+correspondence",
            "level_claimed": {"category": "proof", "text": text, "design_ref": "DESIGN.md section " + ref},
            "level_note": NOTE,
            "technique": tech,
        })
    else:
        na.append({"property_id": i, "reason": TODO_REASON})
m = {
    "version": 1,
    "setup_cmd": "cd /verif/coq && coq_makefile -f _CoqProject -o Makefile && timeout 3000 make -j16",
    "hooks": {"guard": "REMERKLEABLE_VERIF", "enable": "none needed: no source hooks; checks import /repo's working tree "
              "directly (PYTHONPATH=/repo)", "baseline_off_cmd": BASE, "source_commits": [], "add_only": True},
    "engines": [{"name": "coq-model+correspondence", "path": "/verif/coq + /verif/harness",
                 "serves_properties": sorted(CLAIMED),
                 "kind_free_text": "Coq 8.16 development (model, spec, proofs) + Python differential correspondence "
                                   "driver evaluating the model with vm_compute on generated cases"}],
    "checks": checks,
    "not_applicable": na,
    "notes": "fix: commits in /repo are recorded in /verif/known_findings.json (kind=fixed).",
}
json.dump(m, open(os.path.join(V, "MANIFEST.json"), "w"), indent=1)
print("claimed:", sorted(CLAIMED), "not_applicable:", len(na))
