(* C12 — default values are the SSZ zero values.  Property theorems only. *)
Require Import RM.Base RM.Tree RM.Types RM.Spec RM.ModelViews RM.DefaultProofs.

(* the type's default backing tree has the hash-tree-root of the SSZ zero value, for every type *)
Theorem C12_default_node : forall H t, wf_ty t = true ->
  exists n, default_node H t = Ok n /\ root H n = htr H t (zero_val t).
Proof. exact default_root. Qed.

(* ... which is a legal value of the type *)
Theorem C12_zero_wellformed : forall t, wf_ty t = true -> wf t (zero_val t) = true.
Proof. exact wf_zero. Qed.

(* ... and the default equals the explicitly constructed all-zero / empty value *)
Theorem C12_equals_explicit : forall H t, wf_ty t = true ->
  exists d z, default_node H t = Ok d /\ mk H t (zero_val t) = Ok z /\ root H d = root H z.
Proof. exact default_equals_explicit. Qed.

Example C12_nonvacuous :
  wf_ty (TContainer [TVector (TUint 2) 17; TBitvector 513; TUnion false [TList TBool 9]]) = true.
Proof. reflexivity. Qed.

Print Assumptions C12_default_node.
Print Assumptions C12_zero_wellformed.
Print Assumptions C12_equals_explicit.
Print Assumptions C12_nonvacuous.
