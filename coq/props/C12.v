(* C12 — default values are the SSZ zero values.  Property theorems only. *)
Require Import RM.Base RM.Tree RM.Types RM.Spec RM.ModelViews RM.ModelCodec RM.DefaultProofs RM.DefaultEq RM.ReprProofs RM.DefaultNav.
Local Open Scope N_scope.

(* the type's default backing tree has the hash-tree-root of the SSZ zero value, for every type *)
Theorem C12_default_node : forall H t, wf_ty t = true ->
  exists n, default_node H t = Ok n /\ root H n = htr H t (zero_val t).
Proof. exact default_root. Qed.

(* ... which is a legal value of the type *)
Theorem C12_zero_wellformed : forall t, wf_ty t = true -> wf t (zero_val t) = true.
Proof. exact wf_zero. Qed.

(* ... and the default equals the explicitly constructed all-zero / empty value *)
Theorem C12_equals_explicit : forall H t, wf_ty t = true ->
  exists d z, default_node H t = Ok d /\ mk H t (zero_val t) = Ok z /\ root H d = root H z.
Proof. exact default_equals_explicit. Qed.

Example C12_nonvacuous :
  wf_ty (TContainer [TVector (TUint 2) 17; TBitvector 513; TUnion false [TList TBool 9]]) = true.
Proof. reflexivity. Qed.

(* the default backing is the very tree the constructor builds for the zero value *)
Theorem C12_default_is_constructed : forall H t, wf_ty t = true -> default_node H t = mk H t (zero_val t).
Proof. exact default_eq_mk. Qed.

(* its encoding is the zero value's encoding (and its root the zero value's root) *)
Theorem C12_default_encoding : forall H src t, wf_ty t = true ->
  exists n, default_node H t = Ok n /\ root H n = htr H t (zero_val t) /\
            ser_impl H src t n = Ok (ser t (zero_val t), lenN (ser t (zero_val t))).
Proof. intros H src t. exact (default_encoding H src t). Qed.

(* navigable wherever the type has fixed structure: every container field position and every
   (composite) vector element position of the default backing holds that field's / element's default *)
Theorem C12_container_navigable : forall H src fs n, wf_ty (TContainer fs) = true ->
  default_node H (TContainer fs) = Ok n -> forall i, (i < length fs)%nat ->
  exists c, getter_i src n (N.of_nat i) (contents_depth (TContainer fs)) = Ok c /\ default_node H (nth i fs TBool) = Ok c.
Proof. intros H src. exact (default_container_navigable H src). Qed.

Theorem C12_vector_navigable : forall H src e k n, wf_ty (TVector e k) = true -> basic_size e = None ->
  default_node H (TVector e k) = Ok n -> forall i, i < k ->
  exists c, getter_i src n i (contents_depth (TVector e k)) = Ok c /\ default_node H e = Ok c.
Proof. intros H src. exact (default_vector_navigable H src). Qed.

Print Assumptions C12_default_node.
Print Assumptions C12_default_is_constructed.
Print Assumptions C12_default_encoding.
Print Assumptions C12_container_navigable.
Print Assumptions C12_vector_navigable.
Print Assumptions C12_zero_wellformed.
Print Assumptions C12_equals_explicit.
Print Assumptions C12_nonvacuous.

(* a container built with some fields omitted is the container built from the value in which every omitted
   field holds its type's zero value: the same backing tree *)
Theorem C12_omitted_fields : forall H fs ovs, forallb wf_ty fs = true -> length ovs = length fs ->
  mk_container_partial H fs ovs = mk H (TContainer fs) (VCont (fill_omitted fs ovs)).
Proof. exact omitted_fields_default. Qed.

(* fixed-structure chunked kinds (Bitvector, ByteVector, vectors of basic elements): every data chunk of the
   default backing is navigable and is the corresponding chunk of the zero value's data *)
Theorem C12_chunks_navigable : forall H src t n, wf_ty t = true -> chunked_fixed t = true -> default_node H t = Ok n ->
  forall i, i < lenN (chunks (chunk_data t (zero_val t))) ->
  getter_i src n i (contents_depth t) = Ok (RootN (nth (N.to_nat i) (chunks (chunk_data t (zero_val t))) zero32)).
Proof. exact default_chunks_navigable. Qed.

Print Assumptions C12_omitted_fields.
Print Assumptions C12_chunks_navigable.
