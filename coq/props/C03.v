(* C03 — decoding inverts encoding (bytes and stream-with-scope).  Property theorems only.
   C03_roundtrip is the full statement: for EVERY type and every well-formed value whose encoding is
   shorter than 2^32 bytes (SSZ offsets are 4 bytes; longer encodings are outside the format), the
   value can be constructed, and decoding its specification encoding — from a stream positioned
   anywhere (the stream = its remaining bytes; an arbitrary suffix follows) and given the exact scope,
   or from bytes — succeeds, returns EXACTLY the backing tree the constructor builds (hence identical
   content, hash-tree-root and equality) and leaves the suffix untouched ("consumes exactly scope
   bytes").  Every valid encoding is therefore accepted.  With C02_constructed, re-encoding the
   decoded value gives the bytes back.  The leaf-kind theorems are kept as stated before. *)
Require Import RM.Base RM.Tree RM.Types RM.Spec RM.ModelViews RM.ModelCodec RM.CodecBasicProofs RM.CtorProofs RM.DeserProofs RM.SerAll.
Local Open Scope N_scope.

Theorem C03_uint_roundtrip : forall H k n sfx, uint_size_ok k = true -> n < 2 ^ (8 * k) ->
  deser_impl H (TUint k) (ser (TUint k) (VUint n) ++ sfx) k = Ok (RootN (pad32 (le_bytes (N.to_nat k) n)), sfx).
Proof. exact deser_uint_roundtrip. Qed.

(* the decoded value is the constructed value: identical backing, hence root, content, equality *)
Theorem C03_uint_same_value : forall H k n sfx nd, uint_size_ok k = true -> n < 2 ^ (8 * k) ->
  mk H (TUint k) (VUint n) = Ok nd ->
  deser_impl H (TUint k) (ser (TUint k) (VUint n) ++ sfx) k = Ok (nd, sfx).
Proof.
  intros H k n sfx nd Hk Hn Hm. rewrite (deser_uint_roundtrip H k n sfx Hk Hn).
  cbn [mk mk_basic] in Hm. apply N.ltb_lt in Hn. rewrite Hn in Hm. cbn [bind] in Hm. now inversion Hm.
Qed.

Theorem C03_bool_roundtrip : forall H (b : bool) sfx,
  deser_impl H TBool ((if b then x01 else x00) :: sfx) 1 = Ok (RootN (pad32 [if b then x01 else x00]), sfx).
Proof. intros H b sfx. destruct b; reflexivity. Qed.

(* the full statement, every type, any nesting depth, any hash function *)
Theorem C03_roundtrip : forall H t v, wf_ty t = true -> wf t v = true -> lenN (ser t v) < 2 ^ 32 ->
  exists n, mk H t v = Ok n /\ root H n = htr H t v /\
    (forall sfx, deser_impl H t (ser t v ++ sfx) (lenN (ser t v)) = Ok (n, sfx)) /\
    decode_bytes H t (ser t v) = Ok n.
Proof. exact roundtrip_total. Qed.

(* decode then encode gives the bytes back (C03 + C02) *)
Theorem C03_decode_encode : forall H src t v, wf_ty t = true -> wf t v = true -> lenN (ser t v) < 2 ^ 32 ->
  exists n, decode_bytes H t (ser t v) = Ok n /\ ser_impl H src t n = Ok (ser t v, lenN (ser t v)).
Proof.
  intros H src t v Hty Hwf Hb. destruct (roundtrip_total H t v Hty Hwf Hb) as (n & Hn & _ & _ & Hd).
  exists n. split; [exact Hd|]. exact (ser_constructed H src t v n Hty Hwf Hn).
Qed.

(* non-vacuity: nested types mixing every kind have well-formed values with short encodings *)
Example C03_roundtrip_nonvacuous :
  let t := TContainer [TUint 8; TList (TContainer [TBool; TList (TUint 2) 7; TBitlist 9]) 5; TByteVector 33;
                       TUnion true [TBitvector 12; TVector (TByteList 4) 2]] in
  let v := VCont [VUint 77;
                  VSeq [VCont [VBool true; VSeq [VUint 513; VUint 2]; VBits [true; false; true]];
                        VCont [VBool false; VSeq []; VBits []]];
                  VBytes (repeat x01 33);
                  VUnion 2 (Some (VSeq [VBytes [x01; x02]; VBytes []]))] in
  wf_ty t = true /\ wf t v = true /\ lenN (ser t v) < 2 ^ 32.
Proof. vm_compute. repeat split. Qed.

Print Assumptions C03_uint_roundtrip.
Print Assumptions C03_roundtrip.
Print Assumptions C03_decode_encode.
Print Assumptions C03_uint_same_value.
Print Assumptions C03_bool_roundtrip.
