(* C03 — decoding inverts encoding (bytes and stream-with-scope).  Property theorems only.
   Proved for the leaf kinds with scoped stream decoding (the stream = its remaining bytes; an
   arbitrary suffix comes back untouched = "consumes exactly scope bytes").  Composite kinds are
   tied by the correspondence (random prefix / suffix, full and boundary values). *)
Require Import RM.Base RM.Tree RM.Types RM.Spec RM.ModelViews RM.ModelCodec RM.CodecBasicProofs RM.CtorProofs.
Local Open Scope N_scope.

Theorem C03_uint_roundtrip : forall H k n sfx, uint_size_ok k = true -> n < 2 ^ (8 * k) ->
  deser_impl H (TUint k) (ser (TUint k) (VUint n) ++ sfx) k = Ok (RootN (pad32 (le_bytes (N.to_nat k) n)), sfx).
Proof. exact deser_uint_roundtrip. Qed.

(* the decoded value is the constructed value: identical backing, hence root, content, equality *)
Theorem C03_uint_same_value : forall H k n sfx nd, uint_size_ok k = true -> n < 2 ^ (8 * k) ->
  mk H (TUint k) (VUint n) = Ok nd ->
  deser_impl H (TUint k) (ser (TUint k) (VUint n) ++ sfx) k = Ok (nd, sfx).
Proof.
  intros H k n sfx nd Hk Hn Hm. rewrite (deser_uint_roundtrip H k n sfx Hk Hn).
  cbn [mk mk_basic] in Hm. apply N.ltb_lt in Hn. rewrite Hn in Hm. cbn [bind] in Hm. now inversion Hm.
Qed.

Theorem C03_bool_roundtrip : forall H (b : bool) sfx,
  deser_impl H TBool ((if b then x01 else x00) :: sfx) 1 = Ok (RootN (pad32 [if b then x01 else x00]), sfx).
Proof. intros H b sfx. destruct b; reflexivity. Qed.

Print Assumptions C03_uint_roundtrip.
Print Assumptions C03_uint_same_value.
Print Assumptions C03_bool_roundtrip.
