(* C02 — encode_bytes / serialize equal SSZ-spec serialization.  Property theorems only.
   C02_constructed is the full statement: for EVERY type (uintN, boolean, bit/byte vectors and lists,
   packed and composite vectors and lists, containers, unions, at any nesting depth) and every
   well-formed value, the backing tree the constructor builds serialises — getter-by-gindex reads,
   chunk slicing of packed elements, the bitlist delimiter bit, length / selector mix-in reads, offset
   bookkeeping — to exactly the specification bytes, and the returned count is their length, for any
   hash function.  The other theorems are its building blocks, stated for arbitrary element
   encodings.  Backings reached by mutation rather than construction are tied by the correspondence
   (and by C04's theorems where the mutated tree is shown to be a representation). *)
Require Import RM.Base RM.Types RM.Spec RM.ModelViews RM.ModelCodec RM.SerLen RM.SerProofs RM.SerProofs2 RM.SerAll RM.CodecBasicProofs RM.ReprProofs.
Local Open Scope N_scope.

(* variable-size elements: offsets, then the elements; count = bytes written *)
Theorem C02_sequence_offsets : forall els : list (bytes * N),
  (forall x, In x els -> snd x = lenN (fst x)) ->
  let '(fixedp, varp, off) := seq_fold els (OFFSET * lenN els) in
  fixedp ++ firstn (N.to_nat off) varp = ser_parts (map (fun x => (false, fst x)) els) /\
  off = lenN (ser_parts (map (fun x => (false, fst x)) els)).
Proof. exact seq_var_ser. Qed.

(* fixed-size elements: plain concatenation; count = element size * length *)
Theorem C02_sequence_fixed : forall (els : list (bytes * N)) sz,
  (forall x, In x els -> lenN (fst x) = sz) ->
  concat (map fst els) = ser_parts (map (fun x => (true, fst x)) els) /\
  lenN (concat (map fst els)) = sz * lenN els.
Proof. exact seq_fixed_ser. Qed.

(* containers: fixed fields in place, offsets for variable fields, variable parts in order;
   the running `written` ends as the total length *)
Theorem C02_container_offsets : forall fields : list (bool * (bytes * N)),
  (forall p, In p fields -> snd (snd p) = lenN (fst (snd p))) ->
  fst (fst (cont_loop fields ([], [], sumN (map fixed_part_len (parts_of fields))))) ++
    firstn (N.to_nat (snd (cont_loop fields ([], [], sumN (map fixed_part_len (parts_of fields))))))
           (snd (fst (cont_loop fields ([], [], sumN (map fixed_part_len (parts_of fields))))))
  = ser_parts (parts_of fields) /\
  snd (cont_loop fields ([], [], sumN (map fixed_part_len (parts_of fields)))) = lenN (ser_parts (parts_of fields)).
Proof. exact cont_ser. Qed.

(* leaf kinds *)
Theorem C02_uint : forall H src k n nd, uint_size_ok k = true -> n < 2 ^ (8 * k) ->
  mk H (TUint k) (VUint n) = Ok nd ->
  ser_impl H src (TUint k) nd = Ok (ser (TUint k) (VUint n), lenN (ser (TUint k) (VUint n))).
Proof. exact ser_uint. Qed.

Theorem C02_bool : forall H src b nd, mk H TBool (VBool b) = Ok nd ->
  ser_impl H src TBool nd = Ok (ser TBool (VBool b), 1).
Proof. exact ser_bool. Qed.

(* the full statement for constructed values of every type, any nesting depth, any hash *)
Theorem C02_constructed : forall H src t v, wf_ty t = true -> wf t v = true ->
  exists n, mk H t v = Ok n /\ ser_impl H src t n = Ok (ser t v, lenN (ser t v)).
Proof. exact ser_constructed_total. Qed.

(* ... and not only the constructor's tree: ANY representation of the value (any mixture of zero
   summaries and expanded zeros, as left behind by mutations) serialises to the spec bytes *)
Theorem C02_any_representation : forall H src t v n, wf_ty t = true -> wf t v = true -> Repr H t v n ->
  ser_impl H src t n = Ok (ser t v, lenN (ser t v)).
Proof. exact Repr_ser. Qed.

(* non-vacuity: nested types mixing every kind have well-formed values *)
Example C02_constructed_nonvacuous :
  let t := TUnion true [TContainer [TUint 8; TList (TContainer [TBool; TUint 2; TBitlist 9]) 5; TByteVector 33];
                        TVector (TList (TUnion false [TBool; TBitvector 3]) 3) 2; TList (TUint 2) 40] in
  wf_ty t = true /\
  wf t (VUnion 1 (Some (VCont [VUint 77; VSeq [VCont [VBool true; VUint 513; VBits [true; false; true]]];
                               VBytes (repeat x01 33)]))) = true /\
  wf t (VUnion 2 (Some (VSeq [VSeq [VUnion 1 (Some (VBits [true; true; false]))]; VSeq []]))) = true /\
  wf t (VUnion 3 (Some (VSeq (map VUint [1; 2; 3; 65535; 4; 5; 6; 7; 8; 9; 10; 11; 12; 13; 14; 15; 16; 17])))) = true.
Proof. vm_compute. repeat split. Qed.

(* the specification's encoding length is what the type facts say (used with the counts above) *)
Theorem C02_length_within_bounds : forall t v, wf_ty t = true -> wf t v = true ->
  min_len t <= lenN (ser t v) <= max_len t.
Proof. exact ser_len_bounds. Qed.

Print Assumptions C02_sequence_offsets.
Print Assumptions C02_sequence_fixed.
Print Assumptions C02_container_offsets.
Print Assumptions C02_uint.
Print Assumptions C02_bool.
Print Assumptions C02_length_within_bounds.
Print Assumptions C02_constructed.
Print Assumptions C02_any_representation.
