(* C01 — hash_tree_root equals SSZ-spec merkleization for every type and value.
   Property theorems only.  H is any pair hash. *)
Require Import RM.Base RM.Gindex RM.Tree RM.Types RM.Spec RM.ModelViews RM.MerkleProofs RM.PackProofs RM.CtorProofs RM.ModelCodec RM.DeserProofs RM.SoundProofs RM.ReprProofs RM.DefaultEq RM.ModelObj RM.ObjProofs RM.ModelStore RM.StoreChain.

(* the value built by the constructor of ANY well-formed type (arbitrary nesting, any length / limit
   below 2^64) from ANY well-formed value has the specification's hash-tree-root *)
Theorem C01_constructor : forall H t v, wf_ty t = true -> wf t v = true ->
  exists n, mk H t v = Ok n /\ root H n = htr H t v.
Proof. exact mk_root. Qed.

(* subtree_fill_to_contents: the tree over any list of bottom nodes that fits has the root
   "pad with zero chunks to 2^d leaves and hash pairwise" *)
Theorem C01_fill_contents : forall H d ns, length ns <= 2 ^ d ->
  exists n, fill_to_contents H ns d = Ok n /\ root H n = merkleize H d (map (root H) ns).
Proof. exact fill_to_contents_root. Qed.

(* subtree_fill_to_length: k copies of a bottom node followed by zero padding *)
Theorem C01_fill_length : forall H d b (k : N), N.to_nat k <= 2 ^ d ->
  exists n, fill_to_length H b d k = Ok n /\
            root H n = merkleize H d (map (root H) (repeat b (N.to_nat k))).
Proof.
  intros H d b k Hk. destruct (fill_to_length_CRep H d b k Hk) as (n & Hf & Hc).
  exists n. split; [exact Hf|]. now apply CRep_merkleize.
Qed.

(* any backing that represents bottom nodes ns (in any mixture of expanded zeros and zero
   summaries) has the merkleisation of ns as its root: the root does not depend on the route *)
Theorem C01_any_representation : forall H d n ns, CRep H d n ns -> root H n = merkleize H d (map (root H) ns).
Proof. exact CRep_merkleize. Qed.

(* get_depth is the specification's depth: smallest d with n <= 2^d *)
Theorem C01_get_depth : forall n,
  get_depth n = depth_of n /\ N.to_nat n <= 2 ^ get_depth n /\
  (get_depth n = 0 \/ 2 ^ (get_depth n - 1) < N.to_nat n).
Proof. intros n. split; [apply get_depth_eq|]. split; [apply get_depth_fits|apply get_depth_minimal]. Qed.

Example C01_nonvacuous :
  let t := TContainer [TVector (TUint 2) 17; TList (TContainer [TBool; TBitlist 300]) 5; TUnion true [TByteVector 33]] in
  let v := VCont [VSeq (repeat (VUint 65535) 17); VSeq [VCont [VBool true; VBits [true; false; true]]];
                  VUnion 1 (Some (VBytes (repeat x07 33)))] in
  wf_ty t = true /\ wf t v = true.
Proof. split; reflexivity. Qed.

(* the decode route: decoding the encoding of a value yields a backing with the spec root ... *)
Theorem C01_decode_route : forall H t v, wf_ty t = true -> wf t v = true -> (lenN (ser t v) < 2 ^ 32)%N ->
  exists n, decode_bytes H t (ser t v) = Ok n /\ root H n = htr H t v.
Proof.
  intros H t v Hty Hwf Hb. destruct (roundtrip_total H t v Hty Hwf Hb) as (n & _ & Hr & _ & Hd). eauto.
Qed.
(* ... and ANY accepted byte string yields a backing whose root is the spec root of the value it encodes *)
Theorem C01_decode_any : forall H t bs n, wf_ty t = true -> decode_bytes H t bs = Ok n ->
  exists v, wf t v = true /\ bs = ser t v /\ root H n = htr H t v.
Proof.
  intros H t bs n Hty Hd. destruct (decode_bytes_canonical H t bs n (fun _ => None) Hty Hd) as (v & Hw & Es & _ & Hr & _). eauto.
Qed.

(* any representation of a value (constructed, decoded, mutated: see C04) has the spec root *)
Theorem C01_any_repr_root : forall H t v n, wf_ty t = true -> wf t v = true -> Repr H t v n -> root H n = htr H t v.
Proof. exact Repr_root. Qed.

Print Assumptions C01_constructor.
Print Assumptions C01_any_repr_root.
Print Assumptions C01_decode_route.
Print Assumptions C01_decode_any.
Print Assumptions C01_fill_contents.
Print Assumptions C01_fill_length.
Print Assumptions C01_any_representation.
Print Assumptions C01_get_depth.
Print Assumptions C01_nonvacuous.

(* the object-import route: exporting ANY representation of a value and importing the object (directly or
   after a JSON dump / load) yields a backing with the spec root of that value *)
Theorem C01_import_route : forall H src t v n, wf_ty t = true -> fields_ok t = true -> wf t v = true -> Repr H t v n ->
  exists o n0, to_obj H src t n = Ok o /\ from_obj H t o = Ok n0 /\ from_obj H t (json_rt o) = Ok n0 /\ root H n0 = htr H t v.
Proof.
  intros H src t v n Hty Hok Hwf Hr. destruct (mk_root H t v Hty Hwf) as (n0 & Hm & _).
  destruct (obj_roundtrip_json H src t v n n0 Hty Hok Hwf Hr Hm) as (o & Ho & Hf & Hj & Hroot). eauto 6.
Qed.

(* the default route: the default backing of every type has the spec root of the type's zero value *)
Theorem C01_default_route : forall H t, wf_ty t = true ->
  exists n, default_node H t = Ok n /\ root H n = htr H t (zero_val t).
Proof.
  intros H t Hty. destruct (default_encoding H (fun _ => None) t Hty) as (n & Hd & Hr & _). eauto.
Qed.

(* the mutation route: whatever backing a mutating command (element / field assignment, append, pop, bit
   assignment, union change) computes for a view that represents v has the spec root of the value the command
   specifies; by C05_cmd_on_chain the same then holds for every enclosing view *)
Theorem C01_mutation_route : forall H src c v cm nb, good H c v -> new_backing H src c cm = Ok nb ->
  exists x, cmd_effect (cty c) v cm = Some x /\ wf (cty c) x = true /\ root H nb = htr H (cty c) x.
Proof.
  intros H src c v cm nb Hg Hnb. pose proof Hg as (Hty & _ & _).
  destruct (new_backing_sound H src c v cm nb Hg Hnb) as (x & He & Hw & Hr).
  exists x. split; [exact He|]. split; [exact Hw|]. now apply Repr_root.
Qed.

Print Assumptions C01_import_route.
Print Assumptions C01_default_route.
Print Assumptions C01_mutation_route.
