(* C11 — type size facts are exact and values report their true byte length.
   Property theorems only. *)
Require Import RM.Base RM.Types RM.Spec RM.ModelViews RM.FactsProofs RM.SerLen.
Local Open Scope N_scope.

(* the implementation's class-method facts (is_fixed_byte_length, min/max_byte_length,
   type_byte_length) are exactly the specification's, for every type expression *)
Theorem C11_facts : forall t,
  is_fixed_impl t = is_fixed t /\ min_impl t = min_len t /\ max_impl t = max_len t /\
  (is_fixed t = true -> type_byte_length_impl t = Ok (fsize t)) /\
  (is_fixed t = false -> exists e, type_byte_length_impl t = Err e).
Proof. exact facts_exact. Qed.

(* every well-formed value's encoding length lies within the type's bounds *)
Theorem C11_bounds : forall t v, wf_ty t = true -> wf t v = true ->
  min_len t <= lenN (ser t v) <= max_len t.
Proof. exact ser_len_bounds. Qed.

(* ... and equals the fixed length for fixed-size types *)
Theorem C11_fixed_exact : forall t v, wf_ty t = true -> wf t v = true -> is_fixed t = true ->
  lenN (ser t v) = fsize t.
Proof. exact ser_len_fixed. Qed.

Example C11_nonvacuous :
  let t := TContainer [TUint 2; TList (TUint 2) 8; TUnion true [TBitlist 9]] in
  wf_ty t = true /\ wf t (VCont [VUint 7; VSeq [VUint 1; VUint 2]; VUnion 1 (Some (VBits [true; false]))]) = true /\
  min_len t = 11 /\ max_len t = 29.
Proof. repeat split. Qed.

Print Assumptions C11_facts.
Print Assumptions C11_bounds.
Print Assumptions C11_fixed_exact.
Print Assumptions C11_nonvacuous.
