(* C11 — type size facts are exact and values report their true byte length.
   Property theorems only. *)
Require Import RM.Base RM.Types RM.Spec RM.ModelViews RM.ModelCodec RM.FactsProofs RM.SerLen RM.SerAll RM.ReprProofs.
Local Open Scope N_scope.

(* the implementation's class-method facts (is_fixed_byte_length, min/max_byte_length,
   type_byte_length) are exactly the specification's, for every type expression *)
Theorem C11_facts : forall t,
  is_fixed_impl t = is_fixed t /\ min_impl t = min_len t /\ max_impl t = max_len t /\
  (is_fixed t = true -> type_byte_length_impl t = Ok (fsize t)) /\
  (is_fixed t = false -> exists e, type_byte_length_impl t = Err e).
Proof. exact facts_exact. Qed.

(* every well-formed value's encoding length lies within the type's bounds *)
Theorem C11_bounds : forall t v, wf_ty t = true -> wf t v = true ->
  min_len t <= lenN (ser t v) <= max_len t.
Proof. exact ser_len_bounds. Qed.

(* ... and equals the fixed length for fixed-size types *)
Theorem C11_fixed_exact : forall t v, wf_ty t = true -> wf t v = true -> is_fixed t = true ->
  lenN (ser t v) = fsize t.
Proof. exact ser_len_fixed. Qed.

Example C11_nonvacuous :
  let t := TContainer [TUint 2; TList (TUint 2) 8; TUnion true [TBitlist 9]] in
  wf_ty t = true /\ wf t (VCont [VUint 7; VSeq [VUint 1; VUint 2]; VUnion 1 (Some (VBits [true; false]))]) = true /\
  min_len t = 11 /\ max_len t = 29.
Proof. repeat split. Qed.

(* the reported byte length (the count returned by serialize / value_byte_length) of every constructed
   value equals the length of its actual encoding, which is the spec encoding, lies within the type's
   bounds, and is the fixed size for fixed-size types *)
Theorem C11_value_len : forall H src t v, wf_ty t = true -> wf t v = true ->
  exists n b c, mk H t v = Ok n /\ ser_impl H src t n = Ok (b, c) /\ b = ser t v /\ c = lenN b /\
    min_impl t <= c <= max_impl t /\ (is_fixed_impl t = true -> c = fsize t).
Proof.
  intros H src t v Hty Hwf. destruct (ser_constructed_total H src t v Hty Hwf) as (n & Hn & Hs).
  exists n, (ser t v), (lenN (ser t v)). split; [exact Hn|]. split; [exact Hs|]. split; [reflexivity|]. split; [reflexivity|].
  rewrite min_impl_eq, max_impl_eq, is_fixed_impl_eq. split; [now apply ser_len_bounds|]. intros Hf. now apply ser_len_fixed.
Qed.

Print Assumptions C11_facts.
Print Assumptions C11_value_len.
Print Assumptions C11_bounds.
Print Assumptions C11_fixed_exact.
Print Assumptions C11_nonvacuous.

(* ... and the same for a value reached by ANY route (decoded, imported, default, mutated: every such backing
   represents its value, C04 / C05): the reported count is the length of the spec encoding, within bounds *)
Theorem C11_value_len_any : forall H src t v n, wf_ty t = true -> wf t v = true -> Repr H t v n ->
  exists b c, ser_impl H src t n = Ok (b, c) /\ b = ser t v /\ c = lenN b /\
    min_impl t <= c <= max_impl t /\ (is_fixed_impl t = true -> c = fsize t).
Proof.
  intros H src t v n Hty Hwf Hr. exists (ser t v), (lenN (ser t v)). split; [exact (Repr_ser H src t v n Hty Hwf Hr)|].
  split; [reflexivity|]. split; [reflexivity|].
  rewrite min_impl_eq, max_impl_eq, is_fixed_impl_eq. split; [now apply ser_len_bounds|]. intros Hf. now apply ser_len_fixed.
Qed.

Print Assumptions C11_value_len_any.
