(* C13 — uintN operators are exact, range-checked and never wrap or widen silently.
   Property theorems only.  w is the width in bits (any w >= 0, in particular 8..256); a is the
   uint operand, (k, b) the other operand with its kind; refl selects the reflected form. *)
Require Import RM.Base RM.ModelBasic RM.BasicProofs.
Local Open Scope Z_scope.

Theorem C13_ctor : forall w x, (exists r, mk_uint w x = Ok r) <-> 0 <= x < 2 ^ w.
Proof. exact ctor_iff. Qed.

Theorem C13_exact : forall w op (refl : bool) a k b,
  0 <= w -> same_or_int w k -> inr w a -> inr w b ->
  In op [Add; Sub; Mul; FloorDiv; Mod; And; Or; Xor] ->
  let x := if refl then b else a in
  let y := if refl then a else b in
  let r := sem op x y in
  if (match op with FloorDiv | Mod => true | _ => false end) && (y =? 0)
  then uint_binop w op refl a k b = Err EZeroDiv
  else (inr w r -> uint_binop w op refl a k b = Ok r) /\
       (~ inr w r -> uint_binop w op refl a k b = Err EValue).
Proof. exact arith_exact. Qed.

Theorem C13_never_widens : forall w op refl a k b r,
  uint_binop w op refl a k b = Ok r -> 0 <= r < 2 ^ w.
Proof. exact result_in_range. Qed.

Theorem C13_other_width_refused : forall w w' a b op refl, w' <> w ->
  In op [Add; Sub; Mul; FloorDiv; Mod; And; Or; Xor] ->
  uint_binop w op refl a (KOther w') b = Err EValue.
Proof. exact other_width_refused. Qed.

Theorem C13_bitwise_total : forall w op refl a k b,
  0 <= w -> same_or_int w k -> inr w a -> inr w b -> In op [And; Or; Xor] ->
  uint_binop w op refl a k b = Ok (sem op a b).
Proof. exact bitwise_total. Qed.

Theorem C13_divmod_total : forall w a k b,
  0 <= w -> same_or_int w k -> inr w a -> inr w b -> b <> 0 ->
  uint_binop w FloorDiv false a k b = Ok (a / b) /\ uint_binop w Mod false a k b = Ok (a mod b).
Proof. exact divmod_total. Qed.

Theorem C13_sub : forall w a k b, 0 <= w -> same_or_int w k -> inr w a -> inr w b ->
  (b <= a -> uint_binop w Sub false a k b = Ok (a - b)) /\
  (a < b -> uint_binop w Sub false a k b = Err EValue).
Proof. exact sub_exact. Qed.

Theorem C13_lshift : forall w a k s, 0 <= w -> inr w a -> 0 <= s ->
  uint_binop w LShift false a k s = Ok ((a * 2 ^ s) mod 2 ^ w).
Proof. exact lshift_spec. Qed.

Theorem C13_rshift : forall w a k s, 0 <= w -> inr w a -> 0 <= s ->
  uint_binop w RShift false a k s = Ok (a / 2 ^ s).
Proof. exact rshift_spec. Qed.

Theorem C13_reflected_shift_refused : forall w a b,
  uint_binop w LShift true a KInt b = Err EValue /\ uint_binop w RShift true a KInt b = Err EValue.
Proof. exact reflected_shift_refused. Qed.

Theorem C13_invert : forall w a, 0 <= w -> inr w a -> uint_unop w Invert a = Ok (2 ^ w - 1 - a).
Proof. exact invert_spec. Qed.

Theorem C13_neg_truediv_unsupported : forall w a k b refl,
  uint_unop w Neg a = Err EOther /\ uint_binop w TrueDiv refl a k b = Err EOther.
Proof. exact neg_truediv_unsupported. Qed.

Theorem C13_pow : forall w a k b, 0 <= b ->
  (inr w (a ^ b) -> uint_binop w Pow false a k b = Ok (a ^ b)) /\
  (~ inr w (a ^ b) -> uint_binop w Pow false a k b = Err EValue).
Proof. exact pow_exact. Qed.

Example C13_nonvacuous :
  uint_binop 8 Add false 200 KSame 55 = Ok 255 /\ uint_binop 8 Add false 200 KSame 56 = Err EValue /\
  uint_binop 8 Sub true 3 KInt 2 = Err EValue /\ uint_binop 8 Mod true 0 KInt 5 = Err EZeroDiv /\
  uint_binop 16 LShift false 65535 (KOther 8) 4 = Ok 65520.
Proof. repeat split. Qed.

Print Assumptions C13_ctor.
Print Assumptions C13_exact.
Print Assumptions C13_never_widens.
Print Assumptions C13_other_width_refused.
Print Assumptions C13_bitwise_total.
Print Assumptions C13_divmod_total.
Print Assumptions C13_sub.
Print Assumptions C13_lshift.
Print Assumptions C13_rshift.
Print Assumptions C13_reflected_shift_refused.
Print Assumptions C13_invert.
Print Assumptions C13_neg_truediv_unsupported.
Print Assumptions C13_pow.
Print Assumptions C13_nonvacuous.
