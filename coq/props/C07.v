(* C07 — tree read/write by generalized index obeys get/set laws.
   Property theorems only; each is closed by `exact` of a lemma of RM.TreeProofs.
   All are for every pair hash H, every source src of lazily loaded nodes, every tree (pairs,
   leaves, summaries, virtual nodes), every path (= generalized index >= 1) and replacement. *)
Require Import RM.Base RM.Gindex RM.Tree RM.TreeProofs.

Section C07.
Variable H : bytes -> bytes -> bytes.
Variable src : bytes -> option (bytes * bytes).

(* the write link for a position, applied to v, returns a tree that has that very node there *)
Theorem C07_set_get_same : forall e n p v n',
  setter H src e n p v = Ok n' -> getter src n' p = Ok v.
Proof. exact (set_get_same H src). Qed.

(* ... and is identical everywhere else: every position off the written path that was readable
   still holds the same node *)
Theorem C07_set_get_other : forall e n p v n' q x,
  setter H src e n p v = Ok n' -> diverge p q -> getter src n q = Ok x -> getter src n' q = Ok x.
Proof. exact (set_get_other H src). Qed.

(* ... and nothing else appears there except zero summaries materialised by expansion *)
Theorem C07_set_get_other_inv : forall e n p v n' q y,
  setter H src e n p v = Ok n' -> diverge p q -> getter src n' q = Ok y ->
  getter src n q = Ok y \/ (e = true /\ exists k, y = zero_node H k).
Proof. exact (set_get_other_inv H src). Qed.

(* without expansion a write succeeds exactly where a read succeeds *)
Theorem C07_set_noexpand_ok : forall n p v,
  (exists x, getter src n p = Ok x) <-> (exists n', setter H src false n p v = Ok n').
Proof. exact (set_noexpand_ok H src). Qed.

(* reading or writing through a leaf fails with a navigation error, and with nothing else *)
Theorem C07_errors_are_navigation : forall n p,
  (forall e, getter src n p = Err e -> e = ENav) /\
  (forall ex v e, setter H src ex n p v = Err e -> e = ENav).
Proof. intros n p. split; [exact (getter_err src n p)|intros ex v; exact (setter_err H src ex n p v)]. Qed.

(* a leaf on the path that is not the zero-subtree summary of its height is never silently
   discarded: the write fails, with or without expansion *)
Theorem C07_nonzero_leaf_never_discarded : forall e c n p v x,
  getter src n c = Ok x -> children src x = None -> p <> [] ->
  root H x <> zero_hash H (length p) ->
  (forall r, n = VirtN r -> c <> []) ->
  setter H src e n (c ++ p) v = Err ENav.
Proof. exact (set_nonzero_leaf_fails H src). Qed.

(* with expansion, a write underneath a zero-subtree summary equals the same write on the fully
   expanded zero tree (same success, same root) *)
Theorem C07_expand_zero : forall p v,
  exists n' m', setter H src true (zero_node H (length p)) p v = Ok n'
             /\ setter H src false (full_zero (length p)) p v = Ok m'
             /\ root H n' = root H m'.
Proof. exact (set_expand_zero H src). Qed.

(* summarising a position keeps the root and leaves a bare summary there *)
Theorem C07_summarize : forall n p n', novirt n ->
  summarize_into H src n p = Ok n' ->
  root H n' = root H n /\ exists x, getter src n p = Ok x /\ getter src n' p = Ok (RootN (root H x)).
Proof. exact (summarize_root H src). Qed.

(* a generalized index below 1 is a navigation error *)
Theorem C07_gindex_below_one : forall n e v,
  getter_g src n 0 = Err ENav /\ setter_g H src e n 0 v = Err ENav.
Proof. intros; split; reflexivity. Qed.
End C07.

(* non-vacuity: a concrete tree on which an expanding write through a zero summary succeeds and a
   write through a non-zero leaf fails *)
Example C07_nonvacuous :
  let H := fun a b : bytes => a ++ b in
  let src := fun _ : bytes => @None (bytes * bytes) in
  let t := PairN (RootN [x07]) (zero_node H 2) in
  (exists n', setter H src true t [true; false; true] (RootN [x01]) = Ok n') /\
  setter H src true t [false; false] (RootN [x01]) = Err ENav.
Proof. cbv. split; eauto. Qed.

Print Assumptions C07_set_get_same.
Print Assumptions C07_set_get_other.
Print Assumptions C07_set_get_other_inv.
Print Assumptions C07_set_noexpand_ok.
Print Assumptions C07_errors_are_navigation.
Print Assumptions C07_nonzero_leaf_never_discarded.
Print Assumptions C07_expand_zero.
Print Assumptions C07_summarize.
Print Assumptions C07_gindex_below_one.
Print Assumptions C07_nonvacuous.
