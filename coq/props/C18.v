(* C18 — history changelog and tree diff report exactly the real changes.
   Property theorems only.  Trees are materialised (no VirtN); Hinj (collision-freeness of the pair
   hash) is an explicit premise of the changelog theorem: it is what lets "distinct subtrees" be read
   as "distinct roots", as the property does. *)
Require Import RM.Base RM.Gindex RM.Tree RM.TreeProofs RM.ModelHistory RM.HistoryProofs.

Notation nosrc := (fun _ : bytes => @None (bytes * bytes)).

(* the changelog of a position equals: look the position up in every entry, drop consecutive
   repeats, keep the key of the first entry of each run (keys and roots compared) *)
Theorem C18_history : forall H (Hi : Hinj H) p h hs,
  all_novirt h -> lookups h p = Ok hs ->
  exists out, target_history H nosrc h p = Ok out /\ keyroots H out = keyroots H (dedup H hs).
Proof. exact target_history_spec. Qed.

(* it is never empty for a non-empty history, and starts with the first entry's key *)
Theorem C18_history_nonempty : forall H (Hi : Hinj H) p k n h hs,
  all_novirt ((k, n) :: h) -> lookups ((k, n) :: h) p = Ok hs ->
  exists out x rest, target_history H nosrc ((k, n) :: h) p = Ok out /\ keyroots H out = (k, x) :: rest.
Proof. exact target_history_nonempty. Qed.

(* the diff is empty when the roots are equal *)
Theorem C18_diff_empty : forall H a b, root H a = root H b -> get_diff H a b = [].
Proof. exact diff_empty. Qed.

(* every reported pair really differs, cannot be diffed deeper, and sits at one position of both trees *)
Theorem C18_diff_sound : forall H a b x y, In (x, y) (get_diff H a b) ->
  root H x <> root H y /\ (is_leaf nosrc x = true \/ is_leaf nosrc y = true) /\
  exists q, getter nosrc a q = Ok x /\ getter nosrc b q = Ok y.
Proof. exact diff_sound. Qed.

(* grafting the second members into the first tree, at the reported positions in order, reproduces
   the second tree's root; the positions carry exactly get_diff's second members *)
Theorem C18_graft : forall H a b,
  (exists a', graft_all H a (diff_pos H a b) = Ok a' /\ root H a' = root H b) /\
  map snd (diff_pos H a b) = map snd (get_diff H a b).
Proof. intros H a b. split; [apply graft_root|apply diff_pos_snd]. Qed.

(* leaf iteration = the leaves at the leaf positions, left to right, each once *)
Theorem C18_leaves : forall n, map (fun x => Ok x) (leaf_iter n) = map (getter nosrc n) (leaf_paths n).
Proof. exact leaf_iter_spec. Qed.

Example C18_nonvacuous :
  let H := fun a b : bytes => a ++ b in
  let a := PairN (RootN [x01]) (RootN [x02]) in
  let b := PairN (RootN [x01]) (RootN [x03]) in
  target_history H nosrc [(0%N, a); (1%N, a); (2%N, b)] [true] = Ok [(0%N, RootN [x02]); (2%N, RootN [x03])] /\
  get_diff H a b = [(RootN [x02], RootN [x03])].
Proof. split; reflexivity. Qed.

Print Assumptions C18_history.
Print Assumptions C18_history_nonempty.
Print Assumptions C18_diff_empty.
Print Assumptions C18_diff_sound.
Print Assumptions C18_graft.
Print Assumptions C18_leaves.
Print Assumptions C18_nonvacuous.

(* the diff is EXACTLY the list of minimal differing pairs, left to right.  diff_full pairs every reported pair
   with its position (its pairs are get_diff's, in order); a pair (x, y) is reported at position q iff q reads
   x in the first and y in the second tree, the roots differ at q and at every position above it, and x, y
   cannot be compared any deeper (they are not both inner nodes) ... *)
Theorem C18_diff_exact : forall H a b,
  map snd (diff_full H a b) = get_diff H a b /\
  forall q x y, In (q, (x, y)) (diff_full H a b) <-> minimal_pair H a b q x y.
Proof. intros H a b. split; [apply diff_full_pairs|apply diff_exact]. Qed.

(* ... the reported positions are strictly increasing in the left-before-right order, hence pairwise distinct and
   never nested (no reported subtree contains another) ... *)
Theorem C18_diff_left_to_right : forall H a b,
  sorted_lt (map fst (diff_full H a b)) /\ (forall p q, lex_lt p q -> ~ prefix p q /\ ~ prefix q p).
Proof. intros H a b. split; [apply diff_sorted|exact lex_lt_disjoint]. Qed.

(* ... and with a collision-free pair hash "differs all the way down" is just "differs there": the diff is the
   set of all positions where the two trees hold subtrees with different roots that cannot be refined *)
Theorem C18_diff_exact_inj : forall H (Hi : Hinj H) a b q x y, novirt a -> novirt b ->
  (In (q, (x, y)) (diff_full H a b) <->
   getter nosrc a q = Ok x /\ getter nosrc b q = Ok y /\ root H x <> root H y /\ ~ both_pairs x y).
Proof. exact diff_exact_inj. Qed.

Print Assumptions C18_diff_exact.
Print Assumptions C18_diff_left_to_right.
Print Assumptions C18_diff_exact_inj.
