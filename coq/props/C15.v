(* C15 — all read paths agree with each other and with equality / hashing.
   Property theorems only.  Proved: indexing presents exactly the represented content, in order,
   for every contents tree (CRep) and for lists of composite elements; equality of views is
   equality of hash-tree-roots; equal views have equal hashes; the stack iterator over bottom
   nodes (NodeIter) agrees with indexing.  The packed and bit iterators (same backtracking step,
   plus an intra-chunk counter) are tied to the code and compared with indexing by the
   correspondence (lengths sweeping every subtree boundary). *)
Require Import RM.Base RM.Gindex RM.Tree RM.Types RM.Spec RM.ModelViews RM.ModelCodec RM.ModelMut RM.ModelIters
               RM.MerkleProofs RM.CRepProofs RM.ListProofs RM.CtorProofs RM.IterProofs RM.HistoryProofs RM.ReprProofs RM.RootInj.
Local Open Scope N_scope.

(* index i of a contents tree representing ns reads the i-th represented node *)
Theorem C15_index_reads_content : forall H src d n ns, CRep H d n ns -> forall i dflt, i < lenN ns ->
  getter src n (be_bits d i) = Ok (nth (N.to_nat i) ns dflt).
Proof. exact CRep_get. Qed.

(* read-only iteration (NodeIter: ComplexElemIter / ComplexFreshElemIter / ContainerElemIter) agrees
   with indexing: whenever positions 0..k-1 can be read at the paths of to_gindex i depth, the stack
   machine returns exactly those nodes in that order — every tree, every depth, every count *)
Theorem C15_node_iter_agrees_with_indexing : forall src anchor d (k : N) leaves, k <= 2 ^ N.of_nat d ->
  seq_res (map (fun j => getter src anchor (be_bits d j)) (iotaN (N.to_nat k))) = Ok leaves ->
  node_iter src anchor d k = Ok leaves.
Proof. exact node_iter_agrees. Qed.

(* len() and [i] of a list view present the represented elements in order *)
Theorem C15_list_reads : forall H src e limit, basic_size e = None -> limit < 2 ^ 64 ->
  forall n ns, Rep_list H e limit n ns ->
  view_len H src (TList e limit) n = Ok (lenN ns) /\
  forall i dflt, (0 <= i < Z.of_N (lenN ns))%Z -> view_get H src (TList e limit) n i = Ok (nth (Z.to_nat i) ns dflt).
Proof. intros H src e limit He Hl n ns Hr. split; [now apply list_len|intros; now apply list_get]. Qed.

(* View.__eq__ compares hash-tree-roots (core.py:161-165): the model of == *)
Definition eq_impl (H : bytes -> bytes -> bytes) (a b : node) : bool := bytes_eqb (root H a) (root H b).
Definition hash_impl (H : bytes -> bytes -> bytes) (a : node) : bytes := root H a.

Theorem C15_eq_iff_root : forall H a b, eq_impl H a b = true <-> root H a = root H b.
Proof. intros H a b. apply bytes_eqb_eq. Qed.

Theorem C15_hash_consistent : forall H a b, eq_impl H a b = true -> hash_impl H a = hash_impl H b.
Proof. intros H a b E. now apply bytes_eqb_eq in E. Qed.

(* values built from equal contents have equal roots, hence compare equal *)
Theorem C15_equal_content_equal : forall H t v a b, wf_ty t = true -> wf t v = true ->
  mk H t v = Ok a -> mk H t v = Ok b -> eq_impl H a b = true.
Proof. intros H t v a b _ _ Ha Hb. rewrite Ha in Hb. inversion Hb; subst. apply bytes_eqb_eq. reflexivity. Qed.

(* PackedIter: the stack machine over chunks with the per-chunk element counter yields exactly what
   indexing (chunk i / per, element i mod per) yields, in order, for any per-chunk count *)
Theorem C15_packed_iter_agrees_with_indexing : forall H src anchor d (k : N) e size bs,
  1 <= 32 / size -> k <= 2 ^ N.of_nat d * (32 / size) ->
  preads H src anchor d e (32 / size) 0 (N.to_nat k) = Ok bs ->
  packed_iter H src anchor d k e size = Ok bs.
Proof. exact packed_iter_agrees. Qed.

(* BitfieldIter: bit i is bit (i mod 256) of chunk (i / 256), including the wrap of the in-chunk counter *)
Theorem C15_bit_iter_agrees_with_indexing : forall H src anchor d (k : N) bs, k <= 2 ^ N.of_nat d * 256 ->
  breads H src anchor d 0 (N.to_nat k) = Ok bs -> bit_iter H src anchor d k = Ok bs.
Proof. exact bit_iter_agrees. Qed.

Print Assumptions C15_index_reads_content.
Print Assumptions C15_packed_iter_agrees_with_indexing.
Print Assumptions C15_bit_iter_agrees_with_indexing.
Print Assumptions C15_node_iter_agrees_with_indexing.
Print Assumptions C15_list_reads.
Print Assumptions C15_eq_iff_root.
Print Assumptions C15_hash_consistent.
Print Assumptions C15_equal_content_equal.

(* "... which is exactly when their contents are equal": with a collision-free pair hash (Hinj, the premise
   under which roots identify subtrees) two well-formed values of a type have equal hash-tree-roots iff they are
   the same value — chunk packing, merkleisation over the type-determined shape and the length / selector mix-ins
   are all injective ... *)
Theorem C15_root_iff_content : forall H (Hi : Hinj H) t v w, wf_ty t = true -> wf t v = true -> wf t w = true ->
  (htr H t v = htr H t w <-> v = w).
Proof. intros H Hi t v w Hty Hv Hw. split; [now apply htr_inj|now intros ->]. Qed.

(* ... hence two views (ANY representations of their values: constructed, decoded, mutated) compare equal exactly
   when their contents are equal *)
Theorem C15_eq_iff_content : forall H (Hi : Hinj H) t v w a b, wf_ty t = true -> wf t v = true -> wf t w = true ->
  Repr H t v a -> Repr H t w b -> (eq_impl H a b = true <-> v = w).
Proof.
  intros H Hi t v w a b Hty Hv Hw Ha Hb. rewrite C15_eq_iff_root, (Repr_root H t v a Hty Hv Ha), (Repr_root H t w b Hty Hw Hb).
  now apply C15_root_iff_content.
Qed.

Print Assumptions C15_root_iff_content.
Print Assumptions C15_eq_iff_content.
