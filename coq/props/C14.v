(* C14 — constraint violations raise and leave the value unchanged.  Property theorems only. *)
Require Import RM.Base RM.Gindex RM.Tree RM.Types RM.Spec RM.ModelViews RM.ModelCodec RM.ModelMut RM.ModelStore RM.StoreProofs RM.BasicProofs RM.ModelBasic RM.CRepProofs RM.ReprProofs RM.CtorSound RM.StoreChain RM.SliceProofs.
Local Open Scope N_scope.

(* a failed command on a top-level view (or a copy) leaves EVERY held view exactly as it was:
   all checks precede the single write *)
Theorem C14_unchanged : forall H src s c cell0,
  nth_error s (target c) = Some cell0 -> chook cell0 = HNone ->
  forall e s', run_cmd H src s c = (Err e, s') -> s' = s.
Proof.
  intros H src s c cell0 Hc Hh e s' Hr. pose proof (cmd_on_unhooked H src s c cell0 Hc Hh) as Hx.
  rewrite Hr in Hx. destruct Hx as [_ Hx]. now apply (Hx e).
Qed.

(* the listed violations are rejected by the model's checks *)
Theorem C14_out_of_range_uint : forall k n, 2 ^ (8 * k) <= n -> mk_basic (TUint k) (VUint n) = Err EValue.
Proof. intros k n Hn. unfold mk_basic. destruct (n <? 2 ^ (8 * k)) eqn:E; [apply N.ltb_lt in E; lia|reflexivity]. Qed.

Theorem C14_other_width_refused : forall H k w n, w <> k -> coerce_arg H (TUint k) (AUintOther w n) = Err EValue.
Proof. intros H k w n Hw. cbn. destruct (w =? k) eqn:E; [apply N.eqb_eq in E; contradiction|reflexivity]. Qed.

Theorem C14_wrong_length : forall H n bs, lenN bs <> n ->
  (exists e, mk H (TByteVector n) (VBytes bs) = Err e) /\ (exists e, mk H (TBitvector n) (VBits (map (fun _ => true) bs)) = Err e).
Proof.
  intros H n bs Hn. split; cbn [mk].
  - destruct (lenN bs =? n) eqn:E; [apply N.eqb_eq in E; contradiction|]. cbn. eauto.
  - assert (lenN (map (fun _ : byte => true) bs) = lenN bs) as El by (unfold lenN; now rewrite map_length).
    rewrite El. destruct (lenN bs =? n) eqn:E; [apply N.eqb_eq in E; contradiction|]. cbn. eauto.
Qed.

Theorem C14_over_limit : forall H e l vs, l < lenN vs -> vs <> [] -> exists er, mk H (TList e l) (VSeq vs) = Err er.
Proof.
  intros H e l vs Hl Hne. cbn [mk]. destruct vs; [contradiction|].
  assert ((l <? lenN (v :: vs)) = true) as -> by now apply N.ltb_lt. eauto.
Qed.

Theorem C14_index_out_of_bounds : forall H src t n ll (i : Z),
  view_len H src t n = Ok ll -> (match t with TContainer _ => False | _ => True end) ->
  (i < 0 \/ Z.of_N ll <= i)%Z -> check_index H src t n i = Err EIndex.
Proof.
  intros H src t n ll i Hl Ht Hi. unfold check_index. destruct t; try contradiction; rewrite Hl; cbn [bind];
    destruct ((i <? 0)%Z || (Z.of_N ll <=? i)%Z) eqn:E; try reflexivity; lia.
Qed.

Theorem C14_pop_empty_append_full : forall H src e l n,
  (mixin_value H src n = Ok 0 -> exists er, list_pop H src (TList e l) n = Err er) /\
  (forall ll x, mixin_value H src n = Ok ll -> l <= ll -> exists er, list_append H src (TList e l) n x = Err er).
Proof.
  intros H src e l n. split.
  - intros Hm. cbn [list_pop]. rewrite Hm. cbn. eauto.
  - intros ll x Hm Hl. cbn [list_append]. rewrite Hm. cbn [bind].
    assert ((l <=? ll) = true) as -> by now apply N.leb_le. eauto.
Qed.

Theorem C14_invalid_selector : forall H (none0 : bool) opts (sel : Z) x,
  (Z.of_N (lenN opts + (if none0 then 1 else 0)) <= sel)%Z ->
  union_change H (TUnion none0 opts) sel x = Err EKey.
Proof.
  intros H none0 opts sel x Hs. cbn [union_change].
  destruct (sel <? 0)%Z eqn:E0; [lia|].
  destruct (Z.of_N (lenN opts + (if none0 then 1 else 0)) <=? sel)%Z eqn:E1; [reflexivity|lia].
Qed.

Print Assumptions C14_unchanged.
Print Assumptions C14_out_of_range_uint.
Print Assumptions C14_other_width_refused.
Print Assumptions C14_wrong_length.
Print Assumptions C14_over_limit.
Print Assumptions C14_index_out_of_bounds.
Print Assumptions C14_pop_empty_append_full.
Print Assumptions C14_invalid_selector.

(* a failed command through a CHILD view, at the bottom of a hook chain of any depth, leaves every held
   view exactly as it was too: the command's own checks precede the write, and along a valid chain the
   propagating writes cannot fail *)
Theorem C14_unchanged_on_chain : forall H src s cm tr cid v lk rest,
  Chain H s tr -> tr = (cid, v, lk) :: rest -> target cm = cid -> mutating cm = true ->
  forall e s', run_cmd H src s cm = (Err e, s') -> s' = s.
Proof.
  intros H src s cm tr cid v lk rest Hch Htr Ht Hm e s' Hr.
  destruct (cmd_on_chain H src s cm tr cid v lk rest Hch Htr Ht Hm) as [(e0 & He)|(x & s2 & _ & Hok & _)]; rewrite Hr in *; congruence.
Qed.

(* construction: whatever a type's constructor accepts denotes a VALID value of the type (canon: an omitted
   vector argument list / union value stands for the default, a 0/1 integer for a boolean), and the backing
   built represents exactly that value; arguments denoting no valid value are refused; among arguments
   that denote themselves the accepted ones are exactly the well-formed ones *)
Theorem C14_constructor_sound : forall H t v n, wf_ty t = true -> ModelViews.mk H t v = Ok n ->
  wf t (canon t v) = true /\ Repr H t (canon t v) n.
Proof. exact mk_sound_repr. Qed.

Theorem C14_constructor_rejects : forall H t v, wf_ty t = true -> wf t (canon t v) = false -> exists e, ModelViews.mk H t v = Err e.
Proof. exact mk_rejects. Qed.

Theorem C14_constructor_accepts_iff : forall H t v, wf_ty t = true -> canon t v = v ->
  (wf t v = true <-> exists n, ModelViews.mk H t v = Ok n).
Proof. exact mk_accepts_iff. Qed.

Theorem C14_valid_denotes_itself : forall t v, wf_ty t = true -> wf t v = true -> canon t v = v.
Proof. exact canon_wf_id. Qed.

Print Assumptions C14_unchanged_on_chain.
Print Assumptions C14_constructor_sound.
Print Assumptions C14_constructor_rejects.
Print Assumptions C14_constructor_accepts_iff.
Print Assumptions C14_valid_denotes_itself.

(* ---- slice assignment `view[a:b] = values` on lists and vectors: all or nothing (SliceProofs.v) ----
   Through ANY usable held view u (seq_view: every held view represents its tracked value, the hooks from u up are
   valid, u is a list / vector view tracking VSeq ws) the assignment either fails leaving the WHOLE store as it was, or
   succeeds: every argument denotes a value, the slice bounds lie inside the view, every held view again represents
   its tracked value — u the old elements with positions a.. overwritten — and every usable view stays usable. *)
Theorem C14_slice_all_or_nothing : forall H src s vs u e ws a b args, seq_view H s vs u e ws ->
  (exists er, slice_set H src s u a b args = (Err er, s)) \/
  (exists s' vs' xs, slice_set H src s u a b args = (Ok tt, s') /\ Forall2 (fun x w => arg_val e x = Some w) args xs /\
     (0 <= a)%Z /\ (b = a + Z.of_nat (length args))%Z /\ (Z.to_nat b <= length ws)%nat /\
     seq_view H s' vs' u e (overwrite (Z.to_nat a) ws xs) /\ (forall p, Valid s vs p -> Valid s' vs' p)).
Proof. exact slice_all_or_nothing. Qed.

(* progress: once the checks have passed, no element assignment can fail half-way *)
Theorem C14_element_set_progress : forall H src s vs u e ws i a, seq_view H s vs u e ws ->
  (0 <= i < Z.of_nat (length ws))%Z -> (exists x, coerce_arg H e a = Ok x) ->
  exists s' w vs', run_cmd H src s (CSet u i a) = (Ok tt, s') /\ arg_val e a = Some w /\
                   seq_view H s' vs' u e (upd (Z.to_nat i) w ws) /\ (forall p, Valid s vs p -> Valid s' vs' p).
Proof. exact slice_step. Qed.

Print Assumptions C14_slice_all_or_nothing.
Print Assumptions C14_element_set_progress.

(* ---- repair D15: a write through a STALE view of a union's former value is refused ----
   When the union holds an option of another type than the one the view was obtained under (union_guard fails), writing
   through the view changes the view's own cell only: the union, and every view above it, stay exactly as they were. *)
Theorem C14_stale_union_write_refused : forall H src fuel s u c p pc b e,
  nth_error s u = Some c -> chook c = HUnionValue p -> p <> u -> nth_error s p = Some pc ->
  union_guard H src (cty pc) (cback pc) (cty c) = Err e ->
  set_backing H src (S fuel) s u b = (Err e, upd_cell s u {| cty := cty c; cback := b; chook := chook c |}).
Proof.
  intros H src fuel s u c p pc b e Hc Hh Hne Hp Hg. cbn [set_backing]. rewrite Hc, Hh.
  assert (u < length s)%nat as Hu by (apply nth_error_Some; congruence).
  rewrite (upd_cell_other s u _ p Hne Hu), Hp, Hg. reflexivity.
Qed.
(* ... and while the hook is valid (the union still holds a value of the view's type) the guard passes *)
Theorem C14_union_guard_passes : forall H src t pv pn e old, wf_ty t = true -> wf t pv = true -> Repr H t pv pn ->
  uelem t pv = Some (e, old) -> union_guard H src t pn e = Ok tt.
Proof. exact union_guard_ok. Qed.

Print Assumptions C14_stale_union_write_refused.
Print Assumptions C14_union_guard_passes.
