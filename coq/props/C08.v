(* C08 — paths yield the SSZ-spec generalized index and address the right node.
   Property theorems only. *)
Require Import RM.Base RM.Gindex RM.Types RM.Spec RM.ModelViews RM.ModelPaths RM.PathProofs.
Local Open Scope N_scope.

(* one step: whenever a key is accepted by type navigation, the generalized index computed from
   the type alone is defined and is the specification's, and the type reached is the specification's *)
Theorem C08_static_eq_spec : forall t k t', wf_ty t = true -> navigate_type t k = Ok t' ->
  exists sk g, spec_key k = Some sk /\ key_to_static_gindex t k = Ok g /\ spec_step t sk = Some (g, t').
Proof. exact static_step_eq_spec. Qed.

(* keys that do not belong to the type (unknown field, negative index, index at or beyond the
   length / limit, selector out of range) are rejected when the path is built *)
Theorem C08_invalid_key_rejected : forall t k, wf_ty t = true ->
  (match spec_key k with Some sk => spec_step t sk = None | None => True end) ->
  exists e, navigate_type t k = Err e.
Proof. exact invalid_key_rejected. Qed.

(* whole paths of any depth: step-wise equal to the specification, and Path.gindex() is the
   concatenation of exactly those step indices *)
Theorem C08_path : forall ks t p, wf_ty t = true -> build_path t ks = Ok p ->
  exists gs tend, step_gindices t p = Ok gs /\ spec_steps t ks = Some (gs, tend) /\
                  path_type t ks = Ok tend /\ path_gindex t ks = concat_gindices gs.
Proof. exact path_steps_eq_spec. Qed.

(* to_gindex places index i of a depth-d tree at generalized index 2^d + i *)
Theorem C08_to_gindex : forall i d, i < 2 ^ N.of_nat d -> to_gindex i d = Ok (2 ^ N.of_nat d + i).
Proof. exact to_gindex_ok. Qed.

Example C08_nonvacuous :
  let t := TContainer [TUint 8; TList (TContainer [TUint 1; TBitlist 300]) 5] in
  path_gindex t [PField 1; PInt 3; PField 1; PLen] = Ok 207%N /\
  spec_steps t [PField 1; PInt 3; PField 1; PLen] = Some ([3; 19; 3; 3], TUint 32) /\
  (exists e, navigate_type (TList (TUint 1) 5) (PInt 5) = Err e).
Proof. repeat split. eexists; reflexivity. Qed.

Print Assumptions C08_static_eq_spec.
Print Assumptions C08_invalid_key_rejected.
Print Assumptions C08_path.
Print Assumptions C08_to_gindex.
Print Assumptions C08_nonvacuous.
