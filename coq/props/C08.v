(* C08 — paths yield the SSZ-spec generalized index and address the right node.
   Property theorems only. *)
Require Import RM.Base RM.Gindex RM.Tree RM.Types RM.Spec RM.ModelViews RM.ModelPaths RM.PathProofs RM.ReprProofs RM.NodeProofs.
Local Open Scope N_scope.

(* one step: whenever a key is accepted by type navigation, the generalized index computed from
   the type alone is defined and is the specification's, and the type reached is the specification's *)
Theorem C08_static_eq_spec : forall t k t', wf_ty t = true -> navigate_type t k = Ok t' ->
  exists sk g, spec_key k = Some sk /\ key_to_static_gindex t k = Ok g /\ spec_step t sk = Some (g, t').
Proof. exact static_step_eq_spec. Qed.

(* keys that do not belong to the type (unknown field, negative index, index at or beyond the
   length / limit, selector out of range) are rejected when the path is built *)
Theorem C08_invalid_key_rejected : forall t k, wf_ty t = true ->
  (match spec_key k with Some sk => spec_step t sk = None | None => True end) ->
  exists e, navigate_type t k = Err e.
Proof. exact invalid_key_rejected. Qed.

(* whole paths of any depth: step-wise equal to the specification, and Path.gindex() is the
   concatenation of exactly those step indices *)
Theorem C08_path : forall ks t p, wf_ty t = true -> build_path t ks = Ok p ->
  exists gs tend, step_gindices t p = Ok gs /\ spec_steps t ks = Some (gs, tend) /\
                  path_type t ks = Ok tend /\ path_gindex t ks = concat_gindices gs.
Proof. exact path_steps_eq_spec. Qed.

(* to_gindex places index i of a depth-d tree at generalized index 2^d + i *)
Theorem C08_to_gindex : forall i d, i < 2 ^ N.of_nat d -> to_gindex i d = Ok (2 ^ N.of_nat d + i).
Proof. exact to_gindex_ok. Qed.

Example C08_nonvacuous :
  let t := TContainer [TUint 8; TList (TContainer [TUint 1; TBitlist 300]) 5] in
  path_gindex t [PField 1; PInt 3; PField 1; PLen] = Ok 207%N /\
  spec_steps t [PField 1; PInt 3; PField 1; PLen] = Some ([3; 19; 3; 3], TUint 32) /\
  (exists e, navigate_type (TList (TUint 1) 5) (PInt 5) = Err e).
Proof. repeat split. eexists; reflexivity. Qed.

(* concatenating generalized indices concatenates their paths (bit level) *)
Theorem C08_concat_paths : forall steps ps, Forall2 (fun g p => path_of_gindex g = Some p) steps ps ->
  exists g, concat_gindices steps = Ok g /\ path_of_gindex g = Some (concat ps).
Proof. exact concat_gindices_paths. Qed.

(* one navigation step on a value: the node at the key's static generalized index represents the child *)
Theorem C08_node_step : forall H src t v n k t' v', wf_ty t = true -> wf t v = true -> Repr H t v n ->
  child_of t v k = Some (t', v') ->
  exists g m, key_to_static_gindex t k = Ok g /\ navigate_type t k = Ok t' /\ getter_g src n g = Ok m /\ Repr H t' v' m.
Proof. exact node_step. Qed.

(* whole paths: for ANY representation of a value (constructed, decoded, mutated), the backing node at
   Path.gindex() represents the addressed sub-value and therefore has its hash-tree-root *)
Theorem C08_node : forall H src ks t v n t' v', wf_ty t = true -> wf t v = true -> Repr H t v n ->
  child_path t v ks = Some (t', v') ->
  exists g m, path_gindex t ks = Ok g /\ getter_g src n g = Ok m /\ Repr H t' v' m /\ root H m = htr H t' v'.
Proof. exact node_path. Qed.

(* the '__len__' / '__selector__' pseudo keys: index 3 holds the mix-in *)
Theorem C08_mixin_node : forall H src t v n, Repr H t v n ->
  match t, v with
  | TList _ _, VSeq vs => exists m, getter_g src n 3 = Ok m /\ root H m = le_bytes 32 (lenN vs)
  | TBitlist _, VBits bs => exists m, getter_g src n 3 = Ok m /\ root H m = le_bytes 32 (lenN bs)
  | TByteList _, VBytes bs => exists m, getter_g src n 3 = Ok m /\ root H m = le_bytes 32 (lenN bs)
  | TUnion _ _, VUnion sel _ => exists m, getter_g src n 3 = Ok m /\ root H m = le_bytes 32 (N.of_nat sel)
  | _, _ => True
  end.
Proof. exact node_mixin. Qed.

Print Assumptions C08_static_eq_spec.
Print Assumptions C08_concat_paths.
Print Assumptions C08_node_step.
Print Assumptions C08_node.
Print Assumptions C08_mixin_node.
Print Assumptions C08_invalid_key_rejected.
Print Assumptions C08_path.
Print Assumptions C08_to_gindex.
Print Assumptions C08_nonvacuous.
