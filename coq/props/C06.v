(* C06 — backings are persistent: snapshots and copies never change.  Property theorems only. *)
Require Import RM.Base RM.Gindex RM.Tree RM.TreeHeap RM.HeapProofs RM.Types RM.ModelStore RM.StoreProofs RM.StoreChain.

(* whatever is allocated later, every existing address keeps denoting the same tree and holds the
   same object *)
Theorem C06_heap_frame : forall h h' a, wfh h -> extends h h' -> a < length (objs h) ->
  den_of h' a = den_of h a /\ h_get h' a = h_get h a.
Proof. exact heap_frame. Qed.

(* writes only allocate (so the theorem above applies to them) *)
Theorem C06_setter_extends : forall H e p h a v a' h', wfh h -> v < length (objs h) ->
  h_setter H e h a p v = Ok (a', h') -> extends h h' /\ wfh h'.
Proof.
  intros H e p h a v a' h' Hw Hv Hs. destruct (h_setter_extends H e p h a v a' h' Hw Hv Hs) as (E & _ & W & _). auto.
Qed.

(* computing roots writes caches only: no address changes what it denotes *)
Theorem C06_root_frame : forall H f h a rt h' x, h_root H f h a = Some (rt, h') -> den_of h' x = den_of h x.
Proof. exact h_root_frame. Qed.

(* a command addressed to a copy (or to any view without a hook) leaves every other held view
   exactly as it was; a copy is created without a hook *)
Theorem C06_copy_isolated : forall H src s c cell0,
  nth_error s (target c) = Some cell0 -> chook cell0 = HNone ->
  let '(res, s') := run_cmd H src s c in
  frame_except (target c) s s' /\ (forall e, res = Err e -> s' = s).
Proof. exact cmd_on_unhooked. Qed.

Theorem C06_copy_has_no_hook : forall H src s v c,
  nth_error s v = Some c ->
  run_cmd H src s (CCopy v) = (Ok tt, s ++ [{| cty := cty c; cback := cback c; chook := HNone |}]).
Proof. intros H src s v c Hc. cbn. now rewrite Hc. Qed.

Print Assumptions C06_heap_frame.
Print Assumptions C06_setter_extends.
Print Assumptions C06_root_frame.
Print Assumptions C06_copy_isolated.
Print Assumptions C06_copy_has_no_hook.

(* hooked case, chains of any depth: a mutating command through a view at the bottom of a hook chain
   changes only the cells of that chain.  A copy has no hook (C06_copy_has_no_hook), so a chain that starts
   at a copy or below it never contains the view it was copied from, nor any other copy or snapshot:
   those cells are exactly as they were, whether the command succeeds or fails *)
Theorem C06_only_the_chain_changes : forall H src s cm tr cid v lk rest,
  Chain H s tr -> tr = (cid, v, lk) :: rest -> target cm = cid -> mutating cm = true ->
  forall res s', run_cmd H src s cm = (res, s') ->
  forall u, (forall e, In e tr -> fst (fst e) <> u) -> nth_error s' u = nth_error s u.
Proof.
  intros H src s cm tr cid v lk rest Hch Htr Ht Hm res s' Hr u Hu.
  destruct (cmd_on_chain H src s cm tr cid v lk rest Hch Htr Ht Hm) as [(e0 & He)|(x & s2 & _ & Hok & _ & _ & Hfr)]; rewrite Hr in *.
  - inversion He; subst. reflexivity.
  - inversion Hok; subst. now apply Hfr.
Qed.

Print Assumptions C06_only_the_chain_changes.

(* copies and snapshots in a forest of held views: a copy is a new top-level view tracked with the value its
   original has at that moment (C06_forest_copy); whatever is later mutated through any usable view, every view
   that is not on the written view's trail keeps its tracked value (C06_off_trail_value_kept) and, since all
   held views stay good (C05_forest_mutation), keeps that value's root and encoding *)
Theorem C06_forest_copy : forall H src s vs p pc, AllGood H s vs -> nth_error s p = Some pc ->
  let s' := s ++ [{| cty := cty pc; cback := cback pc; chook := HNone |}] in
    run_cmd H src s (CCopy p) = (Ok tt, s') /\
    AllGood H s' (vs ++ [nth p vs dv]) /\ Valid s' (vs ++ [nth p vs dv]) (length s) /\
    (forall u, Valid s vs u -> Valid s' (vs ++ [nth p vs dv]) u).
Proof. exact forest_copy. Qed.

Theorem C06_off_trail_value_kept : forall s vs cm x u,
  (forall e, In e (trail_of (length s) s vs (target cm)) -> fst (fst e) <> u) ->
  nth u (track_mut s vs cm x) dv = nth u vs dv.
Proof. exact track_mut_other. Qed.

Print Assumptions C06_forest_copy.
Print Assumptions C06_off_trail_value_kept.
