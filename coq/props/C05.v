(* C05 — mutations through child views propagate to every enclosing view.  Property theorems only. *)
Require Import RM.Base RM.Gindex RM.Tree RM.Types RM.Spec RM.ModelViews RM.ModelCodec RM.ModelMut RM.ModelStore RM.StoreProofs.

(* writing a new backing through a child view obtained by [i] / .field stores it in the child and,
   by the child's hook, at position i of its parent (here: a parent that is itself a top-level view;
   for a hooked parent the same step repeats up the chain, as ModelStore.set_backing does) *)
Theorem C05_propagate : forall H src fuel s v b cc p i pc nb,
  nth_error s v = Some cc -> chook cc = HElem p i -> p <> v ->
  nth_error s p = Some pc -> chook pc = HNone ->
  view_set H src (cty pc) (cback pc) (Z.of_N i) b = Ok nb ->
  let s1 := upd_cell s v {| cty := cty cc; cback := b; chook := HElem p i |} in
  set_backing H src (S fuel) s v b =
    (Ok tt, upd_cell s1 p {| cty := cty pc; cback := nb; chook := HNone |}).
Proof. exact child_write_propagates. Qed.

(* ... and the parent then holds exactly the child's new backing at that position: the parent's
   content is the updated value (composite elements / container fields) *)
Theorem C05_parent_reads_child : forall H src t n i x nb,
  (match t with TContainer _ => True | TVector e _ | TList e _ => basic_size e = None | _ => False end) ->
  sub_set H src t n i x = Ok nb -> sub_get H src t nb i = Ok x.
Proof. exact sub_set_get_same. Qed.

(* nothing else in the store is touched by a command on an unhooked view *)
Theorem C05_frame : forall H src s c cell0,
  nth_error s (target c) = Some cell0 -> chook cell0 = HNone ->
  let '(res, s') := run_cmd H src s c in
  frame_except (target c) s s' /\ (forall e, res = Err e -> s' = s).
Proof. exact cmd_on_unhooked. Qed.

Print Assumptions C05_propagate.
Print Assumptions C05_parent_reads_child.
Print Assumptions C05_frame.
