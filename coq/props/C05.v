(* C05 — mutations through child views propagate to every enclosing view.  Property theorems only. *)
Require Import RM.Base RM.Gindex RM.Tree RM.Types RM.Spec RM.ModelViews RM.ModelCodec RM.ModelMut RM.ModelStore RM.StoreProofs RM.CRepProofs RM.SerProofs2 RM.ReprProofs RM.MutProofs RM.StoreChain.
Local Open Scope N_scope.

(* writing a new backing through a child view obtained by [i] / .field stores it in the child and,
   by the child's hook, at position i of its parent (here: a parent that is itself a top-level view;
   for a hooked parent the same step repeats up the chain, as ModelStore.set_backing does) *)
Theorem C05_propagate : forall H src fuel s v b cc p i pc nb,
  nth_error s v = Some cc -> chook cc = HElem p i -> p <> v ->
  nth_error s p = Some pc -> chook pc = HNone ->
  view_set H src (cty pc) (cback pc) (Z.of_N i) b = Ok nb ->
  let s1 := upd_cell s v {| cty := cty cc; cback := b; chook := HElem p i |} in
  set_backing H src (S fuel) s v b =
    (Ok tt, upd_cell s1 p {| cty := cty pc; cback := nb; chook := HNone |}).
Proof. exact child_write_propagates. Qed.

(* ... and the parent then holds exactly the child's new backing at that position: the parent's
   content is the updated value (composite elements / container fields) *)
Theorem C05_parent_reads_child : forall H src t n i x nb,
  (match t with TContainer _ => True | TVector e _ | TList e _ => basic_size e = None | _ => False end) ->
  sub_set H src t n i x = Ok nb -> sub_get H src t nb i = Ok x.
Proof. exact sub_set_get_same. Qed.

(* nothing else in the store is touched by a command on an unhooked view *)
Theorem C05_frame : forall H src s c cell0,
  nth_error s (target c) = Some cell0 -> chook cell0 = HNone ->
  let '(res, s') := run_cmd H src s c in
  frame_except (target c) s s' /\ (forall e, res = Err e -> s' = s).
Proof. exact cmd_on_unhooked. Qed.

(* value level, any nesting depth: when a child's (possibly mutated) backing m represents x, writing it
   into the parent at the child's position yields a parent backing that represents the parent's value
   with that child replaced — whose root and encoding are therefore the fresh value's.  Because the
   premise on m is again only `Repr`, the three theorems compose along any chain of enclosing views. *)
Theorem C05_container_child : forall H src fs vs n i x m, wf_ty (TContainer fs) = true ->
  Repr H (TContainer fs) (VCont vs) n -> (0 <= i < Z.of_nat (length fs))%Z -> Repr H (nth (Z.to_nat i) fs TBool) x m ->
  wf (TContainer fs) (VCont (upd (Z.to_nat i) x vs)) = true ->
  exists n', view_set H src (TContainer fs) n i m = Ok n' /\
    root H n' = htr H (TContainer fs) (VCont (upd (Z.to_nat i) x vs)) /\
    ser_impl H src (TContainer fs) n' = Ok (ser (TContainer fs) (VCont (upd (Z.to_nat i) x vs)), lenN (ser (TContainer fs) (VCont (upd (Z.to_nat i) x vs)))).
Proof.
  intros H src fs vs n i x m Hty Hr Hi Hx Hwf. destruct (container_set H src fs vs n i x m Hr Hi Hx) as (n' & Hs & Hr').
  exists n'. split; [exact Hs|]. destruct (repr_fresh H src _ _ _ Hty Hwf Hr') as (_ & _ & _ & Hroot & Hser & _). auto.
Qed.

Theorem C05_vector_child : forall H src e k vs n i x m, wf_ty (TVector e k) = true -> basic_size e = None ->
  Repr H (TVector e k) (VSeq vs) n -> lenN vs = k -> (0 <= i < Z.of_N k)%Z -> Repr H e x m ->
  wf (TVector e k) (VSeq (upd (Z.to_nat i) x vs)) = true ->
  exists n', view_set H src (TVector e k) n i m = Ok n' /\
    root H n' = htr H (TVector e k) (VSeq (upd (Z.to_nat i) x vs)) /\
    ser_impl H src (TVector e k) n' = Ok (ser (TVector e k) (VSeq (upd (Z.to_nat i) x vs)), lenN (ser (TVector e k) (VSeq (upd (Z.to_nat i) x vs)))).
Proof.
  intros H src e k vs n i x m Hty Eb Hr Hk Hi Hx Hwf. destruct (vector_set H src e k vs n i x m Eb Hr Hk Hi Hx) as (n' & Hs & Hr').
  exists n'. split; [exact Hs|]. destruct (repr_fresh H src _ _ _ Hty Hwf Hr') as (_ & _ & _ & Hroot & Hser & _). auto.
Qed.

Theorem C05_list_child : forall H src e limit vs n i x m, wf_ty (TList e limit) = true -> basic_size e = None ->
  Repr H (TList e limit) (VSeq vs) n -> lenN vs <= limit -> (0 <= i < Z.of_N (lenN vs))%Z -> Repr H e x m ->
  wf (TList e limit) (VSeq (upd (Z.to_nat i) x vs)) = true ->
  exists n', view_set H src (TList e limit) n i m = Ok n' /\
    root H n' = htr H (TList e limit) (VSeq (upd (Z.to_nat i) x vs)) /\
    ser_impl H src (TList e limit) n' = Ok (ser (TList e limit) (VSeq (upd (Z.to_nat i) x vs)), lenN (ser (TList e limit) (VSeq (upd (Z.to_nat i) x vs)))).
Proof.
  intros H src e limit vs n i x m Hty Eb Hr Hl Hi Hx Hwf.
  assert (limit < 2 ^ 64) as Hlim by (cbn [wf_ty] in Hty; apply andb_true_iff in Hty as [_ Hb]; now apply N.ltb_lt in Hb).
  destruct (list_set_v H src e limit Eb Hlim vs n i x m Hr Hl Hi Hx) as (n' & Hs & Hr').
  exists n'. split; [exact Hs|]. destruct (repr_fresh H src _ _ _ Hty Hwf Hr') as (_ & _ & _ & Hroot & Hser & _). auto.
Qed.

Print Assumptions C05_propagate.
Print Assumptions C05_container_child.
Print Assumptions C05_vector_child.
Print Assumptions C05_list_child.
Print Assumptions C05_parent_reads_child.
Print Assumptions C05_frame.

(* ---- store level, hook chains of ANY depth (StoreChain.v) ----
   Chain H s tr: tr = the written view, its parent, the parent's parent, ...: every cell represents its
   value and every hook is valid in its parent.  Chains arise from top-level views by [i] / .field / value(): *)
Theorem C05_chain_get : forall H src s p pv lk rest pc i e old, Chain H s ((p, pv, lk) :: rest) -> nth_error s p = Some pc ->
  elem_at (cty pc) pv i = Some (e, old) -> hooked e = true ->
  exists m, run_cmd H src s (CGet p (Z.of_N i)) = (Ok tt, s ++ [{| cty := e; cback := m; chook := HElem p i |}]) /\
            Chain H (s ++ [{| cty := e; cback := m; chook := HElem p i |}]) ((length s, old, LElem i) :: (p, pv, lk) :: rest).
Proof. exact chain_get. Qed.

Theorem C05_chain_value : forall H src s p pv lk rest pc o old, Chain H s ((p, pv, lk) :: rest) -> nth_error s p = Some pc ->
  uelem (cty pc) pv = Some (o, old) -> hooked o = true ->
  exists m, run_cmd H src s (CValue p) = (Ok tt, s ++ [{| cty := o; cback := m; chook := HUnionValue p |}]) /\
            Chain H (s ++ [{| cty := o; cback := m; chook := HUnionValue p |}]) ((length s, old, LUnion) :: (p, pv, lk) :: rest).
Proof. exact chain_value. Qed.

(* writing a backing that represents x through the bottom view: every enclosing view of the chain then
   represents its value with the nested slot replaced (retrail), no hook or type changed, no cell outside
   the chain changed *)
Theorem C05_chain_set : forall H src tr s, Chain H s tr -> forall cid v lk rest c x nb fuel,
  tr = (cid, v, lk) :: rest -> nth_error s cid = Some c -> wf (cty c) x = true -> Repr H (cty c) x nb ->
  (length tr <= S fuel)%nat ->
  exists s', set_backing H src fuel s cid nb = (Ok tt, s') /\ Chain H s' (retrail x tr) /\ same_shape s s' /\
             (forall u, (forall e, In e tr -> fst (fst e) <> u) -> nth_error s' u = nth_error s u).
Proof. exact chain_set. Qed.

(* every mutating command (set, append, pop, bit set, union change) through the bottom view of a chain:
   it fails and the whole store is untouched, or the view takes the value the command specifies
   (cmd_effect) and the whole chain is updated *)
Theorem C05_cmd_on_chain : forall H src s cm tr cid v lk rest,
  Chain H s tr -> tr = (cid, v, lk) :: rest -> target cm = cid -> mutating cm = true ->
  (exists e, run_cmd H src s cm = (Err e, s)) \/
  (exists x s', cmd_effect (cty_at s cid) v cm = Some x /\ run_cmd H src s cm = (Ok tt, s') /\
     Chain H s' (retrail x tr) /\ same_shape s s' /\
     (forall u, (forall e, In e tr -> fst (fst e) <> u) -> nth_error s' u = nth_error s u)).
Proof. exact cmd_on_chain. Qed.

(* what a chain means for the observer: every view in it has the root and the encoding of its value *)
Theorem C05_chain_observed : forall H src s tr, Chain H s tr -> forall u w lk, In (u, w, lk) tr ->
  exists c, nth_error s u = Some c /\ wf (cty c) w = true /\ Repr H (cty c) w (cback c) /\
            root H (cback c) = htr H (cty c) w /\ ser_ok H src (cty c) w (cback c).
Proof. exact chain_observe. Qed.

(* chains of depth 3 exist *)
Theorem C05_chain_nonvacuous : forall H, exists s tr, Chain H s tr /\ length tr = 3%nat.
Proof. intros H. exact (chain_exists H (fun _ => None)). Qed.

Print Assumptions C05_chain_get.
Print Assumptions C05_chain_value.
Print Assumptions C05_chain_set.
Print Assumptions C05_cmd_on_chain.
Print Assumptions C05_chain_observed.
Print Assumptions C05_chain_nonvacuous.

(* ---- forests: ANY set of simultaneously held views obtained from one another, mutated in ANY order ----
   vs tracks one value per held view.  AllGood H s vs: every held view represents its tracked value (so it has
   that value's root and encoding, C05_forest_observed).  Valid s vs u: every hook from u up to its top-level
   view is valid now (no slot popped away, no union switched on the way).  The five theorems below say that
   constructing a view, obtaining child views / union values / copies and mutating through ANY usable view keep
   AllGood, the tracked values evolving exactly as specified: the command's effect at the written view, the
   nested slot replaced in each of its ancestors (track_mut), nothing else changed. *)
Theorem C05_forest_init : forall H t v n, wf_ty t = true -> wf t v = true -> ModelViews.mk H t v = Ok n ->
  AllGood H [{| cty := t; cback := n; chook := HNone |}] [v] /\ Valid [{| cty := t; cback := n; chook := HNone |}] [v] 0%nat.
Proof. intros H. exact (forest_init H (fun _ => None)). Qed.

Theorem C05_forest_get : forall H src s vs p pc i e old, AllGood H s vs -> Valid s vs p -> nth_error s p = Some pc ->
  elem_at (cty pc) (nth p vs dv) i = Some (e, old) -> hooked e = true ->
  exists m, let s' := s ++ [{| cty := e; cback := m; chook := HElem p i |}] in
    run_cmd H src s (CGet p (Z.of_N i)) = (Ok tt, s') /\
    AllGood H s' (vs ++ [old]) /\ Valid s' (vs ++ [old]) (length s) /\ (forall u, Valid s vs u -> Valid s' (vs ++ [old]) u).
Proof. exact forest_get. Qed.

Theorem C05_forest_value : forall H src s vs p pc o old, AllGood H s vs -> Valid s vs p -> nth_error s p = Some pc ->
  uelem (cty pc) (nth p vs dv) = Some (o, old) -> hooked o = true ->
  exists m, let s' := s ++ [{| cty := o; cback := m; chook := HUnionValue p |}] in
    run_cmd H src s (CValue p) = (Ok tt, s') /\
    AllGood H s' (vs ++ [old]) /\ Valid s' (vs ++ [old]) (length s) /\ (forall u, Valid s vs u -> Valid s' (vs ++ [old]) u).
Proof. exact forest_value. Qed.

Theorem C05_forest_mutation : forall H src s vs cm, AllGood H s vs -> Valid s vs (target cm) -> mutating cm = true ->
  (exists e, run_cmd H src s cm = (Err e, s)) \/
  (exists x s', cmd_effect (cty_at s (target cm)) (nth (target cm) vs dv) cm = Some x /\ run_cmd H src s cm = (Ok tt, s') /\
     same_shape s s' /\ AllGood H s' (track_mut s vs cm x)).
Proof. exact forest_mut. Qed.

(* assignment, append and bit assignment shrink nothing: every view that was usable stays usable, so histories
   of such commands through any of the held views never leave the premise of C05_forest_mutation (after a pop
   or a union change, the views obtained from the removed slot / the old option are the ones that may not) *)
Theorem C05_forest_keeps_valid : forall H src s vs cm x s', AllGood H s vs -> Valid s vs (target cm) -> mutating cm = true ->
  shrinking cm = false -> run_cmd H src s cm = (Ok tt, s') ->
  cmd_effect (cty_at s (target cm)) (nth (target cm) vs dv) cm = Some x ->
  forall u, Valid s vs u -> Valid s' (track_mut s vs cm x) u.
Proof. exact forest_mut_keeps_valid. Qed.

Theorem C05_forest_observed : forall H src s vs, AllGood H s vs -> forall u c, nth_error s u = Some c ->
  root H (cback c) = htr H (cty c) (nth u vs dv) /\ ser_ok H src (cty c) (nth u vs dv) (cback c).
Proof. exact allgood_observed. Qed.

Theorem C05_forest_nonvacuous : forall H, exists s vs, AllGood H s vs /\ length s = 3%nat /\ Valid s vs 1%nat /\ Valid s vs 2%nat.
Proof. intros H. exact (forest_exists H (fun _ => None)). Qed.

Print Assumptions C05_forest_init.
Print Assumptions C05_forest_get.
Print Assumptions C05_forest_value.
Print Assumptions C05_forest_mutation.
Print Assumptions C05_forest_keeps_valid.
Print Assumptions C05_forest_observed.
Print Assumptions C05_forest_nonvacuous.
