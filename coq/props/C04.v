(* C04 — a mutated view is indistinguishable from a fresh value with the same content.
   Property theorems only.  The representation relation `Repr t v n` (ReprProofs.v) says node n
   represents value v through ANY contents tree (zero summaries / expanded zeros in any mixture).
   C04_indistinguishable: every represented value, of every type, has the root, the encoding and
   the reported length of the freshly constructed value.  C04_container_set / C04_vector_set /
   C04_list_set / C04_list_append / C04_list_value_history: field assignment, element assignment
   and append (composite elements), as steps and as arbitrary valid histories over values,
   succeed and end in a representation of exactly the implied value — and compose through any
   nesting depth because the element's new backing is itself only required to be a representation.
   EVERY mutating operation of the public interface named by the property now has its theorem:
   element assignment (vectors and lists, packed or composite elements), field assignment, append,
   pop, bit set, Bitlist append / pop, union change.  What remains with the correspondence is that
   the Python methods are these model functions (and root caching, C19). *)
Require Import RM.Base RM.Gindex RM.Tree RM.Types RM.Spec RM.ModelViews RM.ModelCodec RM.ModelMut
               RM.MerkleProofs RM.CRepProofs RM.ListProofs RM.ReprProofs RM.MutProofs.
Local Open Scope N_scope.

(* contents-tree level: writing position i of a tree representing ns yields a tree representing
   ns with position i replaced — whatever mixture of zero summaries the tree contains *)
Theorem C04_tree_set : forall H src e d n ns, CRep H d n ns -> forall i v, i < lenN ns ->
  exists n', setter_below H src e n (be_bits d i) v = Ok n' /\ CRep H d n' (upd (N.to_nat i) v ns).
Proof. exact CRep_set. Qed.

(* appending writes position |ns| with expansion and yields a tree representing ns ++ [v] *)
Theorem C04_tree_append : forall H src d n ns, CRep H d n ns -> forall v, (length ns < 2 ^ d)%nat ->
  exists n', setter_below H src true n (be_bits d (lenN ns)) v = Ok n' /\ CRep H d n' (ns ++ [v]).
Proof. exact CRep_append. Qed.

(* any representation of ns has the merkle root of ns: no stale root, whatever the history *)
Theorem C04_root_of_representation : forall H d n ns, CRep H d n ns ->
  root H n = merkleize H d (map (root H) ns).
Proof. exact CRep_merkleize. Qed.

(* view level, lists of composite elements: one step *)
Theorem C04_step : forall H src e limit, basic_size e = None -> limit < 2 ^ 64 ->
  forall n ns o, Rep_list H e limit n ns -> valid_op limit ns o ->
  exists n', apply_impl H src e limit n o = Ok n' /\ Rep_list H e limit n' (apply_spec ns o).
Proof. exact list_step. Qed.

(* ... and every finite history: it succeeds (no element becomes inaccessible) and the view
   represents exactly the list the history implies *)
Theorem C04_history : forall H src e limit, basic_size e = None -> limit < 2 ^ 64 ->
  forall os n ns, Rep_list H e limit n ns -> valid_ops limit ns os ->
  exists n', fold_left (fun acc o => do m <- acc; apply_impl H src e limit m o) os (Ok n) = Ok n' /\
             Rep_list H e limit n' (fold_left apply_spec os ns).
Proof. exact list_history. Qed.

(* what a representation shows: length, every element, and the specification's root *)
Theorem C04_observables : forall H src e limit, basic_size e = None -> limit < 2 ^ 64 ->
  forall n ns, Rep_list H e limit n ns ->
  view_len H src (TList e limit) n = Ok (lenN ns) /\
  (forall i dflt, (0 <= i < Z.of_N (lenN ns))%Z -> view_get H src (TList e limit) n i = Ok (nth (Z.to_nat i) ns dflt)) /\
  root H n = mix_in H (merkleize H (contents_depth (TList e limit)) (map (root H) ns)) (lenN ns).
Proof.
  intros H src e limit He Hl n ns Hr. split; [now apply list_len|]. split; [intros; now apply list_get|now apply list_root].
Qed.

(* a freshly constructed list is a representation too: mutated and fresh views are the same kind of object *)
Theorem C04_fresh_is_representation : forall H e limit, basic_size e = None -> limit < 2 ^ 64 ->
  forall vs, wf_ty (TList e limit) = true -> wf (TList e limit) (VSeq vs) = true ->
  exists n ns, mk H (TList e limit) (VSeq vs) = Ok n /\ Rep_list H e limit n ns /\ map (root H) ns = map (htr H e) vs.
Proof. exact mk_list_rep. Qed.

(* ---- value level ---- *)
Theorem C04_indistinguishable : forall H src t v n, wf_ty t = true -> wf t v = true -> Repr H t v n ->
  exists n0, mk H t v = Ok n0 /\ root H n = root H n0 /\ root H n = htr H t v /\
             ser_impl H src t n = Ok (ser t v, lenN (ser t v)) /\ ser_impl H src t n0 = Ok (ser t v, lenN (ser t v)).
Proof. exact repr_fresh. Qed.

Theorem C04_constructed_is_representation : forall H t v n, wf_ty t = true -> wf t v = true -> mk H t v = Ok n -> Repr H t v n.
Proof. intros H t v n. exact (mk_Repr H (fun _ => None) t v n). Qed.

Theorem C04_container_set : forall H src fs vs n i x m, Repr H (TContainer fs) (VCont vs) n ->
  (0 <= i < Z.of_nat (length fs))%Z -> Repr H (nth (Z.to_nat i) fs TBool) x m ->
  exists n', view_set H src (TContainer fs) n i m = Ok n' /\ Repr H (TContainer fs) (VCont (upd (Z.to_nat i) x vs)) n'.
Proof. exact container_set. Qed.

Theorem C04_vector_set : forall H src e k vs n i x m, basic_size e = None -> Repr H (TVector e k) (VSeq vs) n -> lenN vs = k ->
  (0 <= i < Z.of_N k)%Z -> Repr H e x m ->
  exists n', view_set H src (TVector e k) n i m = Ok n' /\ Repr H (TVector e k) (VSeq (upd (Z.to_nat i) x vs)) n'.
Proof. exact vector_set. Qed.

Theorem C04_list_set : forall H src e limit, basic_size e = None -> limit < 2 ^ 64 -> forall vs n i x m,
  Repr H (TList e limit) (VSeq vs) n -> lenN vs <= limit -> (0 <= i < Z.of_N (lenN vs))%Z -> Repr H e x m ->
  exists n', view_set H src (TList e limit) n i m = Ok n' /\ Repr H (TList e limit) (VSeq (upd (Z.to_nat i) x vs)) n'.
Proof. exact list_set_v. Qed.

Theorem C04_list_append : forall H src e limit, basic_size e = None -> limit < 2 ^ 64 -> forall vs n x m,
  Repr H (TList e limit) (VSeq vs) n -> lenN vs < limit -> Repr H e x m ->
  exists n', list_append H src (TList e limit) n m = Ok n' /\ Repr H (TList e limit) (VSeq (vs ++ [x])) n'.
Proof. exact list_append_v. Qed.

(* packed (basic) elements: the write splices the element's bytes into its chunk; the result represents
   the sequence with that element replaced (no other element, no padding byte disturbed) *)
Theorem C04_packed_vector_set : forall H src e k s vs n i x m, wf_ty (TVector e k) = true -> basic_size e = Some s ->
  wf (TVector e k) (VSeq vs) = true -> Repr H (TVector e k) (VSeq vs) n -> (0 <= i < Z.of_N k)%Z -> wf e x = true -> Repr H e x m ->
  exists n', view_set H src (TVector e k) n i m = Ok n' /\ Repr H (TVector e k) (VSeq (upd (Z.to_nat i) x vs)) n'.
Proof. exact packed_vector_set. Qed.

Theorem C04_packed_list_set : forall H src e l s vs n i x m, wf_ty (TList e l) = true -> basic_size e = Some s ->
  wf (TList e l) (VSeq vs) = true -> Repr H (TList e l) (VSeq vs) n -> (0 <= i < Z.of_N (lenN vs))%Z -> wf e x = true -> Repr H e x m ->
  exists n', view_set H src (TList e l) n i m = Ok n' /\ Repr H (TList e l) (VSeq (upd (Z.to_nat i) x vs)) n'.
Proof. exact packed_list_set. Qed.

(* lists of ANY element type (packed basic elements or composite): assignment, append (into the partial
   last chunk or a new chunk through an expanding write) and pop (clearing the element's bytes, dropping
   the emptied chunk, summarising) preserve representation; so does every valid history of them *)
Theorem C04_list_set_any : forall H src e limit, wf_ty (TList e limit) = true -> forall vs n i x m,
  wf (TList e limit) (VSeq vs) = true -> Repr H (TList e limit) (VSeq vs) n -> (0 <= i < Z.of_N (lenN vs))%Z ->
  wf e x = true -> Repr H e x m ->
  exists n', view_set H src (TList e limit) n i m = Ok n' /\ Repr H (TList e limit) (VSeq (upd (Z.to_nat i) x vs)) n'.
Proof. exact list_set_any. Qed.
Theorem C04_list_append_any : forall H src e limit, wf_ty (TList e limit) = true -> forall vs n x m,
  wf (TList e limit) (VSeq vs) = true -> Repr H (TList e limit) (VSeq vs) n -> lenN vs < limit ->
  wf e x = true -> Repr H e x m ->
  exists n', list_append H src (TList e limit) n m = Ok n' /\ Repr H (TList e limit) (VSeq (vs ++ [x])) n'.
Proof. exact list_append_any. Qed.
Theorem C04_list_pop_any : forall H src e limit, wf_ty (TList e limit) = true -> forall vs n,
  wf (TList e limit) (VSeq vs) = true -> Repr H (TList e limit) (VSeq vs) n -> vs <> [] ->
  exists n', list_pop H src (TList e limit) n = Ok n' /\ Repr H (TList e limit) (VSeq (removelast vs)) n'.
Proof. exact list_pop_any. Qed.
Theorem C04_list_history_any : forall H src e limit, wf_ty (TList e limit) = true -> forall os vs n,
  Repr H (TList e limit) (VSeq vs) n -> wf (TList e limit) (VSeq vs) = true -> vvalid_ops H e limit vs os ->
  exists n', fold_left (fun acc o => do m <- acc; vapply_impl H src e limit m o) os (Ok n) = Ok n' /\
             Repr H (TList e limit) (VSeq (fold_left vapply_spec os vs)) n' /\
             wf (TList e limit) (VSeq (fold_left vapply_spec os vs)) = true.
Proof. exact list_history_any. Qed.

Theorem C04_list_pop : forall H src e limit, basic_size e = None -> limit < 2 ^ 64 -> forall vs n,
  Repr H (TList e limit) (VSeq vs) n -> lenN vs <= limit -> vs <> [] ->
  exists n', list_pop H src (TList e limit) n = Ok n' /\ Repr H (TList e limit) (VSeq (removelast vs)) n'.
Proof. exact list_pop_v. Qed.

(* pop at tree level: clearing the last position and summarising the emptied subtree (the climb over
   trailing zero bits of the index) leaves a representation of the list without its last element *)
Theorem C04_tree_pop : forall H src e limit, basic_size e = None -> limit < 2 ^ 64 -> forall n ns,
  Rep_list H e limit n ns -> ns <> [] ->
  exists n', list_pop H src (TList e limit) n = Ok n' /\ Rep_list H e limit n' (removelast ns).
Proof. exact list_pop_rep. Qed.

(* bitfields: setting a bit rewrites one byte of one chunk; Bitlist.append adds a cleared bit (a zero byte /
   zero chunk at the boundaries) and sets it; Bitlist.pop clears the bit, drops the emptied chunk, summarises *)
Theorem C04_bitvector_set : forall H src k bs n i v, wf (TBitvector k) (VBits bs) = true -> Repr H (TBitvector k) (VBits bs) n ->
  (0 <= i < Z.of_N k)%Z ->
  exists n', bits_set H src (TBitvector k) n i v = Ok n' /\ Repr H (TBitvector k) (VBits (upd (Z.to_nat i) v bs)) n'.
Proof. exact bitvector_set. Qed.
Theorem C04_bitlist_set : forall H src l bs n i v, wf_ty (TBitlist l) = true -> wf (TBitlist l) (VBits bs) = true ->
  Repr H (TBitlist l) (VBits bs) n -> (0 <= i < Z.of_N (lenN bs))%Z ->
  exists n', bits_set H src (TBitlist l) n i v = Ok n' /\ Repr H (TBitlist l) (VBits (upd (Z.to_nat i) v bs)) n'.
Proof. exact bitlist_set. Qed.
Theorem C04_bitlist_append : forall H src l bs n v, wf_ty (TBitlist l) = true -> wf (TBitlist l) (VBits bs) = true ->
  Repr H (TBitlist l) (VBits bs) n -> lenN bs < l ->
  exists n', bitlist_append H src (TBitlist l) n v = Ok n' /\ Repr H (TBitlist l) (VBits (bs ++ [v])) n'.
Proof. exact bitlist_append_repr. Qed.
Theorem C04_bitlist_pop : forall H src l bs n, wf_ty (TBitlist l) = true -> wf (TBitlist l) (VBits bs) = true ->
  Repr H (TBitlist l) (VBits bs) n -> bs <> [] ->
  exists n', bitlist_pop H src (TBitlist l) n = Ok n' /\ Repr H (TBitlist l) (VBits (removelast bs)) n'.
Proof. exact bitlist_pop_repr. Qed.

Theorem C04_union_change : forall H (b : bool) os sel o x m, (0 <= sel)%Z -> (sel < Z.of_N (lenN os + (if b then 1 else 0))%N)%Z ->
  union_opt b os (Z.to_nat sel) = Some o -> Repr H o x m ->
  exists n', union_change H (TUnion b os) sel (Some m) = Ok n' /\ Repr H (TUnion b os) (VUnion (Z.to_nat sel) (Some x)) n'.
Proof. intros H. exact (union_change_some H). Qed.

Theorem C04_union_change_none : forall H os,
  exists n', union_change H (TUnion true os) 0 None = Ok n' /\ Repr H (TUnion true os) (VUnion 0 None) n'.
Proof. intros H. exact (union_change_none H). Qed.

(* any valid history of assignments, appends and pops over VALUES ends in a representation of the implied
   value, which is well-formed — hence (C04_indistinguishable) has the fresh value's root and encoding *)
Theorem C04_list_value_history : forall H src e limit, basic_size e = None -> limit < 2 ^ 64 -> forall os vs n,
  Repr H (TList e limit) (VSeq vs) n -> wf (TList e limit) (VSeq vs) = true -> vvalid_ops H e limit vs os ->
  exists n', fold_left (fun acc o => do m <- acc; vapply_impl H src e limit m o) os (Ok n) = Ok n' /\
             Repr H (TList e limit) (VSeq (fold_left vapply_spec os vs)) n' /\
             wf (TList e limit) (VSeq (fold_left vapply_spec os vs)) = true.
Proof. exact list_value_history. Qed.

Print Assumptions C04_tree_set.
Print Assumptions C04_indistinguishable.
Print Assumptions C04_constructed_is_representation.
Print Assumptions C04_container_set.
Print Assumptions C04_vector_set.
Print Assumptions C04_list_set.
Print Assumptions C04_list_append.
Print Assumptions C04_list_value_history.
Print Assumptions C04_packed_vector_set.
Print Assumptions C04_packed_list_set.
Print Assumptions C04_list_set_any.
Print Assumptions C04_list_append_any.
Print Assumptions C04_list_pop_any.
Print Assumptions C04_list_history_any.
Print Assumptions C04_list_pop.
Print Assumptions C04_tree_pop.
Print Assumptions C04_bitvector_set.
Print Assumptions C04_bitlist_set.
Print Assumptions C04_bitlist_append.
Print Assumptions C04_bitlist_pop.
Print Assumptions C04_union_change.
Print Assumptions C04_union_change_none.
Print Assumptions C04_tree_append.
Print Assumptions C04_root_of_representation.
Print Assumptions C04_step.
Print Assumptions C04_history.
Print Assumptions C04_observables.
Print Assumptions C04_fresh_is_representation.
