(* C04 — a mutated view is indistinguishable from a fresh value with the same content.
   Property theorems only.  Proved here for lists of composite elements (List.set / List.append)
   and at the level of contents trees for every kind (CRep: set, append with expansion);
   pop, packed elements, bit operations, vectors / containers / unions at view level are tied by
   the correspondence (see evidence "partial"). *)
Require Import RM.Base RM.Gindex RM.Tree RM.Types RM.Spec RM.ModelViews RM.ModelCodec RM.ModelMut
               RM.MerkleProofs RM.CRepProofs RM.ListProofs.
Local Open Scope N_scope.

(* contents-tree level: writing position i of a tree representing ns yields a tree representing
   ns with position i replaced — whatever mixture of zero summaries the tree contains *)
Theorem C04_tree_set : forall H src e d n ns, CRep H d n ns -> forall i v, i < lenN ns ->
  exists n', setter_below H src e n (be_bits d i) v = Ok n' /\ CRep H d n' (upd (N.to_nat i) v ns).
Proof. exact CRep_set. Qed.

(* appending writes position |ns| with expansion and yields a tree representing ns ++ [v] *)
Theorem C04_tree_append : forall H src d n ns, CRep H d n ns -> forall v, (length ns < 2 ^ d)%nat ->
  exists n', setter_below H src true n (be_bits d (lenN ns)) v = Ok n' /\ CRep H d n' (ns ++ [v]).
Proof. exact CRep_append. Qed.

(* any representation of ns has the merkle root of ns: no stale root, whatever the history *)
Theorem C04_root_of_representation : forall H d n ns, CRep H d n ns ->
  root H n = merkleize H d (map (root H) ns).
Proof. exact CRep_merkleize. Qed.

(* view level, lists of composite elements: one step *)
Theorem C04_step : forall H src e limit, basic_size e = None -> limit < 2 ^ 64 ->
  forall n ns o, Rep_list H e limit n ns -> valid_op limit ns o ->
  exists n', apply_impl H src e limit n o = Ok n' /\ Rep_list H e limit n' (apply_spec ns o).
Proof. exact list_step. Qed.

(* ... and every finite history: it succeeds (no element becomes inaccessible) and the view
   represents exactly the list the history implies *)
Theorem C04_history : forall H src e limit, basic_size e = None -> limit < 2 ^ 64 ->
  forall os n ns, Rep_list H e limit n ns -> valid_ops limit ns os ->
  exists n', fold_left (fun acc o => do m <- acc; apply_impl H src e limit m o) os (Ok n) = Ok n' /\
             Rep_list H e limit n' (fold_left apply_spec os ns).
Proof. exact list_history. Qed.

(* what a representation shows: length, every element, and the specification's root *)
Theorem C04_observables : forall H src e limit, basic_size e = None -> limit < 2 ^ 64 ->
  forall n ns, Rep_list H e limit n ns ->
  view_len H src (TList e limit) n = Ok (lenN ns) /\
  (forall i dflt, (0 <= i < Z.of_N (lenN ns))%Z -> view_get H src (TList e limit) n i = Ok (nth (Z.to_nat i) ns dflt)) /\
  root H n = mix_in H (merkleize H (contents_depth (TList e limit)) (map (root H) ns)) (lenN ns).
Proof.
  intros H src e limit He Hl n ns Hr. split; [now apply list_len|]. split; [intros; now apply list_get|now apply list_root].
Qed.

(* a freshly constructed list is a representation too: mutated and fresh views are the same kind of object *)
Theorem C04_fresh_is_representation : forall H e limit, basic_size e = None -> limit < 2 ^ 64 ->
  forall vs, wf_ty (TList e limit) = true -> wf (TList e limit) (VSeq vs) = true ->
  exists n ns, mk H (TList e limit) (VSeq vs) = Ok n /\ Rep_list H e limit n ns /\ map (root H) ns = map (htr H e) vs.
Proof. exact mk_list_rep. Qed.

Print Assumptions C04_tree_set.
Print Assumptions C04_tree_append.
Print Assumptions C04_root_of_representation.
Print Assumptions C04_step.
Print Assumptions C04_history.
Print Assumptions C04_observables.
Print Assumptions C04_fresh_is_representation.
