(* C10 — decoding accepts only the canonical encoding.  Property theorems only.
   Proved for the leaf kinds with scoped stream decoding (as the property states for bare integers
   and booleans).  For composite kinds the accepted language is compared with the model on
   exhaustive short strings, exhaustive first / last bytes of valid encodings and structure-aware
   corruptions, and (model-free) accepted => re-encoding reproduces the input. *)
Require Import RM.Base RM.Tree RM.Types RM.Spec RM.ModelViews RM.ModelCodec RM.CodecBasicProofs.
Local Open Scope N_scope.

(* whatever is accepted with scope k re-encodes to exactly the k consumed bytes *)
Theorem C10_uint_canonical : forall H src k s scope nd rest, (N.to_nat scope <= length s)%nat ->
  deser_impl H (TUint k) s scope = Ok (nd, rest) ->
  scope = k /\ rest = skipn (N.to_nat k) s /\
  exists e, ser_impl H src (TUint k) nd = Ok (e, k) /\ e = firstn (N.to_nat k) s.
Proof. exact deser_uint_canonical. Qed.

(* booleans: exactly 00 and 01 are accepted, and they re-encode to themselves *)
Theorem C10_bool_canonical : forall H src s scope nd rest, deser_impl H TBool s scope = Ok (nd, rest) ->
  scope = 1 /\ exists b : bool, s = (if b then x01 else x00) :: rest /\ ser_impl H src TBool nd = Ok ([if b then x01 else x00], 1).
Proof. exact deser_bool_canonical. Qed.

Theorem C10_bool_rejects_other : forall H c rest, c <> x00 -> c <> x01 -> exists e, deser_impl H TBool (c :: rest) 1 = Err e.
Proof. exact deser_bool_rejects. Qed.

Print Assumptions C10_uint_canonical.
Print Assumptions C10_bool_canonical.
Print Assumptions C10_bool_rejects_other.
