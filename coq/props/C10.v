(* C10 — decoding accepts only the canonical encoding.  Property theorems only.
   Full statements for EVERY type (any nesting, any hash function):
   C10_canonical — whenever decoding a byte string with its length as scope succeeds, the input is
   the specification's encoding of a well-formed value, the returned tree is the one the constructor
   builds for it, and re-encoding reproduces exactly the input bytes;
   C10_injective — no two distinct byte strings decode to the same value;
   C10_language — the accepted strings are exactly the valid encodings (below the 4 GiB offset limit);
   C10_stream — the scoped stream form: the first `scope` bytes are the encoding, the rest is returned.
   The leaf-kind theorems are kept. *)
Require Import RM.Base RM.Tree RM.Types RM.Spec RM.ModelViews RM.ModelCodec RM.CodecBasicProofs RM.SoundProofs.
Local Open Scope N_scope.

(* whatever is accepted with scope k re-encodes to exactly the k consumed bytes *)
Theorem C10_uint_canonical : forall H src k s scope nd rest, (N.to_nat scope <= length s)%nat ->
  deser_impl H (TUint k) s scope = Ok (nd, rest) ->
  scope = k /\ rest = skipn (N.to_nat k) s /\
  exists e, ser_impl H src (TUint k) nd = Ok (e, k) /\ e = firstn (N.to_nat k) s.
Proof. exact deser_uint_canonical. Qed.

(* booleans: exactly 00 and 01 are accepted, and they re-encode to themselves *)
Theorem C10_bool_canonical : forall H src s scope nd rest, deser_impl H TBool s scope = Ok (nd, rest) ->
  scope = 1 /\ exists b : bool, s = (if b then x01 else x00) :: rest /\ ser_impl H src TBool nd = Ok ([if b then x01 else x00], 1).
Proof. exact deser_bool_canonical. Qed.

Theorem C10_bool_rejects_other : forall H c rest, c <> x00 -> c <> x01 -> exists e, deser_impl H TBool (c :: rest) 1 = Err e.
Proof. exact deser_bool_rejects. Qed.

Theorem C10_canonical : forall H src t bs n, wf_ty t = true -> decode_bytes H t bs = Ok n ->
  exists v, wf t v = true /\ bs = ser t v /\ mk H t v = Ok n /\ root H n = htr H t v /\
            ser_impl H src t n = Ok (bs, lenN bs).
Proof. intros H src t bs n. exact (decode_bytes_canonical H t bs n src). Qed.

Theorem C10_injective : forall H t bs1 bs2 n, wf_ty t = true ->
  decode_bytes H t bs1 = Ok n -> decode_bytes H t bs2 = Ok n -> bs1 = bs2.
Proof. exact decode_bytes_injective. Qed.

Theorem C10_language : forall H t bs, wf_ty t = true -> lenN bs < 2 ^ 32 ->
  ((exists n, decode_bytes H t bs = Ok n) <-> (exists v, wf t v = true /\ bs = ser t v)).
Proof. exact accepted_iff_valid. Qed.

Theorem C10_stream : forall H src t s scope n rest, wf_ty t = true ->
  deser_impl H t s scope = Ok (n, rest) -> scope <= lenN s ->
  exists v, wf t v = true /\ mk H t v = Ok n /\ s = ser t v ++ rest /\ lenN (ser t v) = scope /\
            root H n = htr H t v /\ ser_impl H src t n = Ok (ser t v, scope).
Proof. intros H src t s scope n rest. exact (deser_canonical H t s scope n rest src). Qed.

(* non-vacuity: a gap between the fixed part and the first variable part is rejected, the canonical
   string is accepted (SHA-free: any H) *)
Example C10_gap_rejected : forall H,
  (exists n, decode_bytes H (TContainer [TUint 1; TList (TUint 1) 4]) [x07; x05; x00; x00; x00; x09] = Ok n) /\
  (exists e, decode_bytes H (TContainer [TUint 1; TList (TUint 1) 4]) [x07; x06; x00; x00; x00; x00; x09] = Err e).
Proof. intros H. split; vm_compute; eauto. Qed.

Print Assumptions C10_uint_canonical.
Print Assumptions C10_canonical.
Print Assumptions C10_injective.
Print Assumptions C10_language.
Print Assumptions C10_stream.
Print Assumptions C10_bool_canonical.
Print Assumptions C10_bool_rejects_other.
