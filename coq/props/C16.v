(* C16 — object export / import round-trips and survives JSON.  Property theorems only.
   Proved: the hex text used for byte arrays, bitfields and 128/256-bit integers parses back to the
   same bytes; a JSON dump/load is idempotent on exported objects; integers of every width and
   booleans export to the documented shape and import back to the same value, also after JSON.
   Composite kinds are tied by the correspondence (exact tagged shape, from_obj, JSON, alternative
   spellings, against the model and the original's root). *)
Require Import RM.Base RM.Tree RM.Types RM.Spec RM.ModelViews RM.ModelObj RM.CodecBasicProofs RM.ReprProofs RM.ObjProofs.
Local Open Scope N_scope.

Theorem C16_hex_roundtrip : forall bs, unhex_text (hex_text bs) = Ok bs.
Proof. exact unhex_hex. Qed.

Theorem C16_json_idempotent : forall o, json_rt (json_rt o) = json_rt o.
Proof. exact json_rt_idempotent. Qed.

Theorem C16_uint_roundtrip : forall H src k n nd, uint_size_ok k = true -> n < 2 ^ (8 * k) ->
  mk H (TUint k) (VUint n) = Ok nd ->
  exists o, to_obj H src (TUint k) nd = Ok o /\
            (o = JInt n \/ o = JStr (x0x ++ hex_text (le_bytes (N.to_nat k) n))) /\
            from_obj H (TUint k) o = Ok nd /\ from_obj H (TUint k) (json_rt o) = Ok nd.
Proof. exact obj_uint_roundtrip. Qed.

Theorem C16_bool_roundtrip : forall H src b nd, mk H TBool (VBool b) = Ok nd ->
  to_obj H src TBool nd = Ok (JBool b) /\ from_obj H TBool (JBool b) = Ok nd.
Proof. exact obj_bool_roundtrip. Qed.

(* the full statement, every type: exporting ANY representation of a value (constructed, decoded or
   mutated) and importing the object — directly or after a JSON dump / load — yields the freshly
   constructed backing of that value, hence an equal value with the spec root.  `fields_ok` bounds the
   number of fields of every container by 10^20 (the model names fields f0, f1, ...; distinctness of
   names is what the import relies on). *)
Theorem C16_roundtrip : forall H src t v n n0, wf_ty t = true -> fields_ok t = true -> wf t v = true ->
  Repr H t v n -> mk H t v = Ok n0 ->
  exists o, to_obj H src t n = Ok o /\ from_obj H t o = Ok n0 /\ from_obj H t (json_rt o) = Ok n0 /\ root H n0 = htr H t v.
Proof. exact obj_roundtrip_json. Qed.

(* a JSON dump / load never changes what an object imports to (tuples become lists, nothing else) *)
Theorem C16_json_invariant : forall H t o, from_obj H t (json_rt o) = from_obj H t o.
Proof. exact from_obj_json. Qed.

(* non-vacuity *)
Example C16_nonvacuous :
  let t := TContainer [TUint 8; TList (TContainer [TBool; TUint 32; TBitlist 9]) 5; TByteVector 33; TUnion true [TBitvector 12; TVector (TUint 2) 3]] in
  wf_ty t = true /\ fields_ok t = true /\
  wf t (VCont [VUint 77; VSeq [VCont [VBool true; VUint 513; VBits [true; false; true]]]; VBytes (repeat x01 33);
               VUnion 2 (Some (VSeq [VUint 1; VUint 2; VUint 65535]))]) = true.
Proof. vm_compute. repeat split. Qed.

Print Assumptions C16_hex_roundtrip.
Print Assumptions C16_roundtrip.
Print Assumptions C16_json_invariant.
Print Assumptions C16_json_idempotent.
Print Assumptions C16_uint_roundtrip.
Print Assumptions C16_bool_roundtrip.
