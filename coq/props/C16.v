(* C16 — object export / import round-trips and survives JSON.  Property theorems only.
   Proved: the hex text used for byte arrays, bitfields and 128/256-bit integers parses back to the
   same bytes; a JSON dump/load is idempotent on exported objects; integers of every width and
   booleans export to the documented shape and import back to the same value, also after JSON.
   Composite kinds are tied by the correspondence (exact tagged shape, from_obj, JSON, alternative
   spellings, against the model and the original's root). *)
Require Import RM.Base RM.Tree RM.Types RM.Spec RM.ModelViews RM.ModelObj RM.CodecBasicProofs.
Local Open Scope N_scope.

Theorem C16_hex_roundtrip : forall bs, unhex_text (hex_text bs) = Ok bs.
Proof. exact unhex_hex. Qed.

Theorem C16_json_idempotent : forall o, json_rt (json_rt o) = json_rt o.
Proof. exact json_rt_idempotent. Qed.

Theorem C16_uint_roundtrip : forall H src k n nd, uint_size_ok k = true -> n < 2 ^ (8 * k) ->
  mk H (TUint k) (VUint n) = Ok nd ->
  exists o, to_obj H src (TUint k) nd = Ok o /\
            (o = JInt n \/ o = JStr (x0x ++ hex_text (le_bytes (N.to_nat k) n))) /\
            from_obj H (TUint k) o = Ok nd /\ from_obj H (TUint k) (json_rt o) = Ok nd.
Proof. exact obj_uint_roundtrip. Qed.

Theorem C16_bool_roundtrip : forall H src b nd, mk H TBool (VBool b) = Ok nd ->
  to_obj H src TBool nd = Ok (JBool b) /\ from_obj H TBool (JBool b) = Ok nd.
Proof. exact obj_bool_roundtrip. Qed.

Print Assumptions C16_hex_roundtrip.
Print Assumptions C16_json_idempotent.
Print Assumptions C16_uint_roundtrip.
Print Assumptions C16_bool_roundtrip.
