(* C17 — partial trees: summaries keep the root, excluded data is never misread.
   Property theorems only (tree level; every view operation of the model is a composition of
   getter / setter / root / children, and the view level is tied by the correspondence).
   summ n m : n is m with some subtrees replaced by RootN (root subtree). *)
Require Import RM.Base RM.Gindex RM.Tree RM.TreeProofs RM.Types RM.ModelCodec RM.ModelMut RM.PartialProofs RM.PartialViews RM.ModelStore RM.PartialStore.

Theorem C17_root : forall H n m, summ H n m -> root H n = root H m.
Proof. exact summ_root. Qed.

(* a read that succeeds on the partial tree returns (a summary of) the complete tree's subtree *)
Theorem C17_get : forall H src p n m x, summ H n m -> getter src n p = Ok x ->
  exists y, getter src m p = Ok y /\ summ H x y.
Proof. exact summ_get. Qed.

(* a write that succeeds on the partial tree succeeds on the complete tree with the same root *)
Theorem C17_set : forall H src n m p v n', summ H n m -> setter H src false n p v = Ok n' ->
  exists m', setter H src false m p v = Ok m' /\ summ H n' m' /\ root H n' = root H m'.
Proof. exact summ_set. Qed.

(* the same for expanding writes (append): a summary is expanded only when it is the zero hash of
   its height, and then (Hinj) the complete tree holds zeros there *)
Theorem C17_set_expand : forall H src (Hi : Hinj H) p n m v n', novirt m -> summ H n m ->
  setter_below H src true n p v = Ok n' ->
  exists m', setter_below H src true m p v = Ok m' /\ root H n' = root H m'.
Proof. exact summ_set_expand. Qed.

(* any access that needs an excluded subtree fails with a navigation error, never wrong data *)
Theorem C17_errors : forall H src n p,
  (forall e, getter src n p = Err e -> e = ENav) /\
  (forall ex v e, setter H src ex n p v = Err e -> e = ENav).
Proof. exact partial_errors. Qed.

(* summarize_into produces such a partial tree *)
Theorem C17_summarize : forall H src n p n', novirt n -> summarize_into H src n p = Ok n' -> summ H n' n.
Proof. exact summarize_is_summ. Qed.

Definition Hcat (a b : bytes) : bytes := a ++ b.
Example C17_nonvacuous :
  let m := PairN (PairN (RootN [x01]) (RootN [x02])) (RootN [x03]) in
  summ Hcat (PairN (RootN [x01; x02]) (RootN [x03])) m /\
  getter (fun _ => None) (PairN (RootN [x01; x02]) (RootN [x03])) [false; true] = Err ENav.
Proof.
  split; [|reflexivity]. apply summ_pair; [|apply summ_refl].
  exact (summ_cut Hcat (PairN (RootN [x01]) (RootN [x02]))).
Qed.

Print Assumptions C17_root.
Print Assumptions C17_get.
Print Assumptions C17_set.
Print Assumptions C17_set_expand.
Print Assumptions C17_errors.
Print Assumptions C17_summarize.
Print Assumptions C17_nonvacuous.

(* ---- view level: every view operation of the model that succeeds on the partial tree succeeds on the complete
   tree with the same data and again related (equally rooted) backings — so operations compose into histories.
   Hi: collision-free pair hash (needed where a write expands a zero summary); the complete tree is materialised. *)
Theorem C17_writes_stay_related : forall H src (Hi : Hinj H) e p n m v n', novirt m -> summ H n m ->
  setter H src e n p v = Ok n' -> exists m', setter H src e m p v = Ok m' /\ summ H n' m'.
Proof. exact summ_setter. Qed.

Theorem C17_view_get : forall H src t n m i x, summ H n m -> view_get H src t n i = Ok x ->
  exists y, view_get H src t m i = Ok y /\ summ H x y.
Proof. exact summ_view_get. Qed.

Theorem C17_view_set : forall H src (Hi : Hinj H) t n m i x n', novirt m -> summ H n m -> view_set H src t n i x = Ok n' ->
  exists m', view_set H src t m i x = Ok m' /\ summ H n' m'.
Proof. exact summ_view_set. Qed.

Theorem C17_list_append : forall H src (Hi : Hinj H) t n m x n', novirt m -> summ H n m -> list_append H src t n x = Ok n' ->
  exists m', list_append H src t m x = Ok m' /\ summ H n' m'.
Proof. exact summ_list_append. Qed.

Theorem C17_list_pop : forall H src (Hi : Hinj H) t n m n', novirt m -> summ H n m -> list_pop H src t n = Ok n' ->
  exists m', list_pop H src t m = Ok m' /\ summ H n' m'.
Proof. exact summ_list_pop. Qed.

Theorem C17_bits_get : forall H src t n m i b, summ H n m -> bits_get H src t n i = Ok b -> bits_get H src t m i = Ok b.
Proof. exact summ_bits_get. Qed.

Theorem C17_bits_set : forall H src (Hi : Hinj H) t n m i v n', novirt m -> summ H n m -> bits_set H src t n i v = Ok n' ->
  exists m', bits_set H src t m i v = Ok m' /\ summ H n' m'.
Proof. exact summ_bits_set. Qed.

Theorem C17_bitlist_append : forall H src (Hi : Hinj H) t n m v n', novirt m -> summ H n m -> bitlist_append H src t n v = Ok n' ->
  exists m', bitlist_append H src t m v = Ok m' /\ summ H n' m'.
Proof. exact summ_bitlist_append. Qed.

Theorem C17_bitlist_pop : forall H src (Hi : Hinj H) t n m n', novirt m -> summ H n m -> bitlist_pop H src t n = Ok n' ->
  exists m', bitlist_pop H src t m = Ok m' /\ summ H n' m'.
Proof. exact summ_bitlist_pop. Qed.

Theorem C17_union_value : forall H src t n m r, summ H n m -> union_value H src t n = Ok r ->
  match r with
  | None => union_value H src t m = Ok None
  | Some (o, x) => exists y, union_value H src t m = Ok (Some (o, y)) /\ summ H x y
  end.
Proof. exact summ_union_value. Qed.

Theorem C17_lengths : forall H src t n m k, summ H n m -> view_len H src t n = Ok k -> view_len H src t m = Ok k.
Proof. exact summ_view_len. Qed.

Print Assumptions C17_writes_stay_related.
Print Assumptions C17_view_get.
Print Assumptions C17_view_set.
Print Assumptions C17_list_append.
Print Assumptions C17_list_pop.
Print Assumptions C17_bits_get.
Print Assumptions C17_bits_set.
Print Assumptions C17_bitlist_append.
Print Assumptions C17_bitlist_pop.
Print Assumptions C17_union_value.
Print Assumptions C17_lengths.

(* serialisation: whenever the encoding of a view over the partial tree can be computed, it is the complete tree's
   encoding (same bytes, same count), for every type *)
Theorem C17_encoding : forall H src t n m r, summ H n m -> ser_impl H src t n = Ok r -> ser_impl H src t m = Ok r.
Proof.
  intros H src t n m r Hs Hr. destruct (psim_ok eq _ _ r (summ_ser H src t n m Hs) Hr) as (r' & Hr' & <-). exact Hr'.
Qed.

(* ---- store level (PartialStore.v): views WITH their hooks.  psrel sp sc: cell by cell the same type and hook, the
   partial backing a summary of the complete (materialised) one.  ANY command that succeeds on the partial store —
   child reads, union values, copies, every mutation with its propagation through the hook chain — succeeds on the
   complete store and keeps the stores related; hence whole histories of successful commands through any held views. *)
Theorem C17_store_start : forall H t n m, summ H n m -> novirt m -> wf_ty t = true ->
  psrel H [{| cty := t; cback := n; chook := HNone |}] [{| cty := t; cback := m; chook := HNone |}].
Proof. exact psrel_start. Qed.

Theorem C17_store_command : forall H src (Hi : Hinj H) sp sc c sp', psrel H sp sc -> run_cmd H src sp c = (Ok tt, sp') ->
  exists sc', run_cmd H src sc c = (Ok tt, sc') /\ psrel H sp' sc'.
Proof. exact run_cmd_psim. Qed.

Theorem C17_store_observed : forall H src sp sc, psrel H sp sc -> forall u cp, nth_error sp u = Some cp ->
  exists cc, nth_error sc u = Some cc /\ cty cp = cty cc /\ root H (cback cp) = root H (cback cc) /\
             (forall r, ser_impl H src (cty cp) (cback cp) = Ok r -> ser_impl H src (cty cc) (cback cc) = Ok r).
Proof. exact psrel_observed. Qed.

Print Assumptions C17_encoding.
Print Assumptions C17_store_start.
Print Assumptions C17_store_command.
Print Assumptions C17_store_observed.
