(* C17 — partial trees: summaries keep the root, excluded data is never misread.
   Property theorems only (tree level; every view operation of the model is a composition of
   getter / setter / root / children, and the view level is tied by the correspondence).
   summ n m : n is m with some subtrees replaced by RootN (root subtree). *)
Require Import RM.Base RM.Gindex RM.Tree RM.TreeProofs RM.Types RM.Spec RM.ModelViews RM.ModelCodec RM.ModelMut RM.ModelIters RM.ModelObj RM.PartialProofs RM.PartialViews RM.ModelStore RM.PartialStore RM.ReprProofs RM.ObjProofs RM.PartialReads RM.PartialErrors.

Theorem C17_root : forall H n m, summ H n m -> root H n = root H m.
Proof. exact summ_root. Qed.

(* a read that succeeds on the partial tree returns (a summary of) the complete tree's subtree *)
Theorem C17_get : forall H src p n m x, summ H n m -> getter src n p = Ok x ->
  exists y, getter src m p = Ok y /\ summ H x y.
Proof. exact summ_get. Qed.

(* a write that succeeds on the partial tree succeeds on the complete tree with the same root *)
Theorem C17_set : forall H src n m p v n', summ H n m -> setter H src false n p v = Ok n' ->
  exists m', setter H src false m p v = Ok m' /\ summ H n' m' /\ root H n' = root H m'.
Proof. exact summ_set. Qed.

(* the same for expanding writes (append): a summary is expanded only when it is the zero hash of
   its height, and then (Hinj) the complete tree holds zeros there *)
Theorem C17_set_expand : forall H src (Hi : Hinj H) p n m v n', novirt m -> summ H n m ->
  setter_below H src true n p v = Ok n' ->
  exists m', setter_below H src true m p v = Ok m' /\ root H n' = root H m'.
Proof. exact summ_set_expand. Qed.

(* any access that needs an excluded subtree fails with a navigation error, never wrong data *)
Theorem C17_errors : forall H src n p,
  (forall e, getter src n p = Err e -> e = ENav) /\
  (forall ex v e, setter H src ex n p v = Err e -> e = ENav).
Proof. exact partial_errors. Qed.

(* summarize_into produces such a partial tree *)
Theorem C17_summarize : forall H src n p n', novirt n -> summarize_into H src n p = Ok n' -> summ H n' n.
Proof. exact summarize_is_summ. Qed.

Definition Hcat (a b : bytes) : bytes := a ++ b.
Example C17_nonvacuous :
  let m := PairN (PairN (RootN [x01]) (RootN [x02])) (RootN [x03]) in
  summ Hcat (PairN (RootN [x01; x02]) (RootN [x03])) m /\
  getter (fun _ => None) (PairN (RootN [x01; x02]) (RootN [x03])) [false; true] = Err ENav.
Proof.
  split; [|reflexivity]. apply summ_pair; [|apply summ_refl].
  exact (summ_cut Hcat (PairN (RootN [x01]) (RootN [x02]))).
Qed.

Print Assumptions C17_root.
Print Assumptions C17_get.
Print Assumptions C17_set.
Print Assumptions C17_set_expand.
Print Assumptions C17_errors.
Print Assumptions C17_summarize.
Print Assumptions C17_nonvacuous.

(* ---- view level: every view operation of the model that succeeds on the partial tree succeeds on the complete
   tree with the same data and again related (equally rooted) backings — so operations compose into histories.
   Hi: collision-free pair hash (needed where a write expands a zero summary); the complete tree is materialised. *)
Theorem C17_writes_stay_related : forall H src (Hi : Hinj H) e p n m v n', novirt m -> summ H n m ->
  setter H src e n p v = Ok n' -> exists m', setter H src e m p v = Ok m' /\ summ H n' m'.
Proof. exact summ_setter. Qed.

Theorem C17_view_get : forall H src t n m i x, summ H n m -> view_get H src t n i = Ok x ->
  exists y, view_get H src t m i = Ok y /\ summ H x y.
Proof. exact summ_view_get. Qed.

Theorem C17_view_set : forall H src (Hi : Hinj H) t n m i x n', novirt m -> summ H n m -> view_set H src t n i x = Ok n' ->
  exists m', view_set H src t m i x = Ok m' /\ summ H n' m'.
Proof. exact summ_view_set. Qed.

Theorem C17_list_append : forall H src (Hi : Hinj H) t n m x n', novirt m -> summ H n m -> list_append H src t n x = Ok n' ->
  exists m', list_append H src t m x = Ok m' /\ summ H n' m'.
Proof. exact summ_list_append. Qed.

Theorem C17_list_pop : forall H src (Hi : Hinj H) t n m n', novirt m -> summ H n m -> list_pop H src t n = Ok n' ->
  exists m', list_pop H src t m = Ok m' /\ summ H n' m'.
Proof. exact summ_list_pop. Qed.

Theorem C17_bits_get : forall H src t n m i b, summ H n m -> bits_get H src t n i = Ok b -> bits_get H src t m i = Ok b.
Proof. exact summ_bits_get. Qed.

Theorem C17_bits_set : forall H src (Hi : Hinj H) t n m i v n', novirt m -> summ H n m -> bits_set H src t n i v = Ok n' ->
  exists m', bits_set H src t m i v = Ok m' /\ summ H n' m'.
Proof. exact summ_bits_set. Qed.

Theorem C17_bitlist_append : forall H src (Hi : Hinj H) t n m v n', novirt m -> summ H n m -> bitlist_append H src t n v = Ok n' ->
  exists m', bitlist_append H src t m v = Ok m' /\ summ H n' m'.
Proof. exact summ_bitlist_append. Qed.

Theorem C17_bitlist_pop : forall H src (Hi : Hinj H) t n m n', novirt m -> summ H n m -> bitlist_pop H src t n = Ok n' ->
  exists m', bitlist_pop H src t m = Ok m' /\ summ H n' m'.
Proof. exact summ_bitlist_pop. Qed.

Theorem C17_union_value : forall H src t n m r, summ H n m -> union_value H src t n = Ok r ->
  match r with
  | None => union_value H src t m = Ok None
  | Some (o, x) => exists y, union_value H src t m = Ok (Some (o, y)) /\ summ H x y
  end.
Proof. exact summ_union_value. Qed.

Theorem C17_lengths : forall H src t n m k, summ H n m -> view_len H src t n = Ok k -> view_len H src t m = Ok k.
Proof. exact summ_view_len. Qed.

Print Assumptions C17_writes_stay_related.
Print Assumptions C17_view_get.
Print Assumptions C17_view_set.
Print Assumptions C17_list_append.
Print Assumptions C17_list_pop.
Print Assumptions C17_bits_get.
Print Assumptions C17_bits_set.
Print Assumptions C17_bitlist_append.
Print Assumptions C17_bitlist_pop.
Print Assumptions C17_union_value.
Print Assumptions C17_lengths.

(* serialisation: whenever the encoding of a view over the partial tree can be computed, it is the complete tree's
   encoding (same bytes, same count), for every type *)
Theorem C17_encoding : forall H src t n m r, summ H n m -> ser_impl H src t n = Ok r -> ser_impl H src t m = Ok r.
Proof.
  intros H src t n m r Hs Hr. destruct (psim_ok eq _ _ r (summ_ser H src t n m Hs) Hr) as (r' & Hr' & <-). exact Hr'.
Qed.

(* ---- store level (PartialStore.v): views WITH their hooks.  psrel sp sc: cell by cell the same type and hook, the
   partial backing a summary of the complete (materialised) one.  ANY command that succeeds on the partial store —
   child reads, union values, copies, every mutation with its propagation through the hook chain — succeeds on the
   complete store and keeps the stores related; hence whole histories of successful commands through any held views. *)
Theorem C17_store_start : forall H t n m, summ H n m -> novirt m -> wf_ty t = true ->
  psrel H [{| cty := t; cback := n; chook := HNone |}] [{| cty := t; cback := m; chook := HNone |}].
Proof. exact psrel_start. Qed.

Theorem C17_store_command : forall H src (Hi : Hinj H) sp sc c sp', psrel H sp sc -> run_cmd H src sp c = (Ok tt, sp') ->
  exists sc', run_cmd H src sc c = (Ok tt, sc') /\ psrel H sp' sc'.
Proof. exact run_cmd_psim. Qed.

Theorem C17_store_observed : forall H src sp sc, psrel H sp sc -> forall u cp, nth_error sp u = Some cp ->
  exists cc, nth_error sc u = Some cc /\ cty cp = cty cc /\ root H (cback cp) = root H (cback cc) /\
             (forall r, ser_impl H src (cty cp) (cback cp) = Ok r -> ser_impl H src (cty cc) (cback cc) = Ok r).
Proof. exact psrel_observed. Qed.

Print Assumptions C17_encoding.
Print Assumptions C17_store_start.
Print Assumptions C17_store_command.
Print Assumptions C17_store_observed.

(* ---- the read-only iterators and object export over partial trees (PartialReads.v) ---- *)
(* the node iterator (element / field views): every bottom node handed out on the partial tree is (a summary of)
   the node the complete tree hands out at that step; a step that needs an excluded subtree fails *)
Theorem C17_node_iter : forall H src n m depth len ns, summ H n m -> node_iter src n depth len = Ok ns ->
  exists ms, node_iter src m depth len = Ok ms /\ Forall2 (summ H) ns ms.
Proof. intros H src n m depth len ns Hs Hn. exact (psim_ok _ _ _ ns (p_node_iter H src n m depth len Hs) Hn). Qed.

(* the packed-element and bit iterators: whenever both trees answer, the answers are equal (the complete side of a
   tree that represents a value always answers: C15) *)
Theorem C17_packed_iter : forall H src n m depth len e size xs ys, summ H n m ->
  packed_iter H src n depth len e size = Ok xs -> packed_iter H src m depth len e size = Ok ys -> xs = ys.
Proof. intros H src n m depth len e size xs ys Hs. exact (ag_packed_iter H src n m depth len e size Hs xs ys). Qed.
Theorem C17_bit_iter : forall H src n m depth len xs ys, summ H n m ->
  bit_iter H src n depth len = Ok xs -> bit_iter H src m depth len = Ok ys -> xs = ys.
Proof. intros H src n m depth len xs ys Hs. exact (ag_bit_iter H src n m depth len Hs xs ys). Qed.

(* object export: an export that succeeds on a partial version of a tree representing value v is the export of
   the complete tree, and importing it gives back v's freshly constructed backing *)
Theorem C17_export : forall H src t n m o o', summ H n m -> to_obj H src t n = Ok o -> to_obj H src t m = Ok o' -> o = o'.
Proof. intros H src t n m o o' Hs. exact (ag_to_obj H src t n m Hs o o'). Qed.
Theorem C17_export_is_value : forall H src t v n m n0 o, wf_ty t = true -> fields_ok t = true -> wf t v = true ->
  Repr H t v m -> mk H t v = Ok n0 -> summ H n m -> to_obj H src t n = Ok o ->
  to_obj H src t m = Ok o /\ from_obj H t o = Ok n0.
Proof. exact partial_export_is_value. Qed.

Print Assumptions C17_node_iter.
Print Assumptions C17_packed_iter.
Print Assumptions C17_bit_iter.
Print Assumptions C17_export.
Print Assumptions C17_export_is_value.

(* ---- the other direction (PartialErrors.v): where the complete tree answers, the partial tree gives the related
        answer or a navigation / index error ---- *)
(* how to read `nsim R partial complete` *)
Theorem C17_two_way_reading : forall A (R : A -> A -> Prop) rp rc,
  nsim R rp rc ->
  (forall x, rp = Ok x -> exists y, rc = Ok y /\ R x y) /\
  (forall y, rc = Ok y -> (exists x, rp = Ok x /\ R x y) \/ rp = Err ENav \/ rp = Err EIndex).
Proof. intros A R rp rc Hn. split; [exact (proj1 Hn)|intros y Hy; exact (nsim_complete R rp rc y Hn Hy)]. Qed.

(* every view operation and serialisation, partial tree n against complete tree m (sn n m := summ n m /\ novirt m) *)
Theorem C17_view_ops_two_way : forall H src, Hinj H -> forall t n m, sn H n m ->
  (forall i, nsim (sn H) (view_get H src t n i) (view_get H src t m i)) /\
  (forall i x w, sn H x w -> nsim (sn H) (view_set H src t n i x) (view_set H src t m i w)) /\
  (forall x w, sn H x w -> nsim (sn H) (list_append H src t n x) (list_append H src t m w)) /\
  nsim (sn H) (list_pop H src t n) (list_pop H src t m) /\
  (forall i, nsim eq (bits_get H src t n i) (bits_get H src t m i)) /\
  (forall i b, nsim (sn H) (bits_set H src t n i b) (bits_set H src t m i b)) /\
  (forall b, nsim (sn H) (bitlist_append H src t n b) (bitlist_append H src t m b)) /\
  nsim (sn H) (bitlist_pop H src t n) (bitlist_pop H src t m) /\
  nsim eq (view_len H src t n) (view_len H src t m) /\
  nsim eq (union_selector H src t n) (union_selector H src t m) /\
  nsim eq (ser_impl H src t n) (ser_impl H src t m).
Proof.
  intros H src Hi t n m Hs.
  exact (conj (fun i => n_view_get H src t n m i Hs)
        (conj (fun i x w Hx => n_view_set H src Hi t n m i x w Hs Hx)
        (conj (fun x w Hx => n_list_append H src Hi t n m x w Hs Hx)
        (conj (n_list_pop H src Hi t n m Hs)
        (conj (fun i => n_bits_get H src t n m i Hs)
        (conj (fun i b => n_bits_set H src Hi t n m i b Hs)
        (conj (fun b => n_bitlist_append H src Hi t n m b Hs)
        (conj (n_bitlist_pop H src Hi t n m Hs)
        (conj (n_view_len H src t n m Hs)
        (conj (n_union_selector H src t n m Hs)
              (n_ser H src t n m Hs))))))))))).
Qed.

(* in plain words for element reads: the complete tree returns y => the partial tree returns a summary of y or fails
   with a navigation / index error *)
Theorem C17_view_get_complete : forall H src, Hinj H -> forall t n m i y, summ H n m -> novirt m ->
  view_get H src t m i = Ok y ->
  (exists x, view_get H src t n i = Ok x /\ summ H x y) \/ view_get H src t n i = Err ENav \/ view_get H src t n i = Err EIndex.
Proof.
  intros H src Hi t n m i y Hs Hnv Hy.
  destruct (nsim_complete (sn H) _ _ y (n_view_get H src t n m i (conj Hs Hnv)) Hy) as [(x & Hx & Hxy & _)|E]; [left; eauto|right; exact E].
Qed.

(* store level: a command (hook propagation included) that succeeds on the store of complete trees can fail on the
   store of partial trees only with a navigation / index error *)
Theorem C17_store_errors : forall H src, Hinj H -> forall sp sc c e sp' sc', psrel H sp sc ->
  run_cmd H src sp c = (Err e, sp') -> run_cmd H src sc c = (Ok tt, sc') -> e = ENav \/ e = EIndex.
Proof. exact run_cmd_naverr. Qed.

Print Assumptions C17_two_way_reading.
Print Assumptions C17_view_ops_two_way.
Print Assumptions C17_view_get_complete.
Print Assumptions C17_store_errors.

(* ---- iterators and export, the other direction (PartialReads.v): where the complete tree answers, the partial tree
        gives the same answer or fails with a navigation / index error ---- *)
Theorem C17_iterators_complete : forall H src n m depth len, sn H n m ->
  (forall ms, node_iter src m depth len = Ok ms ->
     (exists ns, node_iter src n depth len = Ok ns /\ Forall2 (sn H) ns ms) \/ (exists e, node_iter src n depth len = Err e /\ (e = ENav \/ e = EIndex))) /\
  (forall e size ys, packed_iter H src m depth len e size = Ok ys ->
     packed_iter H src n depth len e size = Ok ys \/ (exists er, packed_iter H src n depth len e size = Err er /\ (er = ENav \/ er = EIndex))) /\
  (forall ys, bit_iter H src m depth len = Ok ys ->
     bit_iter H src n depth len = Ok ys \/ (exists er, bit_iter H src n depth len = Err er /\ (er = ENav \/ er = EIndex))).
Proof.
  intros H src n m depth len Hs. repeat split.
  - intros ms Hm. exact (c_node_iter H src n m depth len Hs ms Hm).
  - intros e size ys Hm. destruct (c_packed_iter H src n m depth len e size Hs ys Hm) as [(xs & Hx & ->)|E]; [left; exact Hx|right; exact E].
  - intros ys Hm. destruct (c_bit_iter H src n m depth len Hs ys Hm) as [(xs & Hx & ->)|E]; [left; exact Hx|right; exact E].
Qed.

Theorem C17_export_complete : forall H src t n m o, sn H n m -> to_obj H src t m = Ok o ->
  to_obj H src t n = Ok o \/ (exists e, to_obj H src t n = Err e /\ (e = ENav \/ e = EIndex)).
Proof. intros H src t n m o Hs Ho. destruct (c_to_obj H src t n m Hs o Ho) as [(o' & Ho' & ->)|E]; [left; exact Ho'|right; exact E]. Qed.

(* for a tree representing a value: the export of any partial version of it is the value's export or a navigation / index error *)
Theorem C17_export_total : forall H src t v n m n0, wf_ty t = true -> fields_ok t = true -> wf t v = true ->
  Repr H t v m -> mk H t v = Ok n0 -> sn H n m ->
  (exists o, to_obj H src t n = Ok o /\ to_obj H src t m = Ok o /\ from_obj H t o = Ok n0) \/
  (exists e, to_obj H src t n = Err e /\ (e = ENav \/ e = EIndex)).
Proof. exact partial_export_total. Qed.

Print Assumptions C17_iterators_complete.
Print Assumptions C17_export_complete.
Print Assumptions C17_export_total.
