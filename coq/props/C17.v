(* C17 — partial trees: summaries keep the root, excluded data is never misread.
   Property theorems only (tree level; every view operation of the model is a composition of
   getter / setter / root / children, and the view level is tied by the correspondence).
   summ n m : n is m with some subtrees replaced by RootN (root subtree). *)
Require Import RM.Base RM.Gindex RM.Tree RM.TreeProofs RM.PartialProofs.

Theorem C17_root : forall H n m, summ H n m -> root H n = root H m.
Proof. exact summ_root. Qed.

(* a read that succeeds on the partial tree returns (a summary of) the complete tree's subtree *)
Theorem C17_get : forall H src p n m x, summ H n m -> getter src n p = Ok x ->
  exists y, getter src m p = Ok y /\ summ H x y.
Proof. exact summ_get. Qed.

(* a write that succeeds on the partial tree succeeds on the complete tree with the same root *)
Theorem C17_set : forall H src n m p v n', summ H n m -> setter H src false n p v = Ok n' ->
  exists m', setter H src false m p v = Ok m' /\ summ H n' m' /\ root H n' = root H m'.
Proof. exact summ_set. Qed.

(* the same for expanding writes (append): a summary is expanded only when it is the zero hash of
   its height, and then (Hinj) the complete tree holds zeros there *)
Theorem C17_set_expand : forall H src (Hi : Hinj H) p n m v n', novirt m -> summ H n m ->
  setter_below H src true n p v = Ok n' ->
  exists m', setter_below H src true m p v = Ok m' /\ root H n' = root H m'.
Proof. exact summ_set_expand. Qed.

(* any access that needs an excluded subtree fails with a navigation error, never wrong data *)
Theorem C17_errors : forall H src n p,
  (forall e, getter src n p = Err e -> e = ENav) /\
  (forall ex v e, setter H src ex n p v = Err e -> e = ENav).
Proof. exact partial_errors. Qed.

(* summarize_into produces such a partial tree *)
Theorem C17_summarize : forall H src n p n', novirt n -> summarize_into H src n p = Ok n' -> summ H n' n.
Proof. exact summarize_is_summ. Qed.

Definition Hcat (a b : bytes) : bytes := a ++ b.
Example C17_nonvacuous :
  let m := PairN (PairN (RootN [x01]) (RootN [x02])) (RootN [x03]) in
  summ Hcat (PairN (RootN [x01; x02]) (RootN [x03])) m /\
  getter (fun _ => None) (PairN (RootN [x01; x02]) (RootN [x03])) [false; true] = Err ENav.
Proof.
  split; [|reflexivity]. apply summ_pair; [|apply summ_refl].
  exact (summ_cut Hcat (PairN (RootN [x01]) (RootN [x02]))).
Qed.

Print Assumptions C17_root.
Print Assumptions C17_get.
Print Assumptions C17_set.
Print Assumptions C17_set_expand.
Print Assumptions C17_errors.
Print Assumptions C17_summarize.
Print Assumptions C17_nonvacuous.
