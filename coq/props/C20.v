(* C20 — lazily loaded (virtual) trees behave exactly like materialised trees.
   Property theorems only.  consistent src m : src is a root-keyed store of the materialised tree m.
   vrel v m : v is m with some subtrees replaced by virtual nodes carrying their roots. *)
Require Import RM.Base RM.Gindex RM.Tree RM.TreeProofs RM.Types RM.ModelCodec RM.ModelMut RM.VirtualProofs RM.VirtualViews RM.ModelStore RM.VirtualStore RM.ModelIters RM.ModelObj RM.VirtualReads.

Theorem C20_root : forall H src v m, vrel H src v m -> root H v = root H m.
Proof. exact vrel_root. Qed.

(* same navigation results (related nodes, equal roots) and the same navigation errors *)
Theorem C20_get : forall H src p v m, vrel H src v m -> novirt m ->
  match getter src m p with
  | Ok y => exists x, getter src v p = Ok x /\ vrel H src x y
  | Err e => getter src v p = Err e
  end.
Proof. exact vrel_get. Qed.

(* same results of writes, with or without expansion: success with related trees and equal roots,
   or the same error *)
Theorem C20_set : forall H src e p v m x, vrel H src v m -> novirt m ->
  (exists l r, children src m = Some (l, r)) ->
  match setter H src e m p x with
  | Ok m' => exists v', setter H src e v p x = Ok v' /\ vrel H src v' m' /\ root H v' = root H m'
  | Err er => setter H src e v p x = Err er
  end.
Proof. exact vrel_set. Qed.

(* in particular for the virtual node created from a root over a consistent source *)
Theorem C20_virtual_root_node : forall H src p m, consistent H src m -> novirt m ->
  match getter src m p with
  | Ok y => exists x, getter src (VirtN (root H m)) p = Ok x /\ root H x = root H y
  | Err e => getter src (VirtN (root H m)) p = Err e
  end.
Proof.
  intros H src p m Hc Hm. pose proof (vrel_get H src p _ m (vrel_virt H src m Hc) Hm) as Hg.
  destruct (getter src m p); [|exact Hg]. destruct Hg as (x & Hx & Hr). exists x. split; [exact Hx|].
  now apply (vrel_root H src).
Qed.

(* each node obtains a given child from its source at most once and asks is_leaf at most once *)
Theorem C20_memo : forall src r os,
  let l := snd (vrun src r (vinit) os) in
  count (QLeft, true) l <= 1 /\ count (QRight, true) l <= 1 /\ count (QLeaf, true) l <= 1.
Proof. exact memo_once. Qed.

Definition Hcat (a b : bytes) : bytes := a ++ b.
Example C20_nonvacuous :
  let m := PairN (RootN [x01]) (RootN [x02]) in
  let src := fun k : bytes => if bytes_eqb k [x01; x02] then Some ([x01], [x02]) else None in
  consistent Hcat src m /\ getter src (VirtN [x01; x02]) [true] = Ok (VirtN [x02]).
Proof. repeat split. Qed.

Print Assumptions C20_root.
Print Assumptions C20_get.
Print Assumptions C20_set.
Print Assumptions C20_virtual_root_node.
Print Assumptions C20_memo.
Print Assumptions C20_nonvacuous.

(* ---- view level (VirtualViews.v).  vr v m: v is m with subtrees replaced by virtual nodes over the consistent source.
   sim R rv rm: the virtual side gives the SAME failure as the materialised side, or related successes.  Every view
   operation of the model computes on the virtual tree what it computes on the materialised tree: the same data, the
   same errors, and again related (equally rooted) backings, so operations compose into histories. ---- *)
Theorem C20_view_start : forall H src m, consistent H src m -> vr H src (VirtN (root H m)) m.
Proof. exact vr_start. Qed.

Theorem C20_related_roots : forall H src v m, vr H src v m -> root H v = root H m.
Proof. exact vr_same_root. Qed.

Theorem C20_view_get : forall H src t v m i, vr H src v m -> sim (vr H src) (view_get H src t v i) (view_get H src t m i).
Proof. exact vr_view_get. Qed.

Theorem C20_view_set : forall H src t v m i xv xm, vr H src v m -> vr H src xv xm ->
  sim (vr H src) (view_set H src t v i xv) (view_set H src t m i xm).
Proof. exact vr_view_set. Qed.

Theorem C20_lengths : forall H src t v m, vr H src v m -> sim eq (view_len H src t v) (view_len H src t m).
Proof. exact vr_view_len. Qed.

Theorem C20_list_append : forall H src t v m xv xm, vr H src v m -> vr H src xv xm ->
  sim (vr H src) (list_append H src t v xv) (list_append H src t m xm).
Proof. exact vr_list_append. Qed.

Theorem C20_list_pop : forall H src t v m, vr H src v m -> sim (vr H src) (list_pop H src t v) (list_pop H src t m).
Proof. exact vr_list_pop. Qed.

Theorem C20_bits_get : forall H src t v m i, vr H src v m -> sim eq (bits_get H src t v i) (bits_get H src t m i).
Proof. exact vr_bits_get. Qed.

Theorem C20_bits_set : forall H src t v m i b, vr H src v m -> sim (vr H src) (bits_set H src t v i b) (bits_set H src t m i b).
Proof. exact vr_bits_set. Qed.

Theorem C20_bitlist_append : forall H src t v m b, vr H src v m ->
  sim (vr H src) (bitlist_append H src t v b) (bitlist_append H src t m b).
Proof. exact vr_bitlist_append. Qed.

Theorem C20_bitlist_pop : forall H src t v m, vr H src v m -> sim (vr H src) (bitlist_pop H src t v) (bitlist_pop H src t m).
Proof. exact vr_bitlist_pop. Qed.

Theorem C20_union_value : forall H src t v m, vr H src v m ->
  sim (fun a b => match a, b with None, None => True | Some (o, x), Some (o', y) => o = o' /\ vr H src x y | _, _ => False end)
      (union_value H src t v) (union_value H src t m).
Proof. exact vr_union_value. Qed.

Print Assumptions C20_view_start.
Print Assumptions C20_related_roots.
Print Assumptions C20_view_get.
Print Assumptions C20_view_set.
Print Assumptions C20_lengths.
Print Assumptions C20_list_append.
Print Assumptions C20_list_pop.
Print Assumptions C20_bits_get.
Print Assumptions C20_bits_set.
Print Assumptions C20_bitlist_append.
Print Assumptions C20_bitlist_pop.
Print Assumptions C20_union_value.

(* the encoding (bytes and reported count) of a view over the virtual tree is the encoding over the materialised
   tree, for every type (same result, errors included) *)
Theorem C20_encoding : forall H src t v m, vr H src v m -> ser_impl H src t v = ser_impl H src t m.
Proof. exact vr_ser. Qed.

Print Assumptions C20_encoding.

(* ---- store level (VirtualStore.v): views WITH their hooks.  srel sv sm: cell by cell the same type and hook and
   related backings.  Any command — child reads, union values, copies, every mutation with its propagation through the
   hook chain — gives the same result on both stores and keeps them related; hence whole histories, through any of
   the held views in any order, agree, and every held view has the same root and the same encoding on both sides. *)
Theorem C20_store_start : forall H src t m, consistent H src m ->
  srel H src [{| cty := t; cback := VirtN (root H m); chook := HNone |}] [{| cty := t; cback := m; chook := HNone |}].
Proof. exact srel_start. Qed.

Theorem C20_store_command : forall H src sv sm c, srel H src sv sm -> rrel H src (run_cmd H src sv c) (run_cmd H src sm c).
Proof. exact run_cmd_sim. Qed.

Theorem C20_store_history : forall H src cs sv sm, srel H src sv sm ->
  fst (run_all H src sv cs) = fst (run_all H src sm cs) /\ srel H src (snd (run_all H src sv cs)) (snd (run_all H src sm cs)).
Proof. exact run_all_sim. Qed.

Theorem C20_store_observed : forall H src sv sm, srel H src sv sm -> forall u cm, nth_error sm u = Some cm ->
  exists cv, nth_error sv u = Some cv /\ cty cv = cty cm /\ root H (cback cv) = root H (cback cm) /\
             ser_impl H src (cty cv) (cback cv) = ser_impl H src (cty cm) (cback cm).
Proof. exact srel_observed. Qed.

Print Assumptions C20_store_start.
Print Assumptions C20_store_command.
Print Assumptions C20_store_history.
Print Assumptions C20_store_observed.

(* reading: the three read-only iterators and object export give over the virtual tree exactly what they give over
   the materialised tree (same elements / bytes / bits in the same order, same errors; iterated nodes related) *)
Theorem C20_node_iter : forall H src av am depth len, vr H src av am ->
  sim (Forall2 (vr H src)) (node_iter src av depth len) (node_iter src am depth len).
Proof. exact vr_node_iter. Qed.

Theorem C20_packed_iter : forall H src av am depth len e size, vr H src av am ->
  packed_iter H src av depth len e size = packed_iter H src am depth len e size.
Proof. exact vr_packed_iter. Qed.

Theorem C20_bit_iter : forall H src av am depth len, vr H src av am -> bit_iter H src av depth len = bit_iter H src am depth len.
Proof. exact vr_bit_iter. Qed.

Theorem C20_export : forall H src t v m, vr H src v m -> to_obj H src t v = to_obj H src t m.
Proof. exact vr_to_obj. Qed.

Print Assumptions C20_node_iter.
Print Assumptions C20_packed_iter.
Print Assumptions C20_bit_iter.
Print Assumptions C20_export.
