(* C09 — decoding arbitrary bytes is safe: clean rejection or a well-formed value.
   Property theorems only.  Proved: the decoder model is a total function on every type, byte
   string and scope (structural recursion on the type, loops bounded by counts read from the input:
   termination by construction) and every failure is an error value (an ordinary exception);
   for the leaf kinds an accepted input yields a value whose encoding, length and re-decoding are
   consistent.  Soundness for composite kinds is tied by the correspondence + model-free oracles
   (readability, limits, content / root / encoding consistency, encode-decode stability). *)
Require Import RM.Base RM.Tree RM.Types RM.Spec RM.ModelViews RM.ModelCodec RM.CodecBasicProofs RM.SoundProofs.
Local Open Scope N_scope.

Theorem C09_total : forall H t s scope,
  (exists x, deser_impl H t s scope = Ok x) \/ (exists e, deser_impl H t s scope = Err e).
Proof. exact deser_total. Qed.

(* accepted uint input: the value re-encodes to the consumed bytes, has the type's length, and
   decodes again to itself *)
Theorem C09_uint_stable : forall H src k s nd rest, uint_size_ok k = true -> (N.to_nat k <= length s)%nat ->
  deser_impl H (TUint k) s k = Ok (nd, rest) ->
  exists e, ser_impl H src (TUint k) nd = Ok (e, k) /\ lenN e = k /\ deser_impl H (TUint k) e k = Ok (nd, []).
Proof.
  intros H src k s nd rest Hk Hlen Hd.
  destruct (deser_uint_canonical H src k s k nd rest Hlen Hd) as (_ & _ & e & He & Ee).
  exists e. split; [exact He|]. assert (length e = N.to_nat k) as Hl by (subst e; rewrite firstn_length; lia).
  split; [unfold lenN; lia|].
  cbn [deser_impl] in *. rewrite N.eqb_refl in *. cbn [negb] in *. unfold read in *. inversion Hd; subst nd rest.
  rewrite firstn_all2 by lia. rewrite skipn_all2 by lia. f_equal. f_equal. subst e. reflexivity.
Qed.

Theorem C09_bool_sound : forall H src s scope nd rest, deser_impl H TBool s scope = Ok (nd, rest) ->
  scope = 1 /\ exists b : bool, s = (if b then x01 else x00) :: rest /\ ser_impl H src TBool nd = Ok ([if b then x01 else x00], 1).
Proof. exact deser_bool_canonical. Qed.

(* the full statement, every type: whatever is accepted is a well-formed value (lengths within limits,
   integers in range, valid selector: `wf`), its backing is the constructor's (every element
   readable as in C01/C02), and content / encoding / byte length / hash-tree-root are mutually
   consistent: the root is the spec root, re-encoding gives the consumed bytes and their count *)
Theorem C09_sound : forall H src t s scope n rest, wf_ty t = true ->
  deser_impl H t s scope = Ok (n, rest) -> scope <= lenN s ->
  exists v, wf t v = true /\ mk H t v = Ok n /\ s = ser t v ++ rest /\ lenN (ser t v) = scope /\
            root H n = htr H t v /\ ser_impl H src t n = Ok (ser t v, scope).
Proof. intros H src t s scope n rest. exact (deser_canonical H t s scope n rest src). Qed.

(* ... and stable under a further encode / decode cycle *)
Theorem C09_stable : forall H src t bs n, wf_ty t = true -> lenN bs < 2 ^ 32 -> decode_bytes H t bs = Ok n ->
  exists e, ser_impl H src t n = Ok (e, lenN e) /\ decode_bytes H t e = Ok n.
Proof. intros H src t bs n. exact (decode_stable H t bs n src). Qed.

(* non-vacuity: both outcomes occur (over-limit list rejected, in-limit accepted) *)
Example C09_both_outcomes : forall H,
  (exists n, decode_bytes H (TList (TUint 2) 2) [x01; x00; x02; x00] = Ok n) /\
  (exists e, decode_bytes H (TList (TUint 2) 2) [x01; x00; x02; x00; x03; x00] = Err e) /\
  (exists e, decode_bytes H (TBitlist 3) [x00] = Err e) /\
  (exists e, decode_bytes H (TBitlist 3) [x1f] = Err e) /\
  (exists n, decode_bytes H (TBitlist 3) [x0f] = Ok n).
Proof. intros H. repeat split; vm_compute; eauto. Qed.

Print Assumptions C09_total.
Print Assumptions C09_sound.
Print Assumptions C09_stable.
Print Assumptions C09_uint_stable.
Print Assumptions C09_bool_sound.
