(* C19 — updates share all untouched subtrees and re-hash only the changed path.
   Property theorems only, on the heap model (addresses = object identity, lazily filled root
   caches, hash counter). *)
Require Import RM.Base RM.Gindex RM.Tree RM.TreeHeap RM.HeapProofs RM.HeapCost.

(* a write allocates new nodes only: every existing object (children AND cached roots) stays as it
   is, no hash is computed, and the result is again a well-formed heap *)
Theorem C19_setter_allocates_only : forall H e p h a v a' h', wfh h -> v < length (objs h) ->
  h_setter H e h a p v = Ok (a', h') ->
  extends h h' /\ hashes h' = hashes h /\ wfh h' /\ a' < length (objs h').
Proof. exact h_setter_extends. Qed.

(* the new node at each path step is a fresh pair whose OFF-PATH child is the very same address
   (the same node object) as in the old tree *)
Theorem C19_setter_sharing : forall H e b p h a v a' h' l r c,
  h_get h a = Some (HPair l r c) -> h_setter H e h a (b :: p) v = Ok (a', h') ->
  exists x, h_get h' a' = Some (HPair (if b then l else x) (if b then x else r) None).
Proof. exact h_setter_shares. Qed.

(* the heap write is the pure write: what the new address denotes is setter applied to what the old
   addresses denoted *)
Theorem C19_setter_refines : forall H e p h a v a' h' n nv, wfh h -> v < length (objs h) ->
  h_setter H e h a p v = Ok (a', h') -> den_of h a = Some n -> den_of h v = Some nv ->
  exists n', setter_below H (fun _ => None) e n p nv = Ok n' /\ den_of h' a' = Some n'.
Proof. exact h_setter_refines. Qed.

(* nothing is hashed for a node with a cached root or for a leaf *)
Theorem C19_cached_free : forall H f h a rt h',
  (exists l r c, h_get h a = Some (HPair l r (Some c))) \/ (exists r, h_get h a = Some (HRoot r)) ->
  h_root H (S f) h a = Some (rt, h') -> h' = h.
Proof. exact h_root_cached_free. Qed.

(* a second merkle_root() returns the same root and performs no hash (the heap, which includes the
   hash counter, is unchanged) — also through any other holder of the same address (copy, re-created view) *)
Theorem C19_idle : forall H f h a rt h', h_root H (S f) h a = Some (rt, h') ->
  h_root H (S f) h' a = Some (rt, h').
Proof. exact h_root_idle. Qed.

Definition Hcat (a b : bytes) : bytes := a ++ b.
Example C19_nonvacuous :
  let '(a, h) := h_load (PairN (PairN (RootN [x01]) (RootN [x02])) (RootN [x03])) h_empty in
  let '(v, h1) := h_load (RootN [x09]) h in
  match h_setter Hcat false h1 a [false; true] v with
  | Ok (a', h2) => (allocs h2 - allocs h1 = 2)%N /\ h_get h2 a' = Some (HPair 6 3 None) /\ hashes h2 = 0%N
  | Err _ => False
  end.
Proof. repeat split. Qed.

Print Assumptions C19_setter_allocates_only.
Print Assumptions C19_setter_sharing.
Print Assumptions C19_setter_refines.
Print Assumptions C19_cached_free.
Print Assumptions C19_idle.
Print Assumptions C19_nonvacuous.

(* ---- the cost of hash_tree_root (HeapCost.v).  unc h = number of pair objects in the heap without a cached root. ---- *)
(* every hash fills exactly one empty root cache: hashes + unc is invariant under merkle_root() *)
Theorem C19_potential : forall H f h a rt h', wfh h -> h_root H f h a = Some (rt, h') ->
  (hashes h' + N.of_nat (unc h') = hashes h + N.of_nat (unc h))%N.
Proof. exact h_root_potential. Qed.

(* a write hashes nothing (C19_setter_allocates_only) and leaves at most two more uncached pairs per path step — one
   per step when no zero summary is expanded; rebind_right (length / selector mix-in) leaves one *)
Theorem C19_write_cost : forall H e p h a v a' h', h_setter H e h a p v = Ok (a', h') ->
  unc h' <= unc h + 2 * length p /\ (e = false -> unc h' = unc h + length p).
Proof. exact h_setter_unc. Qed.

Theorem C19_rebind_cost : forall h a v a' h', h_rebind_right h a v = Ok (a', h') -> unc h' = unc h + 1 /\ hashes h' = hashes h.
Proof. exact h_rebind_right_unc. Qed.

(* hence the merkle_root() after a write hashes at most: whatever was unhashed before (e.g. a newly inserted, not yet
   hashed value) + the changed path (twice its length if zero summaries were expanded) *)
Theorem C19_rehash_bound : forall H e p h a v a' h' f rt h'', wfh h -> v < length (objs h) ->
  h_setter H e h a p v = Ok (a', h') -> h_root H f h' a' = Some (rt, h'') ->
  (hashes h'' - hashes h' <= N.of_nat (unc h) + 2 * N.of_nat (length p))%N /\
  (e = false -> (hashes h'' - hashes h' <= N.of_nat (unc h) + N.of_nat (length p))%N).
Proof. exact rehash_bound. Qed.

(* and when nothing is unhashed — nothing changed since the last computation, whichever view, copy or re-created view
   asks — no hash at all is performed *)
Theorem C19_nothing_to_hash : forall H f h a rt h', wfh h -> unc h = 0 -> h_root H f h a = Some (rt, h') -> hashes h' = hashes h.
Proof. exact nothing_unhashed_nothing_hashed. Qed.

Print Assumptions C19_potential.
Print Assumptions C19_write_cost.
Print Assumptions C19_rebind_cost.
Print Assumptions C19_rehash_bound.
Print Assumptions C19_nothing_to_hash.
