(* Run.v — glue used by the generated case files of the correspondence check:
   SHA-256 instance, compact printing of observations, mismatch listing. *)
From Coq Require Import String Ascii.
Require Export RM.Base RM.Hex RM.Gindex RM.Tree.
Require Import RM.Sha256.
Local Open Scope string_scope.

Definition HS := sha_pair_z.

Definition hexdigit (n : N) : ascii :=
  ascii_of_N (if (n <? 10)%N then n + 48 else n + 87)%N.
Fixpoint hex_of (bs : bytes) : string :=
  match bs with
  | [] => EmptyString
  | b :: r => let n := Byte.to_N b in String (hexdigit (n / 16)) (String (hexdigit (n mod 16)) (hex_of r))
  end.

Fixpoint pos_digits (fuel : nat) (n : N) (acc : string) : string :=
  match fuel with
  | O => acc
  | S f => let acc' := String (hexdigit (n mod 10)) acc in
           if (n <? 10)%N then acc' else pos_digits f (n / 10) acc'
  end.
Definition show_N (n : N) : string := pos_digits (S (N.size_nat n)) n EmptyString.
Definition show_Z (z : Z) : string :=
  match z with Zneg p => "-" ++ show_N (Npos p) | _ => show_N (Z.to_N z) end.
Definition show_err (e : err) : string :=
  match e with ENav => "nav" | EIndex => "index" | EKey => "key" | EValue => "value"
  | EType => "type" | EAttr => "attr" | EZeroDiv => "zerodiv" | EOther => "other" end.

Fixpoint ob_show (o : ob) : string :=
  match o with
  | OZ z => "Z" ++ show_Z z
  | OB b => "B" ++ hex_of b
  | OE e => "E" ++ show_err e
  | OL l => "[" ++ (fix go (l : list ob) : string :=
                      match l with [] => "" | x :: r => ob_show x ++ ";" ++ go r end) l ++ "]"
  end.

(* cases: (input, observation made on the implementation); result: the indices where the model's
   observation differs, with the model's observation *)
Fixpoint mism {C} (f : C -> ob) (i : N) (cs : list (C * ob)) : list (N * string) :=
  match cs with
  | [] => []
  | (c, o) :: r =>
      let m := f c in
      if ob_eqb m o then mism f (i + 1) r else (i, ob_show m) :: mism f (i + 1) r
  end.
Definition mismatches {C} (f : C -> ob) (cs : list (C * ob)) := mism f 0%N cs.

(* short constructors for emitted trees *)
Definition R (s : string) : node := RootN (unhex s).
Definition V (s : string) : node := VirtN (unhex s).
Definition P := PairN.
(* zero node of height d, as the library's zero_node(d) *)
Definition Zn (d : nat) : node := zero_node HS d.
(* lazily loaded (virtual) leaves; the correspondence runs them against a source without children (nosrc) *)
Definition VZn (d : nat) : node := VirtN (zero_hash HS d).

Definition nosrc : bytes -> option (bytes * bytes) := fun _ => None.
(* a root-keyed table as a source *)
Fixpoint tbl_src (t : list (bytes * (bytes * bytes))) (k : bytes) : option (bytes * bytes) :=
  match t with
  | [] => None
  | (a, v) :: r => if bytes_eqb a k then Some v else tbl_src r k
  end.

Definition oroot (r : result node) : ob := ob_res (fun n => OB (root HS n)) r.
