(* RunC13.v — evaluates the uint operator model on C13 cases. *)
Require Import RMR.Run RM.ModelBasic.
Inductive case :=
| CBin (w : Z) (op : binop) (refl : bool) (a : Z) (k : okind) (b : Z)
| CUn (w : Z) (op : unop) (a : Z)
| CCtor (w : Z) (x : Z).
(* observation: [value; width of the result type], or an error (class not compared) *)
Definition res (w : Z) (r : result Z) : ob :=
  match r with Ok v => OL [OZ v; OZ w] | Err _ => OE EOther end.
Definition run (c : case) : ob :=
  match c with
  | CBin w op refl a k b => OL [res w (uint_binop w op refl a k b)]
  | CUn w op a => OL [res w (uint_unop w op a)]
  | CCtor w x => OL [res w (mk_uint w x)]
  end.
