(* RunH.v — evaluates the store model on operation histories (C04, C05, C06, C14). *)
Require Import RMR.Run RM.Types RM.Spec RM.ModelViews RM.ModelCodec RM.ModelMut RM.ModelStore.
Local Open Scope N_scope.

Definition obs_cell (c : cell) : ob :=
  ob_anyerr (OL [OB (root HS (cback c));
                 ob_res (fun x => OB (fst x)) (ser_impl HS nosrc (cty c) (cback c))]).

Definition obs_store (s : store) : ob := OL (map obs_cell s).

(* one observation per command: [succeeded?, state of every held view afterwards] *)
Fixpoint run_cmds (s : store) (cs : list cmd) : list ob :=
  match cs with
  | [] => []
  | c :: r =>
      let '(res, s') := run_cmd HS nosrc s c in
      OL [Obool (match res with Ok _ => true | Err _ => false end); obs_store s'] :: run_cmds s' r
  end.

Definition case := (ty * val * list cmd)%type.
Definition run (c : case) : ob :=
  let '(t, v, cs) := c in
  match mk HS t v with
  | Err e => OL [OE EOther]
  | Ok nd =>
      let s0 := [{| cty := t; cback := nd; chook := HNone |}] in
      OL (obs_store s0 :: run_cmds s0 cs)
  end.

(* a history followed by one slice assignment `view[a:b] = values` through held view u (C14) *)
Fixpoint end_store (s : store) (cs : list cmd) : store :=
  match cs with [] => s | c :: r => end_store (snd (run_cmd HS nosrc s c)) r end.
Definition slice_op := (nat * Z * Z * list arg)%type.
Definition case2 := (case * option slice_op)%type.
Definition run2 (c2 : case2) : ob :=
  match snd c2 with
  | None => run (fst c2)
  | Some (u, a, b, args) =>
      let '(t, v, cs) := fst c2 in
      match mk HS t v with
      | Err e => OL [OE EOther]
      | Ok nd =>
          let s0 := [{| cty := t; cback := nd; chook := HNone |}] in
          let '(res, s2) := slice_set HS nosrc (end_store s0 cs) u a b args in
          OL (obs_store s0 :: run_cmds s0 cs ++
              [OL [Obool (match res with Ok _ => true | Err _ => false end); obs_store s2]])
      end
  end.
