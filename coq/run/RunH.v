(* RunH.v — evaluates the store model on operation histories (C04, C05, C06, C14). *)
Require Import RMR.Run RM.Types RM.Spec RM.ModelViews RM.ModelCodec RM.ModelMut RM.ModelStore.
Local Open Scope N_scope.

Definition obs_cell (c : cell) : ob :=
  ob_anyerr (OL [OB (root HS (cback c));
                 ob_res (fun x => OB (fst x)) (ser_impl HS nosrc (cty c) (cback c))]).

Definition obs_store (s : store) : ob := OL (map obs_cell s).

(* one observation per command: [succeeded?, state of every held view afterwards] *)
Fixpoint run_cmds (s : store) (cs : list cmd) : list ob :=
  match cs with
  | [] => []
  | c :: r =>
      let '(res, s') := run_cmd HS nosrc s c in
      OL [Obool (match res with Ok _ => true | Err _ => false end); obs_store s'] :: run_cmds s' r
  end.

Definition case := (ty * val * list cmd)%type.
Definition run (c : case) : ob :=
  let '(t, v, cs) := c in
  match mk HS t v with
  | Err e => OL [OE EOther]
  | Ok nd =>
      let s0 := [{| cty := t; cback := nd; chook := HNone |}] in
      OL (obs_store s0 :: run_cmds s0 cs)
  end.
