(* RunC07.v — evaluates the tree model on C07 cases. *)
Require Import RMR.Run.
Definition case := (node * N * bool * node * list N)%type.

Definition run (c : case) : ob :=
  let '(t, g, e, v, probes) := c in
  let s := setter_g HS nosrc e t g v in
  let m := summarize_into_g HS nosrc t g in
  OL [ oroot (getter_g nosrc t g);
       oroot s;
       match s with
       | Ok n' => OL (Obool true :: map (fun q => oroot (getter_g nosrc n' q)) probes)
       | Err _ => OL []
       end;
       Obool true;
       match m with
       | Ok n' => OL [OB (root HS n');
                      match getter_g nosrc n' g with
                      | Ok x => OL [Obool (is_leaf nosrc x); OB (root HS x)]
                      | Err e => OE e
                      end]
       | Err e => OE e
       end ].
