(* RunC16.v — evaluates object export / import. *)
Require Import RMR.Run RM.Types RM.Spec RM.ModelViews RM.ModelCodec RM.ModelObj.
Local Open Scope N_scope.
Definition case := (ty * val)%type.

Fixpoint obj_ob (o : obj) : ob :=
  match o with
  | JInt n => ON n
  | JBool b => OL [ON 100; Obool b]
  | JStr s => OB s
  | JSeq tp l => OL (ON (if tp then 102 else 101) :: map obj_ob l)
  | JDict kvs => OL (ON 103 :: map (fun kv => OL [OB (fst kv); obj_ob (snd kv)]) kvs)
  | JNull => OL [ON 104]
  end.

(* alternative spellings: integers as decimal strings, bitfields as '0101' text / lists of bools *)
Definition show_dec (n : N) : bytes :=
  (fix digits (fuel : nat) (n : N) (acc : bytes) : bytes :=
     match fuel with
     | O => acc
     | S f => let acc' := byte_of_N (48 + n mod 10) :: acc in
              if n <? 10 then acc' else digits f (n / 10) acc'
     end) 90%nat n [].
Fixpoint respell (t : ty) (v : val) {struct t} : obj :=
  match t, v with
  | TUint _, VUint n => JStr (show_dec n)
  | TBool, VBool b => JBool b
  | TBitvector _, VBits bs | TBitlist _, VBits bs => JStr (map (fun b : bool => byte_of_N (if b then 49 else 48)) bs)
  | TByteVector _, VBytes bs | TByteList _, VBytes bs => JStr (hex_text bs)      (* no 0x prefix *)
  | TVector e _, VSeq vs | TList e _, VSeq vs => JSeq false (map (respell e) vs)
  | TContainer fs, VCont vs =>
      JDict ((fix go (fs : list ty) (vs : list val) (i : nat) : list (bytes * obj) :=
                match fs, vs with
                | f :: fs', x :: vs' => (field_name i, respell f x) :: go fs' vs' (S i)
                | _, _ => []
                end) fs vs O)
  | TUnion none0 opts, VUnion sel ov =>
      JDict [(str_selector, JInt (N.of_nat sel));
             (str_value, match ov with
                         | None => JNull
                         | Some x => (fix pick (os : list ty) (i : nat) : obj :=
                                        match os, i with
                                        | o :: _, O => respell o x
                                        | _ :: os', S i' => pick os' i'
                                        | [], _ => JNull
                                        end) opts (if none0 then pred sel else sel)
                         end)]
  | _, _ => JNull
  end.

Definition run (c : case) : ob :=
  let '(t, v) := c in
  match mk HS t v with
  | Err _ => OE EOther
  | Ok nd =>
      let o := to_obj HS nosrc t nd in
      ob_anyerr (OL [ob_res obj_ob o;
                     oroot (do x <- o; from_obj HS t x);
                     oroot (do x <- o; from_obj HS t (json_rt x));
                     oroot (from_obj HS t (respell t v));
                     OB (root HS nd)])
  end.
