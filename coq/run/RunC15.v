(* RunC15.v — evaluates read paths: indexing, the stack iterators, equality. *)
Require Import RMR.Run RM.Types RM.Spec RM.ModelViews RM.ModelCodec RM.ModelMut RM.ModelIters.
Local Open Scope N_scope.
Definition case := (ty * val * val)%type.

Definition elem_ob (e : ty) (nd : node) : ob :=
  match basic_size e with
  | Some s => OB (firstn (N.to_nat s) (root HS nd))
  | None => OB (root HS nd)
  end.

Definition reads (t : ty) (nd : node) : ob :=
  match t with
  | TVector e _ | TList e _ =>
      match view_len HS nosrc t nd with
      | Err _ => OE EOther
      | Ok ll =>
          let idx := seq_res (map (fun i => view_get HS nosrc t nd (Z.of_N i)) (iotaN (N.to_nat ll))) in
          let ro := match basic_size e with
                    | Some s => rmap (map OB) (packed_iter HS nosrc nd (tree_depth t) ll e s)
                    | None => rmap (map (fun x => OB (root HS x))) (node_iter nosrc nd (tree_depth t) ll)
                    end in
          OL [ON ll; ob_anyerr (ob_res (fun l => OL (map (elem_ob e) l)) idx); ob_anyerr (ob_res OL ro)]
      end
  | TBitvector _ | TBitlist _ =>
      match bits_len HS nosrc t nd with
      | Err _ => OE EOther
      | Ok ll =>
          let idx := seq_res (map (fun i => bits_get HS nosrc t nd (Z.of_N i)) (iotaN (N.to_nat ll))) in
          let anchor := match t with TBitlist _ => get_left nosrc nd | _ => Ok nd end in
          let it := do a <- anchor; bit_iter HS nosrc a (contents_depth t) ll in
          OL [ON ll; ob_anyerr (ob_res (fun l => OL (map Obool l)) idx); ob_anyerr (ob_res (fun l => OL (map Obool l)) it)]
      end
  | TContainer fs =>
      let idx := seq_res (map (fun i => view_get HS nosrc t nd (Z.of_N i)) (iotaN (length fs))) in
      let it := node_iter nosrc nd (tree_depth t) (lenN fs) in
      OL [ON (lenN fs); ob_anyerr (ob_res (fun l => OL (map (fun x => OB (root HS x)) l)) idx);
          ob_anyerr (ob_res (fun l => OL (map (fun x => OB (root HS x)) l)) it)]
  | _ => OL []
  end.

Definition run (c : case) : ob :=
  let '(t, v, w) := c in
  match mk HS t v, mk HS t w with
  | Ok a, Ok b =>
      OL [reads t a; Obool (bytes_eqb (root HS a) (root HS b))]
  | _, _ => OE EOther
  end.
