(* RunC18.v — evaluates history / diff / leaf_iter models. *)
Require Import RMR.Run RM.ModelHistory.
Definition case := (list (N * node) * N * node * node)%type.

Fixpoint diff_paths (a b : node) (p : list bool) : list (list bool * node) :=
  if bytes_eqb (root HS a) (root HS b) then []
  else match a, b with
       | PairN al ar, PairN bl br => diff_paths al bl (p ++ [false]) ++ diff_paths ar br (p ++ [true])
       | _, _ => [(p, b)]
       end.
Definition graft (a b : node) : result node :=
  fold_left (fun acc pb => do n <- acc; setter HS nosrc false n (fst pb) (snd pb)) (diff_paths a b []) (Ok a).

Definition run (c : case) : ob :=
  let '(h, g, a, b) := c in
  OL [ match get_target_history HS nosrc h g with
       | Ok l => OL (map (fun kn => OL [ON (fst kn); OB (root HS (snd kn))]) l)
       | Err e => OE EOther
       end;
       OL (map (fun xy => OL [OB (root HS (fst xy)); OB (root HS (snd xy))]) (get_diff HS a b));
       ob_anyerr (oroot (graft a b));
       OL (map (fun x => OB (root HS x)) (leaf_iter a)) ].
