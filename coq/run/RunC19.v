(* RunC19.v — evaluates the heap model: sharing pattern and hash counts of tree updates. *)
Require Import RMR.Run RM.TreeHeap.
Local Open Scope N_scope.

Inductive op := OpSet (g : N) (expand : bool) (v : node) | OpSummarize (g : N) | OpRebindRight (v : node).
(* tree, roots cached beforehand?, operation, implementation's counts: (fresh nodes, hashes during the
   operation, hashes of the following merkle_root()) *)
Definition case := (node * bool * op * (N * N * N))%type.

(* along path p: is the off-path child of the new tree the same object as in the old tree? *)
Fixpoint sharing (h : heap) (old new : addr) (p : list bool) : list ob :=
  match p with
  | [] => []
  | b :: p' =>
      match h_children h old, h_children h new with
      | Some (ol, or_), Some (nl, nr) =>
          Obool (Nat.eqb (if b then ol else or_) (if b then nl else nr))
          :: sharing h (if b then or_ else ol) (if b then nr else nl) p'
      | _, _ => []       (* below an expansion point there is no old counterpart *)
      end
  end.

Definition run (c : case) : ob :=
  let '(t, pre, o, (ifresh, ihash_op, ihash_root)) := c in
  let '(a, h0) := h_load t h_empty in
  let h1 := if pre then match h_root_of HS h0 a with Some (_, h) => h | None => h0 end else h0 in
  let res : result (addr * heap * list bool) :=
    match o with
    | OpSet g e v =>
        match path_of_gindex g with
        | None => Err ENav
        | Some p => let '(va, h2) := h_load v h1 in
                    do x <- h_setter HS e h2 a p va; Ok (fst x, snd x, p)
        end
    | OpSummarize g =>
        match path_of_gindex g with
        | None => Err ENav
        | Some p => do x <- h_summarize HS h1 a p; Ok (fst x, snd x, p)
        end
    | OpRebindRight v =>
        let '(va, h2) := h_load v h1 in
        do x <- h_rebind_right h2 a va; Ok (fst x, snd x, [true])
    end in
  match res with
  | Err e => OL [OE EOther]
  | Ok (na, h3, p) =>
      let fresh_model := allocs h3 - allocs h1 in
      let hash_op := hashes h3 - hashes h1 in
      match h_root_of HS h3 na with
      | None => OL [OE EOther]
      | Some (rt, h4) =>
          let hash_root := hashes h4 - hashes h3 in
          let idle := match h_root_of HS h4 na with Some (_, h5) => hashes h5 - hashes h4 | None => 99 end in
          OL [Obool true; OB rt; OL (sharing h3 a na p);
              (* the implementation never allocates / hashes more than the model *)
              Obool (ifresh <=? fresh_model); Obool (ihash_op <=? hash_op); Obool (ihash_root <=? hash_root);
              ON idle]
      end
  end.
