(* RunC20.v — views over a lazily loaded (virtual) tree served by a root-keyed table. *)
Require Import RMR.Run RM.Types RM.Spec RM.ModelViews RM.ModelCodec RM.ModelMut RM.ModelStore.
Local Open Scope N_scope.

Fixpoint pairs_of (n : node) : list (bytes * (bytes * bytes)) :=
  match n with
  | PairN l r => (root HS n, (root HS l, root HS r)) :: pairs_of l ++ pairs_of r
  | _ => []
  end.

Definition obs_cell (sr : bytes -> option (bytes * bytes)) (c : cell) : ob :=
  ob_anyerr (OL [OB (root HS (cback c));
                 ob_res (fun x => OB (fst x)) (ser_impl HS sr (cty c) (cback c))]).
Definition obs_store sr (s : store) : ob := OL (map (obs_cell sr) s).

Fixpoint run_cmds sr (s : store) (cs : list cmd) : list ob :=
  match cs with
  | [] => []
  | c :: r =>
      let '(res, s') := run_cmd HS sr s c in
      OL [Obool (match res with Ok _ => true | Err _ => false end); obs_store sr s'] :: run_cmds sr s' r
  end.

Definition case := (ty * val * list cmd * list N)%type.
Definition run (c : case) : ob :=
  let '(t, v, cs, gs) := c in
  match mk HS t v with
  | Err e => OL [OE EOther]
  | Ok nd =>
      let sr := tbl_src (pairs_of nd) in
      let vn := VirtN (root HS nd) in
      let s0 := [{| cty := t; cback := vn; chook := HNone |}] in
      OL (OL [obs_store sr s0;
              (* navigation on the bare virtual node: roots or errors *)
              ob_anyerr (OL (map (fun g => oroot (getter_g sr vn g)) gs))]
          :: run_cmds sr s0 cs)
  end.
