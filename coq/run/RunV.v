(* RunV.v — evaluates the view-level model (constructors, codec, type facts, defaults). *)
Require Import RMR.Run RM.Types RM.Spec RM.ModelViews RM.ModelCodec.
Local Open Scope N_scope.

Definition mkv := mk HS.
Definition serv := ser_impl HS nosrc.
Definition deserv := deser_impl HS.

Definition oser (r : result (bytes * N)) : ob :=
  match r with Ok (b, c) => OL [OB b; ON c] | Err e => OE e end.

(* C01: root of the constructed value, and of the value decoded from its own encoding *)
Definition run_c01 (c : ty * val) : ob :=
  let '(t, v) := c in
  let n := mkv t v in
  let viadec := do nd <- n; do e <- serv t nd; do x <- deserv t (fst e) (lenN (fst e)); Ok (fst x) in
  ob_anyerr (OL [oroot n; oroot viadec; oroot n; oroot n; oroot n]).

(* C02: encode_bytes, serialize(stream) (bytes, returned count), bytes(value) *)
Definition run_c02 (c : ty * val) : ob :=
  let '(t, v) := c in
  let e := do nd <- mkv t v; serv t nd in
  ob_anyerr (OL [ob_res (fun x => OB (fst x)) e; oser e; ob_res (fun x => OB (fst x)) e]).

(* C03: decode from a stream holding the encoding followed by a suffix *)
Definition run_c03 (c : ty * val * bytes) : ob :=
  let '(t, v, sfx) := c in
  let r := do nd <- mkv t v; do e <- serv t nd;
           do x <- deserv t (fst e ++ sfx) (lenN (fst e));
           do e2 <- serv t (fst x);
           Ok (OL [Obool true; OB (root HS (fst x)); OB (fst e2);
                   Obool (bytes_eqb (root HS (fst x)) (root HS nd));
                   ON (lenN (fst e) + lenN sfx - lenN (snd x))]) in
  ob_anyerr (match r with Ok o => o | Err e => OL [OE e] end).

(* C09 / C10: decode arbitrary bytes with their length as scope *)
Definition run_dec (c : ty * bytes) : ob :=
  let '(t, bs) := c in
  match deserv t bs (lenN bs) with
  | Err _ => OL [Obool false; OL []]
  | Ok (nd, rest) =>
      let e := serv t nd in
      let re := do e' <- e; do x <- deserv t (fst e') (lenN (fst e')); Ok (fst x) in
      OL [Obool true; ob_anyerr (OL [OB (root HS nd); oser e; oroot re])]
  end.

(* C11: type facts and the value's reported length *)
Definition run_c11 (c : ty * val) : ob :=
  let '(t, v) := c in
  OL [Obool (is_fixed_impl t); ob_anyerr (ob_res ON (type_byte_length_impl t)); ON (min_impl t); ON (max_impl t);
      ob_anyerr (ob_res (fun x => ON (snd x)) (do nd <- mkv t v; serv t nd));
      (* spec side, for the record: the same facts from Types.v *)
      OL [Obool (is_fixed t); ON (min_len t); ON (max_len t)]].

(* C12: defaults *)
Definition run_c12 (c : ty * list N) : ob :=
  let '(t, gs) := c in
  let d := default_node HS t in
  let z := mkv t (zero_val t) in
  ob_anyerr (OL [oroot d; ob_res (fun x => OB (fst x)) (do nd <- d; serv t nd);
                 oroot z;
                 match d with
                 | Ok nd => OL (map (fun g => oroot (getter_g nosrc nd g)) gs)
                 | Err e => OE e
                 end]).
