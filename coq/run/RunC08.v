(* RunC08.v — evaluates path / gindex models. *)
Require Import RMR.Run RM.Types RM.Spec RM.ModelViews RM.ModelPaths.
Definition case := (ty * list pkey * val)%type.

(* spec gindex of the whole path: concatenation of the spec's steps *)
Fixpoint spec_path (t : ty) (ks : list pkey) : option N :=
  match ks with
  | [] => Some 1%N
  | k :: r =>
      match spec_key k with
      | None => None
      | Some sk =>
          match spec_step t sk with
          | None => None
          | Some (g, t') =>
              match spec_path t' r with
              | None => None
              | Some g' => match concat_gindices [g; g'] with Ok x => Some x | Err _ => None end
              end
          end
      end
  end.

Definition run (c : case) : ob :=
  let '(t, ks, v) := c in
  let g := path_gindex t ks in
  OL [ ob_anyerr (ob_res ON g);
       ob_anyerr (oroot (do t' <- path_type t ks; default_node HS t'));
       ob_anyerr (oroot (do gi <- g; do nd <- mk HS t v; getter_g nosrc nd gi));
       match spec_path t ks with Some x => ON x | None => OE EOther end ].
