(* RunC17.v — partial trees: summarise positions of a value's backing, then read / mutate. *)
Require Import RMR.Run RM.Types RM.Spec RM.ModelViews RM.ModelCodec RM.ModelMut RM.ModelStore.
Local Open Scope N_scope.

(* error classes the property distinguishes: navigation, index, anything else *)
Definition cls (e : err) : err := match e with ENav => ENav | EIndex => EIndex | _ => EOther end.
Fixpoint ob_cls (o : ob) : ob :=
  match o with OE e => OE (cls e) | OL l => OL (map ob_cls l) | x => x end.

Definition obs_cell (c : cell) : ob :=
  ob_cls (OL [OB (root HS (cback c));
              ob_res (fun x => OB (fst x)) (ser_impl HS nosrc (cty c) (cback c))]).
Definition obs_store (s : store) : ob := OL (map obs_cell s).

Fixpoint run_cmds (s : store) (cs : list cmd) : list ob :=
  match cs with
  | [] => []
  | c :: r =>
      let '(res, s') := run_cmd HS nosrc s c in
      OL [match res with Ok _ => Obool true | Err e => OE (cls e) end; obs_store s'] :: run_cmds s' r
  end.

(* summarize_into(g)() for each g; positions that cannot be navigated are skipped *)
Fixpoint summarise (nd : node) (gs : list N) : node * list ob :=
  match gs with
  | [] => (nd, [])
  | g :: r =>
      match summarize_into_g HS nosrc nd g with
      | Ok nd' => let '(n2, fl) := summarise nd' r in (n2, Obool true :: fl)
      | Err _ => let '(n2, fl) := summarise nd r in (n2, Obool false :: fl)
      end
  end.

Definition case := (ty * val * list N * list cmd)%type.
Definition run (c : case) : ob :=
  let '(t, v, gs, cs) := c in
  match mk HS t v with
  | Err e => OL [OE EOther]
  | Ok nd0 =>
      let '(nd, flags) := summarise nd0 gs in
      let s0 := [{| cty := t; cback := nd; chook := HNone |}] in
      OL (OL [OL flags; obs_store s0] :: run_cmds s0 cs)
  end.
