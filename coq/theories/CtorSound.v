(* CtorSound.v — C14 at construction: the constructor of every type accepts exactly the arguments that denote a
   valid value (canon: an omitted vector argument list / union value stands for the default, a 0/1 integer for a
   boolean) and the backing it builds represents that value. *)
Require Import RM.Base RM.Gindex RM.Tree RM.TreeProofs RM.Types RM.Spec RM.ModelViews RM.ModelCodec
               RM.SerLen RM.FactsProofs RM.MerkleProofs RM.PackProofs RM.CtorProofs RM.DefaultProofs RM.ChunkProofs
               RM.PathProofs RM.CRepProofs RM.SerProofs2 RM.SerAll RM.DefaultEq RM.ReprProofs.
From Coq Require Import ZifyBool ZifyNat ZifyN.
Local Open Scope N_scope.
Section WithHash.
Variable H : bytes -> bytes -> bytes.
Notation default_node := (default_node H).
Notation mk := (mk H).
(* the value a constructor argument denotes: an omitted vector argument list and an omitted union
   value stand for the default, a 0/1 integer for a boolean *)
Fixpoint canon (t : ty) (v : val) {struct t} : val :=
  match t, v with
  | TBool, VUint n => VBool (n =? 1)
  | TVector e n, VSeq vs => match vs with [] => zero_val t | _ => VSeq (map (canon e) vs) end
  | TList e l, VSeq vs => VSeq (map (canon e) vs)
  | TContainer fs, VCont vs =>
      VCont ((fix go (fs : list ty) (vs : list val) : list val :=
                match fs, vs with f :: fs', x :: vs' => canon f x :: go fs' vs' | _, _ => [] end) fs vs)
  | TUnion b os, VUnion sel ov =>
      if b && Nat.eqb sel 0 then v
      else (fix pick (os : list ty) (i : nat) : val :=
              match os, i with
              | o :: _, O => VUnion sel (Some (match ov with Some x => canon o x | None => zero_val o end))
              | _ :: os', S i' => pick os' i'
              | [], _ => v
              end) os (if b then pred sel else sel)
  | _, _ => v
  end.

Lemma seq_res_Forall2 {A B} (f : A -> result B) : forall l r, seq_res (map f l) = Ok r -> Forall2 (fun x y => f x = Ok y) l r.
Proof.
  induction l as [|a l IH]; intros r Hr; cbn [map seq_res] in Hr.
  - inversion Hr. constructor.
  - destruct (f a) as [y|] eqn:Hy; [|discriminate]. cbn [bind] in Hr.
    destruct (seq_res (map f l)) as [ys|] eqn:Hys; [|discriminate]. cbn [bind] in Hr. inversion Hr; subst. constructor; auto.
Qed.
Lemma Forall2_seq_res {A B} (f : A -> result B) : forall l r, Forall2 (fun x y => f x = Ok y) l r -> seq_res (map f l) = Ok r.
Proof. induction 1 as [|x y l r Hxy _ IH]; [reflexivity|]. cbn [map seq_res]. now rewrite Hxy, IH. Qed.

Lemma mk_basic_canon e s x k : basic_size e = Some s -> mk_basic e x = Ok k ->
  mk_basic e (canon e x) = Ok k /\ wf e (canon e x) = true.
Proof.
  destruct e; cbn [basic_size]; try discriminate; intros _; destruct x; cbn [mk_basic canon wf]; try discriminate.
  - destruct (n <? 2 ^ (8 * nbytes)) eqn:E; [|discriminate]. intros Hk. split; [exact Hk|reflexivity].
  - destruct (n <? 2) eqn:E; [|discriminate]. intros Hk. inversion Hk; subst k. apply N.ltb_lt in E.
    assert (n = 0 \/ n = 1) as [-> | ->] by lia; split; reflexivity.
  - intros Hk; split; [exact Hk|reflexivity].
Qed.

Lemma pick_nth' {A : Type} (F : ty -> A) (dflt : A) : forall os i,
  (fix pick (os : list ty) (i : nat) : A :=
     match os, i with o :: _, O => F o | _ :: os', S i' => pick os' i' | [], _ => dflt end) os i
  = match nth_error os i with Some o => F o | None => dflt end.
Proof. induction os as [|o os IH]; intros [|i]; cbn; auto. Qed.

Theorem mk_sound : forall t v n, wf_ty t = true -> mk t v = Ok n ->
  wf t (canon t v) = true /\ mk t (canon t v) = Ok n.
Proof.
  induction t as [k| |bn|bl|yn|yl|e n IHe|e l IHe|fs Hfs|b os Hos] using ty_ind'; intros v nd Hty Hmk.
  - (* uint *) destruct v; cbn [ModelViews.mk mk_basic] in Hmk; try discriminate.
    cbn [canon wf]. destruct (n <? 2 ^ (8 * k)) eqn:E; [|discriminate]. split; [reflexivity|].
    cbn [ModelViews.mk mk_basic]. now rewrite E.
  - (* bool *) destruct v; cbn [ModelViews.mk mk_basic] in Hmk; try discriminate.
    + destruct (n <? 2) eqn:E; [|discriminate]. apply N.ltb_lt in E. cbn [canon wf]. split; [reflexivity|].
      assert (n = 0 \/ n = 1) as [-> | ->] by lia; exact Hmk.
    + split; [reflexivity|exact Hmk].
  - destruct v; cbn [ModelViews.mk] in Hmk; try discriminate. cbn [canon wf]. split; [|exact Hmk].
    destruct (lenN bs =? bn); [reflexivity|discriminate].
  - destruct v; cbn [ModelViews.mk] in Hmk; try discriminate. cbn [canon wf]. split; [|exact Hmk].
    destruct (bl <? lenN bs) eqn:E; [discriminate|]. apply N.leb_le. apply N.ltb_ge in E. exact E.
  - destruct v; cbn [ModelViews.mk] in Hmk; try discriminate. cbn [canon wf]. split; [|exact Hmk].
    destruct (lenN bs =? yn); [reflexivity|discriminate].
  - destruct v; cbn [ModelViews.mk] in Hmk; try discriminate. cbn [canon wf]. split; [|exact Hmk].
    destruct (yl <? lenN bs) eqn:E; [discriminate|]. apply N.leb_le. apply N.ltb_ge in E. exact E.
  - (* vector *)
    pose proof Hty as Hty0. cbn [wf_ty] in Hty. apply andb_true_iff in Hty as [Hty Hnb]. apply andb_true_iff in Hty as [Hte Hn1]. apply N.leb_le in Hn1.
    destruct v as [| | | |vs| |]; cbn [ModelViews.mk] in Hmk; try discriminate.
    destruct vs as [|x0 xs].
    + cbn [canon]. split; [apply (wf_zero _ Hty0)|]. rewrite <- (default_eq_mk H _ Hty0). exact Hmk.
    + set (vs := x0 :: xs) in *.
      destruct (lenN vs =? n) eqn:Eln; cbn [negb] in Hmk; [|discriminate].
      assert (canon (TVector e n) (VSeq vs) = VSeq (map (canon e) vs)) as -> by reflexivity.
      assert (lenN (map (canon e) vs) = lenN vs) as Elm by (unfold lenN; now rewrite map_length).
      destruct (basic_size e) as [s|] eqn:Eb.
      * destruct (seq_res (map (mk_basic e) vs)) as [ks|] eqn:Hks; [|discriminate].
        pose proof (seq_res_Forall2 _ _ _ Hks) as HF.
        assert (Forall2 (fun x y => mk_basic e x = Ok y) (map (canon e) vs) ks /\ forallb (wf e) (map (canon e) vs) = true) as [HF2 Hall].
        { clear -HF Eb. induction HF as [|x y l r Hxy _ [IH1 IH2]]; [split; [constructor|reflexivity]|].
          destruct (mk_basic_canon e s x y Eb Hxy) as [Hc Hw]. cbn [map forallb]. rewrite Hw, IH2. split; [constructor; auto|reflexivity]. }
        split; [cbn [wf]; rewrite Elm, Eln, Hall; reflexivity|].
        cbn [ModelViews.mk]. unfold vs at 1. cbn [map]. fold vs. change (canon e x0 :: map (canon e) xs) with (map (canon e) vs).
        rewrite Elm, Eln. cbn [negb]. rewrite Eb. rewrite (Forall2_seq_res _ _ _ HF2). exact Hmk.
      * destruct (seq_res (map (mk e) vs)) as [ns|] eqn:Hns; [|discriminate].
        pose proof (seq_res_Forall2 _ _ _ Hns) as HF.
        assert (Forall2 (fun x y => mk e x = Ok y) (map (canon e) vs) ns /\ forallb (wf e) (map (canon e) vs) = true) as [HF2 Hall].
        { clear -HF IHe Hte. induction HF as [|x y l r Hxy _ [IH1 IH2]]; [split; [constructor|reflexivity]|].
          destruct (IHe x y Hte Hxy) as [Hw Hc]. cbn [map forallb]. rewrite Hw, IH2. split; [constructor; auto|reflexivity]. }
        split; [cbn [wf]; rewrite Elm, Eln, Hall; reflexivity|].
        cbn [ModelViews.mk]. unfold vs at 1. cbn [map]. fold vs. change (canon e x0 :: map (canon e) xs) with (map (canon e) vs).
        rewrite Elm, Eln. cbn [negb]. rewrite Eb. rewrite (Forall2_seq_res _ _ _ HF2). exact Hmk.
  - (* list *)
    pose proof Hty as Hty0. cbn [wf_ty] in Hty. apply andb_true_iff in Hty as [Hte Hlb].
    destruct v as [| | | |vs| |]; cbn [ModelViews.mk] in Hmk; try discriminate.
    destruct vs as [|x0 xs].
    + cbn [canon map wf forallb]. split; [rewrite andb_true_r; apply N.leb_le; unfold lenN; cbn; lia|exact Hmk].
    + set (vs := x0 :: xs) in *.
      destruct (l <? lenN vs) eqn:Eln; [discriminate|].
      assert (canon (TList e l) (VSeq vs) = VSeq (map (canon e) vs)) as -> by reflexivity.
      assert (lenN (map (canon e) vs) = lenN vs) as Elm by (unfold lenN; now rewrite map_length).
      assert ((lenN vs <=? l) = true) as Ele by (apply N.leb_le; apply N.ltb_ge in Eln; exact Eln).
      destruct (basic_size e) as [s|] eqn:Eb.
      * destruct (seq_res (map (mk_basic e) vs)) as [ks|] eqn:Hks; [|discriminate].
        pose proof (seq_res_Forall2 _ _ _ Hks) as HF.
        assert (Forall2 (fun x y => mk_basic e x = Ok y) (map (canon e) vs) ks /\ forallb (wf e) (map (canon e) vs) = true) as [HF2 Hall].
        { clear -HF Eb. induction HF as [|x y l r Hxy _ [IH1 IH2]]; [split; [constructor|reflexivity]|].
          destruct (mk_basic_canon e s x y Eb Hxy) as [Hc Hw]. cbn [map forallb]. rewrite Hw, IH2. split; [constructor; auto|reflexivity]. }
        split; [cbn [wf]; rewrite Elm, Ele, Hall; reflexivity|].
        cbn [ModelViews.mk]. unfold vs at 1. cbn [map]. fold vs. change (canon e x0 :: map (canon e) xs) with (map (canon e) vs).
        rewrite Elm, Eln. rewrite Eb. rewrite (Forall2_seq_res _ _ _ HF2). exact Hmk.
      * destruct (seq_res (map (mk e) vs)) as [ns|] eqn:Hns; [|discriminate].
        pose proof (seq_res_Forall2 _ _ _ Hns) as HF.
        assert (Forall2 (fun x y => mk e x = Ok y) (map (canon e) vs) ns /\ forallb (wf e) (map (canon e) vs) = true) as [HF2 Hall].
        { clear -HF IHe Hte. induction HF as [|x y l0 r Hxy _ [IH1 IH2]]; [split; [constructor|reflexivity]|].
          destruct (IHe x y Hte Hxy) as [Hw Hc]. cbn [map forallb]. rewrite Hw, IH2. split; [constructor; auto|reflexivity]. }
        split; [cbn [wf]; rewrite Elm, Ele, Hall; reflexivity|].
        cbn [ModelViews.mk]. unfold vs at 1. cbn [map]. fold vs. change (canon e x0 :: map (canon e) xs) with (map (canon e) vs).
        rewrite Elm, Eln. rewrite Eb. rewrite (Forall2_seq_res _ _ _ HF2). exact Hmk.
  - (* container *)
    cbn [wf_ty] in Hty. apply andb_true_iff in Hty as [_ Htys].
    destruct v as [| | | | |vs|]; cbn [ModelViews.mk] in Hmk; try discriminate.
    match type of Hmk with context [bind ?g _] => destruct g as [ns|] eqn:Hgo; [|discriminate] end. cbn [bind] in Hmk.
    cbn [canon].
    match goal with |- context [VCont ?c] => set (cvs := c) end. cbn [wf ModelViews.mk].
    assert ((fix go (fs : list ty) (vs : list val) : bool :=
               match fs, vs with [] , [] => true | f :: fs', x :: vs' => wf f x && go fs' vs' | _, _ => false end) fs cvs = true /\
            (fix go (fs : list ty) (vs : list val) : result (list node) :=
               match fs, vs with
               | [], [] => Ok []
               | f :: fs', x :: vs' => do a <- mk f x; do r <- go fs' vs'; Ok (a :: r)
               | _, _ => Err EAttr
               end) fs cvs = Ok ns) as [Hw Hg].
    { subst cvs. clear Hmk. revert vs ns Hgo Htys. induction Hfs as [|f fs Hf Hfs' IH]; intros vs ns Hgo Htys.
      - destruct vs; [|discriminate]. split; [reflexivity|exact Hgo].
      - destruct vs as [|x vs]; [discriminate|]. cbn [forallb] in Htys. apply andb_true_iff in Htys as [Htf Htys].
        destruct (mk f x) as [a|] eqn:Ha; [|discriminate]. cbn [bind] in Hgo.
        match type of Hgo with context [bind ?g _] => destruct g as [r|] eqn:Hr; [|discriminate] end. cbn [bind] in Hgo.
        destruct (Hf x a Htf Ha) as [Hwx Hcx]. destruct (IH vs r Hr Htys) as [IHw IHg].
        split.
        + rewrite Hwx. cbn [andb]. exact IHw.
        + rewrite Hcx. cbn [bind]. rewrite IHg. exact Hgo. }
    split; [exact Hw|]. rewrite Hg. exact Hmk.
  - (* union *)
    cbn [wf_ty] in Hty. apply andb_true_iff in Hty as [Hty Hcount]. apply andb_true_iff in Hty as [Htys Hne].
    destruct v as [| | | | | |sel ov]; cbn [ModelViews.mk] in Hmk; try discriminate.
    destruct (lenN os + (if b then 1 else 0) <=? N.of_nat sel) eqn:Hb; [discriminate|].
    cbn [canon]. destruct (b && Nat.eqb sel 0) eqn:Hz.
    + destruct ov as [x|]; [discriminate|]. cbn [wf]. split; [exact Hz|]. cbn [ModelViews.mk]. rewrite Hb, Hz. exact Hmk.
    + set (i := if b then pred sel else sel) in *. rewrite pick_nth'.
      assert ((if b then negb (Nat.eqb sel 0) else true) = true) as Hsel by (destruct b; [cbn [andb] in Hz; now rewrite Hz|reflexivity]).
      destruct ov as [x|]; rewrite pick_nth' in Hmk; (destruct (nth_error os i) as [o|] eqn:Hn; [|discriminate]);
        assert (wf_ty o = true) as Hto by (rewrite forallb_forall in Htys; apply Htys; eapply nth_error_In; eauto).
      * assert (forall v n, wf_ty o = true -> mk o v = Ok n -> wf o (canon o v) = true /\ mk o (canon o v) = Ok n) as IHo
          by (rewrite Forall_forall in Hos; apply Hos; eapply nth_error_In; eauto).
        destruct (mk o x) as [c|] eqn:Hc; [|discriminate]. cbn [bind] in Hmk. destruct (IHo x c Hto Hc) as [Hw Hm].
        cbn [wf ModelViews.mk]. fold i. rewrite !pick_nth', Hn, Hb, Hz, Hsel, Hw, Hm. split; [reflexivity|exact Hmk].
      * destruct (default_node o) as [c|] eqn:Hc; [|discriminate]. cbn [bind] in Hmk.
        cbn [wf ModelViews.mk]. fold i. rewrite !pick_nth', Hn, Hb, Hz, Hsel, (wf_zero o Hto), <- (default_eq_mk H o Hto), Hc. split; [reflexivity|exact Hmk].
Qed.

(* a well-formed value denotes itself *)
Theorem canon_wf_id : forall t v, wf_ty t = true -> wf t v = true -> canon t v = v.
Proof.
  induction t as [k| |bn|bl|yn|yl|e n IHe|e l IHe|fs Hfs|b os Hos] using ty_ind'; intros v Hty Hwf;
    try (destruct v; cbn [wf] in Hwf; try discriminate; reflexivity).
  - (* vector *)
    cbn [wf_ty] in Hty. apply andb_true_iff in Hty as [Hty Hnb]. apply andb_true_iff in Hty as [Hte Hn1]. apply N.leb_le in Hn1.
    destruct v as [| | | |vs| |]; cbn [wf] in Hwf; try discriminate. apply andb_true_iff in Hwf as [Hn Hall]. apply N.eqb_eq in Hn.
    destruct vs as [|x0 xs]; [unfold lenN in Hn; cbn in Hn; lia|]. cbn [canon]. f_equal.
    change (map (canon e) (x0 :: xs) = x0 :: xs). rewrite <- (map_id (x0 :: xs)) at 2. apply map_ext_in.
    intros a Ha. rewrite forallb_forall in Hall. apply IHe; auto.
  - (* list *)
    cbn [wf_ty] in Hty. apply andb_true_iff in Hty as [Hte _].
    destruct v as [| | | |vs| |]; cbn [wf] in Hwf; try discriminate. apply andb_true_iff in Hwf as [Hn Hall].
    cbn [canon]. f_equal. rewrite <- (map_id vs) at 2. apply map_ext_in.
    intros a Ha. rewrite forallb_forall in Hall. apply IHe; auto.
  - (* container *)
    cbn [wf_ty] in Hty. apply andb_true_iff in Hty as [_ Htys].
    destruct v as [| | | | |vs|]; cbn [wf] in Hwf; try discriminate. cbn [canon]. f_equal.
    revert vs Hwf Htys. induction Hfs as [|f fs Hf Hfs' IH]; intros vs Hwf Htys.
    + destruct vs; [reflexivity|discriminate].
    + destruct vs as [|x vs]; [discriminate|]. cbn [forallb] in Htys. apply andb_true_iff in Htys as [Htf Htys].
      apply andb_true_iff in Hwf as [Hwx Hwf]. rewrite (Hf x Htf Hwx). f_equal. apply IH; auto.
  - (* union *)
    cbn [wf_ty] in Hty. apply andb_true_iff in Hty as [Hty Hcount]. apply andb_true_iff in Hty as [Htys Hne].
    destruct v as [| | | | | |sel ov]; cbn [wf] in Hwf; try discriminate. cbn [canon].
    destruct ov as [x|].
    + apply andb_true_iff in Hwf as [Hsel Hp]. rewrite pick_nth' in Hp. rewrite pick_nth'.
      assert (b && Nat.eqb sel 0 = false) as -> by (destruct b; [cbn [andb]; now apply negb_true_iff|reflexivity]).
      destruct (nth_error os (if b then Init.Nat.pred sel else sel)) as [o|] eqn:Hn; [|discriminate].
      f_equal. f_equal. rewrite Forall_forall in Hos. apply (Hos o); [eapply nth_error_In; eauto| |exact Hp].
      rewrite forallb_forall in Htys; apply Htys; eapply nth_error_In; eauto.
    + now rewrite Hwf.
Qed.

(* C14 at construction: whatever the constructor accepts denotes a VALID value of the type, and the backing
   it builds represents exactly that value *)
Corollary mk_sound_repr t v n : wf_ty t = true -> mk t v = Ok n ->
  wf t (canon t v) = true /\ Repr H t (canon t v) n.
Proof.
  intros Hty Hmk. destruct (mk_sound t v n Hty Hmk) as [Hw Hm]. split; [exact Hw|]. exact (mk_Repr H (fun _ => None) t (canon t v) n Hty Hw Hm).
Qed.

(* ... so an argument that denotes no valid value is refused *)
Corollary mk_rejects t v : wf_ty t = true -> wf t (canon t v) = false -> exists e, mk t v = Err e.
Proof.
  intros Hty Hw. destruct (mk t v) as [n|e] eqn:Hmk; [|eauto]. destruct (mk_sound t v n Hty Hmk) as [Hw' _]. congruence.
Qed.

(* the constructor accepts exactly the well-formed values (among the arguments that denote themselves) *)
Corollary mk_accepts_iff t v : wf_ty t = true -> canon t v = v -> (wf t v = true <-> exists n, mk t v = Ok n).
Proof.
  intros Hty Hc. split.
  - intros Hw. destruct (mk_root H t v Hty Hw) as (n & Hn & _). eauto.
  - intros (n & Hn). destruct (mk_sound t v n Hty Hn) as [Hw _]. now rewrite Hc in Hw.
Qed.

(* whatever the constructor builds contains no virtual node *)
Lemma CRep_novirt d n ns : CRep H d n ns -> Forall novirt ns -> novirt n.
Proof.
  induction 1 as [d|x|d l r ls rs Hl IHl Hr IHr Hor]; intros Hf.
  - exact I.
  - now inversion Hf.
  - apply Forall_app in Hf as [Hfl Hfr]. split; auto.
Qed.

Lemma ftc_novirt ns d n : fill_to_contents H ns d = Ok n -> Forall novirt ns -> novirt n.
Proof.
  intros Hf Hn. destruct (Nat.le_gt_cases (length ns) (2 ^ d)) as [Hle|Hgt].
  - destruct (fill_to_contents_CRep H d ns Hle) as (n' & Hf' & Hc). rewrite Hf in Hf'. inversion Hf'; subst. now apply (CRep_novirt d n' ns).
  - exfalso. destruct ns as [|a rest]; [cbn in Hgt; pose proof (Nat.pow_nonzero 2 d); lia|].
    assert ((pow2 d <? lenN (a :: rest)) = true) as E.
    { apply N.ltb_lt. unfold lenN. pose proof (pow2_nat d). lia. }
    destruct d; cbn [fill_to_contents] in Hf; rewrite E in Hf; discriminate.
Qed.

Lemma Forall_novirt_RootN (cs : list bytes) : Forall novirt (map RootN cs).
Proof. apply Forall_forall. intros x Hx. apply in_map_iff in Hx as (c & <- & _). exact I. Qed.

Lemma seq_res_Forall {A B} (f : A -> result B) (P : B -> Prop) : forall l r, seq_res (map f l) = Ok r ->
  (forall x y, In x l -> f x = Ok y -> P y) -> Forall P r.
Proof.
  induction l as [|a l IH]; intros r Hr Hp; cbn [map seq_res] in Hr; [inversion Hr; constructor|].
  destruct (f a) as [y|] eqn:Hy; [|discriminate]. cbn [bind] in Hr. destruct (seq_res (map f l)) as [ys|] eqn:Hys; [|discriminate]. cbn [bind] in Hr.
  inversion Hr; subst. constructor; [apply (Hp a y); [now left|exact Hy]|]. apply IH; auto. intros x z Hx. apply Hp. now right.
Qed.

Theorem mk_novirt : forall t v n, wf_ty t = true -> mk t v = Ok n -> novirt n.
Proof.
  induction t as [k| |bn|bl|yn|yl|e nn IHe|e l IHe|fs Hfs|b os Hos] using ty_ind'; intros v n Hty Hm.
  - cbn [ModelViews.mk] in Hm. destruct (mk_basic (TUint k) v); [|discriminate]. inversion Hm; subst. exact I.
  - cbn [ModelViews.mk] in Hm. destruct (mk_basic TBool v); [|discriminate]. inversion Hm; subst. exact I.
  - destruct v; cbn [ModelViews.mk] in Hm; try discriminate. destruct (negb _); [discriminate|]. eapply ftc_novirt; [exact Hm|apply Forall_novirt_RootN].
  - destruct v; cbn [ModelViews.mk] in Hm; try discriminate. destruct (bl <? lenN bs); [discriminate|].
    destruct (fill_to_contents H _ _) as [c|] eqn:Hc; [|discriminate]. inversion Hm; subst. split; [|exact I]. eapply ftc_novirt; [exact Hc|apply Forall_novirt_RootN].
  - destruct v; cbn [ModelViews.mk] in Hm; try discriminate. destruct (negb _); [discriminate|]. eapply ftc_novirt; [exact Hm|apply Forall_novirt_RootN].
  - destruct v; cbn [ModelViews.mk] in Hm; try discriminate. destruct (yl <? lenN bs); [discriminate|].
    destruct (fill_to_contents H _ _) as [c|] eqn:Hc; [|discriminate]. inversion Hm; subst. split; [|exact I]. eapply ftc_novirt; [exact Hc|apply Forall_novirt_RootN].
  - (* vector *)
    pose proof Hty as Hty0. cbn [wf_ty] in Hty. apply andb_true_iff in Hty as [Hty' _]. apply andb_true_iff in Hty' as [Hte Hn1]. apply N.leb_le in Hn1.
    assert (forall vs n0, vs <> [] -> mk (TVector e nn) (VSeq vs) = Ok n0 -> novirt n0) as Hne.
    { intros vs n0 Hvs Hm0. cbn [ModelViews.mk] in Hm0. destruct vs as [|x0 xs]; [contradiction|]. set (vs := x0 :: xs) in *.
      destruct (negb (lenN vs =? nn)); [discriminate|].
      match type of Hm0 with (do ns <- ?A; _) = _ => destruct A as [ns|] eqn:Hns; [|discriminate] end. cbn [bind] in Hm0.
      eapply ftc_novirt; [exact Hm0|]. destruct (basic_size e).
      - destruct (seq_res (map (mk_basic e) vs)); [|discriminate]. inversion Hns; subst. apply Forall_novirt_RootN.
      - apply (seq_res_Forall (mk e) novirt vs ns Hns). intros x y _ Hxy. now apply (IHe x y). }
    destruct v as [| | | |vs| |]; cbn [ModelViews.mk] in Hm; try discriminate. destruct vs as [|x0 xs].
    + rewrite (default_eq_mk H _ Hty0) in Hm. cbn [zero_val] in Hm. apply (Hne _ n) in Hm; [exact Hm|].
      intros E. apply (f_equal (@length val)) in E. rewrite repeat_length in E. cbn in E. lia.
    + apply (Hne (x0 :: xs) n); [discriminate|exact Hm].
  - (* list *)
    cbn [wf_ty] in Hty. apply andb_true_iff in Hty as [Hte _].
    destruct v as [| | | |vs| |]; cbn [ModelViews.mk] in Hm; try discriminate. destruct vs as [|x0 xs].
    + cbn [ModelViews.default_node] in Hm. inversion Hm; subst. split; exact I.
    + set (vs := x0 :: xs) in *. destruct (l <? lenN vs); [discriminate|].
      match type of Hm with (do ns <- ?A; _) = _ => destruct A as [ns|] eqn:Hns; [|discriminate] end. cbn [bind] in Hm.
      destruct (fill_to_contents H ns _) as [c|] eqn:Hc; [|discriminate]. inversion Hm; subst. split; [|exact I].
      eapply ftc_novirt; [exact Hc|]. destruct (basic_size e).
      * destruct (seq_res (map (mk_basic e) vs)); [|discriminate]. inversion Hns; subst. apply Forall_novirt_RootN.
      * apply (seq_res_Forall (mk e) novirt vs ns Hns). intros x y _ Hxy. now apply (IHe x y).
  - (* container *)
    cbn [wf_ty] in Hty. apply andb_true_iff in Hty as [_ Htys].
    destruct v as [| | | | |vs|]; cbn [ModelViews.mk] in Hm; try discriminate.
    match type of Hm with (do ns <- ?A; _) = _ => destruct A as [ns|] eqn:Hns; [|discriminate] end. cbn [bind] in Hm.
    eapply ftc_novirt; [exact Hm|]. clear Hm. revert vs ns Hns Htys. induction Hfs as [|f fs Hf Hfs' IH]; intros vs ns Hns Htys.
    + destruct vs; [|discriminate]. inversion Hns; constructor.
    + destruct vs as [|x vs]; [discriminate|]. cbn [forallb] in Htys. apply andb_true_iff in Htys as [Htf Htys].
      destruct (mk f x) as [a|] eqn:Ha; [|discriminate]. cbn [bind] in Hns.
      match type of Hns with (do r <- ?A; _) = _ => destruct A as [r|] eqn:Hr; [|discriminate] end. cbn [bind] in Hns. inversion Hns; subst.
      constructor; [now apply (Hf x a)|now apply (IH vs r)].
  - (* union *)
    cbn [wf_ty] in Hty. apply andb_true_iff in Hty as [Hty' _]. apply andb_true_iff in Hty' as [Htys _].
    destruct v as [| | | | | |sel ov]; cbn [ModelViews.mk] in Hm; try discriminate.
    destruct (lenN os + (if b then 1 else 0) <=? N.of_nat sel); [discriminate|].
    match type of Hm with (do c <- ?A; _) = _ => destruct A as [c|] eqn:Hc; [|discriminate] end. cbn [bind] in Hm. inversion Hm; subst. split; [|exact I].
    destruct ov as [x|].
    + destruct (b && Nat.eqb sel 0); [discriminate|]. rewrite pick_nth' in Hc.
      destruct (nth_error os _) as [o|] eqn:Hn; [|discriminate]. rewrite Forall_forall in Hos. apply (Hos o (nth_error_In _ _ Hn) x c); [|exact Hc].
      rewrite forallb_forall in Htys. apply Htys. eapply nth_error_In; eauto.
    + destruct (b && Nat.eqb sel 0); [inversion Hc; exact I|]. rewrite pick_nth' in Hc.
      destruct (nth_error os _) as [o|] eqn:Hn; [|discriminate].
      assert (wf_ty o = true) as Hto by (rewrite forallb_forall in Htys; apply Htys; eapply nth_error_In; eauto).
      rewrite (default_eq_mk H o Hto) in Hc. rewrite Forall_forall in Hos. exact (Hos o (nth_error_In _ _ Hn) _ c Hto Hc).
Qed.

End WithHash.
