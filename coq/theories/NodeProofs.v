(* NodeProofs.v — C08 on values: (1) concat_gindices concatenates paths at the bit level; (2) for any
   representation of a value, the node at a key's static generalized index represents the addressed
   child; (3) along whole paths, Path.gindex() addresses the node representing the sub-value (hence with
   its hash-tree-root); (4) generalized index 3 holds the length / selector mix-in. *)
Require Import RM.Base RM.Gindex RM.Tree RM.TreeProofs RM.Types RM.Spec RM.ModelViews RM.ModelCodec RM.ModelMut RM.ModelPaths
               RM.SerLen RM.FactsProofs RM.MerkleProofs RM.PackProofs RM.CtorProofs RM.PathProofs RM.CRepProofs
               RM.ListProofs RM.SerProofs RM.CodecBasicProofs RM.SerProofs2 RM.BitProofs RM.ChunkProofs RM.SerAll RM.ReprProofs RM.MutProofs RM.IterProofs.
From Coq Require Import ZifyBool ZifyNat ZifyN.
Local Open Scope N_scope.
(* ---- concat_gindices at the bit level: the path of the concatenation is the concatenation of the paths ---- *)
Definition push_bits (out : N) (p : list bool) : N := fold_left (fun g (b : bool) => 2 * g + (if b then 1 else 0)) p out.

Lemma push_bits_app out p q : push_bits out (p ++ q) = push_bits (push_bits out p) q.
Proof. unfold push_bits. apply fold_left_app. Qed.

Lemma path_push_bits : forall p out po, path_of_gindex out = Some po -> path_of_gindex (push_bits out p) = Some (po ++ p).
Proof.
  induction p as [|b p IH]; intros out po Ho; [cbn; now rewrite app_nil_r|].
  cbn [push_bits fold_left]. fold (push_bits (2 * out + (if b then 1 else 0)) p).
  rewrite (IH _ (po ++ [b]) (path_double out po b Ho)). now rewrite <- app_assoc.
Qed.

Lemma lor_2_2 a b : N.lor (2 * a) (2 * b) = 2 * N.lor a b.
Proof. destruct a, b; reflexivity. Qed.
Lemma lor_2_2s a b : N.lor (2 * a) (2 * b + 1) = 2 * N.lor a b + 1.
Proof. destruct a, b; reflexivity. Qed.
Lemma lxor_s_2 q s : N.lxor (N.pos q~1) (2 * s) = 2 * N.lxor (N.pos q) s + 1.
Proof. destruct s; [reflexivity|]. cbn [N.mul N.lxor Pos.mul Pos.lxor]. apply N.succ_double_spec. Qed.
Lemma lxor_0_2 q s : N.lxor (N.pos q~0) (2 * s) = 2 * N.lxor (N.pos q) s.
Proof. destruct s; [reflexivity|]. cbn [N.mul N.lxor Pos.mul Pos.lxor]. apply N.double_spec. Qed.

(* one step of concat_gindices = pushing the step's path bits *)
Lemma concat_step_value : forall (q : positive) (out : N),
  N.lor (N.shiftl out (N.size (Npos q) - 1)) (N.lxor (Npos q) (N.shiftl 1 (N.size (Npos q) - 1))) = push_bits out (pos_bits q []).
Proof.
  induction q as [q IH|q IH|]; intros out.
  - change (pos_bits q~1 []) with (pos_bits q [true]). rewrite (pos_bits_app q [true]), push_bits_app, <- IH.
    cbn [push_bits fold_left].
    assert (N.size (N.pos q~1) - 1 = N.succ (N.size (N.pos q) - 1)) as -> by (cbn [N.size Pos.size]; lia).
    rewrite !N.shiftl_succ_r, lxor_s_2, lor_2_2s. reflexivity.
  - change (pos_bits q~0 []) with (pos_bits q [false]). rewrite (pos_bits_app q [false]), push_bits_app, <- IH.
    cbn [push_bits fold_left].
    assert (N.size (N.pos q~0) - 1 = N.succ (N.size (N.pos q) - 1)) as -> by (cbn [N.size Pos.size]; lia).
    rewrite !N.shiftl_succ_r, lxor_0_2, lor_2_2. lia.
  - cbn. destruct out; reflexivity.
Qed.
Lemma concat_fold_paths : forall steps ps acc pa, Forall2 (fun g p => path_of_gindex g = Some p) steps ps ->
  path_of_gindex acc = Some pa ->
  exists g, fold_left (fun acc step =>
              do out <- acc;
              if step =? 0 then Err EValue else
              let sbl := bit_length step - 1 in
              Ok (N.lor (N.shiftl out sbl) (N.lxor step (N.shiftl 1 sbl)))) steps (Ok acc) = Ok g /\
            path_of_gindex g = Some (pa ++ concat ps).
Proof.
  induction steps as [|s steps IH]; intros ps acc pa HF Ha; inversion HF as [|? p ? ps' Hs HF']; subst.
  - exists acc. cbn. now rewrite app_nil_r.
  - cbn [fold_left bind concat]. destruct s as [|q]; [discriminate|]. cbn [N.eqb].
    unfold bit_length. rewrite concat_step_value. cbn [path_of_gindex] in Hs. inversion Hs; subst p.
    destruct (IH ps' (push_bits acc (pos_bits q [])) (pa ++ pos_bits q []) HF' (path_push_bits _ _ _ Ha)) as (g & Hg & Hp).
    exists g. split; [exact Hg|]. now rewrite Hp, <- app_assoc.
Qed.

(* C08: concatenating generalized indices concatenates their paths *)
Theorem concat_gindices_paths steps ps : Forall2 (fun g p => path_of_gindex g = Some p) steps ps ->
  exists g, concat_gindices steps = Ok g /\ path_of_gindex g = Some (concat ps).
Proof. intros HF. unfold concat_gindices. exact (concat_fold_paths steps ps 1 [] HF eq_refl). Qed.
Section WithHash.
Variable H : bytes -> bytes -> bytes.
Variable src : bytes -> option (bytes * bytes).
Notation root := (root H).
Notation CRep := (CRep H).
Notation Repr := (Repr H).

(* the sub-value a key addresses (composite children only; packed elements / bits are chunk-addressed) *)
Definition child_of (t : ty) (v : val) (k : pkey) : option (ty * val) :=
  match t, v, k with
  | TList e _, VSeq vs, PInt i | TVector e _, VSeq vs, PInt i =>
      match basic_size e with
      | Some _ => None
      | None => if (0 <=? i)%Z && (i <? Z.of_N (lenN vs))%Z then Some (e, nth (Z.to_nat i) vs (VUint 0)) else None
      end
  | TContainer fs, VCont vs, PField i =>
      match nth_error fs i, nth_error vs i with Some f, Some x => Some (f, x) | _, _ => None end
  | TUnion b os, VUnion sel (Some x), PInt i =>
      if (i =? Z.of_nat sel)%Z then match union_opt b os sel with Some o => Some (o, x) | None => None end else None
  | _, _, _ => None
  end.

Lemma go_repr_nth : forall fs vs ns i f x, go_repr H fs vs ns -> nth_error fs i = Some f -> nth_error vs i = Some x ->
  Repr f x (nth i ns (RootN zero32)) /\ (i < length ns)%nat.
Proof.
  induction fs as [|f0 fs IH]; intros [|x0 vs] [|m ns] i f x Hg Hf Hx; try contradiction; try (destruct i; discriminate).
  destruct Hg as [H0 Hg]. destruct i as [|i]; cbn in Hf, Hx.
  - inversion Hf; inversion Hx; subst. split; [exact H0|cbn; lia].
  - destruct (IH vs ns i f x Hg Hf Hx) as [Hr Hl]. split; [exact Hr|cbn; lia].
Qed.

Lemma Forall2_nth_repr e vs ns i : Forall2 (Repr e) vs ns -> (i < length vs)%nat ->
  Repr e (nth i vs (VUint 0)) (nth i ns (RootN zero32)) /\ length ns = length vs.
Proof.
  intros HF Hi. destruct (Forall2_nth _ vs ns (VUint 0) (RootN zero32) HF) as [Hl Hn]. split; [now apply Hn|lia].
Qed.

(* one navigation step: the node at the key's static generalized index represents the addressed child *)
Theorem node_step t v n k t' v' : wf_ty t = true -> wf t v = true -> Repr t v n -> child_of t v k = Some (t', v') ->
  exists g m, key_to_static_gindex t k = Ok g /\ navigate_type t k = Ok t' /\ getter_g src n g = Ok m /\ Repr t' v' m.
Proof.
  intros Hty Hwf Hr Hc. destruct t as [k0| |bn|bl|bvn|byl|e nn|e l|fs|none0 opts]; destruct v; cbn [child_of] in Hc; try discriminate.
  - (* vector *)
    destruct k as [i| | |]; try discriminate. destruct (basic_size e) eqn:Eb; [discriminate|].
    destruct ((0 <=? i)%Z && (i <? Z.of_N (lenN vs))%Z) eqn:Hi; [|discriminate]. inversion Hc; subst t' v'. clear Hc.
    cbn [wf] in Hwf. apply andb_true_iff in Hwf as [Hn _]. apply N.eqb_eq in Hn.
    cbn [ReprProofs.Repr] in Hr. rewrite Eb in Hr. destruct Hr as (ns & Hcr & HF).
    destruct (Forall2_nth_repr e vs ns (Z.to_nat i) HF ltac:(unfold lenN in *; lia)) as [Hri Hl].
    cbn [key_to_static_gindex navigate_type]. rewrite Eb.
    assert (((Z.of_N nn <=? i)%Z || (i <? 0)%Z) = false) as -> by lia.
    assert (tree_depth (TVector e nn) = contents_depth (TVector e nn)) as -> by reflexivity.
    pose proof (CRep_len H _ _ _ Hcr) as Hcl. pose proof (pow_nat_N (contents_depth (TVector e nn))) as Hp.
    assert (Z.to_N i < 2 ^ N.of_nat (contents_depth (TVector e nn))) as Hi2 by (unfold lenN in *; lia).
    rewrite (to_gindex_ok _ _ Hi2). eexists _, _. split; [reflexivity|]. split; [reflexivity|].
    unfold getter_g. rewrite (path_of_to_gindex _ _ Hi2).
    rewrite (CRep_get H src _ _ _ Hcr (Z.to_N i) (RootN zero32)) by (unfold lenN in *; lia).
    split; [reflexivity|]. replace (N.to_nat (Z.to_N i)) with (Z.to_nat i) by lia. exact Hri.
  - (* list *)
    destruct k as [i| | |]; try discriminate. destruct (basic_size e) eqn:Eb; [discriminate|].
    destruct ((0 <=? i)%Z && (i <? Z.of_N (lenN vs))%Z) eqn:Hi; [|discriminate]. inversion Hc; subst t' v'. clear Hc.
    cbn [wf] in Hwf. apply andb_true_iff in Hwf as [Hn _]. apply N.leb_le in Hn.
    cbn [ReprProofs.Repr] in Hr. destruct Hr as (c & -> & Hr). rewrite Eb in Hr. destruct Hr as (ns & Hcr & HF).
    destruct (Forall2_nth_repr e vs ns (Z.to_nat i) HF ltac:(unfold lenN in *; lia)) as [Hri Hl].
    cbn [key_to_static_gindex navigate_type]. rewrite Eb.
    assert (((Z.of_N l <=? i)%Z || (i <? 0)%Z) = false) as -> by lia.
    assert (tree_depth (TList e l) = S (contents_depth (TList e l))) as -> by reflexivity.
    set (cd := contents_depth (TList e l)) in *.
    pose proof (CRep_len H _ _ _ Hcr) as Hcl. pose proof (pow_nat_N cd) as Hp.
    assert (Z.to_N i < 2 ^ N.of_nat cd) as Hi1 by (unfold lenN in *; lia).
    assert (Z.to_N i < 2 ^ N.of_nat (S cd)) as Hi2 by (rewrite Nat2N.inj_succ, N.pow_succ_r'; lia).
    rewrite (to_gindex_ok _ _ Hi2). eexists _, _. split; [reflexivity|]. split; [reflexivity|].
    rewrite (list_getter_g H src cd c _ ns (Z.to_N i) (RootN zero32) Hcr) by (unfold lenN in *; lia).
    split; [reflexivity|]. replace (N.to_nat (Z.to_N i)) with (Z.to_nat i) by lia. exact Hri.
  - (* container *)
    destruct k as [|i| |]; try discriminate.
    destruct (nth_error fs i) as [f|] eqn:Hf; [|discriminate]. destruct (nth_error vs i) as [x|] eqn:Hx; [|discriminate].
    inversion Hc; subst t' v'. clear Hc.
    cbn [ReprProofs.Repr] in Hr. destruct Hr as (ns & Hcr & Hg). fold (go_repr H) in Hg.
    destruct (go_repr_nth fs vs ns i f x Hg Hf Hx) as [Hri Hil].
    cbn [key_to_static_gindex navigate_type]. rewrite Hf.
    assert (tree_depth (TContainer fs) = contents_depth (TContainer fs)) as -> by reflexivity.
    pose proof (CRep_len H _ _ _ Hcr) as Hcl. pose proof (pow_nat_N (contents_depth (TContainer fs))) as Hp.
    assert (N.of_nat i < 2 ^ N.of_nat (contents_depth (TContainer fs))) as Hi2 by lia.
    rewrite (to_gindex_ok _ _ Hi2). eexists _, _. split; [reflexivity|]. split; [reflexivity|].
    unfold getter_g. rewrite (path_of_to_gindex _ _ Hi2).
    rewrite (CRep_get H src _ _ _ Hcr (N.of_nat i) (RootN zero32)) by (unfold lenN; lia).
    split; [reflexivity|]. rewrite Nat2N.id. exact Hri.
  - (* union *)
    match goal with Hc0 : match ?ov with Some _ => _ | None => _ end = _ |- _ => destruct ov as [x|]; [|discriminate] end. destruct k as [i| | |]; try discriminate.
    destruct (i =? Z.of_nat sel)%Z eqn:Ei; [|discriminate]. apply Z.eqb_eq in Ei. subst i.
    destruct (union_opt none0 opts sel) as [o|] eqn:Ho; [|discriminate]. inversion Hc; subst t' v'. clear Hc.
    cbn [ReprProofs.Repr] in Hr. destruct Hr as (c & -> & Hr). apply (pick_repr_nth H) in Hr as (o' & Hn' & Hro).
    assert (o' = o) as -> by (unfold union_opt in Ho; destruct none0; [destruct sel; [discriminate|]|]; cbn in Hn'; congruence).
    cbn [key_to_static_gindex navigate_type]. rewrite Nat2Z.id, Ho.
    assert (sel < length opts + (if none0 then 1 else 0))%nat as Hsel.
    { unfold union_opt in Ho. destruct none0; [destruct sel as [|sel']; [discriminate|]|].
      - assert (nth_error opts sel' <> None) as Hx by congruence. apply nth_error_Some in Hx. lia.
      - assert (nth_error opts sel <> None) as Hx by congruence. apply nth_error_Some in Hx. lia. }
    assert (((Z.of_nat sel <? 0)%Z || (Z.of_N (lenN opts + (if none0 then 1 else 0)) <=? Z.of_nat sel)%Z) = false) as ->
      by (unfold lenN; destruct none0; lia).
    eexists _, _. split; [reflexivity|]. split; [reflexivity|]. split; [reflexivity|exact Hro].
Qed.

(* the addressed child of a well-formed value is well-formed *)
Lemma child_wf t v k t' v' : wf_ty t = true -> wf t v = true -> child_of t v k = Some (t', v') -> wf_ty t' = true /\ wf t' v' = true.
Proof.
  intros Hty Hwf Hc. destruct t as [k0| |bn|bl|bvn|byl|e nn|e l|fs|none0 opts]; destruct v; cbn [child_of] in Hc; try discriminate.
  - destruct k as [i| | |]; try discriminate. destruct (basic_size e); [discriminate|].
    destruct ((0 <=? i)%Z && (i <? Z.of_N (lenN vs))%Z) eqn:Hi; [|discriminate]. inversion Hc; subst.
    cbn [wf_ty] in Hty. apply andb_true_iff in Hty as [Hty _]. apply andb_true_iff in Hty as [Hte _].
    cbn [wf] in Hwf. apply andb_true_iff in Hwf as [_ Hall]. split; [exact Hte|].
    rewrite forallb_forall in Hall. apply Hall. apply nth_In. unfold lenN in Hi. lia.
  - destruct k as [i| | |]; try discriminate. destruct (basic_size e); [discriminate|].
    destruct ((0 <=? i)%Z && (i <? Z.of_N (lenN vs))%Z) eqn:Hi; [|discriminate]. inversion Hc; subst.
    cbn [wf_ty] in Hty. apply andb_true_iff in Hty as [Hte _].
    cbn [wf] in Hwf. apply andb_true_iff in Hwf as [_ Hall]. split; [exact Hte|].
    rewrite forallb_forall in Hall. apply Hall. apply nth_In. unfold lenN in Hi. lia.
  - destruct k as [|i| |]; try discriminate.
    destruct (nth_error fs i) as [f|] eqn:Hf; [|discriminate]. destruct (nth_error vs i) as [x|] eqn:Hx; [|discriminate]. inversion Hc; subst.
    cbn [wf_ty] in Hty. apply andb_true_iff in Hty as [_ Htys]. cbn [wf] in Hwf.
    split; [rewrite forallb_forall in Htys; apply Htys; eapply nth_error_In; eauto|].
    clear Htys. revert vs i Hwf Hf Hx. induction fs as [|f0 fs IH]; intros [|x0 vs] i Hwf Hf Hx; try discriminate; try (destruct i; discriminate).
    apply andb_true_iff in Hwf as [H0 Hrest]. destruct i as [|i]; cbn in Hf, Hx; [inversion Hf; inversion Hx; subst; exact H0|]. now apply (IH vs i).
  - match goal with Hc0 : match ?ov with Some _ => _ | None => _ end = _ |- _ => destruct ov as [x|]; [|discriminate] end.
    destruct k as [i| | |]; try discriminate. destruct (i =? Z.of_nat sel)%Z; [|discriminate].
    destruct (union_opt none0 opts sel) as [o|] eqn:Ho; [|discriminate]. inversion Hc; subst.
    cbn [wf_ty] in Hty. apply andb_true_iff in Hty as [Hty _]. apply andb_true_iff in Hty as [Htys _].
    cbn [wf] in Hwf. apply andb_true_iff in Hwf as [_ Hpick].
    assert (nth_error opts (if none0 then pred sel else sel) = Some t') as Hn
      by (unfold union_opt in Ho; destruct none0; [destruct sel; [discriminate|]|]; exact Ho).
    split; [rewrite forallb_forall in Htys; apply Htys; eapply nth_error_In; eauto|].
    revert Hpick Hn. generalize (if none0 then pred sel else sel). clear. induction opts as [|o os IH]; intros [|i] Hp Hn; try discriminate.
    + cbn in Hn. inversion Hn; subst. exact Hp.
    + cbn in Hn. now apply (IH i).
Qed.

Fixpoint child_path (t : ty) (v : val) (ks : list pkey) : option (ty * val) :=
  match ks with
  | [] => Some (t, v)
  | k :: r => match child_of t v k with Some (t1, v1) => child_path t1 v1 r | None => None end
  end.

(* whole paths: Path.gindex() addresses the node that represents the sub-value the path leads to *)
Theorem node_path : forall ks t v n t' v', wf_ty t = true -> wf t v = true -> Repr t v n ->
  child_path t v ks = Some (t', v') ->
  exists g m, path_gindex t ks = Ok g /\ getter_g src n g = Ok m /\ Repr t' v' m /\ root m = htr H t' v'.
Proof.
  assert (forall ks t v n t' v', wf_ty t = true -> wf t v = true -> Repr t v n -> child_path t v ks = Some (t', v') ->
            exists p gs ps m, build_path t ks = Ok p /\ step_gindices t p = Ok gs /\
              Forall2 (fun g q => path_of_gindex g = Some q) gs ps /\ getter src n (concat ps) = Ok m /\
              Repr t' v' m /\ wf_ty t' = true /\ wf t' v' = true) as Haux.
  { induction ks as [|k ks IH]; intros t v n t' v' Hty Hwf Hr Hc; cbn [child_path] in Hc.
    - inversion Hc; subst. exists [], [], [], n. cbn. repeat split; auto.
    - destruct (child_of t v k) as [[t1 v1]|] eqn:Hck; [|discriminate].
      destruct (node_step t v n k t1 v1 Hty Hwf Hr Hck) as (g & m1 & Hg & Hnav & Hget & Hr1).
      destruct (child_wf t v k t1 v1 Hty Hwf Hck) as [Hty1 Hwf1].
      destruct (IH t1 v1 m1 t' v' Hty1 Hwf1 Hr1 Hc) as (p & gs & ps & m & Hb & Hsg & HF & Hgm & Hrm & Hty' & Hwf').
      unfold getter_g in Hget. destruct (path_of_gindex g) as [pg|] eqn:Hpg; [|discriminate].
      exists ((k, t1) :: p), (g :: gs), (pg :: ps), m. cbn [build_path step_gindices bind concat]. rewrite Hnav. cbn [bind]. rewrite Hb. cbn [bind].
      rewrite Hg. cbn [bind]. rewrite Hsg. cbn [bind]. repeat split; auto.
      apply (IterProofs.getter_app_ok src n pg (concat ps) m1 m Hget Hgm). }
  intros ks t v n t' v' Hty Hwf Hr Hc.
  destruct (Haux ks t v n t' v' Hty Hwf Hr Hc) as (p & gs & ps & m & Hb & Hsg & HF & Hgm & Hrm & Hty' & Hwf').
  destruct (concat_gindices_paths gs ps HF) as (g & Hcg & Hpg).
  exists g, m. unfold path_gindex. rewrite Hb. cbn [bind]. rewrite Hsg. cbn [bind]. split; [exact Hcg|].
  unfold getter_g. rewrite Hpg. split; [exact Hgm|]. split; [exact Hrm|]. exact (Repr_root H t' v' m Hty' Hwf' Hrm).
Qed.

(* the length / selector pseudo keys: generalized index 3 holds the mix-in as a 256-bit little-endian integer *)
Theorem node_mixin t v n : Repr t v n ->
  match t, v with
  | TList _ _, VSeq vs => exists m, getter_g src n 3 = Ok m /\ root m = le_bytes 32 (lenN vs)
  | TBitlist _, VBits bs => exists m, getter_g src n 3 = Ok m /\ root m = le_bytes 32 (lenN bs)
  | TByteList _, VBytes bs => exists m, getter_g src n 3 = Ok m /\ root m = le_bytes 32 (lenN bs)
  | TUnion _ _, VUnion sel _ => exists m, getter_g src n 3 = Ok m /\ root m = le_bytes 32 (N.of_nat sel)
  | _, _ => True
  end.
Proof.
  intros Hr. destruct t; destruct v; try exact I; cbn [ReprProofs.Repr] in Hr; try contradiction;
    destruct Hr as (c & -> & _); eexists; (split; [reflexivity|]); cbn [Tree.root len_node val_len]; apply le32_pad.
Qed.
End WithHash.
