(* ModelMut.v — implementation model of the read / mutate methods of views, as pure functions on
   backings: SubtreeView.get/set, List/Vector bounds, List.append/pop, BitsView.get/set,
   Bitlist.append/pop, Union.selector/value/change. *)
Require Import RM.Base RM.Gindex RM.Tree RM.Types RM.Spec RM.ModelViews RM.ModelCodec.
Local Open Scope N_scope.

Section WithHash.
Variable H : bytes -> bytes -> bytes.
Variable src : bytes -> option (bytes * bytes).
Notation root := (root H).
Notation zero_node := (zero_node H).
Notation getter_i := (getter_i src).
Notation mixin_value := (mixin_value H src).
Notation view_len := (view_len H src).

(* node.setter(to_gindex(i, depth), expand)(v) *)
Definition setter_i (expand : bool) (n : node) (i : N) (d : nat) (v : node) : result node :=
  do g <- to_gindex i d; setter_g H src expand n g v.

(* element type at index i (item_elem_cls) *)
Definition elem_ty (t : ty) (i : N) : result ty :=
  match t with
  | TVector e _ | TList e _ => Ok e
  | TContainer fs => match nth_error fs (N.to_nat i) with Some f => Ok f | None => Err EAttr end
  | _ => Err EType
  end.

(* List.get / Vector.get / Container.__getattr__ bounds (complex.py:419-429, 593-603, 832-840) *)
Definition check_index (t : ty) (n : node) (i : Z) : result N :=
  match t with
  | TContainer fs => if (i <? 0)%Z || (Z.of_N (lenN fs) <=? i)%Z then Err EAttr else Ok (Z.to_N i)
  | _ =>
      do ll <- view_len t n;
      if (i <? 0)%Z || (Z.of_N ll <=? i)%Z then Err EIndex else Ok (Z.to_N i)
  end.

(* BasicView.backing_from_base (core.py:280-283): splice the element's bytes into the chunk *)
Definition splice (chunk : bytes) (j : N) (eb : bytes) : bytes :=
  let k := length eb in
  firstn (k * N.to_nat j) chunk ++ eb ++ skipn (k * (N.to_nat j + 1)) chunk.

(* SubtreeView.get (subtree.py:21-32): the element as a backing node (a packed element as the
   padded chunk its get_backing() would build) *)
Definition sub_get (t : ty) (n : node) (i : N) : result node :=
  do e <- elem_ty t i;
  let td := tree_depth t in
  match (match t with TContainer _ => None | _ => basic_size e end) with
  | Some s =>
      let epc := elems_per_chunk s in
      do c <- getter_i n (i / epc) td;
      do b <- packed_elem_bytes H e c (i mod epc);
      Ok (basic_node b)
  | None => getter_i n i td
  end.

(* SubtreeView.set (subtree.py:34-54); x is the (already coerced) element's backing *)
Definition sub_set (t : ty) (n : node) (i : N) (x : node) : result node :=
  do e <- elem_ty t i;
  let td := tree_depth t in
  match (match t with TContainer _ => None | _ => basic_size e end) with
  | Some s =>
      let epc := elems_per_chunk s in
      (* the setter link is computed first, then the chunk is read *)
      do probe <- setter_i false n (i / epc) td (RootN zero32);
      do c <- getter_i n (i / epc) td;
      let nc := RootN (splice (root c) (i mod epc) (firstn (N.to_nat s) (root x))) in
      setter_i false n (i / epc) td nc
  | None => setter_i false n i td x
  end.

Definition view_get (t : ty) (n : node) (i : Z) : result node :=
  do k <- check_index t n i; sub_get t n k.
Definition view_set (t : ty) (n : node) (i : Z) (x : node) : result node :=
  do k <- check_index t n i; sub_set t n k x.

(* the summarisation step shared by List.pop and Bitlist.pop: climb while the target is a left
   child (and not the contents root), then summarize_into *)
Fixpoint climb (fuel : nat) (g : N) : N :=
  match fuel with
  | O => g
  | S f => if (N.even g) && negb (g =? 2) then climb f (g / 2) else g
  end.
Definition summarize_up (n : node) (g : N) : result node :=
  summarize_into_g H src n (climb (N.size_nat g) g).

(* List.append (complex.py:338-372) *)
Definition list_append (t : ty) (n : node) (x : node) : result node :=
  match t with
  | TList e limit =>
      do ll <- mixin_value n;
      if limit <=? ll then Err EOther
      else
        let td := tree_depth t in
        do nb <- match basic_size e with
                 | Some s =>
                     let epc := elems_per_chunk s in
                     let eb := firstn (N.to_nat s) (root x) in
                     if ll mod epc =? 0 then
                       setter_i true n (ll / epc) td (RootN (splice zero32 0 eb))
                     else
                       do probe <- setter_i false n (ll / epc) td (RootN zero32);
                       do c <- getter_i n (ll / epc) td;
                       setter_i false n (ll / epc) td (RootN (splice (root c) (ll mod epc) eb))
                 | None => setter_i true n ll td x
                 end;
        rebind_right src nb (len_node (ll + 1))
  | _ => Err EType
  end.

(* List.pop (complex.py:374-417) *)
Definition list_pop (t : ty) (n : node) : result node :=
  match t with
  | TList e limit =>
      do ll <- mixin_value n;
      if ll =? 0 then Err EOther
      else
        let i := ll - 1 in
        let td := tree_depth t in
        do r <- match basic_size e with
                | Some s =>
                    let epc := elems_per_chunk s in
                    do g <- to_gindex (i / epc) td;
                    do c <- (if i mod epc =? 0 then Ok (zero_node 0) else getter_g src n g);
                    let nc := RootN (splice (root c) (i mod epc) (zero_bytes (N.to_nat s))) in
                    do nb <- setter_g H src false n g nc;
                    Ok (nb, g, N.even g && (i mod epc =? 0))
                | None =>
                    do g <- to_gindex i td;
                    do nb <- setter_g H src false n g (zero_node 0);
                    Ok (nb, g, N.even g)
                end;
        let '(nb, g, can) := r in
        do nb' <- (if can then summarize_up nb g else Ok nb);
        rebind_right src nb' (len_node (ll - 1))
  | _ => Err EType
  end.

(* ---- bitfields ---- *)
(* _new_chunk_with_bit (bitfields.py:15-21) *)
Definition set_bit_byte (b : byte) (k : N) (v : bool) : byte :=
  let x := Byte.to_N b in
  byte_of_N (if v then N.lor x (N.shiftl 1 k) else N.land x (N.lxor 255 (N.shiftl 1 k))).
Definition chunk_with_bit (chunk : bytes) (i : N) (v : bool) : bytes :=
  let bi := N.to_nat ((i mod 256) / 8) in
  match nth_error chunk bi with
  | Some b => firstn bi chunk ++ [set_bit_byte b (i mod 8) v] ++ skipn (S bi) chunk
  | None => chunk
  end.

Definition bits_len (t : ty) (n : node) : result N :=
  match t with
  | TBitvector k => Ok k
  | TBitlist _ => mixin_value n
  | _ => Err EType
  end.

(* BitsView.get (bitfields.py:37-47) wrapped by Bitlist.get / Bitvector.get bounds *)
Definition bits_get (t : ty) (n : node) (i : Z) : result bool :=
  do ll <- bits_len t n;
  if (i <? 0)%Z || (Z.of_N ll <=? i)%Z then Err EIndex
  else
    let k := Z.to_N i in
    match getter_i n (k / 256) (tree_depth t) with
    | Err e => Err (match t with TBitlist _ => EIndex | _ => e end)
    | Ok c =>
        match nth_error (root c) (N.to_nat ((k mod 256) / 8)) with
        | Some b => Ok (N.testbit (Byte.to_N b) (k mod 8))
        | None => Err EIndex
        end
    end.

Definition bits_set (t : ty) (n : node) (i : Z) (v : bool) : result node :=
  do ll <- bits_len t n;
  if (i <? 0)%Z || (Z.of_N ll <=? i)%Z then Err EIndex
  else
    let k := Z.to_N i in
    let td := tree_depth t in
    let r := do probe <- setter_i false n (k / 256) td (RootN zero32);
             do c <- getter_i n (k / 256) td;
             setter_i false n (k / 256) td (RootN (chunk_with_bit (root c) (k mod 256) v)) in
    match r with
    | Err e => Err (match t with TBitlist _ => EIndex | _ => e end)
    | Ok x => Ok x
    end.

(* Bitlist.append (bitfields.py:185-202) *)
Definition bitlist_append (t : ty) (n : node) (v : bool) : result node :=
  match t with
  | TBitlist limit =>
      do ll <- mixin_value n;
      if limit <=? ll then Err EOther
      else
        let td := tree_depth t in
        do nb <- (if ll mod 256 =? 0 then
                    setter_i true n (ll / 256) td (RootN (chunk_with_bit zero32 0 v))
                  else
                    do probe <- setter_i false n (ll / 256) td (RootN zero32);
                    do c <- getter_i n (ll / 256) td;
                    setter_i false n (ll / 256) td (RootN (chunk_with_bit (root c) (ll mod 256) v)));
        rebind_right src nb (len_node (ll + 1))
  | _ => Err EType
  end.

(* Bitlist.pop (bitfields.py:204-232): clears bit i = ll-1 and summarises only when the chunk
   became empty *)
Definition bitlist_pop (t : ty) (n : node) : result node :=
  match t with
  | TBitlist _ =>
      do ll <- mixin_value n;
      if ll =? 0 then Err EOther
      else
        let i := ll - 1 in
        let td := tree_depth t in
        do g <- to_gindex (i / 256) td;
        do nb <- (if i mod 256 =? 0 then setter_g H src false n g (zero_node 0)
                  else
                    do probe <- setter_g H src false n g (RootN zero32);
                    do c <- getter_g src n g;
                    setter_g H src false n g (RootN (chunk_with_bit (root c) (i mod 256) false)));
        do nb' <- (if N.even g && (i mod 256 =? 0) then summarize_up nb g else Ok nb);
        rebind_right src nb' (len_node (ll - 1))
  | _ => Err EType
  end.

(* ---- unions ---- *)
Definition union_selector (t : ty) (n : node) : result N :=
  match t with
  | TUnion none0 opts =>
      do sel <- mixin_value n;
      if lenN opts + (if none0 then 1 else 0) <=? sel then Err EKey else Ok sel
  | _ => Err EType
  end.

(* Union.value(): None for the None option, else the value's backing *)
Definition union_value (t : ty) (n : node) : result (option (ty * node)) :=
  match t with
  | TUnion none0 opts =>
      do vn <- get_left src n;
      do sel <- union_selector t n;
      match union_opt none0 opts (N.to_nat sel) with
      | None => if bytes_eqb (root vn) zero32 then Ok None else Err EOther
      | Some o => Ok (Some (o, vn))
      end
  | _ => Err EType
  end.

(* Union.change (union.py:127-146); x = coerced value's backing (None for a None value) *)
Definition union_change (t : ty) (sel : Z) (x : option node) : result node :=
  match t with
  | TUnion none0 opts =>
      if (sel <? 0)%Z then Err EValue
      else if (Z.of_N (lenN opts + (if none0 then 1 else 0)) <=? sel)%Z then Err EKey
      else
        match union_opt none0 opts (Z.to_nat sel), x with
        | None, None => Ok (PairN (zero_node 0) (len_node (Z.to_N sel)))
        | Some _, Some nd => Ok (PairN nd (len_node (Z.to_N sel)))
        | _, _ => Err EType
        end
  | _ => Err EType
  end.

End WithHash.
