(* Gindex.v — generalized indices (tree.py:7-52), modelled literally on N. *)
Require Import RM.Base.
Local Open Scope N_scope.

(* tree.py:7-10 *)
Definition get_depth (n : N) : nat := if n <=? 1 then O else N.size_nat (n - 1).

(* bits of a positive below the leading one, most significant first; false = left *)
Fixpoint pos_bits (p : positive) (acc : list bool) : list bool :=
  match p with xH => acc | xO p' => pos_bits p' (false :: acc) | xI p' => pos_bits p' (true :: acc) end.
(* gindex_bit_iter (tree.py:31-43): None for gindex < 1 *)
Definition path_of_gindex (g : N) : option (list bool) :=
  match g with N0 => None | Npos p => Some (pos_bits p []) end.

(* the gindex whose path is p *)
Definition gindex_of_path (p : list bool) : N :=
  fold_left (fun g (b : bool) => 2 * g + (if b then 1 else 0)) p 1.

(* tree.py:20-24 *)
Definition to_gindex (i : N) (d : nat) : result N :=
  let anchor := N.shiftl 1 (N.of_nat d) in
  if anchor <=? i then Err EOther else Ok (N.lor anchor i).

(* i.bit_length() *)
Definition bit_length (n : N) : N := N.size n.

(* tree.py:27-28 (only called with gindex >= 1) *)
Definition get_anchor_gindex (g : N) : N := N.shiftl 1 (bit_length g - 1).

(* tree.py:46-52; python would raise on a step of 0 (negative shift count) *)
Definition concat_gindices (steps : list N) : result N :=
  fold_left (fun acc step =>
    do out <- acc;
    if step =? 0 then Err EValue else
    let sbl := bit_length step - 1 in
    Ok (N.lor (N.shiftl out sbl) (N.lxor step (N.shiftl 1 sbl)))) steps (Ok 1).

(* d-bit big-endian bits of i (the path of to_gindex i d) *)
Fixpoint be_bits (d : nat) (i : N) : list bool :=
  match d with
  | O => []
  | S d' => N.testbit i (N.of_nat d') :: be_bits d' i
  end.
