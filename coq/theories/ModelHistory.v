(* ModelHistory.v — model of remerkleable/history.py get_target_history (history.py:8-45). *)
Require Import RM.Base RM.Gindex RM.Tree.

Section WithHash.
Variable H : bytes -> bytes -> bytes.
Variable src : bytes -> option (bytes * bytes).
Notation root := (root H).

(* the de-duplicating loop (history.py:27-40): keep an entry when its root differs from the last
   kept one; `last` starts as None, so the first entry is always kept *)
Fixpoint dedup_from (last : option bytes) (h : list (N * node)) : list (N * node) :=
  match h with
  | [] => []
  | (k, n) :: r =>
      let rt := root n in
      match last with
      | Some l => if bytes_eqb rt l then dedup_from last r else (k, n) :: dedup_from (Some rt) r
      | None => (k, n) :: dedup_from (Some rt) r
      end
  end.
Definition dedup := dedup_from None.

(* node.get_left() / get_right() of every entry; a leaf raises NavigationError *)
Fixpoint children_of (b : bool) (h : list (N * node)) : result (list (N * node)) :=
  match h with
  | [] => Ok []
  | (k, n) :: r =>
      match children src n with
      | None => Err ENav
      | Some (l, rr) => do rest <- children_of b r; Ok ((k, if b then rr else l) :: rest)
      end
  end.

(* the recursion on the target gindex, written on its path: each level looks at the first
   remaining bit, maps to that child, de-duplicates, and continues with the rest of the path *)
Fixpoint target_history (h : list (N * node)) (p : list bool) {struct p} : result (list (N * node)) :=
  match p with
  | [] => Ok (dedup h)
  | b :: p' => do c <- children_of b h; target_history (dedup c) p'
  end.

Definition get_target_history (h : list (N * node)) (g : N) : result (list (N * node)) :=
  match path_of_gindex g with
  | None => Err EValue            (* 1 << -1 in get_anchor_gindex *)
  | Some p => target_history h p
  end.
End WithHash.
