(* SerProofs2.v — C02 for constructed values, part 2: reading the elements of a constructed
   sequence / container back out of its backing, and assembling the specification's encoding. *)
Require Import RM.Base RM.Gindex RM.Tree RM.TreeProofs RM.Types RM.Spec RM.ModelViews RM.ModelCodec
               RM.SerLen RM.FactsProofs RM.MerkleProofs RM.PackProofs RM.CtorProofs RM.PathProofs RM.CRepProofs
               RM.ListProofs RM.SerProofs RM.CodecBasicProofs.
From Coq Require Import ZifyBool ZifyNat ZifyN.
Local Open Scope N_scope.

Section WithHash.
Variable H : bytes -> bytes -> bytes.
Variable src : bytes -> option (bytes * bytes).
Notation root := (root H).
Notation CRep := (CRep H).
Notation ser_impl := (ser_impl H src).
Notation mk := (mk H).

(* element i of a contents tree that represents ns (vector-like: the tree is the whole backing) *)
Lemma getter_i_crep d c ns i dflt : CRep d c ns -> i < lenN ns ->
  getter_i src c i d = Ok (nth (N.to_nat i) ns dflt).
Proof.
  intros Hc Hi. pose proof (CRep_len H _ _ _ Hc) as Hl. pose proof (pow_nat_N d) as Hp.
  assert (i < 2 ^ N.of_nat d) as Hi2 by (unfold lenN in Hi; lia).
  unfold getter_i. rewrite (to_gindex_ok i d Hi2). cbn [bind]. unfold getter_g.
  rewrite (path_of_to_gindex d i Hi2). now apply (CRep_get H src _ _ _ Hc).
Qed.

(* list-like: one more level for the length mix-in *)
Lemma getter_i_crep_list d c lenn ns i dflt : CRep d c ns -> i < lenN ns ->
  getter_i src (PairN c lenn) i (S d) = Ok (nth (N.to_nat i) ns dflt).
Proof.
  intros Hc Hi. pose proof (CRep_len H _ _ _ Hc) as Hl. pose proof (pow_nat_N d) as Hp.
  assert (i < 2 ^ N.of_nat d) as Hi1 by (unfold lenN in Hi; lia).
  assert (i < 2 ^ N.of_nat (S d)) as Hi2 by (rewrite Nat2N.inj_succ, N.pow_succ_r'; lia).
  unfold getter_i. rewrite (to_gindex_ok i (S d) Hi2). cbn [bind]. unfold getter_g.
  rewrite (path_of_to_gindex (S d) i Hi2). cbn [be_bits]. rewrite (testbit_top i d Hi2).
  assert ((2 ^ N.of_nat d <=? i) = false) as -> by (apply N.leb_gt; exact Hi1).
  cbn [getter children]. now apply (CRep_get H src _ _ _ Hc).
Qed.

(* serialising every element of a represented node list, given each element's serialisation *)
Lemma ser_elems (e : ty) (get : N -> result node) : forall (ns : list node) (bs : list bytes) (off : nat),
  length ns = length bs ->
  (forall j, (j < length ns)%nat -> get (N.of_nat (off + j)) = Ok (nth j ns (RootN zero32))) ->
  (forall j, (j < length ns)%nat -> ser_impl e (nth j ns (RootN zero32)) = Ok (nth j bs [], lenN (nth j bs []))) ->
  seq_res (map (fun i => do c <- get i; ser_impl e c) (map N.of_nat (seq off (length ns))))
  = Ok (map (fun b => (b, lenN b)) bs).
Proof.
  induction ns as [|n ns IH]; intros bs off Hlen Hget Hser.
  - destruct bs; [reflexivity|discriminate].
  - destruct bs as [|b bs]; [discriminate|]. cbn [length seq map seq_res].
    pose proof (Hget 0%nat ltac:(cbn; lia)) as Hg0. rewrite Nat.add_0_r in Hg0. cbn [nth] in Hg0. rewrite Hg0. cbn [bind].
    pose proof (Hser 0%nat ltac:(cbn; lia)) as Hs0. cbn [nth] in Hs0. rewrite Hs0. cbn [bind].
    rewrite (IH bs (S off)).
    + reflexivity.
    + cbn in Hlen. lia.
    + intros j Hj. replace (S off + j)%nat with (off + S j)%nat by lia. apply (Hget (S j)). cbn. lia.
    + intros j Hj. apply (Hser (S j)). cbn. lia.
Qed.

Lemma seq_res_map_ok {A B} (f : A -> result B) : forall (l : list A) (rs : list B),
  seq_res (map f l) = Ok rs -> length rs = length l /\ forall j dA dB, (j < length l)%nat -> f (nth j l dA) = Ok (nth j rs dB).
Proof.
  induction l as [|a l IH]; intros rs Hs; cbn [map seq_res] in Hs.
  - inversion Hs. split; [reflexivity|]. intros j dA dB Hj. cbn in Hj. lia.
  - destruct (f a) as [b|] eqn:Ea; [|discriminate]. cbn [bind] in Hs.
    destruct (seq_res (map f l)) as [r|] eqn:Er; [|discriminate]. cbn [bind] in Hs. inversion Hs; subst rs.
    destruct (IH r eq_refl) as [Hl Hn]. split; [cbn; lia|]. intros [|j] dA dB Hj; cbn [nth]; [exact Ea|]. apply Hn. cbn in Hj. lia.
Qed.

(* types for which the full serialisation theorem is proved here: everything except packed
   sequences of basics, bitfields and byte arrays (those are covered by the correspondence) *)
Fixpoint supported (t : ty) : bool :=
  match t with
  | TUint _ | TBool => true
  | TBitvector _ | TBitlist _ | TByteVector _ | TByteList _ => false
  | TVector e _ | TList e _ => negb (is_basic e) && supported e
  | TContainer fs => forallb supported fs
  | TUnion _ os => forallb supported os
  end.

Definition ser_ok (t : ty) (v : val) (n : node) : Prop := ser_impl t n = Ok (ser t v, lenN (ser t v)).

(* the container loop of ser_impl, run on known per-field results *)
Lemma cont_go (n : node) (td : nat) : forall (fs : list ty) (cs : list node) (xs : list (bytes * N)) (i : N) acc,
  length cs = length fs -> length xs = length fs ->
  (forall j, (j < length fs)%nat -> getter_i src n (i + N.of_nat j) td = Ok (nth j cs (RootN zero32))) ->
  (forall j, (j < length fs)%nat -> ser_impl (nth j fs TBool) (nth j cs (RootN zero32)) = Ok (nth j xs ([], 0))) ->
  (fix go (fs : list ty) (i : N) (acc : bytes * bytes * N) : result (bytes * bytes * N) :=
     match fs with
     | [] => Ok acc
     | f :: fs' =>
         let '(fx, vr, written) := acc in
         do c <- getter_i src n i td;
         do x <- ser_impl f c;
         if is_fixed_impl f then go fs' (i + 1) (fx ++ fst x, vr, written)
         else go fs' (i + 1) (fx ++ le_bytes 4 written, vr ++ fst x, written + snd x)
     end) fs i acc
  = Ok (cont_loop (combine (map is_fixed_impl fs) xs) acc).
Proof.
  induction fs as [|f fs IH]; intros cs xs i acc Hlc Hlx Hget Hser.
  - destruct xs; [reflexivity|discriminate].
  - destruct cs as [|c cs]; [discriminate|]. destruct xs as [|x xs]; [discriminate|].
    destruct acc as [[fx vr] written]. cbn [map combine cont_loop].
    pose proof (Hget 0%nat ltac:(cbn; lia)) as Hg0. rewrite N.add_0_r in Hg0. cbn [nth] in Hg0. rewrite Hg0. cbn [bind].
    pose proof (Hser 0%nat ltac:(cbn; lia)) as Hs0. cbn [nth] in Hs0. rewrite Hs0. cbn [bind].
    assert (forall acc', (fix go (fs : list ty) (i : N) (acc : bytes * bytes * N) : result (bytes * bytes * N) :=
             match fs with
             | [] => Ok acc
             | f :: fs' =>
                 let '(fx, vr, written) := acc in
                 do c <- getter_i src n i td;
                 do x <- ser_impl f c;
                 if is_fixed_impl f then go fs' (i + 1) (fx ++ fst x, vr, written)
                 else go fs' (i + 1) (fx ++ le_bytes 4 written, vr ++ fst x, written + snd x)
             end) fs (i + 1) acc' = Ok (cont_loop (combine (map is_fixed_impl fs) xs) acc')) as Hrest.
    { intros acc'. apply (IH cs xs (i + 1) acc'); [cbn in Hlc; lia|cbn in Hlx; lia| |].
      - intros j Hj. replace (i + 1 + N.of_nat j) with (i + N.of_nat (S j)) by lia. apply (Hget (S j)). cbn. lia.
      - intros j Hj. apply (Hser (S j)). cbn. lia. }
    destruct (is_fixed_impl f); apply Hrest.
Qed.

(* assembling a sequence's encoding from its elements' encodings *)
Lemma seq_assemble (e : ty) (vs : list val) : wf_ty e = true -> forallb (wf e) vs = true ->
  let els := map (fun x => (ser e x, lenN (ser e x))) vs in
  (if is_fixed e then Ok (concat (map fst els), min_len e * lenN vs)
   else let '(f, v, off) := seq_fold els (OFFSET * lenN vs) in Ok (f ++ firstn (N.to_nat off) v, off))
  = Ok (ser_parts (map (fun x => (is_fixed e, ser e x)) vs), lenN (ser_parts (map (fun x => (is_fixed e, ser e x)) vs))).
Proof.
  intros Hte Hall els. destruct (is_fixed e) eqn:Ef.
  - destruct (seq_fixed_ser els (fsize e)) as [Hc Hl].
    { intros x Hx. unfold els in Hx. apply in_map_iff in Hx as (y & <- & Hy). cbn [fst].
      apply ser_len_fixed; [exact Hte|apply (forallb_In _ _ _ Hall Hy)|exact Ef]. }
    assert (map (fun x : bytes * N => (true, fst x)) els = map (fun x => (true, ser e x)) vs) as Hm
      by (unfold els; rewrite map_map; reflexivity).
    rewrite Hm in Hc. rewrite <- Hc. f_equal. f_equal. rewrite Hl.
    destruct (fixed_min_eq_fsize e Ef) as [-> _]. f_equal. unfold els, lenN. now rewrite map_length.
  - pose proof (seq_var_ser els) as Hv.
    assert (lenN els = lenN vs) as El by (unfold els, lenN; now rewrite map_length).
    rewrite El in Hv.
    assert (map (fun x : bytes * N => (false, fst x)) els = map (fun x => (false, ser e x)) vs) as Hm
      by (unfold els; rewrite map_map; reflexivity).
    rewrite Hm in Hv.
    destruct (seq_fold els (OFFSET * lenN vs)) as [[f v] off].
    destruct Hv as [Hb Ho].
    { intros x Hx. unfold els in Hx. apply in_map_iff in Hx as (y & <- & _). reflexivity. }
    now rewrite Hb, Ho.
Qed.

Lemma elems_ser (e : ty) (vs : list val) (ns : list node) (get : N -> result node) :
  (forall x n, wf e x = true -> mk e x = Ok n -> ser_ok e x n) ->
  forallb (wf e) vs = true -> seq_res (map (mk e) vs) = Ok ns ->
  (forall j, (j < length ns)%nat -> get (N.of_nat j) = Ok (nth j ns (RootN zero32))) ->
  seq_res (map (fun i => do c <- get i; ser_impl e c) (iotaN (length vs)))
  = Ok (map (fun x => (ser e x, lenN (ser e x))) vs).
Proof.
  intros IHe Hall Hns Hget. destruct (seq_res_map_ok (mk e) vs ns Hns) as [Hl Hn].
  unfold iotaN. rewrite <- Hl.
  rewrite (ser_elems e get ns (map (ser e) vs) 0).
  - now rewrite map_map.
  - now rewrite map_length.
  - intros j Hj. cbn [Nat.add]. now apply Hget.
  - intros j Hj. rewrite Hl in Hj.
    assert (nth j (map (ser e) vs) [] = ser e (nth j vs (VUint 0))) as ->.
    { rewrite (nth_indep _ [] (ser e (VUint 0))) by (now rewrite map_length). apply map_nth. }
    apply IHe; [|apply Hn; exact Hj]. apply (forallb_In _ _ _ Hall). now apply nth_In.
Qed.

Theorem ser_constructed : forall t v n, wf_ty t = true -> supported t = true -> wf t v = true ->
  mk t v = Ok n -> ser_ok t v n.
Proof.
  induction t as [k| |nn|l|nn|l|e nn IHe|e l IHe|fs Hfs|b os Hos] using ty_ind'; intros v n0 Hty Hsup Hwf Hmk;
    destruct v; cbn [wf] in Hwf; try discriminate; cbn [supported] in Hsup; try discriminate.
  - (* uint *) unfold ser_ok. apply ser_uint; [exact Hty|now apply N.ltb_lt|exact Hmk].
  - (* bool *) unfold ser_ok. rewrite (ser_bool H src b n0 Hmk). reflexivity.
  - (* vector *)
    apply andb_true_iff in Hsup as [Hnb Hse]. apply andb_true_iff in Hwf as [Hn Hall]. apply N.eqb_eq in Hn.
    pose proof Hty as Hty0. cbn [wf_ty] in Hty. apply andb_true_iff in Hty as [Hty Hnb2]. apply andb_true_iff in Hty as [Hte Hn1]. apply N.leb_le in Hn1.
    assert (basic_size e = None) as Eb by (unfold is_basic in Hnb; destruct (basic_size e); [discriminate|reflexivity]).
    cbn [ModelViews.mk] in Hmk. destruct vs as [|x0 vs0] eqn:Evs; [unfold lenN in Hn; cbn in Hn; lia|]. rewrite <- Evs in *.
    assert ((lenN vs =? nn) = true) as Hn' by now apply N.eqb_eq. rewrite Hn' in Hmk. cbn [negb] in Hmk. rewrite Eb in Hmk.
    destruct (seq_res (map (mk e) vs)) as [ns|] eqn:Hns; [|discriminate]. cbn [bind] in Hmk.
    destruct (seq_res_map_ok (mk e) vs ns Hns) as [Hl _].
    destruct (fill_to_contents_CRep H (contents_depth (TVector e nn)) ns) as (n' & Hf & Hc).
    { rewrite Hl. cbn [contents_depth]. unfold to_chunk_length. rewrite Eb. pose proof (get_depth_fits nn). unfold lenN in Hn. lia. }
    rewrite Hf in Hmk. inversion Hmk; subst n'. clear Hmk.
    unfold ser_ok. cbn [ModelCodec.ser_impl view_len bind]. rewrite Eb.
    assert (tree_depth (TVector e nn) = contents_depth (TVector e nn)) as -> by reflexivity.
    replace (N.to_nat nn) with (length vs) by (unfold lenN in Hn; lia).
    rewrite (elems_ser e vs ns (fun i => getter_i src n0 i (contents_depth (TVector e nn)))
               (fun x n Hx Hm => IHe x n Hte Hse Hx Hm) Hall Hns).
    2:{ intros j Hj. rewrite <- (Nat2N.id j) at 2. apply (getter_i_crep _ _ ns _ _ Hc). unfold lenN. lia. }
    cbn [bind]. rewrite is_fixed_impl_eq, min_impl_eq. cbn [Spec.ser]. rewrite <- Hn.
    exact (seq_assemble e vs Hte Hall).
  - (* list *)
    apply andb_true_iff in Hsup as [Hnb Hse]. apply andb_true_iff in Hwf as [Hn Hall]. apply N.leb_le in Hn.
    pose proof Hty as Hty0. cbn [wf_ty] in Hty. apply andb_true_iff in Hty as [Hte Hlb]. apply N.ltb_lt in Hlb.
    assert (basic_size e = None) as Eb by (unfold is_basic in Hnb; destruct (basic_size e); [discriminate|reflexivity]).
    cbn [ModelViews.mk] in Hmk. destruct vs as [|x0 vs0] eqn:Evs.
    + cbn [default_node] in Hmk. inversion Hmk; subst n0. clear Hmk.
      change (zero_node H 0) with (len_node 0).
      unfold ser_ok. cbn [ModelCodec.ser_impl view_len]. rewrite (mixin_len_node H src _ 0) by (cbn; lia). cbn [bind]. rewrite Eb.
      cbn. rewrite is_fixed_impl_eq. destruct (is_fixed e); [rewrite N.mul_0_r|]; reflexivity.
    + rewrite <- Evs in *. assert ((l <? lenN vs) = false) as Hlt by (apply N.ltb_ge; exact Hn). rewrite Hlt, Eb in Hmk.
      destruct (seq_res (map (mk e) vs)) as [ns|] eqn:Hns; [|discriminate]. cbn [bind] in Hmk.
      destruct (seq_res_map_ok (mk e) vs ns Hns) as [Hl _].
      destruct (fill_to_contents_CRep H (contents_depth (TList e l)) ns) as (c & Hf & Hc).
      { rewrite Hl. cbn [contents_depth]. unfold to_chunk_length. rewrite Eb. pose proof (get_depth_fits l). unfold lenN in Hn. lia. }
      rewrite Hf in Hmk. cbn [bind] in Hmk. inversion Hmk; subst n0. clear Hmk.
      assert (lenN vs < 2 ^ 64) as H64 by (unfold LIMIT_BOUND in Hlb; lia).
      unfold ser_ok. cbn [ModelCodec.ser_impl view_len]. rewrite (mixin_len_node H src c (lenN vs) H64). cbn [bind]. rewrite Eb.
      assert (tree_depth (TList e l) = S (contents_depth (TList e l))) as -> by reflexivity.
      replace (N.to_nat (lenN vs)) with (length vs) by (unfold lenN; lia).
      rewrite (elems_ser e vs ns (fun i => getter_i src (PairN c (len_node (lenN vs))) i (S (contents_depth (TList e l))))
                 (fun x n Hx Hm => IHe x n Hte Hse Hx Hm) Hall Hns).
      2:{ intros j Hj. rewrite <- (Nat2N.id j) at 2. apply (getter_i_crep_list _ _ _ ns _ _ Hc). unfold lenN. lia. }
      cbn [bind]. rewrite is_fixed_impl_eq, min_impl_eq. cbn [Spec.ser].
      exact (seq_assemble e vs Hte Hall).
  - (* container *)
    pose proof Hty as Hty0. cbn [wf_ty] in Hty. apply andb_true_iff in Hty as [Hne Htys].
    cbn [ModelViews.mk] in Hmk.
    (* the field nodes *)
    assert (exists ns, (fix go (fs : list ty) (vs : list val) : result (list node) :=
                 match fs, vs with
                 | [], [] => Ok []
                 | f :: fs', x :: vs' => do a <- mk f x; do r <- go fs' vs'; Ok (a :: r)
                 | _, _ => Err EAttr
                 end) fs vs = Ok ns /\ length ns = length fs /\ length vs = length fs /\
              forall j, (j < length fs)%nat ->
                ser_ok (nth j fs TBool) (nth j vs (VUint 0)) (nth j ns (RootN zero32))) as (ns & Hgo & Hlns & Hlvs & Hfield).
    { clear Hmk Hty0 Hne. revert vs Hwf. induction Hfs as [|f fs Hf Hfs' IH]; intros vs Hwf.
      - destruct vs; [|discriminate]. exists []. repeat split. intros j Hj. cbn in Hj. lia.
      - destruct vs as [|x vs]; [discriminate|]. apply andb_true_iff in Hwf as [Hx Hrest].
        cbn [forallb] in Htys, Hsup. apply andb_true_iff in Htys as [Htf Htys]. apply andb_true_iff in Hsup as [Hsf Hsup].
        destruct (mk_root H f x Htf Hx) as (a & Ha & _).
        destruct (IH Htys Hsup vs Hrest) as (ns & Hgo & Hl1 & Hl2 & Hfield).
        exists (a :: ns). rewrite Ha. cbn [bind]. rewrite Hgo. cbn [bind length]. repeat split; try lia.
        intros [|j] Hj; cbn [nth]; [now apply Hf|]. apply Hfield. cbn in Hj. lia. }
    rewrite Hgo in Hmk. cbn [bind] in Hmk.
    destruct (fill_to_contents_CRep H (contents_depth (TContainer fs)) ns) as (n' & Hf & Hc).
    { rewrite Hlns. cbn [contents_depth]. pose proof (get_depth_fits (lenN fs)). unfold lenN in *. lia. }
    rewrite Hf in Hmk. inversion Hmk; subst n'. clear Hmk.
    unfold ser_ok. cbn [ModelCodec.ser_impl].
    assert (tree_depth (TContainer fs) = contents_depth (TContainer fs)) as -> by reflexivity.
    set (xs := map (fun j => (ser (nth j fs TBool) (nth j vs (VUint 0)), lenN (ser (nth j fs TBool) (nth j vs (VUint 0))))) (seq 0 (length fs))).
    rewrite (cont_go n0 (contents_depth (TContainer fs)) fs ns xs 0).
    + (* assemble *)
      cbn [bind].
      assert (forall (fs0 : list ty) a, fold_left (fun acc f => acc + (if is_fixed_impl f then min_impl f else OFFSET)) fs0 a
                = a + sumN (map (fun f => if is_fixed f then fsize f else OFFSET) fs0)) as Hw.
      { induction fs0 as [|f fs0 IH0]; intros a; cbn [fold_left map]; [unfold sumN; cbn; lia|].
        rewrite IH0. unfold sumN. cbn [fold_right]. rewrite is_fixed_impl_eq, min_impl_eq.
        destruct (is_fixed f) eqn:Ef; [destruct (fixed_min_eq_fsize f Ef) as [-> _]|]; lia. }
      rewrite Hw, N.add_0_l.
      set (fields := combine (map is_fixed_impl fs) xs).
      assert (parts_of fields =
              (fix go (fs : list ty) (vs : list val) : list (bool * bytes) :=
                 match fs, vs with
                 | f :: fs', x :: vs' => (is_fixed f, ser f x) :: go fs' vs'
                 | _, _ => []
                 end) fs vs) as Hparts.
      { unfold fields, xs. clear - Hlvs. 
        assert (forall (fs : list ty) (vs : list val) (pre : nat) (F : list ty) (V : list val),
                  length vs = length fs -> (forall j, (j < length fs)%nat -> nth (pre + j) F TBool = nth j fs TBool /\ nth (pre + j) V (VUint 0) = nth j vs (VUint 0)) ->
                  parts_of (combine (map is_fixed_impl fs)
                     (map (fun j => (ser (nth j F TBool) (nth j V (VUint 0)), lenN (ser (nth j F TBool) (nth j V (VUint 0))))) (seq pre (length fs))))
                  = (fix go (fs : list ty) (vs : list val) : list (bool * bytes) :=
                       match fs, vs with
                       | f :: fs', x :: vs' => (is_fixed f, ser f x) :: go fs' vs'
                       | _, _ => []
                       end) fs vs) as Hgen.
        { induction fs0 as [|f fs0 IH]; intros vs0 pre F V Hl Hnth; [reflexivity|].
          destruct vs0 as [|x vs0]; [discriminate|]. cbn [length seq map combine fst snd].
          destruct (Hnth 0%nat ltac:(cbn; lia)) as [E1 E2]. rewrite Nat.add_0_r in E1, E2. cbn [nth] in E1, E2.
          rewrite E1, E2, is_fixed_impl_eq. f_equal.
          apply (IH vs0 (S pre) F V); [cbn in Hl; lia|]. intros j Hj.
          destruct (Hnth (S j) ltac:(cbn; lia)) as [E3 E4]. replace (S pre + j)%nat with (pre + S j)%nat by lia. now split. }
        apply (Hgen fs vs 0%nat fs vs Hlvs). intros j Hj. now split. }
      pose proof (cont_ser fields) as Hcs.
      assert (sumN (map fixed_part_len (parts_of fields)) = sumN (map (fun f => if is_fixed f then fsize f else OFFSET) fs)) as Hfx.
      { rewrite Hparts. clear - Hwf Htys. revert vs Hwf Htys. induction fs as [|f fs IH]; intros vs Hwf Htys; [reflexivity|].
        destruct vs as [|x vs]; [discriminate|]. apply andb_true_iff in Hwf as [Hx Hrest].
        cbn [forallb] in Htys. apply andb_true_iff in Htys as [Htf Htys].
        cbn [map]. unfold sumN in *. cbn [fold_right]. rewrite (IH vs Hrest Htys).
        unfold fixed_part_len at 1. cbn [fst snd]. destruct (is_fixed f) eqn:Ef; [|reflexivity].
        now rewrite (ser_len_fixed f x Htf Hx Ef). }
      rewrite Hfx in Hcs. destruct Hcs as [Hb Ho].
      { intros [pf px] Hp. unfold fields in Hp. apply in_combine_r in Hp. unfold xs in Hp. apply in_map_iff in Hp as (j & <- & _). reflexivity. }
      destruct (cont_loop fields ([], [], sumN (map (fun f => if is_fixed f then fsize f else OFFSET) fs))) as [[fx vr] written].
      cbn [fst snd] in Hb, Ho. cbn [Spec.ser]. rewrite <- Hparts. now rewrite Hb, Ho.
    + exact Hlns.
    + unfold xs. now rewrite map_length, seq_length.
    + intros j Hj. rewrite N.add_0_l. rewrite <- (Nat2N.id j) at 2. apply (getter_i_crep _ _ ns _ _ Hc). unfold lenN. lia.
    + intros j Hj. unfold xs.
      set (F := fun j0 : nat => (ser (nth j0 fs TBool) (nth j0 vs (VUint 0)), lenN (ser (nth j0 fs TBool) (nth j0 vs (VUint 0))))).
      rewrite (nth_indep _ ([], 0) (F 0%nat)) by (rewrite map_length, seq_length; exact Hj).
      rewrite (map_nth F), seq_nth by exact Hj. cbn [Nat.add]. unfold F. apply Hfield. exact Hj.
  - (* union *)
    cbn [wf_ty] in Hty. apply andb_true_iff in Hty as [Hty Hcount]. apply andb_true_iff in Hty as [Htys Hne].
    apply N.leb_le in Hcount.
    cbn [ModelViews.mk] in Hmk.
    destruct v as [x|].
    + apply andb_true_iff in Hwf as [Hsel Hpick].
      (* the selected option *)
      assert (exists o, nth_error os (if b then pred sel else sel) = Some o /\ wf o x = true /\ wf_ty o = true /\ supported o = true /\
                (forall n, mk o x = Ok n -> ser_ok o x n) /\
                (forall (A : Type) (F : ty -> A) (dflt : A),
                   (fix pick (os : list ty) (i : nat) : A :=
                      match os, i with o :: _, O => F o | _ :: os', S i' => pick os' i' | [], _ => dflt end) os (if b then pred sel else sel) = F o))
        as (o & Hnth & Hwo & Hto & Hso & Hio & Hpk).
      { clear Hmk Hne Hcount Hsel. generalize dependent (if b then pred sel else sel). clear sel.
        induction Hos as [|o os Ho Hos' IH]; intros i Hpick; [destruct i; discriminate|].
        cbn [forallb] in Htys, Hsup. apply andb_true_iff in Htys as [Hto Htys]. apply andb_true_iff in Hsup as [Hso Hsup].
        destruct i as [|i].
        - exists o. repeat split; auto.
        - destruct (IH Htys Hsup i Hpick) as (o' & Hn' & H1 & H2 & H3 & H4 & H5). exists o'. repeat split; auto. }
      assert ((lenN os + (if b then 1 else 0) <=? N.of_nat sel) = false) as Hin.
      { apply N.leb_gt. pose proof (proj1 (nth_error_Some os (if b then pred sel else sel)) ltac:(congruence)) as Hlt.
        unfold lenN. destruct b; cbn [negb] in Hsel; [destruct sel; [discriminate|]; cbn [pred] in Hlt|]; lia. }
      rewrite Hin in Hmk.
      assert ((b && (sel =? 0)%nat) = false) as Hbs.
      { destruct b; [|reflexivity]. cbn [andb negb] in *. destruct sel; [discriminate|reflexivity]. }
      rewrite Hbs in Hmk. rewrite (Hpk _ (fun o => mk o x) (Err EIndex)) in Hmk.
      destruct (mk o x) as [c|] eqn:Hc; [|discriminate]. cbn [bind] in Hmk. inversion Hmk; subst n0. clear Hmk.
      unfold ser_ok. cbn [ModelCodec.ser_impl].
      assert (N.of_nat sel < 2 ^ 64) as Hs64.
      { pose proof (proj1 (nth_error_Some os (if b then pred sel else sel)) ltac:(congruence)) as Hlt. unfold lenN in Hcount.
        assert (2 ^ 64 > 200) by (cbn; lia). destruct b; [destruct sel; cbn [pred] in Hlt|]; lia. }
      rewrite (mixin_len_node H src c (N.of_nat sel) Hs64). cbn [bind]. rewrite Hin. cbn [get_left children bind].
      assert ((b && (N.of_nat sel =? 0)) = false) as ->.
      { destruct b; [|reflexivity]. cbn [andb]. destruct sel; [cbn in Hbs; discriminate|]. apply N.eqb_neq. lia. }
      replace (N.to_nat (if b then N.of_nat sel - 1 else N.of_nat sel)) with (if b then pred sel else sel) by (destruct b; lia).
      rewrite (Hpk _ (fun o => ser_impl o c) (Err EIndex)).
      rewrite (Hio c eq_refl). cbn [bind fst snd Spec.ser].
      rewrite (Hpk _ (fun o => ser o x) []). f_equal. f_equal. rewrite lenN_cons. reflexivity.
    + apply andb_true_iff in Hwf as [Hb Hsel]. apply Nat.eqb_eq in Hsel. subst b sel.
      assert ((lenN os + 1 <=? N.of_nat 0) = false) as Hin by (apply N.leb_gt; lia). rewrite Hin in Hmk.
      cbn [andb Nat.eqb bind] in Hmk. inversion Hmk; subst n0. clear Hmk.
      unfold ser_ok. cbn [ModelCodec.ser_impl]. rewrite (mixin_len_node H src _ (N.of_nat 0)) by (cbn; lia). cbn [bind].
      rewrite Hin. cbn [get_left children bind andb N.of_nat N.eqb Tree.root Tree.zero_node Tree.zero_hash].
      assert (bytes_eqb zero32 zero32 = true) as -> by now apply bytes_eqb_eq. reflexivity.
Qed.

(* every well-formed value of a supported type can be constructed, and its backing serialises to the spec bytes *)
Corollary ser_constructed_total : forall t v, wf_ty t = true -> supported t = true -> wf t v = true ->
  exists n, mk t v = Ok n /\ ser_impl t n = Ok (ser t v, lenN (ser t v)).
Proof.
  intros t v Hty Hs Hwf. destruct (mk_root H t v Hty Hwf) as (n & Hn & _). exists n. split; [exact Hn|].
  exact (ser_constructed t v n Hty Hs Hwf Hn).
Qed.

End WithHash.
