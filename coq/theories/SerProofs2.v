(* SerProofs2.v — C02 for constructed values, part 2: reading the elements of a constructed
   sequence / container back out of its backing, and assembling the specification's encoding. *)
Require Import RM.Base RM.Gindex RM.Tree RM.TreeProofs RM.Types RM.Spec RM.ModelViews RM.ModelCodec
               RM.SerLen RM.FactsProofs RM.MerkleProofs RM.PackProofs RM.CtorProofs RM.PathProofs RM.CRepProofs
               RM.ListProofs RM.SerProofs RM.CodecBasicProofs.
From Coq Require Import ZifyBool ZifyNat ZifyN.
Local Open Scope N_scope.

Section WithHash.
Variable H : bytes -> bytes -> bytes.
Variable src : bytes -> option (bytes * bytes).
Notation root := (root H).
Notation CRep := (CRep H).
Notation ser_impl := (ser_impl H src).
Notation mk := (mk H).

(* element i of a contents tree that represents ns (vector-like: the tree is the whole backing) *)
Lemma getter_i_crep d c ns i dflt : CRep d c ns -> i < lenN ns ->
  getter_i src c i d = Ok (nth (N.to_nat i) ns dflt).
Proof.
  intros Hc Hi. pose proof (CRep_len H _ _ _ Hc) as Hl. pose proof (pow_nat_N d) as Hp.
  assert (i < 2 ^ N.of_nat d) as Hi2 by (unfold lenN in Hi; lia).
  unfold getter_i. rewrite (to_gindex_ok i d Hi2). cbn [bind]. unfold getter_g.
  rewrite (path_of_to_gindex d i Hi2). now apply (CRep_get H src _ _ _ Hc).
Qed.

(* list-like: one more level for the length mix-in *)
Lemma getter_i_crep_list d c lenn ns i dflt : CRep d c ns -> i < lenN ns ->
  getter_i src (PairN c lenn) i (S d) = Ok (nth (N.to_nat i) ns dflt).
Proof.
  intros Hc Hi. pose proof (CRep_len H _ _ _ Hc) as Hl. pose proof (pow_nat_N d) as Hp.
  assert (i < 2 ^ N.of_nat d) as Hi1 by (unfold lenN in Hi; lia).
  assert (i < 2 ^ N.of_nat (S d)) as Hi2 by (rewrite Nat2N.inj_succ, N.pow_succ_r'; lia).
  unfold getter_i. rewrite (to_gindex_ok i (S d) Hi2). cbn [bind]. unfold getter_g.
  rewrite (path_of_to_gindex (S d) i Hi2). cbn [be_bits]. rewrite (testbit_top i d Hi2).
  assert ((2 ^ N.of_nat d <=? i) = false) as -> by (apply N.leb_gt; exact Hi1).
  cbn [getter children]. now apply (CRep_get H src _ _ _ Hc).
Qed.

(* serialising every element of a represented node list, given each element's serialisation *)
Lemma ser_elems (e : ty) (get : N -> result node) : forall (ns : list node) (bs : list bytes) (off : nat),
  length ns = length bs ->
  (forall j, (j < length ns)%nat -> get (N.of_nat (off + j)) = Ok (nth j ns (RootN zero32))) ->
  (forall j, (j < length ns)%nat -> ser_impl e (nth j ns (RootN zero32)) = Ok (nth j bs [], lenN (nth j bs []))) ->
  seq_res (map (fun i => do c <- get i; ser_impl e c) (map N.of_nat (seq off (length ns))))
  = Ok (map (fun b => (b, lenN b)) bs).
Proof.
  induction ns as [|n ns IH]; intros bs off Hlen Hget Hser.
  - destruct bs; [reflexivity|discriminate].
  - destruct bs as [|b bs]; [discriminate|]. cbn [length seq map seq_res].
    pose proof (Hget 0%nat ltac:(cbn; lia)) as Hg0. rewrite Nat.add_0_r in Hg0. cbn [nth] in Hg0. rewrite Hg0. cbn [bind].
    pose proof (Hser 0%nat ltac:(cbn; lia)) as Hs0. cbn [nth] in Hs0. rewrite Hs0. cbn [bind].
    rewrite (IH bs (S off)).
    + reflexivity.
    + cbn in Hlen. lia.
    + intros j Hj. replace (S off + j)%nat with (off + S j)%nat by lia. apply (Hget (S j)). cbn. lia.
    + intros j Hj. apply (Hser (S j)). cbn. lia.
Qed.

Lemma seq_res_map_ok {A B} (f : A -> result B) : forall (l : list A) (rs : list B),
  seq_res (map f l) = Ok rs -> length rs = length l /\ forall j dA dB, (j < length l)%nat -> f (nth j l dA) = Ok (nth j rs dB).
Proof.
  induction l as [|a l IH]; intros rs Hs; cbn [map seq_res] in Hs.
  - inversion Hs. split; [reflexivity|]. intros j dA dB Hj. cbn in Hj. lia.
  - destruct (f a) as [b|] eqn:Ea; [|discriminate]. cbn [bind] in Hs.
    destruct (seq_res (map f l)) as [r|] eqn:Er; [|discriminate]. cbn [bind] in Hs. inversion Hs; subst rs.
    destruct (IH r eq_refl) as [Hl Hn]. split; [cbn; lia|]. intros [|j] dA dB Hj; cbn [nth]; [exact Ea|]. apply Hn. cbn in Hj. lia.
Qed.

Definition ser_ok (t : ty) (v : val) (n : node) : Prop := ser_impl t n = Ok (ser t v, lenN (ser t v)).

(* the container loop of ser_impl, run on known per-field results *)
Lemma cont_go (n : node) (td : nat) : forall (fs : list ty) (cs : list node) (xs : list (bytes * N)) (i : N) acc,
  length cs = length fs -> length xs = length fs ->
  (forall j, (j < length fs)%nat -> getter_i src n (i + N.of_nat j) td = Ok (nth j cs (RootN zero32))) ->
  (forall j, (j < length fs)%nat -> ser_impl (nth j fs TBool) (nth j cs (RootN zero32)) = Ok (nth j xs ([], 0))) ->
  (fix go (fs : list ty) (i : N) (acc : bytes * bytes * N) : result (bytes * bytes * N) :=
     match fs with
     | [] => Ok acc
     | f :: fs' =>
         let '(fx, vr, written) := acc in
         do c <- getter_i src n i td;
         do x <- ser_impl f c;
         if is_fixed_impl f then go fs' (i + 1) (fx ++ fst x, vr, written)
         else go fs' (i + 1) (fx ++ le_bytes 4 written, vr ++ fst x, written + snd x)
     end) fs i acc
  = Ok (cont_loop (combine (map is_fixed_impl fs) xs) acc).
Proof.
  induction fs as [|f fs IH]; intros cs xs i acc Hlc Hlx Hget Hser.
  - destruct xs; [reflexivity|discriminate].
  - destruct cs as [|c cs]; [discriminate|]. destruct xs as [|x xs]; [discriminate|].
    destruct acc as [[fx vr] written]. cbn [map combine cont_loop].
    pose proof (Hget 0%nat ltac:(cbn; lia)) as Hg0. rewrite N.add_0_r in Hg0. cbn [nth] in Hg0. rewrite Hg0. cbn [bind].
    pose proof (Hser 0%nat ltac:(cbn; lia)) as Hs0. cbn [nth] in Hs0. rewrite Hs0. cbn [bind].
    assert (forall acc', (fix go (fs : list ty) (i : N) (acc : bytes * bytes * N) : result (bytes * bytes * N) :=
             match fs with
             | [] => Ok acc
             | f :: fs' =>
                 let '(fx, vr, written) := acc in
                 do c <- getter_i src n i td;
                 do x <- ser_impl f c;
                 if is_fixed_impl f then go fs' (i + 1) (fx ++ fst x, vr, written)
                 else go fs' (i + 1) (fx ++ le_bytes 4 written, vr ++ fst x, written + snd x)
             end) fs (i + 1) acc' = Ok (cont_loop (combine (map is_fixed_impl fs) xs) acc')) as Hrest.
    { intros acc'. apply (IH cs xs (i + 1) acc'); [cbn in Hlc; lia|cbn in Hlx; lia| |].
      - intros j Hj. replace (i + 1 + N.of_nat j) with (i + N.of_nat (S j)) by lia. apply (Hget (S j)). cbn. lia.
      - intros j Hj. apply (Hser (S j)). cbn. lia. }
    destruct (is_fixed_impl f); apply Hrest.
Qed.

(* assembling a sequence's encoding from its elements' encodings *)
Lemma seq_assemble (e : ty) (vs : list val) : wf_ty e = true -> forallb (wf e) vs = true ->
  let els := map (fun x => (ser e x, lenN (ser e x))) vs in
  (if is_fixed e then Ok (concat (map fst els), min_len e * lenN vs)
   else let '(f, v, off) := seq_fold els (OFFSET * lenN vs) in Ok (f ++ firstn (N.to_nat off) v, off))
  = Ok (ser_parts (map (fun x => (is_fixed e, ser e x)) vs), lenN (ser_parts (map (fun x => (is_fixed e, ser e x)) vs))).
Proof.
  intros Hte Hall els. destruct (is_fixed e) eqn:Ef.
  - destruct (seq_fixed_ser els (fsize e)) as [Hc Hl].
    { intros x Hx. unfold els in Hx. apply in_map_iff in Hx as (y & <- & Hy). cbn [fst].
      apply ser_len_fixed; [exact Hte|apply (forallb_In _ _ _ Hall Hy)|exact Ef]. }
    assert (map (fun x : bytes * N => (true, fst x)) els = map (fun x => (true, ser e x)) vs) as Hm
      by (unfold els; rewrite map_map; reflexivity).
    rewrite Hm in Hc. rewrite <- Hc. f_equal. f_equal. rewrite Hl.
    destruct (fixed_min_eq_fsize e Ef) as [-> _]. f_equal. unfold els, lenN. now rewrite map_length.
  - pose proof (seq_var_ser els) as Hv.
    assert (lenN els = lenN vs) as El by (unfold els, lenN; now rewrite map_length).
    rewrite El in Hv.
    assert (map (fun x : bytes * N => (false, fst x)) els = map (fun x => (false, ser e x)) vs) as Hm
      by (unfold els; rewrite map_map; reflexivity).
    rewrite Hm in Hv.
    destruct (seq_fold els (OFFSET * lenN vs)) as [[f v] off].
    destruct Hv as [Hb Ho].
    { intros x Hx. unfold els in Hx. apply in_map_iff in Hx as (y & <- & _). reflexivity. }
    now rewrite Hb, Ho.
Qed.

Lemma elems_ser (e : ty) (vs : list val) (ns : list node) (get : N -> result node) :
  (forall x n, wf e x = true -> mk e x = Ok n -> ser_ok e x n) ->
  forallb (wf e) vs = true -> seq_res (map (mk e) vs) = Ok ns ->
  (forall j, (j < length ns)%nat -> get (N.of_nat j) = Ok (nth j ns (RootN zero32))) ->
  seq_res (map (fun i => do c <- get i; ser_impl e c) (iotaN (length vs)))
  = Ok (map (fun x => (ser e x, lenN (ser e x))) vs).
Proof.
  intros IHe Hall Hns Hget. destruct (seq_res_map_ok (mk e) vs ns Hns) as [Hl Hn].
  unfold iotaN. rewrite <- Hl.
  rewrite (ser_elems e get ns (map (ser e) vs) 0).
  - now rewrite map_map.
  - now rewrite map_length.
  - intros j Hj. cbn [Nat.add]. now apply Hget.
  - intros j Hj. rewrite Hl in Hj.
    assert (nth j (map (ser e) vs) [] = ser e (nth j vs (VUint 0))) as ->.
    { rewrite (nth_indep _ [] (ser e (VUint 0))) by (now rewrite map_length). apply map_nth. }
    apply IHe; [|apply Hn; exact Hj]. apply (forallb_In _ _ _ Hall). now apply nth_In.
Qed.

End WithHash.
