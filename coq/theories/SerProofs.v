(* SerProofs.v — serialisation of the implementation model equals the specification (C02).
   Part 1: the offset bookkeeping of sequences and containers of variable-size parts is exactly the
   specification's "fixed parts with 4-byte offsets, then the variable parts in order". *)
Require Import RM.Base RM.Gindex RM.Tree RM.Types RM.Spec RM.ModelViews RM.ModelCodec RM.SerLen RM.FactsProofs.
From Coq Require Import ZifyBool ZifyNat ZifyN.
Local Open Scope N_scope.

(* ---- variable-size sequence: MonoSubtreeView.serialize's else-branch (complex.py:159-167) ---- *)
Definition seq_fold (els : list (bytes * N)) (start : N) : bytes * bytes * N :=
  fold_left (fun (acc : bytes * bytes * N) (x : bytes * N) =>
               let '(f, v, off) := acc in (f ++ le_bytes 4 off, v ++ fst x, off + snd x))
            els ([], [], start).

Lemma seq_fold_gen : forall (els : list (bytes * N)) f0 v0 off0,
  (forall x, In x els -> snd x = lenN (fst x)) ->
  fold_left (fun (acc : bytes * bytes * N) (x : bytes * N) =>
               let '(f, v, off) := acc in (f ++ le_bytes 4 off, v ++ fst x, off + snd x))
            els (f0, v0, off0)
  = (f0 ++ fst (ser_go (map (fun x => (false, fst x)) els) off0),
     v0 ++ snd (ser_go (map (fun x => (false, fst x)) els) off0),
     off0 + sumN (map (fun x => lenN (fst x)) els)).
Proof.
  induction els as [|[b c] els IH]; intros f0 v0 off0 Hc; cbn [fold_left map ser_go].
  - unfold sumN. cbn. rewrite !app_nil_r. f_equal. lia.
  - rewrite IH by (intros x Hx; apply Hc; now right).
    specialize (Hc (b, c) (or_introl eq_refl)). cbn [fst snd] in *. subst c.
    destruct (ser_go (map (fun x : bytes * N => (false, fst x)) els) (off0 + lenN b)) as [f v] eqn:E.
    cbn [fst snd]. rewrite <- !app_assoc. unfold sumN. cbn [fold_right]. f_equal. lia.
Qed.

(* the variable-size sequence encoding produced by the model = the spec's ser_parts *)
Theorem seq_var_ser (els : list (bytes * N)) :
  (forall x, In x els -> snd x = lenN (fst x)) ->
  let '(fixedp, varp, off) := seq_fold els (OFFSET * lenN els) in
  fixedp ++ firstn (N.to_nat off) varp = ser_parts (map (fun x => (false, fst x)) els) /\
  off = lenN (ser_parts (map (fun x => (false, fst x)) els)).
Proof.
  intros Hc. unfold seq_fold. rewrite (seq_fold_gen els [] [] _ Hc). cbn [app].
  set (parts := map (fun x : bytes * N => (false, fst x)) els).
  assert (sumN (map fixed_part_len parts) = OFFSET * lenN els) as Hfl.
  { unfold parts. clear. induction els as [|x els IH]; [reflexivity|].
    cbn [map]. unfold sumN in *. cbn [fold_right]. rewrite IH. unfold fixed_part_len at 1. cbn [fst]. unfold lenN, OFFSET. cbn [length]. lia. }
  unfold ser_parts. fold parts. rewrite Hfl.
  pose proof (ser_go_len parts (OFFSET * lenN els)) as [Hf Hv].
  destruct (ser_go parts (OFFSET * lenN els)) as [f v]. cbn [fst snd] in *.
  assert (sumN (map var_part_len parts) = sumN (map (fun x => lenN (fst x)) els)) as Hvl.
  { unfold parts. clear. induction els as [|x els IH]; [reflexivity|]. cbn [map]. unfold sumN in *. cbn [fold_right]. now rewrite IH. }
  split.
  - f_equal. apply firstn_all2. rewrite Hvl in Hv.
    match goal with |- context [sumN ?m] => set (S0 := sumN m) in * end. set (F0 := OFFSET * lenN els) in *.
    unfold lenN in Hv. lia.
  - rewrite lenN_app, Hf, Hv, Hfl, Hvl. reflexivity.
Qed.

(* fixed-size sequence: the concatenation, with count = element size * length *)
Lemma seq_fixed_ser (els : list (bytes * N)) (sz : N) :
  (forall x, In x els -> lenN (fst x) = sz) ->
  concat (map fst els) = ser_parts (map (fun x => (true, fst x)) els) /\
  lenN (concat (map fst els)) = sz * lenN els.
Proof.
  intros Hs. split.
  - unfold ser_parts. set (parts := map (fun x : bytes * N => (true, fst x)) els).
    assert (forall off, ser_go parts off = (concat (map fst els), [])) as Hg.
    { unfold parts. clear. induction els as [|x els IH]; intros off; [reflexivity|].
      cbn [map ser_go concat]. now rewrite IH. }
    rewrite Hg. now rewrite app_nil_r.
  - induction els as [|x els IH]; [unfold lenN; cbn; lia|].
    cbn [map concat]. rewrite lenN_app, IH by (intros y Hy; apply Hs; now right).
    rewrite (Hs x (or_introl eq_refl)). unfold lenN. cbn [length]. lia.
Qed.

(* ---- container: Container.serialize (complex.py:919-937) ---- *)
(* the loop over fields, abstracted over the per-field results (is_fixed, bytes, count) *)
Fixpoint cont_loop (fields : list (bool * (bytes * N))) (acc : bytes * bytes * N) : bytes * bytes * N :=
  match fields with
  | [] => acc
  | (fx, x) :: r =>
      let '(fxb, vr, written) := acc in
      if fx then cont_loop r (fxb ++ fst x, vr, written)
      else cont_loop r (fxb ++ le_bytes 4 written, vr ++ fst x, written + snd x)
  end.

Lemma cont_loop_gen : forall fields fx0 vr0 w0,
  (forall p, In p fields -> snd (snd p) = lenN (fst (snd p))) ->
  cont_loop fields (fx0, vr0, w0) =
    (fx0 ++ fst (ser_go (map (fun p => (fst p, fst (snd p))) fields) w0),
     vr0 ++ snd (ser_go (map (fun p => (fst p, fst (snd p))) fields) w0),
     w0 + sumN (map var_part_len (map (fun p => (fst p, fst (snd p))) fields))).
Proof.
  induction fields as [|[fx [b c]] r IH]; intros fx0 vr0 w0 Hc; cbn [cont_loop map ser_go].
  - unfold sumN. cbn. rewrite !app_nil_r. f_equal. lia.
  - pose proof (Hc (fx, (b, c)) (or_introl eq_refl)) as Hcb. cbn [fst snd] in Hcb. subst c.
    destruct fx; cbn [fst snd]; rewrite IH by (intros p Hp; apply Hc; now right);
      match goal with |- context [ser_go ?m ?o] => destruct (ser_go m o) as [f v] end; cbn [fst snd];
      rewrite <- ?app_assoc; unfold sumN; cbn [fold_right]; unfold var_part_len; cbn [fst snd]; f_equal; lia.
Qed.

Notation parts_of fields := (map (fun p : bool * (bytes * N) => (fst p, fst (snd p))) fields).

Theorem cont_ser (fields : list (bool * (bytes * N))) :
  (forall p, In p fields -> snd (snd p) = lenN (fst (snd p))) ->
  fst (fst (cont_loop fields ([], [], sumN (map fixed_part_len (parts_of fields))))) ++
    firstn (N.to_nat (snd (cont_loop fields ([], [], sumN (map fixed_part_len (parts_of fields))))))
           (snd (fst (cont_loop fields ([], [], sumN (map fixed_part_len (parts_of fields))))))
  = ser_parts (parts_of fields) /\
  snd (cont_loop fields ([], [], sumN (map fixed_part_len (parts_of fields)))) = lenN (ser_parts (parts_of fields)).
Proof.
  intros Hc. rewrite (cont_loop_gen fields [] [] _ Hc). cbn [app fst snd].
  unfold ser_parts.
  pose proof (ser_go_len (parts_of fields) (sumN (map fixed_part_len (parts_of fields)))) as [Hf Hv].
  unfold bytes in *.
  match goal with |- context [ser_go ?m ?o] => destruct (ser_go m o) as [f v] end. cbn [fst snd] in *. split.
  - f_equal. apply firstn_all2.
    repeat match goal with |- context [sumN ?m] => let S0 := fresh "S" in set (S0 := sumN m) in * end.
    unfold lenN in Hv. lia.
  - rewrite lenN_app, Hf, Hv. reflexivity.
Qed.
