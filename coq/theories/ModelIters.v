(* ModelIters.v — the stack-based read-only iterators of readonly_iters.py as explicit machines:
   NodeIter (:198-259), PackedIter (:100-195), BitfieldIter (:7-97). *)
Require Import RM.Base RM.Gindex RM.Tree RM.Types RM.ModelViews RM.ModelCodec.
Local Open Scope N_scope.

Section WithHash.
Variable H : bytes -> bytes -> bytes.
Variable src : bytes -> option (bytes * bytes).
Notation root := (root H).

Definition dummy : node := RootN zero32.
Fixpoint set_nth {A} (k : nat) (x : A) (l : list A) : list A :=
  match l, k with
  | [], _ => []
  | _ :: r, O => x :: r
  | a :: r, S k' => a :: set_nth k' x r
  end.

(* `s = idx ^ (idx - 1); stackIndex = depth; while s != 0: s >>= 1; stackIndex -= 1` *)
Definition stack_index (depth : nat) (idx : N) : nat := depth - N.size_nat (N.lxor idx (idx - 1)).

(* `for x in range(stackIndex, depth): stack[x] = node; node = node.get_left()` *)
Fixpoint descend (steps : nat) (x : nat) (nd : node) (stack : list node) : result (node * list node) :=
  match steps with
  | O => Ok (nd, stack)
  | S k => do l <- get_left src nd; descend k (S x) l (set_nth x nd stack)
  end.

(* move to bottom node number idx (0-based), given the stack left by the previous moves *)
Definition advance (anchor : node) (depth : nat) (idx : N) (stack : list node) : result (node * list node) :=
  if idx =? 0 then descend depth 0 anchor stack
  else
    let si := stack_index depth idx in
    do r <- get_right src (nth si stack dummy);
    descend (depth - S si) (S si) r stack.

(* NodeIter: the first `length` bottom nodes *)
Fixpoint node_iter_loop (fuel : nat) (anchor : node) (depth : nat) (i : N) (stack : list node)
  : result (list node) :=
  match fuel with
  | O => Ok []
  | S f =>
      do r <- advance anchor depth i stack;
      do rest <- node_iter_loop f anchor depth (i + 1) (snd r);
      Ok (fst r :: rest)
  end.
Definition node_iter (anchor : node) (depth : nat) (length : N) : result (list node) :=
  if N.shiftl 1 (N.of_nat depth) <? length then Err EOther
  else node_iter_loop (N.to_nat length) anchor depth 0 (repeat dummy depth).

(* PackedIter: elements of `size` bytes; state (i, j, rootIndex, currentRoot, stack) *)
Fixpoint packed_iter_loop (fuel : nat) (anchor : node) (depth : nat) (e : ty) (per_node : N)
    (j rootIndex : N) (cur : node) (stack : list node) : result (list bytes) :=
  match fuel with
  | O => Ok []
  | S f =>
      if j <? per_node then
        do b <- packed_elem_bytes H e cur j;
        do rest <- packed_iter_loop f anchor depth e per_node (j + 1) rootIndex cur stack;
        Ok (b :: rest)
      else
        do r <- advance anchor depth rootIndex stack;
        let nd := fst r in
        if negb (is_leaf src nd) then Err EOther
        else
          do b <- packed_elem_bytes H e nd 0;
          do rest <- packed_iter_loop f anchor depth e per_node 1 (rootIndex + 1) nd (snd r);
          Ok (b :: rest)
  end.
Definition packed_iter (anchor : node) (depth : nat) (length : N) (e : ty) (size : N) : result (list bytes) :=
  let per_node := 32 / size in
  if N.shiftl 1 (N.of_nat depth) * per_node <? length then Err EOther
  else packed_iter_loop (N.to_nat length) anchor depth e per_node per_node 0 dummy (repeat dummy depth).

(* BitfieldIter *)
Definition bit_of (chunk : bytes) (j : N) : bool :=
  match nth_error chunk (N.to_nat (j / 8)) with
  | Some b => N.testbit (Byte.to_N b) (j mod 8)
  | None => false
  end.
Fixpoint bit_iter_loop (fuel : nat) (anchor : node) (depth : nat)
    (j rootIndex : N) (cur : bytes) (stack : list node) : result (list bool) :=
  match fuel with
  | O => Ok []
  | S f =>
      if 0 <? j then
        let el := bit_of cur j in
        let j' := if 255 <? j + 1 then 0 else j + 1 in
        do rest <- bit_iter_loop f anchor depth j' rootIndex cur stack;
        Ok (el :: rest)
      else
        do r <- advance anchor depth rootIndex stack;
        let nd := fst r in
        if negb (is_leaf src nd) then Err EOther
        else
          let cur' := root nd in
          do rest <- bit_iter_loop f anchor depth 1 (rootIndex + 1) cur' (snd r);
          Ok (bit_of cur' 0 :: rest)
  end.
Definition bit_iter (anchor : node) (depth : nat) (length : N) : result (list bool) :=
  if N.shiftl (N.shiftl 1 (N.of_nat depth)) 8 <? length then Err EOther
  else bit_iter_loop (N.to_nat length) anchor depth 0 0 zero32 (repeat dummy depth).

End WithHash.
