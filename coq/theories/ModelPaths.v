(* ModelPaths.v — model of type navigation and static generalized indices
   (core.py:32-82 Path; navigate_type / key_to_static_gindex of every view kind). *)
Require Import RM.Base RM.Gindex RM.Tree RM.Types RM.Spec RM.ModelViews.
Local Open Scope N_scope.

Inductive pkey :=
| PInt (i : Z)          (* an integer key *)
| PField (i : nat)      (* the field name f<i> *)
| PLen                  (* '__len__' *)
| PSel.                 (* '__selector__' *)

(* cls.navigate_type(key) *)
Definition navigate_type (t : ty) (k : pkey) : result ty :=
  match t, k with
  | TList e l, PLen => Ok (TUint 32)
  | TList e l, PInt i => if (Z.of_N l <=? i)%Z || (i <? 0)%Z then Err EKey else Ok e      (* complex.py:462-468,176-180 *)
  | TVector e n, PInt i => if (Z.of_N n <=? i)%Z || (i <? 0)%Z then Err EKey else Ok e    (* complex.py:629-633 *)
  | TBitlist l, PLen => Ok (TUint 32)                                                     (* bitfields.py:327-334 *)
  | TBitlist l, PInt i => if (i <? 0)%Z || (Z.of_N l <=? i)%Z then Err EKey else Ok TBool
  | TBitvector n, PInt i => if (i <? 0)%Z || (Z.of_N n <=? i)%Z then Err EKey else Ok TBool
  | TByteVector n, PInt i => if (i <? 0)%Z || (Z.of_N n <=? i)%Z then Err EKey else Ok (TUint 1)
  | TByteList l, PLen => Ok (TUint 32)
  | TByteList l, PInt i => if (i <? 0)%Z || (Z.of_N l <=? i)%Z then Err EKey else Ok (TUint 1)
  | TContainer fs, PField i => match nth_error fs i with Some f => Ok f | None => Err EKey end
  | TUnion none0 opts, PSel => Ok (TUint 32)
  | TUnion none0 opts, PInt i =>
      if (i <? 0)%Z || (Z.of_N (lenN opts + (if none0 then 1 else 0)) <=? i)%Z then Err EKey
      else match union_opt none0 opts (Z.to_nat i) with Some o => Ok o | None => Err EType end
  | _, _ => Err EOther
  end.

(* cls.key_to_static_gindex(key) *)
Definition key_to_static_gindex (t : ty) (k : pkey) : result N :=
  match t, k with
  | TList _ _, PLen | TBitlist _, PLen | TByteList _, PLen => Ok 3
  | TUnion _ _, PSel => Ok 3
  | TList e l, PInt i =>
      if (Z.of_N l <=? i)%Z || (i <? 0)%Z then Err EKey
      else let key := Z.to_N i in
           to_gindex (match basic_size e with Some s => key / elems_per_chunk s | None => key end) (tree_depth t)
  | TVector e n, PInt i =>
      if (Z.of_N n <=? i)%Z || (i <? 0)%Z then Err EKey
      else let key := Z.to_N i in
           to_gindex (match basic_size e with Some s => key / elems_per_chunk s | None => key end) (tree_depth t)
  | TBitlist l, PInt i | TBitvector l, PInt i =>
      if (i <? 0)%Z || (Z.of_N l <=? i)%Z then Err EKey else to_gindex (Z.to_N i / 256) (tree_depth t)
  | TByteVector l, PInt i | TByteList l, PInt i =>
      if (i <? 0)%Z || (Z.of_N l <=? i)%Z then Err EKey else to_gindex (Z.to_N i / 32) (tree_depth t)
  | TContainer fs, PField i =>
      match nth_error fs i with Some _ => to_gindex (N.of_nat i) (tree_depth t) | None => Err EKey end
  | TUnion none0 opts, PInt i =>
      if (i <? 0)%Z || (Z.of_N (lenN opts + (if none0 then 1 else 0)) <=? i)%Z then Err EKey else Ok 2
  | _, _ => Err EOther
  end.

(* Path.from_raw_path: every step is type-navigated when the path is built *)
Fixpoint build_path (t : ty) (ks : list pkey) : result (list (pkey * ty)) :=
  match ks with
  | [] => Ok []
  | k :: r => do t' <- navigate_type t k; do rest <- build_path t' r; Ok ((k, t') :: rest)
  end.

(* Path.gindex() *)
Fixpoint step_gindices (t : ty) (p : list (pkey * ty)) : result (list N) :=
  match p with
  | [] => Ok []
  | (k, t') :: r => do g <- key_to_static_gindex t k; do gs <- step_gindices t' r; Ok (g :: gs)
  end.
Definition path_gindex (t : ty) (ks : list pkey) : result N :=
  do p <- build_path t ks; do gs <- step_gindices t p; concat_gindices gs.
Definition path_type (t : ty) (ks : list pkey) : result ty :=
  do p <- build_path t ks; Ok (match rev p with (_, t') :: _ => t' | [] => t end).

(* the specification's key for an implementation key *)
Definition spec_key (k : pkey) : option key :=
  match k with
  | PInt i => if (i <? 0)%Z then None else Some (KIndex (Z.to_N i))
  | PField i => Some (KIndex (N.of_nat i))
  | PLen => Some KLen
  | PSel => Some KSelector
  end.
