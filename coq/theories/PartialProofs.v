(* PartialProofs.v — partial trees (C17): replacing subtrees by bare summaries of their roots keeps
   the root; reads and (non-expanding) writes that succeed on the partial tree behave as on the
   complete tree; every failure is a navigation error. *)
Require Import RM.Base RM.Gindex RM.Tree RM.TreeProofs.

Section WithHash.
Variable H : bytes -> bytes -> bytes.
Variable src : bytes -> option (bytes * bytes).
Notation root := (root H).
Notation getter := (getter src).
Notation setter_below := (setter_below H src).
Notation setter := (setter H src).

(* n is m with some subtrees replaced by RootN (root subtree) *)
Inductive summ : node -> node -> Prop :=
| summ_refl n : summ n n
| summ_cut m : summ (RootN (root m)) m
| summ_pair l r l' r' : summ l l' -> summ r r' -> summ (PairN l r) (PairN l' r').

Theorem summ_root n m : summ n m -> root n = root m.
Proof. induction 1 as [n|m|l r l' r' Hl IHl Hr IHr]; cbn [Tree.root]; congruence. Qed.

(* a successful read of the partial tree returns (a summary of) what the complete tree holds there *)
Theorem summ_get : forall p n m x, summ n m -> getter n p = Ok x -> exists y, getter m p = Ok y /\ summ x y.
Proof.
  induction p as [|b p IH]; intros n m x Hs Hg.
  - cbn in Hg. inversion Hg; subst. exists m. split; [reflexivity|exact Hs].
  - inversion Hs as [n0|m0|l r l' r' Hl Hr]; subst.
    + exists x. split; [exact Hg|constructor].
    + cbn in Hg. discriminate.
    + cbn [Tree.getter Tree.children] in *. destruct b; eapply IH; eauto.
Qed.

(* a successful non-expanding write on the partial tree succeeds on the complete tree, and the
   results are again related (hence have equal roots) *)
Lemma summ_set_below : forall p n m v n', summ n m -> setter_below false n p v = Ok n' ->
  exists m', setter_below false m p v = Ok m' /\ summ n' m'.
Proof.
  induction p as [|b p IH]; intros n m v n' Hs Hset.
  - cbn in *. inversion Hset; subst. exists n'. split; [reflexivity|constructor].
  - inversion Hs as [n0|m0|l r l' r' Hl Hr]; subst.
    + exists n'. split; [exact Hset|constructor].
    + cbn in Hset. discriminate.
    + cbn [Tree.setter_below Tree.children] in *.
      apply rebuild_ok in Hset as (c & Hc & ->).
      destruct b.
      * destruct (IH r r' v c Hr Hc) as (c' & Hc' & Hsc). rewrite Hc'. cbn [rebuild].
        eexists; split; [reflexivity|]. now constructor.
      * destruct (IH l l' v c Hl Hc) as (c' & Hc' & Hsc). rewrite Hc'. cbn [rebuild].
        eexists; split; [reflexivity|]. now constructor.
Qed.

Theorem summ_set n m p v n' : summ n m -> setter false n p v = Ok n' ->
  exists m', setter false m p v = Ok m' /\ summ n' m' /\ root n' = root m'.
Proof.
  intros Hs Hset. apply setter_as_below in Hset.
  destruct (summ_set_below p n m v n' Hs Hset) as (m' & Hm' & Hsm).
  exists m'. split; [|split; [exact Hsm|now apply summ_root]].
  rewrite setter_unfold. destruct p as [|b p]; [exact Hm'|]. destruct m; exact Hm'.
Qed.

(* every failing read / write on a partial tree is a navigation error (never wrong data) *)
Theorem partial_errors n p :
  (forall e, getter n p = Err e -> e = ENav) /\
  (forall ex v e, setter ex n p v = Err e -> e = ENav).
Proof. split; [apply getter_err|intros ex v; apply setter_err]. Qed.

(* summarize_into produces a summ-related tree *)
Theorem summarize_is_summ n p n' : novirt n -> summarize_into H src n p = Ok n' -> summ n' n.
Proof.
  unfold Tree.summarize_into. intros Hnv Hs. destruct (getter n p) as [x|] eqn:Hg; [|discriminate]. cbn [bind] in Hs.
  apply setter_as_below in Hs. revert n n' x Hnv Hg Hs.
  induction p as [|b p IH]; intros n n' x Hnv Hg Hs; cbn in Hg, Hs.
  - inversion Hg; inversion Hs; subst. constructor.
  - destruct n as [r0|l r|r0]; cbn in Hnv, Hg, Hs; try discriminate; try contradiction.
    destruct Hnv as [Hl Hr]. apply rebuild_ok in Hs as (c & Hc & ->).
    destruct b; constructor; try constructor; eapply IH; eauto.
Qed.

(* ---- expanding writes (append after a zero summary) ---- *)
Definition Hinj : Prop := forall a b c d, H a b = H c d -> a = c /\ b = d.
Notation zero_hash := (zero_hash H).
Notation zero_node := (zero_node H).

Lemma bytes_eqb_rfl b : bytes_eqb b b = true.
Proof. now apply bytes_eqb_eq. Qed.

(* the expanding write on the zero summary of height |p| always succeeds *)
Lemma expand_zero_ok : forall p v, exists z', setter_below true (zero_node (length p)) p v = Ok z'.
Proof.
  induction p as [|b p IH]; intros v; [exists v; reflexivity|].
  destruct (IH v) as (z' & Hz). cbn [Tree.setter_below length]. unfold Tree.zero_node at 1 2.
  cbn [Tree.children Tree.root]. rewrite bytes_eqb_rfl. cbn [andb]. fold (zero_node (length p)).
  rewrite Hz. cbn [rebuild]. eexists; reflexivity.
Qed.

(* under Hinj a tree whose root is the zero hash of its height behaves, for expanding writes and up
   to roots, like the zero summary of that height *)
Lemma expand_zero_rooted (Hi : Hinj) : forall p c v, novirt c -> root c = zero_hash (length p) ->
  exists c' z', setter_below true c p v = Ok c' /\
                setter_below true (zero_node (length p)) p v = Ok z' /\ root c' = root z'.
Proof.
  induction p as [|b p IH]; intros c v Hnv Hr.
  - exists v, v. repeat split.
  - destruct (expand_zero_ok (b :: p) v) as (z' & Hz'). pose proof Hz' as Hz''.
    cbn [Tree.setter_below length] in Hz'. unfold Tree.zero_node at 1 2 in Hz'.
    cbn [Tree.children Tree.root] in Hz'. rewrite bytes_eqb_rfl in Hz'. cbn [andb] in Hz'.
    fold (zero_node (length p)) in Hz'. apply rebuild_ok in Hz' as (zc & Hzc & Ez').
    destruct c as [r0|cl cr|r0]; cbn in Hnv; try contradiction.
    + (* a leaf with the zero root: literally the same computation *)
      cbn [Tree.root] in Hr. subst r0. exists z', z'. repeat split; exact Hz''.
    + destruct Hnv as [Hnl Hnr]. cbn [Tree.root length Tree.zero_hash] in Hr. apply Hi in Hr as [Hrl Hrr].
      cbn [Tree.setter_below Tree.children].
      destruct (IH (if b then cr else cl) v ltac:(destruct b; assumption) ltac:(destruct b; assumption))
        as (c' & z2 & Hc' & Hz2 & Hrc).
      rewrite Hc'. cbn [rebuild]. rewrite Hz2 in Hzc. inversion Hzc; subst zc.
      exists (if b then PairN cl c' else PairN c' cr), z'. repeat split; [exact Hz''|].
      subst z'. destruct b; cbn [Tree.root Tree.zero_node]; rewrite Hrc, ?Hrl, ?Hrr; reflexivity.
Qed.

(* an expanding write that succeeds on the partial tree succeeds on the complete tree and gives
   the same root *)
Theorem summ_set_expand (Hi : Hinj) : forall p n m v n', novirt m -> summ n m ->
  setter_below true n p v = Ok n' ->
  exists m', setter_below true m p v = Ok m' /\ root n' = root m'.
Proof.
  induction p as [|b p IH]; intros n m v n' Hnv Hs Hset.
  - cbn in *. inversion Hset; subst. exists n'. split; reflexivity.
  - inversion Hs as [n0|m0|l r l' r' Hl Hr]; subst.
    + exists n'. split; [exact Hset|reflexivity].
    + (* the partial tree has a bare summary here: the write expanded it, so it is the zero hash *)
      pose proof Hset as Hset0. cbn [Tree.setter_below Tree.children Tree.root] in Hset.
      destruct (bytes_eqb (root m) (zero_hash (length (b :: p)))) eqn:E; [|discriminate].
      apply bytes_eqb_eq in E.
      destruct (expand_zero_rooted Hi (b :: p) m v Hnv E) as (c' & z' & Hc' & Hz' & Hrc).
      exists c'. split; [exact Hc'|].
      (* the summary RootN (root m) = zero_node: same computation as z' *)
      unfold Tree.zero_node in Hz'. rewrite <- E in Hz'. rewrite Hz' in Hset0. inversion Hset0; subst. now symmetry.
    + cbn in Hnv. destruct Hnv as [Hnl Hnr].
      cbn [Tree.setter_below Tree.children] in *.
      apply rebuild_ok in Hset as (c & Hc & ->).
      destruct b.
      * destruct (IH r r' v c Hnr Hr Hc) as (c' & Hc' & Hrc). rewrite Hc'. cbn [rebuild].
        eexists; split; [reflexivity|]. cbn [Tree.root]. now rewrite Hrc, (summ_root _ _ Hl).
      * destruct (IH l l' v c Hnl Hl Hc) as (c' & Hc' & Hrc). rewrite Hc'. cbn [rebuild].
        eexists; split; [reflexivity|]. cbn [Tree.root]. now rewrite Hrc, (summ_root _ _ Hr).
Qed.

End WithHash.
