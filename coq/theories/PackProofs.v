(* PackProofs.v — depth and packing lemmas: get_depth is the spec's next-power-of-two depth;
   the implementation's packers produce the spec's chunks. *)
Require Import RM.Base RM.Gindex RM.Tree RM.Types RM.Spec RM.ModelViews RM.SerLen RM.MerkleProofs.
From Coq Require Import ZifyBool ZifyNat ZifyN.
Ltac Zify.zify_post_hook ::= Z.to_euclidean_division_equations.

(* ---- get_depth ---- *)
Lemma pos_size_nat_size p : N.of_nat (Pos.size_nat p) = Npos (Pos.size p).
Proof. induction p as [p IH|p IH|]; cbn [Pos.size_nat Pos.size]; try reflexivity; rewrite Nat2N.inj_succ, IH; reflexivity. Qed.
Lemma size_nat_size n : N.of_nat (N.size_nat n) = N.size n.
Proof. destruct n as [|p]; [reflexivity|apply pos_size_nat_size]. Qed.

Lemma get_depth_eq n : get_depth n = depth_of n.
Proof.
  unfold get_depth, depth_of. destruct (n <=? 1)%N eqn:E.
  - apply N.leb_le in E. rewrite N.log2_up_eqn0 by exact E. reflexivity.
  - apply N.leb_gt in E. rewrite N.log2_up_eqn by exact E.
    apply Nat2N.inj. rewrite size_nat_size, N2Nat.id.
    rewrite N.size_log2 by lia. f_equal. f_equal. lia.
Qed.

Lemma get_depth_fits n : (N.to_nat n <= 2 ^ get_depth n)%nat.
Proof.
  rewrite get_depth_eq. unfold depth_of. destruct (N.le_gt_cases n 1) as [Hle|Hgt].
  - rewrite N.log2_up_eqn0 by exact Hle. cbn. lia.
  - pose proof (N.log2_up_spec n Hgt) as [_ Hup].
    rewrite <- (N2Nat.id (2 ^ N.log2_up n)) in Hup. rewrite N2Nat.inj_pow in Hup. cbn in Hup. lia.
Qed.

(* the depth is minimal: one level less does not hold n leaves *)
Lemma get_depth_minimal n : get_depth n = O \/ (2 ^ (get_depth n - 1) < N.to_nat n)%nat.
Proof.
  rewrite get_depth_eq. unfold depth_of. destruct (N.le_gt_cases n 1) as [Hle|Hgt].
  - left. rewrite N.log2_up_eqn0 by exact Hle. reflexivity.
  - right. pose proof (N.log2_up_spec n Hgt) as [Hlo _].
    assert (0 < N.log2_up n)%N by (apply N.log2_up_pos; exact Hgt).
    replace (N.to_nat (N.log2_up n) - 1)%nat with (N.to_nat (N.pred (N.log2_up n))) by lia.
    rewrite <- (N2Nat.id (2 ^ N.pred (N.log2_up n))) in Hlo. rewrite N2Nat.inj_pow in Hlo. cbn in Hlo. lia.
Qed.

Lemma get_depth_mono a b : (a <= b)%N -> (N.to_nat a <= 2 ^ get_depth b)%nat.
Proof. intros Hab. pose proof (get_depth_fits b). lia. Qed.

(* ---- grouping ---- *)
Lemma chunks_fuel_group : forall f bs, chunks_fuel f bs = map pad32 (group_fuel f 32 bs).
Proof. induction f as [|f IH]; intros bs; cbn; [reflexivity|]. destruct bs; [reflexivity|]. now rewrite IH. Qed.
Lemma chunks_group bs : chunks bs = map pad32 (group 32 bs).
Proof. apply chunks_fuel_group. Qed.
Lemma bits_fuel_group : forall f bs, bits_to_bytes_fuel f bs = map bits_byte (group_fuel f 8 bs).
Proof. induction f as [|f IH]; intros bs; cbn; [reflexivity|]. destruct bs; [reflexivity|]. now rewrite IH. Qed.
Lemma bits_group bs : bits_to_bytes bs = map bits_byte (group 8 bs).
Proof. apply bits_fuel_group. Qed.

Lemma pack_bytes_chunks bs : pack_bytes bs = chunks bs.
Proof. unfold pack_bytes. now rewrite chunks_group. Qed.
Lemma pack_bits_chunks bs : pack_bits bs = chunks (bits_to_bytes bs).
Proof. unfold pack_bits. rewrite chunks_group, bits_group. reflexivity. Qed.

(* number of groups *)
Lemma group_fuel_length {A} : forall f k (l : list A), (0 < k)%nat -> (length l <= f)%nat ->
  length (group_fuel f k l) = ((length l + k - 1) / k)%nat.
Proof.
  induction f as [|f IH]; intros k l Hk Hle.
  - destruct l; [|cbn in Hle; lia]. cbn. symmetry. apply Nat.div_small. lia.
  - destruct l as [|a l]; [cbn; symmetry; apply Nat.div_small; lia|].
    cbn [group_fuel length]. rewrite IH by (try rewrite skipn_length; cbn [length] in *; lia).
    rewrite skipn_length. cbn [length].
    destruct (Nat.le_gt_cases (S (length l)) k) as [Hs|Hs].
    + replace (S (length l) - k)%nat with 0%nat by lia.
      rewrite (Nat.div_small (0 + k - 1)) by lia.
      assert ((S (length l) + k - 1) / k = 1)%nat as ->; [|reflexivity].
      symmetry. apply Nat.div_unique with (r := length l); lia.
    + replace (S (length l) + k - 1)%nat with ((S (length l) - k + k - 1) + 1 * k)%nat by lia.
      rewrite Nat.div_add by lia. lia.
Qed.
Lemma chunks_length bs : length (chunks bs) = ((length bs + 31) / 32)%nat.
Proof.
  rewrite chunks_group, map_length. unfold group, bytes. rewrite group_fuel_length by lia. f_equal. lia.
Qed.

(* ---- packed integers: items of k bytes, 32/k per chunk ---- *)
Lemma firstn_concat_uniform {A} (k m : nat) (ls : list (list A)) :
  Forall (fun l => length l = k) ls ->
  firstn (m * k) (concat ls) = concat (firstn m ls) /\ skipn (m * k) (concat ls) = concat (skipn m ls).
Proof.
  revert ls; induction m as [|m IH]; intros ls Hall; [split; reflexivity|].
  destruct ls as [|l ls]; [cbn [concat]; rewrite firstn_nil, skipn_nil; split; reflexivity|].
  inversion Hall as [|? ? Hl Hls]; subst. cbn [concat firstn skipn Nat.mul].
  destruct (IH ls Hls) as [Hf Hs]. split.
  - rewrite firstn_app. rewrite firstn_all2 by lia.
    replace (length l + m * length l - length l)%nat with (m * length l)%nat by lia. now rewrite Hf.
  - rewrite skipn_app. rewrite skipn_all2 by lia.
    replace (length l + m * length l - length l)%nat with (m * length l)%nat by lia. now rewrite Hs.
Qed.

Lemma In_skipn {A} (x : A) n l : In x (skipn n l) -> In x l.
Proof. intros Hin. rewrite <- (firstn_skipn n l). apply in_or_app. now right. Qed.
Lemma In_firstn {A} (x : A) n l : In x (firstn n l) -> In x l.
Proof. intros Hin. rewrite <- (firstn_skipn n l). apply in_or_app. now left. Qed.

Lemma concat_uniform_length {A} k (ls : list (list A)) :
  Forall (fun l => length l = k) ls -> length (concat ls) = (length ls * k)%nat.
Proof. induction 1 as [|x xs Hx Hxs IH]; [reflexivity|]. cbn. rewrite app_length, IH, Hx. lia. Qed.

Lemma group_fuel_nil {A} f k : @group_fuel A f k [] = [].
Proof. destruct f; reflexivity. Qed.

Lemma group_concat_uniform {A} (k m : nat) : (0 < k)%nat -> (0 < m)%nat ->
  forall f F (ls : list (list A)), Forall (fun l => length l = k) ls ->
  (length ls <= f)%nat -> (length (concat ls) <= F)%nat ->
  group_fuel F (m * k) (concat ls) = map (@concat A) (group_fuel f m ls).
Proof.
  intros Hk Hm. induction f as [|f IH]; intros F ls Hall Hle HF.
  - destruct ls; [|cbn in Hle; lia]. cbn [concat]. now rewrite group_fuel_nil.
  - destruct ls as [|l ls]; [cbn [concat]; now rewrite group_fuel_nil|].
    pose proof (concat_uniform_length k (l :: ls) Hall) as Hlen. cbn [length] in Hlen.
    destruct F as [|F]; [lia|].
    cbn [group_fuel]. destruct (concat (l :: ls)) as [|c0 cs] eqn:Ec; [cbn [length] in Hlen; nia|]. rewrite <- Ec in *.
    destruct (firstn_concat_uniform k m (l :: ls) Hall) as [Hf Hs].
    rewrite Hf, Hs. cbn [map]. f_equal.
    assert (Forall (fun x => length x = k) (skipn m (l :: ls))) as Hsk.
    { apply Forall_forall. intros x Hx. rewrite Forall_forall in Hall. apply Hall. eapply In_skipn; eauto. }
    apply IH; [exact Hsk| |].
    + rewrite skipn_length. cbn [length] in *. lia.
    + rewrite (concat_uniform_length k _ Hsk), skipn_length. cbn [length] in *. nia.
Qed.

(* pack_ints (items grouped per chunk) = the spec's chunks of the concatenated encodings *)
Lemma pack_ints_chunks (s : N) (vs : list N) :
  (s = 1 \/ s = 2 \/ s = 4 \/ s = 8 \/ s = 16 \/ s = 32)%N ->
  pack_ints s vs = chunks (concat (map (le_bytes (N.to_nat s)) vs)).
Proof.
  intros Hs. unfold pack_ints. rewrite chunks_group. unfold group.
  set (k := N.to_nat s). set (m := N.to_nat (elems_per_chunk s)).
  assert (m * k = 32 /\ 0 < k /\ 0 < m)%nat as (Hmk & Hk & Hm).
  { unfold m, k, elems_per_chunk. destruct Hs as [->|[->|[->|[->|[->| ->]]]]]; cbn; lia. }
  rewrite <- Hmk.
  rewrite (group_concat_uniform k m Hk Hm (length vs) _ (map (le_bytes k) vs)).
  - rewrite map_map.
    (* group of a map = map of groups *)
    assert (forall f (l : list N), group_fuel f m (map (le_bytes k) l) = map (map (le_bytes k)) (group_fuel f m l)) as Hg.
    { induction f as [|f IHf]; intros l; [reflexivity|]. destruct l as [|a l]; [reflexivity|].
      cbn [map group_fuel]. change (le_bytes k a :: map (le_bytes k) l) with (map (le_bytes k) (a :: l)).
      rewrite firstn_map, skipn_map, IHf. reflexivity. }
    rewrite Hg, map_map. reflexivity.
  - apply Forall_forall. intros x Hx. apply in_map_iff in Hx as (n & <- & _). apply le_bytes_length.
  - now rewrite map_length.
  - lia.
Qed.
