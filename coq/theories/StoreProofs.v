(* StoreProofs.v — the store of view cells: a command on an unhooked cell (a top-level view or a
   copy) touches no other cell (C06); a failing command leaves the store unchanged (C14); a
   mutation through a child view is written into its parent at the child's position (C05). *)
Require Import RM.Base RM.Gindex RM.Tree RM.TreeProofs RM.Types RM.Spec RM.ModelViews RM.ModelCodec RM.ModelMut RM.ModelStore RM.HeapProofs.
From Coq Require Import ZifyNat ZifyN.

Section WithHash.
Variable H : bytes -> bytes -> bytes.
Variable src : bytes -> option (bytes * bytes).
Notation run_cmd := (run_cmd H src).
Notation set_backing := (set_backing H src).

Lemma upd_cell_other s v c u : u <> v -> v < length s -> nth_error (upd_cell s v c) u = nth_error s u.
Proof.
  intros Hne Hv. unfold upd_cell. destruct (Nat.lt_ge_cases u v) as [Hlt|Hge].
  - rewrite nth_error_app1 by (rewrite firstn_length; lia). now apply nth_firstn.
  - rewrite nth_error_app2 by (rewrite firstn_length; lia). rewrite firstn_length.
    replace (u - Nat.min v (length s)) with (S (u - S v)) by lia. cbn [nth_error].
    rewrite nth_skipn. f_equal. lia.
Qed.
Lemma upd_cell_same s v c : v < length s -> nth_error (upd_cell s v c) v = Some c.
Proof.
  intros Hv. unfold upd_cell. rewrite nth_error_app2 by (rewrite firstn_length; lia).
  rewrite firstn_length. replace (v - Nat.min v (length s)) with 0 by lia. reflexivity.
Qed.
Lemma upd_cell_length s v c : v < length s -> length (upd_cell s v c) = length s.
Proof.
  intros Hv. unfold upd_cell. rewrite app_length, firstn_length. cbn [length]. rewrite skipn_length. lia.
Qed.

(* set_backing on an unhooked cell: writes that cell, nothing else, and cannot fail *)
Lemma set_backing_hnone fuel s v b c : nth_error s v = Some c -> chook c = HNone ->
  set_backing fuel s v b = (Ok tt, upd_cell s v {| cty := cty c; cback := b; chook := HNone |}).
Proof. intros Hc Hh. destruct fuel; cbn [ModelStore.set_backing]; rewrite Hc, Hh; reflexivity. Qed.

Definition frame_except (v : vid) (s s' : store) : Prop :=
  forall u, u <> v -> u < length s -> nth_error s' u = nth_error s u.

Lemma frame_refl v s : frame_except v s s.
Proof. intros u _ _. reflexivity. Qed.
Lemma frame_app v s l : frame_except v s (s ++ l).
Proof. intros u _ Hu. now rewrite nth_error_app1. Qed.
Lemma frame_upd v s c : v < length s -> frame_except v s (upd_cell s v c).
Proof. intros Hv u Hne _. now apply upd_cell_other. Qed.

Definition target (c : cmd) : vid :=
  match c with
  | CGet v _ | CValue v | CSet v _ _ | CAppend v _ | CPop v | CBitSet v _ _ | CChange v _ _ | CCopy v => v
  end.

Ltac destruct_inner x :=
  lazymatch x with
  | context [match ?y with _ => _ end] => destruct_inner y
  | _ => destruct x
  end.

(* a command addressed to an unhooked cell: every other cell is exactly as before; if it fails the
   whole store is exactly as before *)
Theorem cmd_on_unhooked s c cell0 :
  nth_error s (target c) = Some cell0 -> chook cell0 = HNone ->
  let '(res, s') := run_cmd s c in
  frame_except (target c) s s' /\ (forall e, res = Err e -> s' = s).
Proof.
  intros Hc Hh. pose proof (proj1 (nth_error_Some s (target c)) ltac:(congruence)) as Hlen.
  assert (forall b, let '(res, s') := set_backing (length s) s (target c) b in
                    frame_except (target c) s s' /\ (forall e, res = Err e -> s' = s)) as Hsb.
  { intros b. rewrite (set_backing_hnone _ s _ b cell0 Hc Hh). split; [now apply frame_upd|discriminate]. }
  assert (forall r : result unit, frame_except (target c) s s /\ (forall e : err, r = Err e -> s = s)) as Hsame
    by (intros r; split; [apply frame_refl|reflexivity]).
  destruct c; cbn [target] in *; cbn [ModelStore.run_cmd]; cbv zeta; rewrite Hc;
    repeat first [ apply Hsame | apply Hsb | (split; [apply frame_app|discriminate])
                 | match goal with |- context [match ?x with _ => _ end] => destruct_inner x end ].
Qed.

(* C05, one level: writing a new backing b into a child view obtained with [i] / .field from an
   unhooked parent stores b in the child AND puts it at position i of the parent *)
Theorem child_write_propagates fuel s v b cc p i pc nb :
  nth_error s v = Some cc -> chook cc = HElem p i -> p <> v ->
  nth_error s p = Some pc -> chook pc = HNone ->
  view_set H src (cty pc) (cback pc) (Z.of_N i) b = Ok nb ->
  let s1 := upd_cell s v {| cty := cty cc; cback := b; chook := HElem p i |} in
  set_backing (S fuel) s v b =
    (Ok tt, upd_cell s1 p {| cty := cty pc; cback := nb; chook := HNone |}).
Proof.
  intros Hc Hh Hne Hp Hph Hset s1. cbn [ModelStore.set_backing]. rewrite Hc, Hh. fold s1.
  assert (v < length s) as Hv by (apply nth_error_Some; congruence).
  assert (nth_error s1 p = Some pc) as Hp1 by (unfold s1; rewrite upd_cell_other; auto).
  rewrite Hp1, Hset. now rewrite (set_backing_hnone fuel s1 p nb pc Hp1 Hph).
Qed.

(* ... and reading the parent at that position returns exactly the child's new backing
   (composite elements / container fields; packed basic elements are values, not views) *)
Lemma setter_i_get_same n i d x nb : setter_i H src false n i d x = Ok nb -> getter_i src nb i d = Ok x.
Proof.
  unfold setter_i, getter_i. destruct (to_gindex i d) as [g|]; cbn [bind]; [|discriminate].
  unfold setter_g, getter_g. destruct (path_of_gindex g) as [p|]; [|discriminate].
  apply (set_get_same H src).
Qed.

Theorem sub_set_get_same t n i x nb :
  (match t with TContainer _ => True | TVector e _ | TList e _ => basic_size e = None | _ => False end) ->
  sub_set H src t n i x = Ok nb -> sub_get H src t nb i = Ok x.
Proof.
  intros Ht. unfold sub_set, sub_get. destruct t; try contradiction; cbn [elem_ty].
  - cbn [bind]. rewrite Ht. apply setter_i_get_same.
  - cbn [bind]. rewrite Ht. apply setter_i_get_same.
  - destruct (nth_error fs (N.to_nat i)); cbn [bind]; [apply setter_i_get_same|discriminate].
Qed.

End WithHash.
