(* Hex.v — hex string literal -> bytes; only used by generated case files (Run). *)
From Coq Require Import String Ascii.
Require Import RM.Base.
Local Open Scope N_scope.

Definition hexval (c : ascii) : N :=
  let n := N_of_ascii c in
  if (48 <=? n) && (n <=? 57) then n - 48
  else if (97 <=? n) && (n <=? 102) then n - 87
  else if (65 <=? n) && (n <=? 70) then n - 55 else 0.

Fixpoint unhex (s : string) : bytes :=
  match s with
  | String a (String b s') => byte_of_N (16 * hexval a + hexval b) :: unhex s'
  | _ => []
  end.
Definition X := unhex.
(* ascii text as bytes (field names etc.) *)
Fixpoint str_bytes (s : string) : bytes :=
  match s with String a s' => byte_of_N (N_of_ascii a) :: str_bytes s' | EmptyString => [] end.
