(* PartialStore.v — C17 at store level: writes of related backings (hook propagation), serialisation on partial trees (summ_ser), and the one-way simulation of every command / history of successful commands on a store of views over partial trees by the store of the complete trees. *)
Require Import RM.Base RM.Gindex RM.Tree RM.TreeProofs RM.Types RM.Spec RM.ModelViews RM.ModelCodec RM.ModelMut RM.ModelStore
               RM.StoreProofs RM.PartialProofs RM.PartialViews RM.CtorSound RM.StoreChain.
From Coq Require Import ZifyBool ZifyNat ZifyN.
Local Open Scope N_scope.
Section WithHash.
Variable H : bytes -> bytes -> bytes.
Variable src : bytes -> option (bytes * bytes).
Hypothesis Hi : Hinj H.
Notation root := (root H).
Notation getter := (getter src).
Notation setter_below := (setter_below H src).
Notation setter := (setter H src).
Notation summ := (summ H).
Notation zero_hash := (zero_hash H).
Notation zero_node := (zero_node H).
Notation run_cmd := (run_cmd H src).
Notation set_backing := (set_backing H src).
(* ---- writes of RELATED nodes (the child's new backing travelling up a hook chain) ---- *)
Lemma sb_same e : forall p m v w n', summ v w -> setter_below e m p v = Ok n' ->
  exists m', setter_below e m p w = Ok m' /\ summ n' m'.
Proof.
  induction p as [|b p IH]; intros m v w n' Hvw Hs; cbn [Tree.setter_below] in *; [inversion Hs; subst; eauto|].
  destruct (children src m) as [[l r]|].
  - apply rebuild_ok in Hs as (c & Hc & ->). destruct (IH (if b then r else l) v w c Hvw Hc) as (c' & Hc' & Hsc). rewrite Hc'. cbn [rebuild].
    destruct b; eexists; (split; [reflexivity|]); constructor; auto; constructor.
  - destruct (e && bytes_eqb (root m) (zero_hash (length (b :: p)))); [|discriminate].
    apply rebuild_ok in Hs as (c & Hc & ->). destruct (IH (zero_node (length p)) v w c Hvw Hc) as (c' & Hc' & Hsc). rewrite Hc'. cbn [rebuild].
    destruct b; eexists; (split; [reflexivity|]); constructor; auto; constructor.
Qed.

Lemma expand_zero_rel : forall p c v w, novirt c -> root c = zero_hash (length p) -> summ v w ->
  exists c' z', setter_below true c p w = Ok c' /\ setter_below true (zero_node (length p)) p v = Ok z' /\ summ z' c'.
Proof.
  induction p as [|b p IH]; intros c v w Hnv Hr Hvw.
  - exists w, v. repeat split. exact Hvw.
  - destruct (expand_zero_ok H src (b :: p) v) as (z' & Hz'). pose proof Hz' as Hz''.
    cbn [Tree.setter_below length] in Hz'. unfold Tree.zero_node at 1 2 in Hz'.
    cbn [Tree.children Tree.root] in Hz'. rewrite bytes_eqb_rfl in Hz'. cbn [andb] in Hz'.
    fold (zero_node (length p)) in Hz'. apply rebuild_ok in Hz' as (zc & Hzc & Ez').
    destruct c as [r0|cl cr|r0]; cbn in Hnv; try contradiction.
    + cbn [Tree.root] in Hr. subst r0.
      destruct (sb_same true (b :: p) (zero_node (length (b :: p))) v w z' Hvw Hz'') as (c' & Hc' & Hsc).
      exists c', z'. repeat split; auto.
    + destruct Hnv as [Hnl Hnr]. cbn [Tree.root length Tree.zero_hash] in Hr. apply Hi in Hr as [Hrl Hrr].
      cbn [Tree.setter_below Tree.children].
      destruct (IH (if b then cr else cl) v w ltac:(destruct b; assumption) ltac:(destruct b; assumption) Hvw)
        as (c' & z2 & Hc' & Hz2 & Hsc).
      rewrite Hc'. cbn [rebuild]. rewrite Hz2 in Hzc. inversion Hzc; subst zc.
      exists (if b then PairN cl c' else PairN c' cr), z'. repeat split; [exact Hz''|].
      subst z'. unfold Tree.zero_node. destruct b; constructor; auto.
      * rewrite <- Hrl. constructor.
      * rewrite <- Hrr. constructor.
Qed.

Lemma ssb_rel e : forall p n m v w n', novirt m -> summ n m -> summ v w -> setter_below e n p v = Ok n' ->
  exists m', setter_below e m p w = Ok m' /\ summ n' m'.
Proof.
  induction p as [|b p IH]; intros n m v w n' Hnv Hs Hvw Hset.
  - cbn in *. inversion Hset; subst. eauto.
  - inversion Hs as [n0|m0|l r l' r' Hl Hr]; subst.
    + now apply (sb_same e (b :: p) m v w n').
    + pose proof Hset as Hset0. cbn [Tree.setter_below Tree.children Tree.root] in Hset.
      destruct e; [|discriminate]. cbn [andb] in Hset.
      destruct (bytes_eqb (root m) (zero_hash (length (b :: p)))) eqn:E; [|discriminate]. apply bytes_eqb_eq in E.
      destruct (expand_zero_rel (b :: p) m v w Hnv E Hvw) as (c' & z' & Hc' & Hz' & Hsz).
      exists c'. split; [exact Hc'|].
      assert (setter_below true (RootN (root m)) (b :: p) v = setter_below true (zero_node (length (b :: p))) (b :: p) v) as Eq.
      { unfold Tree.zero_node. rewrite E. reflexivity. }
      rewrite Eq, Hz' in Hset0. inversion Hset0; subst. exact Hsz.
    + cbn in Hnv. destruct Hnv as [Hnl Hnr]. cbn [Tree.setter_below Tree.children] in *.
      apply rebuild_ok in Hset as (c & Hc & ->). destruct b.
      * destruct (IH r r' v w c Hnr Hr Hvw Hc) as (c' & Hc' & Hsc). rewrite Hc'. cbn [rebuild]. eexists; split; [reflexivity|now constructor].
      * destruct (IH l l' v w c Hnl Hl Hvw Hc) as (c' & Hc' & Hsc). rewrite Hc'. cbn [rebuild]. eexists; split; [reflexivity|now constructor].
Qed.

Lemma summ_setter_rel e p n m v w n' : novirt m -> summ n m -> summ v w -> setter e n p v = Ok n' ->
  exists m', setter e m p w = Ok m' /\ summ n' m'.
Proof.
  intros Hnv Hs Hvw Hset. apply setter_as_below in Hset.
  destruct (ssb_rel e p n m v w n' Hnv Hs Hvw Hset) as (m' & Hm' & Hsm).
  exists m'. split; [|exact Hsm]. rewrite setter_unfold. destruct p as [|b p]; [exact Hm'|]. destruct m; try exact Hm'. cbn in Hnv. contradiction.
Qed.

(* ---- one-way simulation: what succeeds on the partial side succeeds on the complete side, related ---- *)
Definition psim {A} (R : A -> A -> Prop) (rp rc : result A) : Prop :=
  match rp with Ok x => exists y, rc = Ok y /\ R x y | Err _ => True end.

Lemma pbind {A B} (R : A -> A -> Prop) (S : B -> B -> Prop) a b (f g : A -> result B) :
  psim R a b -> (forall x y, R x y -> psim S (f x) (g y)) -> psim S (bind a f) (bind b g).
Proof. unfold psim at 1. destruct a as [x|e]; [intros (y & -> & Hr) Hfg; cbn [bind]; now apply Hfg|intros _ _; exact I]. Qed.
Lemma pret {A} (R : A -> A -> Prop) x y : R x y -> psim R (Ok x) (Ok y).
Proof. intros Hr. exists y. split; [reflexivity|exact Hr]. Qed.
Lemma prefl {A} (r : result A) : psim eq r r.
Proof. destruct r; cbn; eauto. Qed.
Lemma psim_of {A} (R : A -> A -> Prop) rp rc : (forall x, rp = Ok x -> exists y, rc = Ok y /\ R x y) -> psim R rp rc.
Proof. intros Hx. destruct rp as [x|]; cbn; [now apply Hx|exact I]. Qed.
Lemma psim_ok {A} (R : A -> A -> Prop) rp rc x : psim R rp rc -> rp = Ok x -> exists y, rc = Ok y /\ R x y.
Proof. intros Hp ->. exact Hp. Qed.

Lemma pseq {A B} (f g : A -> result B) : forall l, (forall i, psim eq (f i) (g i)) -> psim eq (seq_res (map f l)) (seq_res (map g l)).
Proof.
  intros l Hfg. induction l as [|a l IH]; cbn [map seq_res]; [apply prefl|].
  apply (pbind eq eq _ _ _ _ (Hfg a)). intros x y ->. apply (pbind eq eq _ _ _ _ IH). intros xs ys ->. apply prefl.
Qed.

Notation getter_i := (getter_i src).
Lemma p_getter_i n m i d : summ n m -> psim summ (getter_i n i d) (getter_i m i d).
Proof. intros Hs. apply psim_of. intros x Hx. exact (summ_getter_i H src n m i d x Hs Hx). Qed.
Lemma p_mixin n m : summ n m -> psim eq (mixin_value H src n) (mixin_value H src m).
Proof. intros Hs. apply psim_of. intros k Hk. exists k. split; [exact (summ_mixin H src n m k Hs Hk)|reflexivity]. Qed.
Lemma p_get_left n m : summ n m -> psim summ (get_left src n) (get_left src m).
Proof. intros Hs. apply psim_of. intros x Hx. exact (summ_get_left H src n m x Hs Hx). Qed.

Lemma p_read_chunks n m d count : summ n m -> psim eq (read_chunks H src n d count) (read_chunks H src m d count).
Proof.
  intros Hs. unfold read_chunks. eapply (pbind eq eq); [apply pseq|intros x y E; subst; apply prefl].
  intros i. apply (pbind summ eq _ _ _ _ (p_getter_i n m i d Hs)). intros c c' Hc. rewrite (summ_root H c c' Hc). apply prefl.
Qed.

Lemma p_bits_serialize b n m td bl : summ n m -> psim eq (bits_serialize H src b n td bl) (bits_serialize H src b m td bl).
Proof.
  intros Hs. unfold bits_serialize. cbv zeta. apply (pbind eq eq _ _ _ _ (p_read_chunks n m td _ Hs)). intros fb fb' ->.
  destruct (0 <? (bl + 255) / 256); [|apply prefl].
  apply (pbind summ eq _ _ _ _ (p_getter_i n m _ td Hs)). intros c c' Hc. rewrite (summ_root H c c' Hc). apply prefl.
Qed.

Theorem summ_ser : forall t n m, summ n m -> psim eq (ser_impl H src t n) (ser_impl H src t m).
Proof.
  induction t as [k| |bn|bl|yn|yl|e nn IHe|e l IHe|fs Hfs|b os Hos] using ty_ind'; intros n m Hs; cbn [ModelCodec.ser_impl].
  - rewrite (summ_root H n m Hs). apply prefl.
  - rewrite (summ_root H n m Hs). apply prefl.
  - apply (pbind eq eq _ _ _ _ (p_bits_serialize false n m _ _ Hs)). intros x y E; subst; apply prefl.
  - apply (pbind eq eq _ _ _ _ (p_mixin n m Hs)). intros ll ll' ->.
    apply (pbind eq eq _ _ _ _ (p_bits_serialize true n m _ _ Hs)). intros x y E; subst; apply prefl.
  - cbv zeta. rewrite (summ_root H n m Hs). eapply (pbind eq eq); [|intros x y E; subst; apply prefl].
    destruct (Nat.eqb _ 0); [apply prefl|now apply p_read_chunks].
  - cbv zeta. apply (pbind summ eq _ _ _ _ (p_get_left n m Hs)). intros c c' Hc.
    apply (pbind eq eq _ _ _ _ (p_mixin n m Hs)). intros ll ll' ->. destruct (yl <? ll'); [exact I|].
    rewrite (summ_root H c c' Hc). eapply (pbind eq eq); [|intros x y E; subst; apply prefl].
    destruct (Nat.eqb _ 0); [apply prefl|now apply p_read_chunks].
  - (* vector *) cbn [view_len bind]. cbv zeta. destruct (basic_size e) as [s|].
    + eapply (pbind eq eq); [apply pseq|intros x y E; subst; apply prefl]. intros i.
      apply (pbind summ eq _ _ _ _ (p_getter_i n m _ _ Hs)). intros c c' Hc. unfold packed_elem_bytes. rewrite (summ_root H c c' Hc). apply prefl.
    + eapply (pbind eq eq); [apply pseq|intros x y E; subst; apply prefl]. intros i.
      apply (pbind summ eq _ _ _ _ (p_getter_i n m _ _ Hs)). intros c c' Hc. now apply IHe.
  - (* list *) cbn [view_len]. apply (pbind eq eq _ _ _ _ (p_mixin n m Hs)). intros ll ll' ->. cbv zeta. destruct (basic_size e) as [s|].
    + eapply (pbind eq eq); [apply pseq|intros x y E; subst; apply prefl]. intros i.
      apply (pbind summ eq _ _ _ _ (p_getter_i n m _ _ Hs)). intros c c' Hc. unfold packed_elem_bytes. rewrite (summ_root H c c' Hc). apply prefl.
    + eapply (pbind eq eq); [apply pseq|intros x y E; subst; apply prefl]. intros i.
      apply (pbind summ eq _ _ _ _ (p_getter_i n m _ _ Hs)). intros c c' Hc. now apply IHe.
  - (* container *) cbv zeta. eapply (pbind eq eq); [|intros x y E; subst; apply prefl].
    generalize (tree_depth (TContainer fs)) as td. intros td.
    generalize (@nil byte, @nil byte, fold_left (fun acc f => acc + (if is_fixed_impl f then min_impl f else OFFSET)) fs 0) as acc0.
    generalize 0 as i0. intros i0 acc0. revert acc0 i0.
    induction Hfs as [|f fs' Hf Hfs' IH]; intros acc0 i0; [apply prefl|].
    destruct acc0 as [[fx vr0] written].
    apply (pbind summ eq _ _ _ _ (p_getter_i n m i0 td Hs)). intros c c' Hc.
    apply (pbind eq eq _ _ _ _ (Hf c c' Hc)). intros x y E; subst. destruct (is_fixed_impl f); apply IH.
  - (* union *)
    apply (pbind eq eq _ _ _ _ (p_mixin n m Hs)). intros sel sel' ->.
    destruct (lenN os + (if b then 1 else 0) <=? sel'); [exact I|].
    apply (pbind summ eq _ _ _ _ (p_get_left n m Hs)). intros c c' Hc. rewrite (summ_root H c c' Hc).
    destruct (b && (sel' =? 0)); [apply prefl|]. eapply (pbind eq eq); [|intros x y E; subst; apply prefl].
    generalize (N.to_nat (if b then sel' - 1 else sel')) as j. induction Hos as [|o os' Ho Hos' IH]; intros j; [destruct j; exact I|].
    destruct j as [|j]; [now apply Ho|apply IH].
Qed.

(* ---- materialised-ness is preserved by every operation (needed on the complete side) ---- *)
Notation setter_i := (setter_i H src).
Notation setter_g := (setter_g H src).
Lemma nv_getter_g n g x : novirt n -> getter_g src n g = Ok x -> novirt x.
Proof. unfold getter_g. destruct (path_of_gindex g); [apply novirt_getter|discriminate]. Qed.
Lemma nv_getter_i n i d x : novirt n -> getter_i n i d = Ok x -> novirt x.
Proof. unfold ModelCodec.getter_i. destruct (to_gindex i d); cbn [bind]; [apply nv_getter_g|discriminate]. Qed.
Lemma nv_rebind_right m v m' : novirt m -> novirt v -> rebind_right src m v = Ok m' -> novirt m'.
Proof. exact (novirt_rebind_right src m v m'). Qed.
Lemma nv_get_left m x : novirt m -> get_left src m = Ok x -> novirt x.
Proof.
  unfold get_left. intros Hn Hm. destruct (children src m) as [[l r]|] eqn:Hc; [|discriminate].
  destruct (novirt_children' src m l r Hn Hc). now inversion Hm; subst.
Qed.
Lemma nv_summarize_g m g m' : novirt m -> summarize_into_g H src m g = Ok m' -> novirt m'.
Proof.
  unfold summarize_into_g, summarize_into. intros Hn Hm. destruct (path_of_gindex g) as [p|]; [|discriminate].
  destruct (getter m p) as [x|]; [|discriminate]. cbn [bind] in Hm. exact (novirt_setter H src false p m (RootN (root x)) m' Hn I Hm).
Qed.

Ltac nv_fin Hop :=
  match type of Hop with
  | ModelMut.setter_i _ _ ?e ?n ?i ?d ?v = Ok ?m' => apply (novirt_setter_i H src e n i d v m'); [assumption|first [assumption|exact I]|exact Hop]
  | Tree.setter_g _ _ ?e ?n ?g ?v = Ok ?m' => apply (novirt_setter_g H src e n g v m'); [assumption|first [assumption|exact I]|exact Hop]
  end.
Ltac nv_rb Hop :=
  match type of Hop with rebind_right _ ?n ?v = Ok ?m' => apply (nv_rebind_right n v m'); [assumption|exact I|exact Hop] end.
Ltac nv_step Hop :=
  match type of Hop with
  | context [setter_i ?e ?n ?i ?d ?v] =>
      let nb := fresh "nb" in let Hnb := fresh "Hnb" in
      destruct (setter_i e n i d v) as [nb|] eqn:Hnb; [|cbn [bind] in Hop; discriminate Hop]; cbn [bind] in Hop;
      assert (novirt nb) by (eapply (novirt_setter_i H src e n i d v nb); [assumption|first [assumption|exact I]|exact Hnb])
  | context [setter_g ?e ?n ?g ?v] =>
      let nb := fresh "nb" in let Hnb := fresh "Hnb" in
      destruct (setter_g e n g v) as [nb|] eqn:Hnb; [|cbn [bind] in Hop; discriminate Hop]; cbn [bind] in Hop;
      assert (novirt nb) by (eapply (novirt_setter_g H src e n g v nb); [assumption|first [assumption|exact I]|exact Hnb])
  | context [getter_i ?n ?i ?d] =>
      let c := fresh "c" in destruct (getter_i n i d) as [c|]; [|cbn [bind] in Hop; discriminate Hop]; cbn [bind] in Hop
  | context [getter_g src ?n ?g] =>
      let c := fresh "c" in destruct (getter_g src n g) as [c|]; [|cbn [bind] in Hop; discriminate Hop]; cbn [bind] in Hop
  | context [mixin_value H src ?n] =>
      let ll := fresh "ll" in destruct (mixin_value H src n) as [ll|]; [|cbn [bind] in Hop; discriminate Hop]; cbn [bind] in Hop
  end.

Lemma nv_sub_set t m i x m' : novirt m -> novirt x -> sub_set H src t m i x = Ok m' -> novirt m'.
Proof.
  intros Hn Hx Hop. unfold ModelMut.sub_set in Hop. destruct (elem_ty t i) as [e|]; [|discriminate]. cbn [bind] in Hop.
  destruct (match t with TContainer _ => None | _ => basic_size e end).
  - nv_step Hop. nv_step Hop. nv_fin Hop.
  - nv_fin Hop.
Qed.
Lemma nv_view_set t m i x m' : novirt m -> novirt x -> view_set H src t m i x = Ok m' -> novirt m'.
Proof. unfold ModelMut.view_set. intros Hn Hx Hop. destruct (check_index H src t m i) as [k|]; [|discriminate]. now apply (nv_sub_set t m k x m'). Qed.

Lemma nv_list_append t m x m' : novirt m -> novirt x -> list_append H src t m x = Ok m' -> novirt m'.
Proof.
  intros Hn Hx Hop. unfold ModelMut.list_append in Hop. destruct t; try discriminate. nv_step Hop. destruct (limit <=? ll); [discriminate|]. cbv zeta in Hop.
  destruct (basic_size t) as [s0|].
  - destruct (ll mod elems_per_chunk s0 =? 0).
    + nv_step Hop. nv_rb Hop.
    + nv_step Hop. nv_step Hop. nv_step Hop. nv_rb Hop.
  - nv_step Hop. nv_rb Hop.
Qed.
Lemma nv_summarize_up m g m' : novirt m -> summarize_up H src m g = Ok m' -> novirt m'.
Proof. unfold ModelMut.summarize_up. apply nv_summarize_g. Qed.
Lemma nv_list_pop t m m' : novirt m -> list_pop H src t m = Ok m' -> novirt m'.
Proof.
  intros Hn Hop. unfold ModelMut.list_pop in Hop. destruct t; try discriminate. nv_step Hop. destruct (ll =? 0); [discriminate|]. cbv zeta in Hop.
  destruct (basic_size t).
  - destruct (to_gindex _ _) as [g|]; [|discriminate]. cbn [bind] in Hop. destruct (_ mod _ =? 0); cbn [bind] in Hop.
    + nv_step Hop. destruct (N.even g && true); cbn [bind] in Hop.
      * destruct (summarize_up H src nb g) as [nb2|] eqn:Hs2; [|discriminate]. cbn [bind] in Hop. assert (novirt nb2) by (now apply (nv_summarize_up nb g)). nv_rb Hop.
      * nv_rb Hop.
    + nv_step Hop. nv_step Hop. rewrite andb_false_r in Hop. cbn [bind] in Hop. nv_rb Hop.
  - destruct (to_gindex _ _) as [g|]; [|discriminate]. cbn [bind] in Hop. nv_step Hop. destruct (N.even g); cbn [bind] in Hop.
    + destruct (summarize_up H src nb g) as [nb2|] eqn:Hs2; [|discriminate]. cbn [bind] in Hop. assert (novirt nb2) by (now apply (nv_summarize_up nb g)). nv_rb Hop.
    + nv_rb Hop.
Qed.
Lemma nv_bits_set t m i b m' : novirt m -> bits_set H src t m i b = Ok m' -> novirt m'.
Proof.
  intros Hn Hop. unfold ModelMut.bits_set in Hop. destruct (bits_len H src t m); [|discriminate]. cbn [bind] in Hop.
  destruct (_ || _); [discriminate|]. cbv zeta in Hop.
  match type of Hop with match ?A with _ => _ end = _ => destruct A as [r|] eqn:Hr; [|destruct t; discriminate] end. inversion Hop; subst r.
  nv_step Hr. nv_step Hr. nv_fin Hr.
Qed.
Lemma nv_bitlist_append t m b m' : novirt m -> bitlist_append H src t m b = Ok m' -> novirt m'.
Proof.
  intros Hn Hop. unfold ModelMut.bitlist_append in Hop. destruct t; try discriminate. nv_step Hop. destruct (limit <=? ll); [discriminate|]. cbv zeta in Hop.
  destruct (ll mod 256 =? 0).
  - nv_step Hop. nv_rb Hop.
  - nv_step Hop. nv_step Hop. nv_step Hop. nv_rb Hop.
Qed.
Lemma nv_bitlist_pop t m m' : novirt m -> bitlist_pop H src t m = Ok m' -> novirt m'.
Proof.
  intros Hn Hop. unfold ModelMut.bitlist_pop in Hop. destruct t; try discriminate. nv_step Hop. destruct (ll =? 0); [discriminate|]. cbv zeta in Hop.
  destruct (to_gindex _ _) as [g|]; [|discriminate]. cbn [bind] in Hop. destruct (_ mod 256 =? 0); cbn [bind] in Hop.
  - nv_step Hop. destruct (N.even g && true); cbn [bind] in Hop.
    + destruct (summarize_up H src nb g) as [nb2|] eqn:Hs2; [|discriminate]. cbn [bind] in Hop. assert (novirt nb2) by (now apply (nv_summarize_up nb g)). nv_rb Hop.
    + nv_rb Hop.
  - nv_step Hop. nv_step Hop. nv_step Hop. rewrite andb_false_r in Hop. cbn [bind] in Hop. nv_rb Hop.
Qed.

(* ---- the two writes a hook performs, with RELATED inserted backings ---- *)
Lemma summ_setter_g_rel e n m g v w n' : novirt m -> summ n m -> summ v w -> setter_g e n g v = Ok n' ->
  exists m', setter_g e m g w = Ok m' /\ summ n' m'.
Proof. unfold Tree.setter_g. destruct (path_of_gindex g); [apply summ_setter_rel|discriminate]. Qed.
Lemma summ_setter_i_rel e n m i d v w n' : novirt m -> summ n m -> summ v w -> setter_i e n i d v = Ok n' ->
  exists m', setter_i e m i d w = Ok m' /\ summ n' m'.
Proof.
  unfold ModelMut.setter_i. intros Hnv Hs Hvw Hg. destruct (to_gindex i d) as [g|]; [|discriminate]. cbn [bind] in *. now apply (summ_setter_g_rel e n m g v w n').
Qed.

Lemma summ_view_set_rel t n m i v w n' : novirt m -> summ n m -> summ v w -> view_set H src t n i v = Ok n' ->
  exists m', view_set H src t m i w = Ok m' /\ summ n' m'.
Proof.
  intros Hnv Hs Hvw. unfold ModelMut.view_set. destruct (check_index H src t n i) as [k|] eqn:Hk; [|discriminate].
  rewrite (summ_check_index H src t n m i k Hs Hk). cbn [bind]. unfold ModelMut.sub_set.
  destruct (elem_ty t k) as [e|]; [|discriminate]. cbn [bind].
  destruct (match t with TContainer _ => None | _ => basic_size e end) as [sz|].
  - rewrite <- (summ_root H v w Hvw). intros Hop.
    destruct (setter_i false n (k / elems_per_chunk sz) (tree_depth t) (RootN zero32)) as [pr|] eqn:Hp; [|discriminate]. cbn [bind] in Hop.
    destruct (summ_setter_i H src Hi false n m _ _ _ pr Hnv Hs Hp) as (pr' & Hp' & _). rewrite Hp'. cbn [bind].
    destruct (getter_i n (k / elems_per_chunk sz) (tree_depth t)) as [c|] eqn:Hg; [|discriminate]. cbn [bind] in Hop.
    destruct (summ_getter_i H src n m _ _ c Hs Hg) as (c' & Hg' & Hc). rewrite Hg'. cbn [bind]. rewrite <- (summ_root H c c' Hc).
    now apply (summ_setter_i H src Hi false n m).
  - now apply summ_setter_i_rel.
Qed.

(* ---- stores of views over partial trees ---- *)
Definition pcrel (cp cc : cell) : Prop :=
  cty cp = cty cc /\ chook cp = chook cc /\ summ (cback cp) (cback cc) /\ novirt (cback cc) /\ wf_ty (cty cc) = true.
Definition psrel (sp sc : store) : Prop := Forall2 pcrel sp sc.

Lemma psrel_length sp sc : psrel sp sc -> length sp = length sc.
Proof. induction 1; cbn; auto. Qed.
Lemma psrel_nth sp sc u cp : psrel sp sc -> nth_error sp u = Some cp -> exists cc, nth_error sc u = Some cc /\ pcrel cp cc.
Proof.
  intros Hs. revert u. induction Hs as [|a b sp sc Hc Hs IH]; intros [|u] Hu; cbn [nth_error] in *; try discriminate.
  - inversion Hu; subst. eauto.
  - now apply IH.
Qed.
Lemma psrel_app sp sc cp cc : psrel sp sc -> pcrel cp cc -> psrel (sp ++ [cp]) (sc ++ [cc]).
Proof. intros Hs Hc. apply Forall2_app; [exact Hs|constructor; [exact Hc|constructor]]. Qed.
Lemma F2_firstn {A B} (R : A -> B -> Prop) k : forall l r, Forall2 R l r -> Forall2 R (firstn k l) (firstn k r).
Proof. induction k as [|k IH]; intros l r Hf; [constructor|]. destruct Hf; cbn; constructor; auto. Qed.
Lemma F2_skipn {A B} (R : A -> B -> Prop) k : forall l r, Forall2 R l r -> Forall2 R (skipn k l) (skipn k r).
Proof. induction k as [|k IH]; intros l r Hf; [exact Hf|]. destruct Hf; cbn; [constructor|auto]. Qed.
Lemma psrel_upd sp sc u cp cc : psrel sp sc -> pcrel cp cc -> psrel (upd_cell sp u cp) (upd_cell sc u cc).
Proof. intros Hs Hc. unfold upd_cell. apply Forall2_app; [now apply F2_firstn|]. constructor; [exact Hc|now apply F2_skipn]. Qed.

(* propagation through a hook chain: if it succeeds on the partial store it succeeds on the complete store *)
Lemma summ_union_guard t n m e : summ n m -> union_guard H src t n e = Ok tt -> union_guard H src t m e = Ok tt.
Proof.
  intros Hs. unfold union_guard. destruct t; try discriminate.
  destruct (union_selector H src (TUnion none0 opts) n) as [sel|] eqn:Hsel; [|discriminate].
  rewrite (summ_union_selector H src _ n m sel Hs Hsel). cbn [bind]. auto.
Qed.

Lemma set_backing_psim : forall fuel sp sc u bp bc sp', psrel sp sc -> summ bp bc -> novirt bc ->
  set_backing fuel sp u bp = (Ok tt, sp') -> exists sc', set_backing fuel sc u bc = (Ok tt, sc') /\ psrel sp' sc'.
Proof.
  induction fuel as [|f IH]; intros sp sc u bp bc sp' Hs Hb Hnb Hop; cbn [ModelStore.set_backing] in *;
    (destruct (nth_error sp u) as [cp|] eqn:Ecp; [|discriminate]);
    destruct (psrel_nth sp sc u cp Hs Ecp) as (cc & -> & Ht & Hh & Hk & Hnc & Hwf); rewrite Ht, Hh in Hop;
    (assert (psrel (upd_cell sp u {| cty := cty cc; cback := bp; chook := chook cc |}) (upd_cell sc u {| cty := cty cc; cback := bc; chook := chook cc |})) as Hs1
       by (apply psrel_upd; [exact Hs|repeat split; assumption]));
    destruct (chook cc) as [|p i|p]; try discriminate; try (inversion Hop; subst; eauto).
  - destruct (nth_error (upd_cell sp u _) p) as [pp|] eqn:Epp; [|discriminate].
    destruct (psrel_nth _ _ p pp Hs1 Epp) as (pc & -> & Htp & _ & Hkp & Hnp & _). rewrite Htp in Hop.
    destruct (view_set H src (cty pc) (cback pp) (Z.of_N i) bp) as [np|] eqn:Hv; [|discriminate].
    destruct (summ_view_set_rel (cty pc) (cback pp) (cback pc) (Z.of_N i) bp bc np Hnp Hkp Hb Hv) as (nc & Hvc & Hn). rewrite Hvc.
    apply (IH _ _ p np nc sp' Hs1 Hn); [exact (nv_view_set (cty pc) (cback pc) (Z.of_N i) bc nc Hnp Hnb Hvc)|exact Hop].
  - destruct (nth_error (upd_cell sp u _) p) as [pp|] eqn:Epp; [|discriminate].
    destruct (psrel_nth _ _ p pp Hs1 Epp) as (pc & -> & Htp & _ & Hkp & Hnp & _). rewrite Htp in Hop.
    destruct (union_guard H src (cty pc) (cback pp) (cty cc)) as [[]|] eqn:Hg; [|discriminate]. cbn [bind] in Hop.
    rewrite (summ_union_guard (cty pc) (cback pp) (cback pc) (cty cc) Hkp Hg). cbn [bind].
    destruct (setter_g false (cback pp) 2 bp) as [np|] eqn:Hv; [|discriminate].
    destruct (summ_setter_g_rel false (cback pp) (cback pc) 2 bp bc np Hnp Hkp Hb Hv) as (nc & Hvc & Hn). rewrite Hvc.
    apply (IH _ _ p np nc sp' Hs1 Hn); [exact (novirt_setter_g H src false (cback pc) 2 bc nc Hnp Hnb Hvc)|exact Hop].
Qed.

Lemma elem_ty_wf t k e : wf_ty t = true -> elem_ty t k = Ok e -> wf_ty e = true.
Proof.
  intros Hty. destruct t; cbn [elem_ty]; try discriminate.
  - intros E; inversion E; subst. cbn [wf_ty] in Hty. apply andb_true_iff in Hty as [Hty _]. now apply andb_true_iff in Hty as [Hty _].
  - intros E; inversion E; subst. cbn [wf_ty] in Hty. now apply andb_true_iff in Hty as [Hty _].
  - destruct (nth_error fs (N.to_nat k)) as [f|] eqn:Hf; [|discriminate]. intros E; inversion E; subst.
    cbn [wf_ty] in Hty. apply andb_true_iff in Hty as [_ Htys]. rewrite forallb_forall in Htys. apply Htys. eapply nth_error_In; eauto.
Qed.
Lemma union_opt_wf b os j o : wf_ty (TUnion b os) = true -> union_opt b os j = Some o -> wf_ty o = true.
Proof.
  intros Hty Ho. cbn [wf_ty] in Hty. apply andb_true_iff in Hty as [Hty _]. apply andb_true_iff in Hty as [Htys _]. rewrite forallb_forall in Htys.
  apply Htys. unfold union_opt in Ho. destruct b; [destruct j; [discriminate|]|]; eapply nth_error_In; eauto.
Qed.
Lemma coerce_novirt e a x : wf_ty e = true -> coerce_arg H e a = Ok x -> novirt x.
Proof.
  intros Hte Hc. destruct a as [v|w n|]; cbn [coerce_arg] in Hc; [| |discriminate].
  - now apply (mk_novirt H e v x).
  - destruct e; try discriminate. destruct (w =? nbytes); [|discriminate]. now apply (mk_novirt H _ _ x Hte Hc).
Qed.

Lemma new_backing_psim cp cc c nbp : pcrel cp cc -> new_backing H src cp c = Ok nbp ->
  exists nbc, new_backing H src cc c = Ok nbc /\ summ nbp nbc /\ novirt nbc.
Proof.
  intros (Ht & _ & Hk & Hnc & Hwf) Hop. destruct c; cbn [new_backing] in *; try discriminate; rewrite Ht in Hop.
  - (* set *)
    assert (exists nbc, (do k <- check_index H src (cty cc) (cback cc) i; do e <- elem_ty (cty cc) k; do x <- coerce_arg H e a; sub_set H src (cty cc) (cback cc) k x) = Ok nbc
                        /\ summ nbp nbc /\ novirt nbc) as Hgoal.
    { assert ((do k <- check_index H src (cty cc) (cback cp) i; do e <- elem_ty (cty cc) k; do x <- coerce_arg H e a; sub_set H src (cty cc) (cback cp) k x) = Ok nbp) as Hop'
        by (destruct (cty cc); try discriminate; exact Hop).
      destruct (check_index H src (cty cc) (cback cp) i) as [k|] eqn:Hci; [|discriminate]. rewrite (summ_check_index H src _ _ _ i k Hk Hci). cbn [bind] in *.
      destruct (elem_ty (cty cc) k) as [e|] eqn:Ee; [|discriminate]. cbn [bind] in *.
      destruct (coerce_arg H e a) as [x|] eqn:Hx; [|discriminate]. cbn [bind] in *.
      assert (novirt x) as Hnx by (apply (coerce_novirt e a x); [now apply (elem_ty_wf (cty cc) k e)|exact Hx]).
      destruct (summ_sub_set H src Hi (cty cc) _ _ k x nbp Hnc Hk Hop') as (nbc & Hs & Hr). exists nbc. split; [exact Hs|]. split; [exact Hr|].
      now apply (nv_sub_set (cty cc) (cback cc) k x nbc). }
    destruct (cty cc); try discriminate; exact Hgoal.
  - (* append *)
    destruct (cty cc) eqn:Ect; try discriminate.
    + destruct a as [[| b | | | | |]| |]; try discriminate. rewrite <- Ect in *.
      destruct (summ_bitlist_append H src Hi (cty cc) _ _ b nbp Hnc Hk Hop) as (nbc & Hs & Hr). exists nbc. split; [exact Hs|]. split; [exact Hr|].
      now apply (nv_bitlist_append (cty cc) (cback cc) b nbc).
    + destruct (mixin_value H src (cback cp)) as [ll|] eqn:Hl; [|discriminate]. rewrite (summ_mixin H src _ _ ll Hk Hl). cbn [bind] in *.
      destruct (limit <=? ll); [discriminate|]. destruct (coerce_arg H t a) as [x|] eqn:Hx; [|discriminate]. cbn [bind] in *.
      assert (novirt x) as Hnx. { apply (coerce_novirt t a x); [|exact Hx]. cbn [wf_ty] in Hwf. now apply andb_true_iff in Hwf as [Hte _]. }
      destruct (summ_list_append H src Hi (TList t limit) _ _ x nbp Hnc Hk Hop) as (nbc & Hs & Hr). exists nbc. split; [exact Hs|]. split; [exact Hr|].
      now apply (nv_list_append (TList t limit) (cback cc) x nbc).
  - (* pop *)
    destruct (cty cc) eqn:Ect; try discriminate; rewrite <- Ect in *.
    + destruct (summ_bitlist_pop H src Hi (cty cc) _ _ nbp Hnc Hk Hop) as (nbc & Hs & Hr). exists nbc. split; [exact Hs|]. split; [exact Hr|]. now apply (nv_bitlist_pop (cty cc) (cback cc) nbc).
    + destruct (summ_list_pop H src Hi (cty cc) _ _ nbp Hnc Hk Hop) as (nbc & Hs & Hr). exists nbc. split; [exact Hs|]. split; [exact Hr|]. now apply (nv_list_pop (cty cc) (cback cc) nbc).
  - (* bit set *)
    destruct a as [[| b | | | | |]| |]; try discriminate.
    destruct (summ_bits_set H src Hi (cty cc) _ _ i b nbp Hnc Hk Hop) as (nbc & Hs & Hr). exists nbc. split; [exact Hs|]. split; [exact Hr|]. now apply (nv_bits_set (cty cc) (cback cc) i b nbc).
  - (* union change: computed from the argument alone *)
    exists nbp. split; [exact Hop|]. split; [constructor|].
    destruct (cty cc) eqn:Ect; try discriminate. destruct (sel <? 0)%Z; [discriminate|]. destruct (Z.of_N _ <=? sel)%Z; [discriminate|].
    destruct (union_opt none0 opts (Z.to_nat sel)) as [o|] eqn:Ho.
    + assert (exists x, coerce_arg H o a = Ok x /\ union_change H (TUnion none0 opts) sel (Some x) = Ok nbp) as (x & Hx & Hu).
      { destruct a; try discriminate; (destruct (coerce_arg H o _) as [x|] eqn:Hx; [|discriminate]); cbn [bind] in Hop; eauto. }
      unfold union_change in Hu. destruct (sel <? 0)%Z; [discriminate|]. destruct (Z.of_N _ <=? sel)%Z; [discriminate|]. rewrite Ho in Hu. inversion Hu; subst.
      split; [|exact I]. apply (coerce_novirt o a x); [|exact Hx]. now apply (union_opt_wf none0 opts _ o Hwf Ho).
    + destruct a; try discriminate. unfold union_change in Hop. destruct (sel <? 0)%Z; [discriminate|]. destruct (Z.of_N _ <=? sel)%Z; [discriminate|]. rewrite Ho in Hop. inversion Hop; subst. split; exact I.
Qed.

Lemma nv_sub_get t m k x : novirt m -> sub_get H src t m k = Ok x -> novirt x.
Proof.
  intros Hn Hop. unfold ModelMut.sub_get in Hop. destruct (elem_ty t k) as [e|]; [|discriminate]. cbn [bind] in Hop.
  destruct (match t with TContainer _ => None | _ => basic_size e end) as [sz|].
  - destruct (getter_i m _ _) as [c|]; [|discriminate]. cbn [bind] in Hop. destruct (packed_elem_bytes H e c _); [|discriminate]. inversion Hop; subst. exact I.
  - now apply (nv_getter_i m k (tree_depth t) x).
Qed.

Lemma normalise_psim e x x' nd : wf_ty e = true -> summ x x' -> novirt x' -> normalise_child H src e x = Ok nd ->
  exists nd', normalise_child H src e x' = Ok nd' /\ summ nd nd' /\ novirt nd'.
Proof.
  intros Hte Hs Hn Hop. destruct e; cbn [normalise_child] in *; try solve [exists x'; inversion Hop; subst; auto].
  - rewrite <- (summ_root H x x' Hs). exists nd. split; [exact Hop|]. split; [constructor|inversion Hop; exact I].
  - rewrite <- (summ_root H x x' Hs). exists nd. split; [exact Hop|]. split; [constructor|].
    destruct (bool_decode _); [|discriminate]. inversion Hop; exact I.
  - destruct (ser_impl H src (TByteVector n) x) as [r|] eqn:Hr; [|discriminate]. cbn [bind] in Hop.
    destruct (psim_ok eq _ _ r (summ_ser (TByteVector n) x x' Hs) Hr) as (r' & -> & <-). cbn [bind].
    exists nd. split; [exact Hop|]. split; [constructor|]. now apply (mk_novirt H (TByteVector n) _ nd Hte Hop).
  - destruct (ser_impl H src (TByteList limit) x) as [r|] eqn:Hr; [|discriminate]. cbn [bind] in Hop.
    destruct (psim_ok eq _ _ r (summ_ser (TByteList limit) x x' Hs) Hr) as (r' & -> & <-). cbn [bind].
    exists nd. split; [exact Hop|]. split; [constructor|]. now apply (mk_novirt H (TByteList limit) _ nd Hte Hop).
Qed.

Lemma union_value_opt t n o x : union_value H src t n = Ok (Some (o, x)) -> exists b os j, t = TUnion b os /\ union_opt b os j = Some o.
Proof.
  unfold ModelMut.union_value. destruct t; try discriminate. destruct (get_left src n); [|discriminate]. cbn [bind].
  destruct (union_selector H src _ n) as [sel|]; [|discriminate]. cbn [bind].
  destruct (union_opt none0 opts (N.to_nat sel)) as [o'|] eqn:Ho.
  - intros E; inversion E; subst. eauto.
  - destruct (bytes_eqb _ _); discriminate.
Qed.

Definition pget_step (s : store) (t : ty) (b : node) (v : vid) (i : Z) : result unit * store :=
  match check_index H src t b i with
  | Err e => (Err e, s)
  | Ok k =>
      match elem_ty t k, (do x <- sub_get H src t b k; do e <- elem_ty t k; normalise_child H src e x) with
      | Ok e, Ok nd =>
          let hk := match e with TUint _ | TBool | TByteVector _ | TByteList _ => HNone | _ => HElem v k end in
          (Ok tt, s ++ [{| cty := e; cback := nd; chook := hk |}])
      | Err e, _ => (Err e, s)
      | _, Err e => (Err e, s)
      end
  end.

Lemma pget_step_psim sp sc t bp bc v i sp' : psrel sp sc -> summ bp bc -> novirt bc -> wf_ty t = true ->
  pget_step sp t bp v i = (Ok tt, sp') -> exists sc', pget_step sc t bc v i = (Ok tt, sc') /\ psrel sp' sc'.
Proof.
  intros Hs Hk Hnc Hwf Hop. unfold pget_step in *.
  destruct (check_index H src t bp i) as [k|] eqn:Hci; [|discriminate]. rewrite (summ_check_index H src _ _ _ i k Hk Hci).
  destruct (elem_ty t k) as [e|] eqn:Ee; [|destruct (sub_get H src t bp k); discriminate]. cbn [bind] in *.
  destruct (sub_get H src t bp k) as [x|] eqn:Hx; [|discriminate]. cbn [bind] in Hop.
  destruct (summ_sub_get H src _ _ _ k x Hk Hx) as (x' & Hx' & Hxx). rewrite Hx'. cbn [bind].
  destruct (normalise_child H src e x) as [nd|] eqn:Hnd; [|discriminate].
  destruct (normalise_psim e x x' nd (elem_ty_wf _ k e Hwf Ee) Hxx (nv_sub_get _ _ k x' Hnc Hx') Hnd) as (nd' & -> & Hnn & Hnv).
  inversion Hop; subst. eexists; split; [reflexivity|]. apply psrel_app; [exact Hs|]. repeat split; auto. now apply (elem_ty_wf _ k e Hwf Ee).
Qed.

(* C17 at store level: ANY command that succeeds on a store of views over partial trees succeeds on the store of the
   complete trees, and the stores stay related: same types and hooks, every backing a summary of the complete one
   (hence the same root) *)
Theorem run_cmd_psim sp sc c sp' : psrel sp sc -> run_cmd sp c = (Ok tt, sp') ->
  exists sc', run_cmd sc c = (Ok tt, sc') /\ psrel sp' sc'.
Proof.
  intros Hs Hop. pose proof (psrel_length sp sc Hs) as Hlen.
  destruct (mutating c) eqn:Hm.
  - destruct (nth_error sp (target c)) as [cp|] eqn:Ecp.
    + destruct (psrel_nth sp sc _ cp Hs Ecp) as (cc & Ecc & Hc).
      rewrite (run_cmd_mut H src sp c cp Ecp Hm) in Hop. rewrite (run_cmd_mut H src sc c cc Ecc Hm).
      destruct (new_backing H src cp c) as [nbp|] eqn:Hnb; [|discriminate].
      destruct (new_backing_psim cp cc c nbp Hc Hnb) as (nbc & -> & Hb & Hnbc). rewrite <- Hlen. now apply (set_backing_psim _ sp sc _ nbp nbc sp').
    + destruct c; try discriminate; cbn [target] in *; cbn [ModelStore.run_cmd] in Hop; cbv zeta in Hop; rewrite Ecp in Hop; discriminate.
  - destruct c; try discriminate; cbn [ModelStore.run_cmd] in *; cbv zeta in *.
    + (* get *)
      destruct (nth_error sp v) as [cp|] eqn:Ecp; [|discriminate].
      destruct (psrel_nth sp sc v cp Hs Ecp) as (cc & -> & Ht & Hh & Hk & Hnc & Hwf). rewrite Ht in Hop.
      assert ((match bits_get H src (cty cc) (cback cp) i with Ok _ => (Ok tt, sp) | Err e => (Err e, sp) end) = (Ok tt, sp') ->
              exists sc', (match bits_get H src (cty cc) (cback cc) i with Ok _ => (Ok tt, sc) | Err e => (Err e, sc) end) = (Ok tt, sc') /\ psrel sp' sc') as Hbits.
      { destruct (bits_get H src (cty cc) (cback cp) i) as [b|] eqn:Hb; [|discriminate]. rewrite (summ_bits_get H src _ _ _ i b Hk Hb).
        intros E; inversion E; subst. eauto. }
      destruct (cty cc) eqn:Ect; try (now apply Hbits); clear Hbits; rewrite <- Ect in *; exact (pget_step_psim sp sc (cty cc) (cback cp) (cback cc) v i sp' Hs Hk Hnc Hwf Hop).
    + (* value *)
      destruct (nth_error sp v) as [cp|] eqn:Ecp; [|discriminate].
      destruct (psrel_nth sp sc v cp Hs Ecp) as (cc & -> & Ht & Hh & Hk & Hnc & Hwf). rewrite Ht in Hop.
      destruct (union_value H src (cty cc) (cback cp)) as [[[o x]|]|] eqn:Hv; [| |discriminate].
      * pose proof (summ_union_value H src _ _ _ _ Hk Hv) as (y & Hy & Hxy). rewrite Hy.
        destruct (union_value_opt _ _ o y Hy) as (b & os & j & Et & Ho). rewrite Et in Hwf. pose proof (union_opt_wf b os j o Hwf Ho) as Hto.
        assert (novirt y) as Hny.
        { unfold ModelMut.union_value in Hy. rewrite Et in Hy. destruct (get_left src (cback cc)) as [vn|] eqn:Hgl; [|discriminate]. cbn [bind] in Hy.
          destruct (union_selector H src _ _); [|discriminate]. cbn [bind] in Hy. destruct (union_opt b os _); [inversion Hy; subst; now apply (nv_get_left (cback cc))|].
          destruct (bytes_eqb _ _); discriminate. }
        destruct (normalise_child H src o x) as [nd|] eqn:Hnd; [|discriminate].
        destruct (normalise_psim o x y nd Hto Hxy Hny Hnd) as (nd' & -> & Hnn & Hnv).
        inversion Hop; subst. eexists; split; [reflexivity|]. apply psrel_app; [exact Hs|]. repeat split; auto.
      * pose proof (summ_union_value H src _ _ _ _ Hk Hv) as Hy. cbn in Hy. rewrite Hy. inversion Hop; subst. eauto.
    + (* copy *)
      destruct (nth_error sp v) as [cp|] eqn:Ecp; [|discriminate].
      destruct (psrel_nth sp sc v cp Hs Ecp) as (cc & -> & Ht & Hh & Hk & Hnc & Hwf). inversion Hop; subst.
      eexists; split; [reflexivity|]. apply psrel_app; [exact Hs|]. repeat split; auto.
Qed.

(* whole histories of successful commands *)
Theorem run_hist_psim : forall cs sp sc sp', psrel sp sc ->
  fold_left (fun (acc : option store) c => match acc with Some s => match run_cmd s c with (Ok _, s') => Some s' | _ => None end | None => None end) cs (Some sp) = Some sp' ->
  exists sc', fold_left (fun (acc : option store) c => match acc with Some s => match run_cmd s c with (Ok _, s') => Some s' | _ => None end | None => None end) cs (Some sc) = Some sc' /\ psrel sp' sc'.
Proof.
  induction cs as [|c cs IH]; intros sp sc sp' Hs Hop; cbn [fold_left] in *.
  - inversion Hop; subst. eauto.
  - destruct (run_cmd sp c) as [[[]|e] sp1] eqn:Hr.
    + destruct (run_cmd_psim sp sc c sp1 Hs Hr) as (sc1 & -> & Hs1). now apply (IH sp1 sc1 sp').
    + exfalso. clear -Hop. induction cs as [|c' cs IH]; cbn [fold_left] in Hop; [discriminate|exact (IH Hop)].
Qed.

(* what related stores mean for the observer: every held view has the complete tree's type and root, and whenever
   its encoding can be computed on the partial tree it is the complete tree's encoding *)
Theorem psrel_observed sp sc : psrel sp sc -> forall u cp, nth_error sp u = Some cp ->
  exists cc, nth_error sc u = Some cc /\ cty cp = cty cc /\ root (cback cp) = root (cback cc) /\
             (forall r, ser_impl H src (cty cp) (cback cp) = Ok r -> ser_impl H src (cty cc) (cback cc) = Ok r).
Proof.
  intros Hs u cp Hu. destruct (psrel_nth sp sc u cp Hs Hu) as (cc & Hcc & Ht & _ & Hk & _ & _).
  exists cc. split; [exact Hcc|]. split; [exact Ht|]. split; [now apply (summ_root H)|]. rewrite Ht. intros r Hr.
  destruct (psim_ok eq _ _ r (summ_ser (cty cc) _ _ Hk) Hr) as (r' & Hr' & <-). exact Hr'.
Qed.

(* where it starts: a view over a backing in which some subtrees were replaced by summaries *)
Theorem psrel_start t n m : summ n m -> novirt m -> wf_ty t = true ->
  psrel [{| cty := t; cback := n; chook := HNone |}] [{| cty := t; cback := m; chook := HNone |}].
Proof. intros Hs Hn Hw. constructor; [|constructor]. repeat split; auto. Qed.
End WithHash.
