(* IterProofs.v — the stack-based NodeIter (readonly_iters.py:198-259) yields exactly the bottom
   nodes that indexing (getter at to_gindex i depth) yields, in order (C15). *)
Require Import RM.Base RM.Gindex RM.Tree RM.TreeProofs RM.Types RM.ModelViews RM.ModelCodec RM.ModelIters RM.PathProofs RM.CRepProofs.
From Coq Require Import ZifyBool ZifyNat ZifyN.
Local Open Scope N_scope.

(* ---- binary increment on d-bit big-endian expansions ---- *)
Lemma lxor_double_succ a b : N.lxor (N.double a) (N.succ_double b) = N.succ_double (N.lxor a b).
Proof. destruct a as [|p], b as [|q]; cbn; try reflexivity. Qed.

Lemma size_nat_succ_double x : N.size_nat (N.succ_double x) = S (N.size_nat x).
Proof. destruct x; reflexivity. Qed.

Lemma repeat_snoc {A} (x : A) n : repeat x n ++ [x] = repeat x (S n).
Proof. induction n as [|n IH]; [reflexivity|]. cbn. now rewrite IH. Qed.

Lemma incr_bits : forall d i, 1 <= i -> i < 2 ^ N.of_nat d ->
  exists P t, be_bits d (i - 1) = P ++ false :: repeat true t /\
              be_bits d i = P ++ true :: repeat false t /\
              (length P + 1 + t = d)%nat /\
              N.size_nat (N.lxor i (i - 1)) = S t.
Proof.
  induction d as [|d IH]; intros i H1 Hi.
  - cbn in Hi. lia.
  - rewrite !be_bits_snoc. rewrite Nat2N.inj_succ, N.pow_succ_r' in Hi.
    destruct (N.odd i) eqn:Eo.
    + (* i odd: only the last bit changes *)
      assert (i = N.succ_double (i / 2)) as Ei.
      { rewrite N.succ_double_spec. pose proof (N.div_mod i 2 ltac:(lia)) as Hdm.
        rewrite <- N.bit0_mod, N.bit0_odd, Eo in Hdm. cbn [N.b2n] in Hdm. lia. }
      assert (i - 1 = N.double (i / 2)) as Ei1 by (rewrite N.double_spec; rewrite Ei at 1; rewrite N.succ_double_spec; lia).
      exists (be_bits d (i / 2)), 0%nat. rewrite be_bits_length. repeat split.
      * assert ((i - 1) / 2 = i / 2) as -> by (rewrite Ei1, N.double_spec; rewrite N.mul_comm, N.div_mul; lia).
        assert (N.odd (i - 1) = false) as -> by (rewrite Ei1, N.double_spec, N.odd_mul; reflexivity). reflexivity.
      * lia.
      * rewrite Ei1. rewrite Ei at 1. rewrite N.lxor_comm, lxor_double_succ, N.lxor_nilpotent. reflexivity.
    + (* i even, i >= 2: carry *)
      assert (i = N.double (i / 2)) as Ei.
      { rewrite N.double_spec. pose proof (N.div_mod i 2 ltac:(lia)) as Hdm.
        rewrite <- N.bit0_mod, N.bit0_odd, Eo in Hdm. cbn [N.b2n] in Hdm. lia. }
      assert (1 <= i / 2) as Hh by (rewrite N.double_spec in Ei; lia).
      assert (i - 1 = N.succ_double (i / 2 - 1)) as Ei1 by (rewrite N.succ_double_spec; rewrite Ei at 1; rewrite N.double_spec; lia).
      destruct (IH (i / 2) Hh ltac:(lia)) as (P & t & Hb1 & Hb2 & Hl & Hs).
      exists P, (S t). repeat split.
      * assert ((i - 1) / 2 = i / 2 - 1) as ->.
        { rewrite Ei1, N.succ_double_spec. symmetry. apply N.div_unique with (r := 1); lia. }
        assert (N.odd (i - 1) = true) as -> by (rewrite Ei1, N.succ_double_spec, N.add_comm, N.odd_add_mul_2; reflexivity).
        rewrite Hb1. rewrite <- app_assoc. cbn [app]. now rewrite repeat_snoc.
      * rewrite Hb2. rewrite <- app_assoc. cbn [app]. now rewrite repeat_snoc.
      * lia.
      * rewrite Ei1. rewrite Ei at 1. rewrite lxor_double_succ, size_nat_succ_double. now rewrite Hs.
Qed.

Section WithHash.
Variable src : bytes -> option (bytes * bytes).
Notation getter := (getter src).
Notation descend := (descend src).
Notation advance := (advance src).

Lemma getter_app n : forall p q x, getter n (p ++ q) = Ok x -> exists y, getter n p = Ok y /\ getter y q = Ok x.
Proof.
  intros p; revert n; induction p as [|b p IH]; intros n q x Hg; cbn [app] in Hg.
  - exists n. split; [reflexivity|exact Hg].
  - cbn [Tree.getter] in *. destruct (children src n) as [[l r]|]; [|discriminate]. now apply IH.
Qed.
Lemma getter_app_ok n p q y x : getter n p = Ok y -> getter y q = Ok x -> getter n (p ++ q) = Ok x.
Proof.
  revert n; induction p as [|b p IH]; intros n Hp Hq; cbn in *.
  - inversion Hp; subst. exact Hq.
  - destruct (children src n) as [[l r]|]; [|discriminate]. now apply IH.
Qed.

Lemma set_nth_length {A} k (x : A) l : length (set_nth k x l) = length l.
Proof. revert k; induction l as [|a l IH]; intros [|k]; cbn; auto. Qed.
Lemma nth_set_nth_same {A} k (x d : A) l : (k < length l)%nat -> nth k (set_nth k x l) d = x.
Proof. revert k; induction l as [|a l IH]; intros [|k] Hk; cbn in *; try lia; auto. apply IH. lia. Qed.
Lemma nth_set_nth_other {A} k j (x d : A) l : j <> k -> nth j (set_nth k x l) d = nth j l d.
Proof. revert k j; induction l as [|a l IH]; intros [|k] [|j] Hne; cbn; auto; try congruence. Qed.

(* descending left k times from nd (at level x): the node reached, and the levels recorded *)
Lemma descend_spec : forall k x nd stack leaf, (x + k <= length stack)%nat ->
  getter nd (repeat false k) = Ok leaf ->
  exists stack', descend k x nd stack = Ok (leaf, stack') /\ length stack' = length stack /\
    (forall j, (j < x \/ x + k <= j)%nat -> nth j stack' dummy = nth j stack dummy) /\
    (forall j y, (j < k)%nat -> getter nd (repeat false j) = Ok y -> nth (x + j) stack' dummy = y).
Proof.
  induction k as [|k IH]; intros x nd stack leaf Hlen Hg.
  - cbn in Hg. inversion Hg; subst. exists stack. repeat split; auto. intros j y Hj. lia.
  - cbn [repeat Tree.getter] in Hg. cbn [ModelIters.descend]. unfold get_left.
    destruct (children src nd) as [[l r]|] eqn:Ec; [|discriminate]. cbn [bind].
    destruct (IH (S x) l (set_nth x nd stack) leaf ltac:(rewrite set_nth_length; lia) Hg) as (st & Hd & Hl & Hout & Hin).
    exists st. rewrite set_nth_length in Hl. split; [exact Hd|]. split; [exact Hl|]. split.
    + intros j Hj. rewrite Hout by lia. apply nth_set_nth_other. lia.
    + intros j y Hj Hgy. destruct j as [|j].
      * cbn in Hgy. inversion Hgy; subst. rewrite Nat.add_0_r. rewrite Hout by lia. apply nth_set_nth_same. lia.
      * cbn [repeat Tree.getter] in Hgy. rewrite Ec in Hgy.
        replace (x + S j)%nat with (S x + j)%nat by lia. apply Hin; [lia|exact Hgy].
Qed.

(* the invariant: stack level x holds the ancestor at level x of the leaf last produced *)
Definition stack_inv (anchor : node) (d : nat) (last : N) (stack : list node) : Prop :=
  length stack = d /\
  forall x y, (x < d)%nat -> getter anchor (firstn x (be_bits d last)) = Ok y -> nth x stack dummy = y.

Lemma firstn_repeat {A} (a : A) j k : (j <= k)%nat -> firstn j (repeat a k) = repeat a j.
Proof. revert k; induction j as [|j IH]; intros [|k] Hk; cbn; try lia; auto. f_equal. apply IH. lia. Qed.

(* one step of the iterator reaches leaf idx and re-establishes the invariant *)
Lemma advance_step anchor d idx stack leaf : idx < 2 ^ N.of_nat d ->
  getter anchor (be_bits d idx) = Ok leaf ->
  (idx = 0 -> length stack = d) -> (1 <= idx -> stack_inv anchor d (idx - 1) stack) ->
  exists stack', advance anchor d idx stack = Ok (leaf, stack') /\ stack_inv anchor d idx stack'.
Proof.
  intros Hi Hg H0 Hinv. unfold ModelIters.advance. destruct (idx =? 0) eqn:E0.
  - apply N.eqb_eq in E0. subst idx. specialize (H0 eq_refl). rewrite be_bits_zero in Hg.
    destruct (descend_spec d 0 anchor stack leaf ltac:(lia) Hg) as (st & Hd & Hl & Hout & Hin).
    exists st. split; [exact Hd|]. split; [lia|]. intros x y Hx Hgy.
    rewrite be_bits_zero, firstn_repeat in Hgy by lia. apply (Hin x y Hx Hgy).
  - apply N.eqb_neq in E0. assert (1 <= idx) as H1 by lia. destruct (Hinv H1) as [Hlen Hst].
    destruct (incr_bits d idx H1 Hi) as (P & t & Hb1 & Hb2 & Hl & Hs).
    unfold stack_index. rewrite Hs.
    assert (d - S t = length P)%nat as Esi by lia. rewrite Esi.
    rewrite Hb2 in Hg. apply getter_app in Hg as (anc & Hanc & Hrest).
    (* stack[|P|] is the ancestor at level |P| of the previous leaf = getter anchor P *)
    assert (nth (length P) stack dummy = anc) as Hs0.
    { apply Hst; [lia|]. rewrite Hb1. rewrite firstn_app, Nat.sub_diag, firstn_all. cbn. now rewrite app_nil_r. }
    rewrite Hs0. cbn [Tree.getter] in Hrest. unfold get_right.
    destruct (children src anc) as [[l r]|] eqn:Ec; [|discriminate]. cbn [bind].
    replace (d - S (length P))%nat with t by lia.
    destruct (descend_spec t (S (length P)) r stack leaf ltac:(lia) Hrest) as (st & Hd & Hl' & Hout & Hin).
    exists st. split; [exact Hd|]. split; [lia|]. intros x y Hx Hgy. rewrite Hb2 in Hgy.
    destruct (Nat.le_gt_cases x (length P)) as [Hle|Hgt].
    + (* levels up to |P|: unchanged, and the same ancestors as for the previous leaf *)
      rewrite Hout by lia. apply Hst; [lia|]. rewrite Hb1.
      rewrite firstn_app in *. replace (x - length P)%nat with 0%nat in * by lia. cbn [firstn] in *. exact Hgy.
    + (* levels below: recorded by descend *)
      rewrite firstn_app in Hgy. rewrite firstn_all2 in Hgy by lia.
      replace (x - length P)%nat with (S (x - S (length P))) in Hgy by lia. cbn [firstn] in Hgy.
      rewrite firstn_repeat in Hgy by lia.
      apply getter_app in Hgy as (anc' & Hanc' & Hy). rewrite Hanc in Hanc'. inversion Hanc'; subst anc'.
      cbn [Tree.getter] in Hy. rewrite Ec in Hy.
      replace x with (S (length P) + (x - S (length P)))%nat by lia. apply Hin; [lia|exact Hy].
Qed.

(* indexing positions i, i+1, ..., i+k-1 one after the other *)
Fixpoint reads (anchor : node) (d : nat) (i : N) (k : nat) : result (list node) :=
  match k with
  | O => Ok []
  | S k' => do x <- getter anchor (be_bits d i); do r <- reads anchor d (i + 1) k'; Ok (x :: r)
  end.

Lemma reads_iota anchor d : forall k i,
  reads anchor d i k = seq_res (map (fun j => getter anchor (be_bits d j)) (map (fun j => i + N.of_nat j) (seq 0 k))).
Proof.
  induction k as [|k IH]; intros i; [reflexivity|].
  cbn [reads seq map seq_res]. rewrite N.add_0_r. rewrite IH. rewrite <- seq_shift, map_map.
  destruct (getter anchor (be_bits d i)); [|reflexivity]. cbn [bind].
  rewrite !map_map. f_equal. f_equal. apply map_ext. intros j. f_equal. f_equal. lia.
Qed.

(* the iterator loop from position i with a good stack yields the leaves i, i+1, ... *)
Lemma node_iter_loop_spec anchor d : forall k i stack leaves,
  N.of_nat k + i <= 2 ^ N.of_nat d ->
  reads anchor d i k = Ok leaves ->
  (i = 0 -> length stack = d) -> (1 <= i -> stack_inv anchor d (i - 1) stack) ->
  node_iter_loop src k anchor d i stack = Ok leaves.
Proof.
  induction k as [|k IH]; intros i stack leaves Hb Hl H0 Hinv; cbn [reads] in Hl.
  - inversion Hl. reflexivity.
  - destruct (getter anchor (be_bits d i)) as [leaf|] eqn:Hg; [|discriminate]. cbn [bind] in Hl.
    destruct (reads anchor d (i + 1) k) as [rest|] eqn:Hr; [|discriminate].
    cbn [bind] in Hl. inversion Hl; subst leaves. clear Hl.
    cbn [node_iter_loop]. destruct (advance_step anchor d i stack leaf ltac:(lia) Hg H0 Hinv) as (st & Ha & Hi').
    rewrite Ha. cbn [bind fst snd].
    rewrite (IH (i + 1) st rest); [reflexivity|lia|exact Hr|intros; lia|].
    intros _. replace (i + 1 - 1) with i by lia. exact Hi'.
Qed.

(* NodeIter agrees with indexing: whenever every position i < k can be read by getter at the path
   of to_gindex i d, the iterator returns exactly those nodes, in order *)
Theorem node_iter_agrees anchor d (k : N) leaves : k <= 2 ^ N.of_nat d ->
  seq_res (map (fun j => getter anchor (be_bits d j)) (iotaN (N.to_nat k))) = Ok leaves ->
  node_iter src anchor d k = Ok leaves.
Proof.
  intros Hk Hl. unfold node_iter. rewrite N.shiftl_1_l.
  destruct (2 ^ N.of_nat d <? k) eqn:E; [apply N.ltb_lt in E; lia|].
  apply node_iter_loop_spec.
  - lia.
  - rewrite reads_iota. unfold iotaN in Hl. rewrite <- Hl. reflexivity.
  - intros _. apply repeat_length.
  - intros; lia.
Qed.

End WithHash.

Section PackedAndBits.
Variable H : bytes -> bytes -> bytes.
Variable src : bytes -> option (bytes * bytes).
Notation getter := (getter src).
Notation advance := (advance src).
Notation stack_inv := (stack_inv src).
Notation advance_step := (advance_step src).

(* PackedIter: what indexing reads at positions p, p+1, ... *)
Fixpoint preads (anchor : node) (d : nat) (e : ty) (per : N) (p : N) (k : nat) : result (list bytes) :=
  match k with
  | O => Ok []
  | S k' =>
      do c <- getter anchor (be_bits d (p / per));
      if negb (is_leaf src c) then Err EOther
      else do b <- packed_elem_bytes H e c (p mod per);
           do rest <- preads anchor d e per (p + 1) k';
           Ok (b :: rest)
  end.

Lemma packed_iter_loop_spec anchor d e per : 1 <= per -> forall k p j r cur stack bs,
  j <= per -> r * per + j = p + per -> N.of_nat k + p <= 2 ^ N.of_nat d * per ->
  preads anchor d e per p k = Ok bs ->
  (j < per -> getter anchor (be_bits d (r - 1)) = Ok cur) ->
  (r = 0 -> length stack = d) -> (1 <= r -> stack_inv anchor d (r - 1) stack) ->
  packed_iter_loop H src k anchor d e per j r cur stack = Ok bs.
Proof.
  intros Hper. induction k as [|k IH]; intros p j r cur stack bs Hj Hpos Hb Hr Hcur H0 Hinv; cbn [preads] in Hr.
  - inversion Hr. reflexivity.
  - destruct (getter anchor (be_bits d (p / per))) as [c|] eqn:Hg; [|discriminate]. cbn [bind] in Hr.
    destruct (negb (is_leaf src c)) eqn:Hleaf; [discriminate|].
    destruct (packed_elem_bytes H e c (p mod per)) as [b|] eqn:Hb0; [|discriminate]. cbn [bind] in Hr.
    destruct (preads anchor d e per (p + 1) k) as [rest|] eqn:Hrest; [|discriminate]. cbn [bind] in Hr. inversion Hr; subst bs. clear Hr.
    cbn [packed_iter_loop]. destruct (j <? per) eqn:Ejp.
    + apply N.ltb_lt in Ejp.
      assert (p / per = r - 1 /\ p mod per = j) as [Ediv Emod].
      { assert (1 <= r) as Hr1 by (destruct (N.eq_dec r 0) as [->|]; lia).
        assert (r = (r - 1) + 1) as Er by lia. assert (p = (r - 1) * per + j) as Ep by (rewrite Er in Hpos; nia). split; [symmetry; apply (N.div_unique p per (r - 1) j); lia|symmetry; apply (N.mod_unique p per (r - 1) j); lia]. }
      rewrite Ediv in Hg. rewrite (Hcur Ejp) in Hg. inversion Hg; subst c. rewrite Emod in Hb0. rewrite Hb0. cbn [bind].
      rewrite (IH (p + 1) (j + 1) r cur stack rest); [reflexivity|lia|lia|lia|exact Hrest|intros _; apply Hcur; lia|exact H0|exact Hinv].
    + apply N.ltb_ge in Ejp. assert (j = per) as -> by lia.
      assert (p / per = r /\ p mod per = 0) as [Ediv Emod].
      { assert (p = r * per + 0) as Ep by lia. split; [symmetry; apply (N.div_unique p per r 0); lia|symmetry; apply (N.mod_unique p per r 0); lia]. }
      rewrite Ediv in Hg. rewrite Emod in Hb0.
      assert (r < 2 ^ N.of_nat d) as Hrd by nia.
      destruct (advance_step anchor d r stack c Hrd Hg H0 Hinv) as (st & Ha & Hi').
      rewrite Ha. cbn [bind fst snd]. rewrite Hleaf, Hb0. cbn [bind].
      rewrite (IH (p + 1) 1 (r + 1) c st rest); [reflexivity|lia|lia|lia|exact Hrest| | |].
      * intros _. replace (r + 1 - 1) with r by lia. exact Hg.
      * intros; lia.
      * intros _. replace (r + 1 - 1) with r by lia. exact Hi'.
Qed.

Theorem packed_iter_agrees anchor d (k : N) e size bs : 1 <= 32 / size -> k <= 2 ^ N.of_nat d * (32 / size) ->
  preads anchor d e (32 / size) 0 (N.to_nat k) = Ok bs ->
  packed_iter H src anchor d k e size = Ok bs.
Proof.
  intros Hper Hk Hr. unfold packed_iter. rewrite N.shiftl_1_l.
  destruct (2 ^ N.of_nat d * (32 / size) <? k) eqn:E; [apply N.ltb_lt in E; lia|].
  apply (packed_iter_loop_spec anchor d e (32 / size) Hper (N.to_nat k) 0); try lia; try exact Hr.
  intros _. apply repeat_length.
Qed.
(* BitfieldIter: what indexing reads at bit positions p, p+1, ... *)
Fixpoint breads (anchor : node) (d : nat) (p : N) (k : nat) : result (list bool) :=
  match k with
  | O => Ok []
  | S k' =>
      do c <- getter anchor (be_bits d (p / 256));
      if negb (is_leaf src c) then Err EOther
      else do rest <- breads anchor d (p + 1) k';
           Ok (bit_of (root H c) (p mod 256) :: rest)
  end.

Lemma bit_iter_loop_spec anchor d : forall k p j r cur stack bs,
  j < 256 -> p + (if j =? 0 then 0 else 256) = r * 256 + j -> N.of_nat k + p <= 2 ^ N.of_nat d * 256 ->
  breads anchor d p k = Ok bs ->
  (0 < j -> exists c, getter anchor (be_bits d (r - 1)) = Ok c /\ cur = root H c) ->
  (r = 0 -> length stack = d) -> (1 <= r -> stack_inv anchor d (r - 1) stack) ->
  bit_iter_loop H src k anchor d j r cur stack = Ok bs.
Proof.
  induction k as [|k IH]; intros p j r cur stack bs Hj Hpos Hb Hr Hcur H0 Hinv; cbn [breads] in Hr.
  - inversion Hr. reflexivity.
  - destruct (getter anchor (be_bits d (p / 256))) as [c|] eqn:Hg; [|discriminate]. cbn [bind] in Hr.
    destruct (negb (is_leaf src c)) eqn:Hleaf; [discriminate|].
    destruct (breads anchor d (p + 1) k) as [rest|] eqn:Hrest; [|discriminate]. cbn [bind] in Hr. inversion Hr; subst bs. clear Hr.
    cbn [bit_iter_loop]. destruct (0 <? j) eqn:Ej.
    + apply N.ltb_lt in Ej. assert ((j =? 0) = false) as Ej0 by (apply N.eqb_neq; lia). rewrite Ej0 in Hpos.
      assert (1 <= r) as Hr1 by (destruct (N.eq_dec r 0) as [->|]; lia).
      assert (p = (r - 1) * 256 + j) as Ep by lia.
      assert (p / 256 = r - 1 /\ p mod 256 = j) as [Ediv Emod].
      { split; [symmetry; apply (N.div_unique p 256 (r - 1) j); lia|symmetry; apply (N.mod_unique p 256 (r - 1) j); lia]. }
      destruct (Hcur Ej) as (c0 & Hc0 & ->). rewrite Ediv in Hg. rewrite Hc0 in Hg. inversion Hg; subst c0. rewrite Emod.
      destruct (255 <? j + 1) eqn:E255.
      * apply N.ltb_lt in E255. assert (j = 255) as -> by lia.
        rewrite (IH (p + 1) 0 r (root H c) stack rest); [reflexivity|lia|cbn [N.eqb]; lia|lia|exact Hrest|lia|exact H0|exact Hinv].
      * apply N.ltb_ge in E255.
        rewrite (IH (p + 1) (j + 1) r (root H c) stack rest); [reflexivity|lia| |lia|exact Hrest| |exact H0|exact Hinv].
        -- assert ((j + 1 =? 0) = false) as -> by (apply N.eqb_neq; lia). lia.
        -- intros _. exists c. auto.
    + apply N.ltb_ge in Ej. assert (j = 0) as -> by lia. cbn [N.eqb] in Hpos.
      assert (p / 256 = r /\ p mod 256 = 0) as [Ediv Emod].
      { split; [symmetry; apply (N.div_unique p 256 r 0); lia|symmetry; apply (N.mod_unique p 256 r 0); lia]. }
      rewrite Ediv in Hg. rewrite Emod.
      assert (r < 2 ^ N.of_nat d) as Hrd by nia.
      destruct (advance_step anchor d r stack c Hrd Hg H0 Hinv) as (st & Ha & Hi').
      rewrite Ha. cbn [bind fst snd]. rewrite Hleaf.
      rewrite (IH (p + 1) 1 (r + 1) (root H c) st rest); [reflexivity|lia|cbn [N.eqb]; lia|lia|exact Hrest| | |].
      * intros _. exists c. replace (r + 1 - 1) with r by lia. auto.
      * intros; lia.
      * intros _. replace (r + 1 - 1) with r by lia. exact Hi'.
Qed.

Theorem bit_iter_agrees anchor d (k : N) bs : k <= 2 ^ N.of_nat d * 256 ->
  breads anchor d 0 (N.to_nat k) = Ok bs -> bit_iter H src anchor d k = Ok bs.
Proof.
  intros Hk Hr. unfold bit_iter. rewrite N.shiftl_1_l, N.shiftl_mul_pow2. change (2 ^ 8) with 256.
  destruct (2 ^ N.of_nat d * 256 <? k) eqn:E; [apply N.ltb_lt in E; lia|].
  apply (bit_iter_loop_spec anchor d (N.to_nat k) 0); try lia; try exact Hr.
  - reflexivity.
  - intros _. apply repeat_length.
Qed.

End PackedAndBits.
