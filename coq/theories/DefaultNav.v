(* DefaultNav.v — C12: the data chunks of the default backing of fixed-structure chunked kinds are navigable. *)
Require Import RM.Base RM.Gindex RM.Tree RM.TreeProofs RM.Types RM.Spec RM.ModelViews RM.ModelCodec
               RM.SerLen RM.FactsProofs RM.MerkleProofs RM.PackProofs RM.CtorProofs RM.PathProofs RM.CRepProofs
               RM.DefaultProofs RM.SerProofs2 RM.ChunkProofs RM.DefaultEq RM.ReprProofs.
From Coq Require Import ZifyBool ZifyNat ZifyN.
Local Open Scope N_scope.
Section WithHash.
Variable H : bytes -> bytes -> bytes.
Variable src : bytes -> option (bytes * bytes).
(* chunked kinds with fixed structure: every data chunk of the default backing is navigable and is the
   corresponding chunk of the zero value's data (all zero bytes) *)
Definition chunked_fixed (t : ty) : bool :=
  match t with
  | TBitvector _ | TByteVector _ => true
  | TVector e _ => match basic_size e with Some _ => true | None => false end
  | _ => false
  end.

Theorem default_chunks_navigable t n : wf_ty t = true -> chunked_fixed t = true -> default_node H t = Ok n ->
  forall i, i < lenN (chunks (chunk_data t (zero_val t))) ->
  getter_i src n i (contents_depth t) = Ok (RootN (nth (N.to_nat i) (chunks (chunk_data t (zero_val t))) zero32)).
Proof.
  intros Hty Hk Hd i Hi. rewrite (default_eq_mk H t Hty) in Hd.
  pose proof (mk_Repr H src t (zero_val t) n Hty (wf_zero t Hty) Hd) as Hr.
  assert (CRep H (contents_depth t) n (map RootN (chunks (chunk_data t (zero_val t))))) as Hc.
  { destruct t; try discriminate; cbn [zero_val ReprProofs.Repr] in Hr |- *; try exact Hr.
    cbn [chunked_fixed] in Hk. destruct (basic_size t) eqn:Eb; [exact Hr|discriminate]. }
  rewrite (getter_i_crep H src _ _ _ i (RootN zero32) Hc) by (unfold lenN in *; rewrite map_length; exact Hi).
  f_equal. rewrite <- (map_nth RootN). reflexivity.
Qed.
End WithHash.
