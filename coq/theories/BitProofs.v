(* BitProofs.v — the delimiter bit of a bitlist at the byte level:
   bits_to_bytes (bs ++ [true]) in terms of bits_to_bytes bs (used by the bitfield case of C02). *)
Require Import RM.Base RM.Types RM.Spec RM.ModelViews RM.ModelCodec RM.SerLen RM.PackProofs.
From Coq Require Import ZifyBool ZifyNat ZifyN.
Local Open Scope nat_scope.

(* ---- grouping ---- *)
Lemma group_fuel_indep {A} (k : nat) : 0 < k -> forall f1 f2 (l : list A),
  length l <= f1 -> length l <= f2 -> group_fuel f1 k l = group_fuel f2 k l.
Proof.
  intros Hk. induction f1 as [|f1 IH]; intros f2 l H1 H2.
  - destruct l; [|cbn in H1; lia]. now rewrite !group_fuel_nil.
  - destruct l as [|x l]; [now rewrite !group_fuel_nil|]. destruct f2 as [|f2]; [cbn in H2; lia|].
    cbn [group_fuel]. f_equal. apply IH; rewrite skipn_length; cbn [length] in *; lia.
Qed.

Lemma group_unfold {A} (k : nat) (l : list A) : 0 < k -> l <> [] ->
  group k l = firstn k l :: group k (skipn k l).
Proof.
  intros Hk Hne. unfold group. destruct l as [|x l]; [congruence|]. cbn [length group_fuel]. f_equal.
  apply group_fuel_indep; [exact Hk| |lia]. rewrite skipn_length. cbn [length]. lia.
Qed.

Lemma group_small {A} (k : nat) (l : list A) : 0 < length l <= k -> group k l = [l].
Proof.
  intros Hl. assert (l <> []) as Hne by (intros ->; cbn in Hl; lia). rewrite group_unfold by (lia || exact Hne).
  rewrite firstn_all2, skipn_all2 by lia. reflexivity.
Qed.

Lemma group_app_full {A} (k : nat) : 0 < k -> forall q (a y : list A), length a = q * k ->
  group k (a ++ y) = group k a ++ group k y.
Proof.
  intros Hk. induction q as [|q IH]; intros a y Hl.
  - destruct a; [reflexivity|cbn in Hl; lia].
  - assert (a <> []) as Hne by (intros ->; cbn in Hl; lia).
    assert (a ++ y <> []) as Hne2 by (destruct a; [congruence|discriminate]).
    rewrite (group_unfold k (a ++ y) Hk Hne2).
    rewrite (group_unfold k a Hk Hne). cbn [app]. f_equal.
    + rewrite firstn_app. replace (k - length a) with 0 by lia. cbn [firstn]. now rewrite app_nil_r.
    + rewrite skipn_app. replace (k - length a) with 0 by lia. cbn [skipn].
      apply IH. rewrite skipn_length. lia.
Qed.

(* ---- one more bit in the last byte ---- *)
Lemma bits_byte_snoc (t : list bool) : length t < 8 ->
  bits_byte (t ++ [true]) = xor_bit (bits_byte t) (N.of_nat (length t)).
Proof.
  intros Hl.
  destruct t as [|[|] t]; [reflexivity| |];
  (destruct t as [|[|] t]; [reflexivity| |]);
  (destruct t as [|[|] t]; [reflexivity| |]);
  (destruct t as [|[|] t]; [reflexivity| |]);
  (destruct t as [|[|] t]; [reflexivity| |]);
  (destruct t as [|[|] t]; [reflexivity| |]);
  (destruct t as [|[|] t]; [reflexivity| |]);
  (destruct t as [|[|] t]; [reflexivity| |]);
  exfalso; cbn [length] in Hl; lia.
Qed.

(* bits_to_bytes of the bits with the delimiter, from bits_to_bytes of the bits *)
Theorem delimiter_bytes (bs : list bool) :
  (length bs mod 8 = 0 -> bits_to_bytes (bs ++ [true]) = bits_to_bytes bs ++ [x01]) /\
  (length bs mod 8 <> 0 -> forall p lb, bits_to_bytes bs = p ++ [lb] ->
     bits_to_bytes (bs ++ [true]) = p ++ [xor_bit lb (N.of_nat (length bs mod 8))]).
Proof.
  set (q := length bs / 8). set (a := firstn (q * 8) bs). set (t := skipn (q * 8) bs).
  pose proof (Nat.div_mod (length bs) 8 ltac:(lia)) as Hdm. pose proof (Nat.mod_upper_bound (length bs) 8 ltac:(lia)) as Hm.
  assert (length a = q * 8) as Ha by (unfold a; rewrite firstn_length; unfold q; lia).
  assert (length t = length bs mod 8) as Ht by (unfold t; rewrite skipn_length; unfold q; lia).
  assert (bs = a ++ t) as Ebs by (unfold a, t; now rewrite firstn_skipn).
  set (r := length bs mod 8) in *. clearbody a t r q. clear Hdm. subst bs.
  rewrite !bits_group. rewrite <- app_assoc.
  rewrite !(group_app_full 8 ltac:(lia) q a _ Ha), !map_app.
  rewrite (group_small 8 (t ++ [true])) by (rewrite app_length; cbn [length]; lia).
  split.
  - intros Hr. assert (t = []) as -> by (destruct t; [reflexivity|cbn in Ht; lia]).
    cbn [app map]. rewrite app_nil_r. reflexivity.
  - intros Hr p lb Hp. rewrite (group_small 8 t) in Hp by lia. cbn [map] in Hp.
    apply app_inj_tail in Hp as [<- <-]. cbn [map]. rewrite bits_byte_snoc by lia. now rewrite Ht.
Qed.

(* ---- facts used by the decoders ---- *)
Definition bits_cases (P : list bool -> Prop) (k : nat) : Prop := forall t, length t < k -> P t.

Lemma bits_byte_size (t : list bool) : length t <= 8 ->
  (bit_length_byte (bits_byte t) <= N.of_nat (length t))%N.
Proof.
  intros Hl. unfold bit_length_byte.
  destruct t as [|[|] t]; [vm_compute; discriminate| |];
  (destruct t as [|[|] t]; [vm_compute; discriminate| |]);
  (destruct t as [|[|] t]; [vm_compute; discriminate| |]);
  (destruct t as [|[|] t]; [vm_compute; discriminate| |]);
  (destruct t as [|[|] t]; [vm_compute; discriminate| |]);
  (destruct t as [|[|] t]; [vm_compute; discriminate| |]);
  (destruct t as [|[|] t]; [vm_compute; discriminate| |]);
  (destruct t as [|[|] t]; [vm_compute; discriminate| |]);
  (destruct t as [|[|] t]; [vm_compute; discriminate| |]);
  exfalso; cbn [length] in Hl; lia.
Qed.

Lemma bits_byte_delim (t : list bool) : length t < 8 ->
  byte_eqb (bits_byte (t ++ [true])) x00 = false /\
  (bit_length_byte (bits_byte (t ++ [true])) - 1)%N = N.of_nat (length t) /\
  xor_bit (bits_byte (t ++ [true])) (N.of_nat (length t)) = bits_byte t.
Proof.
  intros Hl.
  destruct t as [|[|] t]; [vm_compute; auto| |];
  (destruct t as [|[|] t]; [vm_compute; auto| |]);
  (destruct t as [|[|] t]; [vm_compute; auto| |]);
  (destruct t as [|[|] t]; [vm_compute; auto| |]);
  (destruct t as [|[|] t]; [vm_compute; auto| |]);
  (destruct t as [|[|] t]; [vm_compute; auto| |]);
  (destruct t as [|[|] t]; [vm_compute; auto| |]);
  (destruct t as [|[|] t]; [vm_compute; auto| |]);
  exfalso; cbn [length] in Hl; lia.
Qed.

(* the bytes of a non-empty bit string: whole groups, then the last group of 1..8 bits *)
Lemma bits_last_group (bs : list bool) : 1 <= length bs ->
  exists a t, bs = a ++ t /\ 1 <= length t <= 8 /\ length a = 8 * ((length bs - 1) / 8) /\
              bits_to_bytes bs = map bits_byte (group 8 a) ++ [bits_byte t].
Proof.
  intros Hl. set (q := (length bs - 1) / 8). exists (firstn (q * 8) bs), (skipn (q * 8) bs).
  pose proof (Nat.div_mod (length bs - 1) 8 ltac:(lia)) as Hdm. pose proof (Nat.mod_upper_bound (length bs - 1) 8 ltac:(lia)) as Hm.
  assert (length (firstn (q * 8) bs) = q * 8) as Ha by (rewrite firstn_length; unfold q; lia).
  assert (1 <= length (skipn (q * 8) bs) <= 8) as Ht by (rewrite skipn_length; unfold q; lia).
  split; [now rewrite firstn_skipn|]. split; [exact Ht|]. split; [lia|].
  rewrite bits_group. rewrite <- (firstn_skipn (q * 8) bs) at 1.
  rewrite (group_app_full 8 ltac:(lia) q _ _ Ha), map_app. rewrite (group_small 8 (skipn (q * 8) bs)) by lia. reflexivity.
Qed.

(* the bytes with and without the delimiter share all whole groups *)
Lemma delimiter_split (bs : list bool) :
  exists (ba : bytes) (t : list bool), length t = length bs mod 8 /\ length ba = length bs / 8 /\
    bits_to_bytes (bs ++ [true]) = ba ++ [bits_byte (t ++ [true])] /\
    bits_to_bytes bs = ba ++ (match t with [] => [] | _ => [bits_byte t] end).
Proof.
  set (q := length bs / 8). set (a := firstn (q * 8) bs). set (t := skipn (q * 8) bs).
  pose proof (Nat.div_mod (length bs) 8 ltac:(lia)) as Hdm. pose proof (Nat.mod_upper_bound (length bs) 8 ltac:(lia)) as Hm.
  assert (length a = q * 8) as Ha by (unfold a; rewrite firstn_length; unfold q; lia).
  assert (length t = length bs mod 8) as Ht by (unfold t; rewrite skipn_length; unfold q; lia).
  assert (bs = a ++ t) as Ebs by (unfold a, t; now rewrite firstn_skipn).
  exists (map bits_byte (group 8 a)), t. split; [exact Ht|]. split.
  { rewrite map_length. unfold group. rewrite group_fuel_length by lia. rewrite Ha. unfold q.
    replace (length bs / 8 * 8 + 8 - 1) with (7 + (length bs / 8) * 8) by lia. rewrite Nat.div_add by lia. reflexivity. }
  rewrite !bits_group. rewrite Ebs at 1 2. rewrite <- app_assoc.
  rewrite !(group_app_full 8 ltac:(lia) q a _ Ha), !map_app.
  rewrite (group_small 8 (t ++ [true])) by (rewrite app_length; cbn [length]; lia).
  split; [reflexivity|]. f_equal. destruct t as [|b0 t0] eqn:Et; [reflexivity|].
  rewrite group_small by (cbn [length] in *; lia). reflexivity.
Qed.

(* ---- bytes back to bits (decoder soundness) ---- *)
Definition bits_of_byte (z : byte) : list bool := map (N.testbit (Byte.to_N z)) [0; 1; 2; 3; 4; 5; 6; 7]%N.
Definition bytes_to_bits (bs : bytes) : list bool := concat (map bits_of_byte bs).

Lemma bits_of_byte_length z : length (bits_of_byte z) = 8.
Proof. reflexivity. Qed.
Lemma bits_byte_of_byte z : bits_byte (bits_of_byte z) = z.
Proof. destruct z; reflexivity. Qed.

(* a byte whose bit length is at most r is determined by its low r bits *)
Lemma trunc_byte z r : r <= 8 -> (bit_length_byte z <= N.of_nat r)%N -> bits_byte (firstn r (bits_of_byte z)) = z.
Proof.
  intros Hr Hs.
  do 9 (destruct r as [|r]; [destruct z; first [reflexivity | exfalso; vm_compute in Hs; apply Hs; reflexivity]|]).
  lia.
Qed.

(* a non-zero byte is its bits below the top set bit, plus the top set bit *)
Lemma delim_byte z : z <> x00 ->
  bits_byte (firstn (N.to_nat (bit_length_byte z - 1)) (bits_of_byte z) ++ [true]) = z /\ (bit_length_byte z - 1 < 8)%N.
Proof. intros Hz. destruct z; first [congruence | split; vm_compute; reflexivity]. Qed.

Lemma bytes_to_bits_length bs : length (bytes_to_bits bs) = 8 * length bs.
Proof. unfold bytes_to_bits. induction bs as [|b bs IH]; [reflexivity|]. cbn [map concat length]. rewrite app_length, IH, bits_of_byte_length. lia. Qed.

Lemma group_bytes_to_bits : forall bs, group 8 (bytes_to_bits bs) = map bits_of_byte bs.
Proof.
  induction bs as [|b bs IH]; [reflexivity|]. unfold bytes_to_bits in *. cbn [map concat].
  rewrite group_unfold by (lia || (destruct b; discriminate)).
  rewrite firstn_app, skipn_app, bits_of_byte_length. rewrite firstn_all2 by (rewrite bits_of_byte_length; lia).
  rewrite skipn_all2 by (rewrite bits_of_byte_length; lia). cbn [Nat.sub firstn skipn app]. rewrite app_nil_r. now rewrite IH.
Qed.

(* whole bytes followed by a partial group *)
Lemma bits_to_bytes_concat (p : bytes) (t : list bool) : length t <= 8 ->
  bits_to_bytes (bytes_to_bits p ++ t) = p ++ (match t with [] => [] | _ => [bits_byte t] end).
Proof.
  intros Ht. rewrite bits_group.
  rewrite (group_app_full 8 ltac:(lia) (length p)) by (rewrite bytes_to_bits_length; lia).
  rewrite group_bytes_to_bits, map_app, map_map.
  assert (map (fun x => bits_byte (bits_of_byte x)) p = p) as -> by (induction p as [|z p IH]; [reflexivity|]; cbn [map]; now rewrite bits_byte_of_byte, IH).
  f_equal. destruct t as [|b t]; [reflexivity|]. rewrite group_small by (cbn [length] in *; lia). reflexivity.
Qed.
