(* ReprProofs.v — the representation relation Repr t v n (node n represents value v of type t through
   ANY contents-tree representation: zero summaries and expanded zeros in any mixture), and the three
   facts that make every such tree indistinguishable from a freshly constructed one:
   mk_Repr (the constructor's tree is one), Repr_root (its root is the spec root), Repr_ser (it
   serialises to the spec bytes).  Mutations are shown to preserve Repr in MutProofs.v. *)
Require Import RM.Base RM.Gindex RM.Tree RM.TreeProofs RM.Types RM.Spec RM.ModelViews RM.ModelCodec
               RM.SerLen RM.FactsProofs RM.MerkleProofs RM.PackProofs RM.CtorProofs RM.PathProofs RM.CRepProofs
               RM.ListProofs RM.SerProofs RM.CodecBasicProofs RM.SerProofs2 RM.BitProofs RM.ChunkProofs RM.SerAll RM.DeserProofs.
From Coq Require Import ZifyBool ZifyNat ZifyN.
Local Open Scope N_scope.
Section WithHash.
Variable H : bytes -> bytes -> bytes.
Variable src : bytes -> option (bytes * bytes).
Notation root := (root H).
Notation CRep := (CRep H).
Notation ser_impl := (ser_impl H src).
Notation mk := (mk H).
Notation ser_ok := (ser_ok H src).
(* the bytes held in the chunks of a chunked kind (bitfields without the delimiter) *)
Definition chunk_data (t : ty) (v : val) : bytes :=
  match t, v with
  | TBitvector _, VBits bs | TBitlist _, VBits bs => bits_to_bytes bs
  | TByteVector _, VBytes bs | TByteList _, VBytes bs => bs
  | TVector e _, VSeq vs | TList e _, VSeq vs => concat (map (ser e) vs)
  | _, _ => []
  end.
Definition val_len (v : val) : N :=
  match v with VBits bs => lenN bs | VBytes bs => lenN bs | VSeq vs => lenN vs | _ => 0 end.

(* node n represents value v of type t: the contents tree is ANY representation (CRep: zero
   summaries and expanded zeros in any mixture) of the element backings / data chunks *)
Fixpoint Repr (t : ty) (v : val) (n : node) {struct t} : Prop :=
  match t, v with
  | TUint _, _ | TBool, _ => mk t v = Ok n
  | TBitvector _, VBits _ | TByteVector _, VBytes _ =>
      CRep (contents_depth t) n (map RootN (chunks (chunk_data t v)))
  | TBitlist _, VBits _ | TByteList _, VBytes _ =>
      exists c, n = PairN c (len_node (val_len v)) /\ CRep (contents_depth t) c (map RootN (chunks (chunk_data t v)))
  | TVector e _, VSeq vs =>
      match basic_size e with
      | Some _ => CRep (contents_depth t) n (map RootN (chunks (chunk_data t v)))
      | None => exists ns, CRep (contents_depth t) n ns /\ Forall2 (Repr e) vs ns
      end
  | TList e _, VSeq vs =>
      exists c, n = PairN c (len_node (lenN vs)) /\
        match basic_size e with
        | Some _ => CRep (contents_depth t) c (map RootN (chunks (chunk_data t v)))
        | None => exists ns, CRep (contents_depth t) c ns /\ Forall2 (Repr e) vs ns
        end
  | TContainer fs, VCont vs =>
      exists ns, CRep (contents_depth t) n ns /\
        (fix go (fs : list ty) (vs : list val) (ns : list node) : Prop :=
           match fs, vs, ns with
           | [], [], [] => True
           | f :: fs', x :: vs', m :: ns' => Repr f x m /\ go fs' vs' ns'
           | _, _, _ => False
           end) fs vs ns
  | TUnion b os, VUnion sel ov =>
      exists c, n = PairN c (len_node (N.of_nat sel)) /\
        match ov with
        | None => root c = zero32
        | Some x =>
            (fix pick (os : list ty) (i : nat) : Prop :=
               match os, i with
               | o :: _, O => Repr o x c
               | _ :: os', S i' => pick os' i'
               | [], _ => False
               end) os (if b then pred sel else sel)
        end
  | _, _ => False
  end.
Notation getter_i_crep := (getter_i_crep H src).
Notation getter_i_crep_list := (getter_i_crep_list H src).

(* ---- chunked kinds: any representation serialises to the spec bytes ---- *)
Lemma rep_bytevector k bs n : wf_ty (TByteVector k) = true -> wf (TByteVector k) (VBytes bs) = true ->
  CRep (contents_depth (TByteVector k)) n (map RootN (chunks bs)) -> ser_ok (TByteVector k) (VBytes bs) n.
Proof.
  intros Hty Hwf Hc. cbn [wf] in Hwf. apply N.eqb_eq in Hwf.
  destruct (bytes_read H src _ n bs ((k + 31) / 32)%N Hc) as (B & HB & HfB).
  { rewrite chunks_length. unfold lenN in Hwf. lia. }
  unfold SerProofs2.ser_ok. cbn [ModelCodec.ser_impl]. rewrite HB. cbn [bind Spec.ser].
  replace (N.to_nat k) with (length bs) by (unfold lenN in Hwf; lia). rewrite HfB.
  assert ((lenN bs =? k)%N = true) as -> by now apply N.eqb_eq. reflexivity.
Qed.

Lemma rep_bytelist l bs c : wf_ty (TByteList l) = true -> wf (TByteList l) (VBytes bs) = true ->
  CRep (contents_depth (TByteList l)) c (map RootN (chunks bs)) ->
  ser_ok (TByteList l) (VBytes bs) (PairN c (len_node (lenN bs))).
Proof.
  intros Hty Hwf Hc. cbn [wf] in Hwf. cbn [wf_ty] in Hty. apply N.ltb_lt in Hty. unfold LIMIT_BOUND in Hty. apply N.leb_le in Hwf.
  assert ((l <? lenN bs)%N = false) as Hlt by (apply N.ltb_ge; exact Hwf).
  destruct (bytes_read H src _ c bs ((lenN bs + 31) / 32)%N Hc) as (B & HB & HfB).
  { rewrite chunks_length. unfold lenN. lia. }
  unfold SerProofs2.ser_ok. cbn [ModelCodec.ser_impl get_left children bind].
  rewrite (mixin_len_node H src c (lenN bs)) by lia. cbn [bind]. rewrite Hlt, HB. cbn [bind Spec.ser].
  replace (N.to_nat (lenN bs)) with (length bs) by (unfold lenN; lia). rewrite HfB. reflexivity.
Qed.

Lemma rep_packed_vector e nn vs n s : wf_ty (TVector e nn) = true -> basic_size e = Some s ->
  wf (TVector e nn) (VSeq vs) = true ->
  CRep (contents_depth (TVector e nn)) n (map RootN (chunks (concat (map (ser e) vs)))) -> ser_ok (TVector e nn) (VSeq vs) n.
Proof.
  intros Hty E Hwf Hc. cbn [wf] in Hwf. apply andb_true_iff in Hwf as [Hn Hall]. apply N.eqb_eq in Hn.
  cbn [wf_ty] in Hty. apply andb_true_iff in Hty as [Hty Hnb2]. apply andb_true_iff in Hty as [Hte Hn1].
  set (D := concat (map (ser e) vs)) in *.
  unfold SerProofs2.ser_ok. cbn [ModelCodec.ser_impl view_len bind]. rewrite E.
  assert (tree_depth (TVector e nn) = contents_depth (TVector e nn)) as -> by reflexivity.
  replace (N.to_nat nn) with (length vs) by (unfold lenN in Hn; lia).
  rewrite (packed_elems H src e s vs (fun i => getter_i src n i (contents_depth (TVector e nn))) Hte E Hall).
  2:{ intros ci Hci. fold D in Hci |- *. rewrite <- nth_map_RootN by exact Hci. rewrite <- (Nat2N.id ci) at 2.
      apply (getter_i_crep _ _ _ _ _ Hc). unfold lenN. rewrite map_length. lia. }
  cbn [bind Spec.ser]. destruct (ser_basic_seq e s vs Hte E Hall) as [-> ->]. now rewrite Hn.
Qed.

Lemma rep_packed_list e l vs c s : wf_ty (TList e l) = true -> basic_size e = Some s ->
  wf (TList e l) (VSeq vs) = true ->
  CRep (contents_depth (TList e l)) c (map RootN (chunks (concat (map (ser e) vs)))) ->
  ser_ok (TList e l) (VSeq vs) (PairN c (len_node (lenN vs))).
Proof.
  intros Hty E Hwf Hc. cbn [wf] in Hwf. apply andb_true_iff in Hwf as [Hn Hall]. apply N.leb_le in Hn.
  cbn [wf_ty] in Hty. apply andb_true_iff in Hty as [Hte Hlb]. apply N.ltb_lt in Hlb. unfold LIMIT_BOUND in Hlb.
  set (D := concat (map (ser e) vs)) in *.
  assert (lenN vs < 2 ^ 64)%N as H64 by lia.
  unfold SerProofs2.ser_ok. cbn [ModelCodec.ser_impl view_len]. rewrite (mixin_len_node H src c (lenN vs) H64). cbn [bind]. rewrite E.
  assert (tree_depth (TList e l) = S (contents_depth (TList e l))) as -> by reflexivity.
  replace (N.to_nat (lenN vs)) with (length vs) by (unfold lenN; lia).
  rewrite (packed_elems H src e s vs (fun i => getter_i src (PairN c (len_node (lenN vs))) i (S (contents_depth (TList e l)))) Hte E Hall).
  2:{ intros ci Hci. fold D in Hci |- *. rewrite <- nth_map_RootN by exact Hci. rewrite <- (Nat2N.id ci) at 2.
      apply (getter_i_crep_list _ _ _ _ _ _ Hc). unfold lenN. rewrite map_length. lia. }
  cbn [bind Spec.ser]. destruct (ser_basic_seq e s vs Hte E Hall) as [-> ->]. reflexivity.
Qed.

Lemma rep_bitvector k bs n : wf_ty (TBitvector k) = true -> wf (TBitvector k) (VBits bs) = true ->
  CRep (contents_depth (TBitvector k)) n (map RootN (chunks (bits_to_bytes bs))) -> ser_ok (TBitvector k) (VBits bs) n.
Proof.
  intros Hty Hwf Hc. cbn [wf] in Hwf. apply N.eqb_eq in Hwf. set (B := bits_to_bytes bs) in *.
  pose proof (bits_to_bytes_lenN bs) as HB. fold B in HB. unfold lenN in HB.
  unfold SerProofs2.ser_ok. cbn [ModelCodec.ser_impl]. rewrite <- Hwf.
  assert (tree_depth (TBitvector (lenN bs)) = contents_depth (TBitvector k)) as -> by (rewrite Hwf; reflexivity).
  rewrite (bits_core H src false n _ bs).
  - cbn [bind Spec.ser]. fold B. f_equal. f_equal. unfold lenN. lia.
  - intros count Hcnt. now apply read_chunks_crep.
  - intros j Hj. fold B in Hj |- *. rewrite <- nth_map_RootN by exact Hj. rewrite <- (Nat2N.id j) at 2.
    apply (getter_i_crep _ _ _ _ _ Hc). unfold lenN. rewrite map_length. lia.
Qed.

Lemma rep_bitlist l bs c : wf_ty (TBitlist l) = true -> wf (TBitlist l) (VBits bs) = true ->
  CRep (contents_depth (TBitlist l)) c (map RootN (chunks (bits_to_bytes bs))) ->
  ser_ok (TBitlist l) (VBits bs) (PairN c (len_node (lenN bs))).
Proof.
  intros Hty Hwf Hc. cbn [wf] in Hwf. cbn [wf_ty] in Hty. apply N.ltb_lt in Hty. unfold LIMIT_BOUND in Hty. apply N.leb_le in Hwf.
  set (B := bits_to_bytes bs) in *.
  unfold SerProofs2.ser_ok. cbn [ModelCodec.ser_impl]. rewrite (mixin_len_node H src c (lenN bs)) by lia. cbn [bind].
  assert (tree_depth (TBitlist l) = S (contents_depth (TBitlist l))) as -> by reflexivity.
  rewrite (bits_core H src true _ _ bs).
  - cbn [bind Spec.ser]. f_equal. f_equal. rewrite bits_to_bytes_lenN, lenN_app. unfold lenN. cbn [length]. lia.
  - intros count Hcnt. now apply read_chunks_crep_list.
  - intros j Hj. fold B in Hj |- *. rewrite <- nth_map_RootN by exact Hj. rewrite <- (Nat2N.id j) at 2.
    apply (getter_i_crep_list _ _ _ _ _ _ Hc). unfold lenN. rewrite map_length. lia.
Qed.
Notation elems_ser := (elems_ser H src).
Notation cont_go := (cont_go H src).

Lemma Forall2_nth {A B} (P : A -> B -> Prop) l r dA dB : Forall2 P l r ->
  length l = length r /\ forall j, (j < length l)%nat -> P (nth j l dA) (nth j r dB).
Proof.
  induction 1 as [|x y l r Hp _ [IHl IHn]]; [split; [reflexivity|intros j Hj; cbn in Hj; lia]|].
  split; [cbn; lia|]. intros [|j] Hj; cbn [nth]; [exact Hp|]. apply IHn. cbn in Hj. lia.
Qed.

Lemma elems_ser_rep (e : ty) (vs : list val) (ns : list node) (get : N -> result node) :
  Forall2 (fun x n => ser_ok e x n) vs ns ->
  (forall j, (j < length ns)%nat -> get (N.of_nat j) = Ok (nth j ns (RootN zero32))) ->
  seq_res (map (fun i => do c <- get i; ser_impl e c) (iotaN (length vs)))
  = Ok (map (fun x => (ser e x, lenN (ser e x))) vs).
Proof.
  intros HF Hget. destruct (Forall2_nth _ vs ns (VUint 0) (RootN zero32) HF) as [Hl Hn].
  unfold iotaN. rewrite Hl.
  rewrite (ser_elems H src e get ns (map (ser e) vs) 0).
  - now rewrite map_map.
  - now rewrite map_length.
  - intros j Hj. cbn [Nat.add]. now apply Hget.
  - intros j Hj. rewrite <- Hl in Hj.
    assert (nth j (map (ser e) vs) [] = ser e (nth j vs (VUint 0))) as ->.
    { rewrite (nth_indep _ [] (ser e (VUint 0))) by (now rewrite map_length). apply map_nth. }
    apply Hn. exact Hj.
Qed.

(* ---- any representation serialises to the specification bytes ---- *)
Theorem Repr_ser : forall t v n, wf_ty t = true -> wf t v = true -> Repr t v n -> ser_ok t v n.
Proof.
  induction t as [k| |nn|l|nn|l|e nn IHe|e l IHe|fs Hfs|b os Hos] using ty_ind'; intros v n0 Hty Hwf Hr;
    destruct v; try (cbn [wf] in Hwf; discriminate); cbn [Repr] in Hr.
  - (* uint *) exact (ser_constructed H src _ _ _ Hty Hwf Hr).
  - (* bool *) exact (ser_constructed H src _ _ _ Hty Hwf Hr).
  - exact (rep_bitvector nn bs n0 Hty Hwf Hr).
  - destruct Hr as (c & -> & Hc). exact (rep_bitlist l bs c Hty Hwf Hc).
  - exact (rep_bytevector nn bs n0 Hty Hwf Hr).
  - destruct Hr as (c & -> & Hc). exact (rep_bytelist l bs c Hty Hwf Hc).
  - (* vector *)
    destruct (basic_size e) as [s|] eqn:Eb; [exact (rep_packed_vector e nn vs n0 s Hty Eb Hwf Hr)|].
    destruct Hr as (ns & Hc & HF).
    cbn [wf] in Hwf. apply andb_true_iff in Hwf as [Hn Hall]. apply N.eqb_eq in Hn.
    cbn [wf_ty] in Hty. apply andb_true_iff in Hty as [Hty Hnb2]. apply andb_true_iff in Hty as [Hte Hn1].
    assert (Forall2 (fun x n => ser_ok e x n) vs ns) as HF'.
    { clear - HF Hall IHe Hte. induction HF as [|x n vs ns Hx _ IH]; [constructor|]. cbn [forallb] in Hall. apply andb_true_iff in Hall as [Hwx Hall].
      constructor; [now apply IHe|now apply IH]. }
    unfold SerProofs2.ser_ok. cbn [ModelCodec.ser_impl view_len bind]. rewrite Eb.
    assert (tree_depth (TVector e nn) = contents_depth (TVector e nn)) as -> by reflexivity.
    replace (N.to_nat nn) with (length vs) by (unfold lenN in Hn; lia).
    rewrite (elems_ser_rep e vs ns (fun i => getter_i src n0 i (contents_depth (TVector e nn))) HF').
    2:{ intros j Hj. rewrite <- (Nat2N.id j) at 2. apply (getter_i_crep _ _ ns _ _ Hc). unfold lenN. lia. }
    cbn [bind]. rewrite is_fixed_impl_eq, min_impl_eq. cbn [Spec.ser]. rewrite <- Hn.
    exact (seq_assemble e vs Hte Hall).
  - (* list *)
    destruct Hr as (c & -> & Hr).
    destruct (basic_size e) as [s|] eqn:Eb; [exact (rep_packed_list e l vs c s Hty Eb Hwf Hr)|].
    destruct Hr as (ns & Hc & HF).
    cbn [wf] in Hwf. apply andb_true_iff in Hwf as [Hn Hall]. apply N.leb_le in Hn.
    cbn [wf_ty] in Hty. apply andb_true_iff in Hty as [Hte Hlb]. apply N.ltb_lt in Hlb.
    assert (Forall2 (fun x n => ser_ok e x n) vs ns) as HF'.
    { clear - HF Hall IHe Hte. induction HF as [|x n vs ns Hx _ IH]; [constructor|]. cbn [forallb] in Hall. apply andb_true_iff in Hall as [Hwx Hall].
      constructor; [now apply IHe|now apply IH]. }
    assert (lenN vs < 2 ^ 64) as H64 by (unfold LIMIT_BOUND in Hlb; lia).
    unfold SerProofs2.ser_ok. cbn [ModelCodec.ser_impl view_len]. rewrite (mixin_len_node H src c (lenN vs) H64). cbn [bind]. rewrite Eb.
    assert (tree_depth (TList e l) = S (contents_depth (TList e l))) as -> by reflexivity.
    replace (N.to_nat (lenN vs)) with (length vs) by (unfold lenN; lia).
    rewrite (elems_ser_rep e vs ns (fun i => getter_i src (PairN c (len_node (lenN vs))) i (S (contents_depth (TList e l)))) HF').
    2:{ intros j Hj. rewrite <- (Nat2N.id j) at 2. apply (getter_i_crep_list _ _ _ ns _ _ Hc). unfold lenN. lia. }
    cbn [bind]. rewrite is_fixed_impl_eq, min_impl_eq. cbn [Spec.ser].
    exact (seq_assemble e vs Hte Hall).
  - (* container *)
    cbn [wf] in Hwf. destruct Hr as (ns & Hc & Hgo).
    pose proof Hty as Hty0. cbn [wf_ty] in Hty. apply andb_true_iff in Hty as [Hne Htys].
    assert (length ns = length fs /\ length vs = length fs /\
              forall j, (j < length fs)%nat ->
                ser_ok (nth j fs TBool) (nth j vs (VUint 0)) (nth j ns (RootN zero32))) as (Hlns & Hlvs & Hfield).
    { clear Hc Hty0 Hne. revert vs ns Hwf Hgo. induction Hfs as [|f fs Hf Hfs' IH]; intros vs ns Hwf Hgo.
      - destruct vs; [|discriminate]. destruct ns; [|contradiction]. repeat split. intros j Hj. cbn in Hj. lia.
      - destruct vs as [|x vs]; [discriminate|]. destruct ns as [|m ns]; [contradiction|]. destruct Hgo as [Hx Hgo].
        apply andb_true_iff in Hwf as [Hwx Hrest].
        cbn [forallb] in Htys. apply andb_true_iff in Htys as [Htf Htys].
        destruct (IH Htys vs ns Hrest Hgo) as (Hl1 & Hl2 & Hfield).
        cbn [length]. repeat split; try lia.
        intros [|j] Hj; cbn [nth]; [now apply Hf|]. apply Hfield. cbn in Hj. lia. }
    unfold ser_ok. cbn [ModelCodec.ser_impl].
    assert (tree_depth (TContainer fs) = contents_depth (TContainer fs)) as -> by reflexivity.
    set (xs := map (fun j => (ser (nth j fs TBool) (nth j vs (VUint 0)), lenN (ser (nth j fs TBool) (nth j vs (VUint 0))))) (seq 0 (length fs))).
    rewrite (cont_go n0 (contents_depth (TContainer fs)) fs ns xs 0).
    + (* assemble *)
      cbn [bind].
      assert (forall (fs0 : list ty) a, fold_left (fun acc f => acc + (if is_fixed_impl f then min_impl f else OFFSET)) fs0 a
                = a + sumN (map (fun f => if is_fixed f then fsize f else OFFSET) fs0)) as Hw.
      { induction fs0 as [|f fs0 IH0]; intros a; cbn [fold_left map]; [unfold sumN; cbn; lia|].
        rewrite IH0. unfold sumN. cbn [fold_right]. rewrite is_fixed_impl_eq, min_impl_eq.
        destruct (is_fixed f) eqn:Ef; [destruct (fixed_min_eq_fsize f Ef) as [-> _]|]; lia. }
      rewrite Hw, N.add_0_l.
      set (fields := combine (map is_fixed_impl fs) xs).
      assert (parts_of fields =
              (fix go (fs : list ty) (vs : list val) : list (bool * bytes) :=
                 match fs, vs with
                 | f :: fs', x :: vs' => (is_fixed f, ser f x) :: go fs' vs'
                 | _, _ => []
                 end) fs vs) as Hparts.
      { unfold fields, xs. clear - Hlvs. 
        assert (forall (fs : list ty) (vs : list val) (pre : nat) (F : list ty) (V : list val),
                  length vs = length fs -> (forall j, (j < length fs)%nat -> nth (pre + j) F TBool = nth j fs TBool /\ nth (pre + j) V (VUint 0) = nth j vs (VUint 0)) ->
                  parts_of (combine (map is_fixed_impl fs)
                     (map (fun j => (ser (nth j F TBool) (nth j V (VUint 0)), lenN (ser (nth j F TBool) (nth j V (VUint 0))))) (seq pre (length fs))))
                  = (fix go (fs : list ty) (vs : list val) : list (bool * bytes) :=
                       match fs, vs with
                       | f :: fs', x :: vs' => (is_fixed f, ser f x) :: go fs' vs'
                       | _, _ => []
                       end) fs vs) as Hgen.
        { induction fs0 as [|f fs0 IH]; intros vs0 pre F V Hl Hnth; [reflexivity|].
          destruct vs0 as [|x vs0]; [discriminate|]. cbn [length seq map combine fst snd].
          destruct (Hnth 0%nat ltac:(cbn; lia)) as [E1 E2]. rewrite Nat.add_0_r in E1, E2. cbn [nth] in E1, E2.
          rewrite E1, E2, is_fixed_impl_eq. f_equal.
          apply (IH vs0 (S pre) F V); [cbn in Hl; lia|]. intros j Hj.
          destruct (Hnth (S j) ltac:(cbn; lia)) as [E3 E4]. replace (S pre + j)%nat with (pre + S j)%nat by lia. now split. }
        apply (Hgen fs vs 0%nat fs vs Hlvs). intros j Hj. now split. }
      pose proof (cont_ser fields) as Hcs.
      assert (sumN (map fixed_part_len (parts_of fields)) = sumN (map (fun f => if is_fixed f then fsize f else OFFSET) fs)) as Hfx.
      { rewrite Hparts. clear - Hwf Htys. revert vs Hwf Htys. induction fs as [|f fs IH]; intros vs Hwf Htys; [reflexivity|].
        destruct vs as [|x vs]; [discriminate|]. apply andb_true_iff in Hwf as [Hx Hrest].
        cbn [forallb] in Htys. apply andb_true_iff in Htys as [Htf Htys].
        cbn [map]. unfold sumN in *. cbn [fold_right]. rewrite (IH vs Hrest Htys).
        unfold fixed_part_len at 1. cbn [fst snd]. destruct (is_fixed f) eqn:Ef; [|reflexivity].
        now rewrite (ser_len_fixed f x Htf Hx Ef). }
      rewrite Hfx in Hcs. destruct Hcs as [Hb Ho].
      { intros [pf px] Hp. unfold fields in Hp. apply in_combine_r in Hp. unfold xs in Hp. apply in_map_iff in Hp as (j & <- & _). reflexivity. }
      destruct (cont_loop fields ([], [], sumN (map (fun f => if is_fixed f then fsize f else OFFSET) fs))) as [[fx vr] written].
      cbn [fst snd] in Hb, Ho. cbn [Spec.ser]. rewrite <- Hparts. now rewrite Hb, Ho.
    + exact Hlns.
    + unfold xs. now rewrite map_length, seq_length.
    + intros j Hj. rewrite N.add_0_l. rewrite <- (Nat2N.id j) at 2. apply (getter_i_crep _ _ ns _ _ Hc). unfold lenN. lia.
    + intros j Hj. unfold xs.
      set (F := fun j0 : nat => (ser (nth j0 fs TBool) (nth j0 vs (VUint 0)), lenN (ser (nth j0 fs TBool) (nth j0 vs (VUint 0))))).
      rewrite (nth_indep _ ([], 0) (F 0%nat)) by (rewrite map_length, seq_length; exact Hj).
      rewrite (map_nth F), seq_nth by exact Hj. cbn [Nat.add]. unfold F. apply Hfield. exact Hj.
  - (* union *)
    cbn [wf] in Hwf. destruct Hr as (c & -> & Hr).
    cbn [wf_ty] in Hty. apply andb_true_iff in Hty as [Hty Hcount]. apply andb_true_iff in Hty as [Htys Hne].
    apply N.leb_le in Hcount.
    destruct v as [x|].
    + apply andb_true_iff in Hwf as [Hsel Hpick].
      assert (exists o, nth_error os (if b then pred sel else sel) = Some o /\ ser_ok o x c /\
                (forall (A : Type) (F : ty -> A) (dflt : A),
                   (fix pick (os : list ty) (i : nat) : A :=
                      match os, i with o :: _, O => F o | _ :: os', S i' => pick os' i' | [], _ => dflt end) os (if b then pred sel else sel) = F o))
        as (o & Hnth & Hio & Hpk).
      { clear Hne Hcount Hsel. generalize dependent (if b then pred sel else sel). clear sel.
        induction Hos as [|o os Ho Hos' IH]; intros i Hpick Hr; [destruct i; discriminate|].
        cbn [forallb] in Htys. apply andb_true_iff in Htys as [Hto Htys].
        destruct i as [|i].
        - exists o. repeat split; auto.
        - destruct (IH Htys i Hpick Hr) as (o' & Hn' & H1 & H2). exists o'. repeat split; auto. }
      assert ((lenN os + (if b then 1 else 0) <=? N.of_nat sel) = false) as Hin.
      { apply N.leb_gt. pose proof (proj1 (nth_error_Some os (if b then pred sel else sel)) ltac:(congruence)) as Hlt.
        unfold lenN. destruct b; cbn [negb] in Hsel; [destruct sel; [discriminate|]; cbn [pred] in Hlt|]; lia. }
      assert ((b && (sel =? 0)%nat) = false) as Hbs.
      { destruct b; [|reflexivity]. cbn [andb negb] in *. destruct sel; [discriminate|reflexivity]. }
      unfold SerProofs2.ser_ok. cbn [ModelCodec.ser_impl].
      assert (N.of_nat sel < 2 ^ 64) as Hs64.
      { pose proof (proj1 (nth_error_Some os (if b then pred sel else sel)) ltac:(congruence)) as Hlt. unfold lenN in Hcount.
        assert (2 ^ 64 > 200) by (cbn; lia). destruct b; [destruct sel; cbn [pred] in Hlt|]; lia. }
      rewrite (mixin_len_node H src c (N.of_nat sel) Hs64). cbn [bind]. rewrite Hin. cbn [get_left children bind].
      assert ((b && (N.of_nat sel =? 0)) = false) as ->.
      { destruct b; [|reflexivity]. cbn [andb]. destruct sel; [cbn in Hbs; discriminate|]. apply N.eqb_neq. lia. }
      replace (N.to_nat (if b then N.of_nat sel - 1 else N.of_nat sel)) with (if b then pred sel else sel) by (destruct b; lia).
      rewrite (Hpk _ (fun o => ser_impl o c) (Err EIndex)).
      rewrite Hio. cbn [bind fst snd Spec.ser].
      rewrite (Hpk _ (fun o => ser o x) []). f_equal. f_equal. rewrite lenN_cons. reflexivity.
    + apply andb_true_iff in Hwf as [Hb Hsel]. apply Nat.eqb_eq in Hsel. subst b sel.
      assert ((lenN os + 1 <=? N.of_nat 0) = false) as Hin by (apply N.leb_gt; lia).
      unfold SerProofs2.ser_ok. cbn [ModelCodec.ser_impl]. rewrite (mixin_len_node H src _ (N.of_nat 0)) by (cbn; lia). cbn [bind].
      rewrite Hin. cbn [get_left children bind andb N.of_nat N.eqb]. rewrite Hr.
      assert (bytes_eqb zero32 zero32 = true) as -> by now apply bytes_eqb_eq. reflexivity.
Qed.
(* ---- the constructor's tree is a representation ---- *)
Theorem mk_Repr : forall t v n, wf_ty t = true -> wf t v = true -> mk t v = Ok n -> Repr t v n.
Proof.
  induction t as [k| |nn|l|nn|l|e nn IHe|e l IHe|fs Hfs|b os Hos] using ty_ind'; intros v n0 Hty Hwf Hmk;
    destruct v; try (cbn [wf] in Hwf; discriminate); cbn [Repr].
  - exact Hmk.
  - exact Hmk.
  - (* bitvector *) cbn [wf] in Hwf. cbn [ModelViews.mk] in Hmk. rewrite Hwf in Hmk. cbn [negb] in Hmk. apply N.eqb_eq in Hwf.
    rewrite pack_bits_chunks in Hmk. cbn [chunk_data].
    destruct (fill_to_contents_CRep H (contents_depth (TBitvector nn)) (map RootN (chunks (bits_to_bytes bs)))) as (n' & Hf & Hc).
    { rewrite map_length, chunks_length. pose proof (bits_to_bytes_lenN bs) as HB. unfold lenN in HB.
      cbn [contents_depth]. pose proof (get_depth_fits ((nn + 255) / 256)). unfold lenN in Hwf. lia. }
    rewrite Hf in Hmk. inversion Hmk; subst n'. exact Hc.
  - (* bitlist *) cbn [wf] in Hwf. cbn [ModelViews.mk] in Hmk. apply N.leb_le in Hwf.
    assert ((l <? lenN bs) = false) as Hlt by (apply N.ltb_ge; exact Hwf). rewrite Hlt in Hmk.
    rewrite pack_bits_chunks in Hmk. cbn [chunk_data val_len].
    destruct (fill_to_contents_CRep H (contents_depth (TBitlist l)) (map RootN (chunks (bits_to_bytes bs)))) as (c & Hf & Hc).
    { rewrite map_length, chunks_length. pose proof (bits_to_bytes_lenN bs) as HB. unfold lenN in HB.
      cbn [contents_depth]. pose proof (get_depth_fits ((l + 255) / 256)). unfold lenN in Hwf. lia. }
    rewrite Hf in Hmk. cbn [bind] in Hmk. inversion Hmk; subst n0. exists c. auto.
  - (* bytevector *) cbn [wf] in Hwf. cbn [ModelViews.mk] in Hmk. rewrite Hwf in Hmk. cbn [negb] in Hmk. apply N.eqb_eq in Hwf.
    rewrite pack_bytes_chunks in Hmk. cbn [chunk_data].
    destruct (fill_to_contents_CRep H (contents_depth (TByteVector nn)) (map RootN (chunks bs))) as (n' & Hf & Hc).
    { rewrite map_length, chunks_length. cbn [contents_depth]. pose proof (get_depth_fits ((nn + 31) / 32)). unfold lenN in Hwf. lia. }
    rewrite Hf in Hmk. inversion Hmk; subst n'. exact Hc.
  - (* bytelist *) cbn [wf] in Hwf. cbn [ModelViews.mk] in Hmk. apply N.leb_le in Hwf.
    assert ((l <? lenN bs) = false) as Hlt by (apply N.ltb_ge; exact Hwf). rewrite Hlt in Hmk.
    rewrite pack_bytes_chunks in Hmk. cbn [chunk_data val_len].
    destruct (fill_to_contents_CRep H (contents_depth (TByteList l)) (map RootN (chunks bs))) as (c & Hf & Hc).
    { rewrite map_length, chunks_length. cbn [contents_depth]. pose proof (get_depth_fits ((l + 31) / 32)). unfold lenN in Hwf. lia. }
    rewrite Hf in Hmk. cbn [bind] in Hmk. inversion Hmk; subst n0. exists c. auto.
  - (* vector *)
    cbn [wf] in Hwf. apply andb_true_iff in Hwf as [Hn Hall]. apply N.eqb_eq in Hn.
    cbn [wf_ty] in Hty. apply andb_true_iff in Hty as [Hty Hnb2]. apply andb_true_iff in Hty as [Hte Hn1]. apply N.leb_le in Hn1.
    cbn [ModelViews.mk] in Hmk. destruct vs as [|x0 vs0] eqn:Evs; [unfold lenN in Hn; cbn in Hn; lia|]. rewrite <- Evs in *.
    assert ((lenN vs =? nn) = true) as Hn' by now apply N.eqb_eq. rewrite Hn' in Hmk. cbn [negb] in Hmk.
    destruct (basic_size e) as [s|] eqn:Eb.
    + destruct (mk_basic_all e s vs Hte Eb Hall) as (xs & Hxs & Hl & Hm). rewrite Hxs in Hmk. cbn [bind] in Hmk.
      rewrite (pack_ints_chunks s xs (basic_size_ok e s Hte Eb)), Hm in Hmk. cbn [chunk_data].
      destruct (fill_to_contents_CRep H (contents_depth (TVector e nn)) (map RootN (chunks (concat (map (ser e) vs))))) as (n' & Hf & Hc).
      { rewrite map_length, chunks_length. rewrite (concat_ser_length e s vs Hte Eb Hall).
        cbn [contents_depth]. unfold to_chunk_length. rewrite Eb. rewrite (chunk_len_eq s nn (basic_size_ok e s Hte Eb)).
        pose proof (get_depth_fits ((nn * s + 31) / 32)). unfold lenN in Hn. lia. }
      rewrite Hf in Hmk. inversion Hmk; subst n'. exact Hc.
    + destruct (seq_res (map (mk e) vs)) as [ns|] eqn:Hns; [|discriminate]. cbn [bind] in Hmk.
      destruct (seq_res_map_ok (mk e) vs ns Hns) as [Hl _].
      destruct (fill_to_contents_CRep H (contents_depth (TVector e nn)) ns) as (n' & Hf & Hc).
      { rewrite Hl. cbn [contents_depth]. unfold to_chunk_length. rewrite Eb. pose proof (get_depth_fits nn). unfold lenN in Hn. lia. }
      rewrite Hf in Hmk. inversion Hmk; subst n'. exists ns. split; [exact Hc|].
      apply DeserProofs.seq_res_Forall2 in Hns. clear - Hns Hall IHe Hte.
      induction Hns as [|x n vs ns Hx _ IH]; [constructor|]. cbn [forallb] in Hall. apply andb_true_iff in Hall as [Hwx Hall].
      constructor; [now apply IHe|now apply IH].
  - (* list *)
    cbn [wf] in Hwf. apply andb_true_iff in Hwf as [Hn Hall]. apply N.leb_le in Hn.
    cbn [wf_ty] in Hty. apply andb_true_iff in Hty as [Hte Hlb]. apply N.ltb_lt in Hlb.
    cbn [ModelViews.mk] in Hmk. destruct vs as [|x0 vs0] eqn:Evs.
    + cbn [default_node] in Hmk. inversion Hmk; subst n0. exists (zero_node H (contents_depth (TList e l))).
      split; [reflexivity|]. cbn [chunk_data map concat]. change (chunks []) with (@nil bytes). cbn [map].
      destruct (basic_size e); [constructor|]. exists []. split; constructor.
    + rewrite <- Evs in *. assert ((l <? lenN vs) = false) as Hlt by (apply N.ltb_ge; exact Hn). rewrite Hlt in Hmk.
      destruct (basic_size e) as [s|] eqn:Eb.
      * destruct (mk_basic_all e s vs Hte Eb Hall) as (xs & Hxs & Hl & Hm). rewrite Hxs in Hmk. cbn [bind] in Hmk.
        rewrite (pack_ints_chunks s xs (basic_size_ok e s Hte Eb)), Hm in Hmk. cbn [chunk_data].
        destruct (fill_to_contents_CRep H (contents_depth (TList e l)) (map RootN (chunks (concat (map (ser e) vs))))) as (c & Hf & Hc).
        { rewrite map_length, chunks_length. rewrite (concat_ser_length e s vs Hte Eb Hall).
          cbn [contents_depth]. unfold to_chunk_length. rewrite Eb. rewrite (chunk_len_eq s l (basic_size_ok e s Hte Eb)).
          pose proof (get_depth_fits ((l * s + 31) / 32)). unfold lenN in Hn. pose proof (basic_size_ok e s Hte Eb) as Hs. nia. }
        rewrite Hf in Hmk. cbn [bind] in Hmk. inversion Hmk; subst n0. exists c. auto.
      * destruct (seq_res (map (mk e) vs)) as [ns|] eqn:Hns; [|discriminate]. cbn [bind] in Hmk.
        destruct (seq_res_map_ok (mk e) vs ns Hns) as [Hl _].
        destruct (fill_to_contents_CRep H (contents_depth (TList e l)) ns) as (c & Hf & Hc).
        { rewrite Hl. cbn [contents_depth]. unfold to_chunk_length. rewrite Eb. pose proof (get_depth_fits l). unfold lenN in Hn. lia. }
        rewrite Hf in Hmk. cbn [bind] in Hmk. inversion Hmk; subst n0. exists c. split; [reflexivity|]. exists ns. split; [exact Hc|].
        apply DeserProofs.seq_res_Forall2 in Hns. clear - Hns Hall IHe Hte.
        induction Hns as [|x n vs ns Hx _ IH]; [constructor|]. cbn [forallb] in Hall. apply andb_true_iff in Hall as [Hwx Hall].
        constructor; [now apply IHe|now apply IH].
  - (* container *)
    cbn [wf] in Hwf. pose proof Hty as Hty0. cbn [wf_ty] in Hty. apply andb_true_iff in Hty as [Hne Htys].
    cbn [ModelViews.mk] in Hmk.
    match type of Hmk with (do ns <- ?G; _) = _ => destruct G as [ns|] eqn:Hgo; [|discriminate] end. cbn [bind] in Hmk.
    assert (length ns = length fs /\
            (fix go (fs : list ty) (vs : list val) (ns : list node) : Prop :=
               match fs, vs, ns with
               | [], [], [] => True
               | f :: fs', x :: vs', m :: ns' => Repr f x m /\ go fs' vs' ns'
               | _, _, _ => False
               end) fs vs ns) as [Hlns HR].
    { clear Hmk Hty0 Hne. revert vs ns Hwf Hgo. induction Hfs as [|f fs Hf Hfs' IH]; intros vs ns Hwf Hgo; destruct vs as [|x vs]; try discriminate.
      - inversion Hgo. split; [reflexivity|exact I].
      - destruct (mk f x) as [a|] eqn:Ea; [|discriminate]. cbn [bind] in Hgo.
        match type of Hgo with (do r <- ?G; _) = _ => destruct G as [r|] eqn:Er; [|discriminate] end. cbn [bind] in Hgo. inversion Hgo; subst ns.
        apply andb_true_iff in Hwf as [Hx Hrest]. cbn [forallb] in Htys. apply andb_true_iff in Htys as [Htf Htys].
        destruct (IH Htys vs r Hrest Er) as [Hl HR]. split; [cbn; lia|]. split; [now apply Hf|exact HR]. }
    destruct (fill_to_contents_CRep H (contents_depth (TContainer fs)) ns) as (n' & Hf & Hc).
    { rewrite Hlns. cbn [contents_depth]. pose proof (get_depth_fits (lenN fs)). unfold lenN in *. lia. }
    rewrite Hf in Hmk. inversion Hmk; subst n'. exists ns. auto.
  - (* union *)
    cbn [wf] in Hwf. cbn [wf_ty] in Hty. apply andb_true_iff in Hty as [Hty Hcount]. apply andb_true_iff in Hty as [Htys Hne].
    cbn [ModelViews.mk] in Hmk.
    destruct (lenN os + (if b then 1 else 0) <=? N.of_nat sel); [discriminate|].
    destruct v as [x|].
    + apply andb_true_iff in Hwf as [Hsel Hpick].
      assert ((b && (sel =? 0)%nat) = false) as Hbs.
      { destruct b; [|reflexivity]. cbn [andb negb] in *. destruct sel; [discriminate|reflexivity]. }
      rewrite Hbs in Hmk.
      match type of Hmk with (do c <- ?G; _) = _ => destruct G as [c|] eqn:Hc; [|discriminate] end. cbn [bind] in Hmk. inversion Hmk; subst n0.
      exists c. split; [reflexivity|].
      clear Hmk Hne Hcount Hsel Hbs. generalize dependent (if b then pred sel else sel). clear sel.
      induction Hos as [|o os Ho Hos' IH]; intros i Hpick Hc; [destruct i; discriminate|].
      cbn [forallb] in Htys. apply andb_true_iff in Htys as [Hto Htys].
      destruct i as [|i]; [now apply Ho|]. now apply (IH Htys i).
    + apply andb_true_iff in Hwf as [Hb Hsel]. apply Nat.eqb_eq in Hsel. subst b sel.
      cbn [andb Nat.eqb bind] in Hmk. inversion Hmk; subst n0. exists (zero_node H 0). split; reflexivity.
Qed.
(* ---- any representation has the specification's hash-tree-root ---- *)
Lemma crep_chunks_root d n (cs : list bytes) : CRep d n (map RootN cs) -> root n = merkleize H d cs.
Proof. intros Hc. rewrite (CRep_merkleize H _ _ _ Hc). now rewrite map_root_RootN. Qed.

Theorem Repr_root : forall t v n, wf_ty t = true -> wf t v = true -> Repr t v n -> root n = htr H t v.
Proof.
  induction t as [k| |nn|l|nn|l|e nn IHe|e l IHe|fs Hfs|b os Hos] using ty_ind'; intros v n0 Hty Hwf Hr;
    destruct v; try (cbn [wf] in Hwf; discriminate); cbn [Repr] in Hr.
  - destruct (mk_root H _ _ Hty Hwf) as (n' & Hn' & Hr'). rewrite Hr in Hn'. now inversion Hn'.
  - destruct (mk_root H _ _ Hty Hwf) as (n' & Hn' & Hr'). rewrite Hr in Hn'. now inversion Hn'.
  - cbn [Spec.htr]. rewrite <- (depth_eq (TBitvector nn) Hty). exact (crep_chunks_root _ _ _ Hr).
  - destruct Hr as (c & -> & Hc). cbn [Spec.htr Tree.root len_node]. rewrite <- (depth_eq (TBitlist l) Hty).
    rewrite (crep_chunks_root _ _ _ Hc), le32_pad. reflexivity.
  - cbn [Spec.htr]. rewrite <- (depth_eq (TByteVector nn) Hty). exact (crep_chunks_root _ _ _ Hr).
  - destruct Hr as (c & -> & Hc). cbn [Spec.htr Tree.root len_node]. rewrite <- (depth_eq (TByteList l) Hty).
    rewrite (crep_chunks_root _ _ _ Hc), le32_pad. reflexivity.
  - (* vector *)
    cbn [Spec.htr]. rewrite <- (depth_eq (TVector e nn) Hty). rewrite is_basic_size.
    cbn [wf] in Hwf. apply andb_true_iff in Hwf as [Hn Hall].
    cbn [wf_ty] in Hty. apply andb_true_iff in Hty as [Hty _]. apply andb_true_iff in Hty as [Hte _].
    destruct (basic_size e) as [s|]; [exact (crep_chunks_root _ _ _ Hr)|].
    destruct Hr as (ns & Hc & HF). rewrite (CRep_merkleize H _ _ _ Hc). f_equal.
    clear - HF Hall IHe Hte. induction HF as [|x n vs ns Hx _ IH]; [reflexivity|]. cbn [forallb] in Hall. apply andb_true_iff in Hall as [Hwx Hall].
    cbn [map]. rewrite (IHe x n Hte Hwx Hx), (IH Hall). reflexivity.
  - (* list *)
    destruct Hr as (c & -> & Hr). cbn [Spec.htr Tree.root len_node]. rewrite <- (depth_eq (TList e l) Hty). rewrite is_basic_size, le32_pad.
    cbn [wf] in Hwf. apply andb_true_iff in Hwf as [Hn Hall].
    cbn [wf_ty] in Hty. apply andb_true_iff in Hty as [Hte _].
    unfold Spec.mix_in. f_equal.
    destruct (basic_size e) as [s|]; [exact (crep_chunks_root _ _ _ Hr)|].
    destruct Hr as (ns & Hc & HF). rewrite (CRep_merkleize H _ _ _ Hc). f_equal.
    clear - HF Hall IHe Hte. induction HF as [|x n vs ns Hx _ IH]; [reflexivity|]. cbn [forallb] in Hall. apply andb_true_iff in Hall as [Hwx Hall].
    cbn [map]. rewrite (IHe x n Hte Hwx Hx), (IH Hall). reflexivity.
  - (* container *)
    cbn [wf] in Hwf. destruct Hr as (ns & Hc & Hgo). cbn [Spec.htr]. rewrite <- (depth_eq (TContainer fs) Hty).
    cbn [wf_ty] in Hty. apply andb_true_iff in Hty as [_ Htys].
    rewrite (CRep_merkleize H _ _ _ Hc). f_equal. clear Hc.
    revert vs ns Hwf Hgo. induction Hfs as [|f fs Hf Hfs' IH]; intros vs ns Hwf Hgo; destruct vs as [|x vs]; try discriminate; destruct ns as [|m ns]; try contradiction.
    + reflexivity.
    + destruct Hgo as [Hx Hgo]. apply andb_true_iff in Hwf as [Hwx Hrest]. cbn [forallb] in Htys. apply andb_true_iff in Htys as [Htf Htys].
      cbn [map]. rewrite (Hf x m Htf Hwx Hx), (IH Htys vs ns Hrest Hgo). reflexivity.
  - (* union *)
    cbn [wf] in Hwf. destruct Hr as (c & -> & Hr). cbn [Spec.htr Tree.root len_node]. rewrite le32_pad. unfold Spec.mix_in. f_equal.
    cbn [wf_ty] in Hty. apply andb_true_iff in Hty as [Hty _]. apply andb_true_iff in Hty as [Htys _].
    destruct v as [x|]; [|exact Hr].
    apply andb_true_iff in Hwf as [_ Hpick].
    generalize dependent (if b then pred sel else sel). clear sel.
    induction Hos as [|o os Ho Hos' IH]; intros i Hpick Hr; [destruct i; discriminate|].
    cbn [forallb] in Htys. apply andb_true_iff in Htys as [Hto Htys].
    destruct i as [|i]; [now apply Ho|]. now apply (IH Htys i).
Qed.

End WithHash.
