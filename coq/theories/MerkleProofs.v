(* MerkleProofs.v — representation invariant CRep (DESIGN 2.8) and the proof that the tree
   builders of tree.py compute the specification's merkleisation (C01, C12). *)
Require Import RM.Base RM.Gindex RM.Tree RM.Types RM.Spec.
From Coq Require Import ZifyBool ZifyNat ZifyN.
Local Open Scope nat_scope.

Lemma pow2_nat d : N.to_nat (pow2 d) = 2 ^ d.
Proof.
  unfold pow2. rewrite N.shiftl_1_l. rewrite N2Nat.inj_pow. rewrite Nat2N.id. reflexivity.
Qed.
Lemma pow2_pos d : 0 < 2 ^ d.
Proof. apply Nat.neq_0_lt_0, Nat.pow_nonzero; lia. Qed.

Section WithHash.
Variable H : bytes -> bytes -> bytes.
Notation root := (root H).
Notation zero_hash := (zero_hash H).
Notation zero_node := (zero_node H).
Notation mroot := (mroot H).
Notation merkleize := (merkleize H).

Lemma mroot_ext d : forall f g off, (forall i, i < 2 ^ d -> f (off + i) = g (off + i)) -> mroot d f off = mroot d g off.
Proof.
  induction d as [|d IH]; intros f g off Hfg; cbn [Spec.mroot].
  - specialize (Hfg 0). rewrite Nat.add_0_r in Hfg. apply Hfg. cbn; lia.
  - f_equal; apply IH; intros i Hi.
    + apply Hfg. cbn [Nat.pow]. lia.
    + rewrite <- Nat.add_assoc. apply Hfg. cbn [Nat.pow]. lia.
Qed.
Lemma mroot_shift d : forall f g o1 o2, (forall j, j < 2 ^ d -> f (o1 + j) = g (o2 + j)) -> mroot d f o1 = mroot d g o2.
Proof.
  induction d as [|d IH]; intros f g o1 o2 Hfg; cbn [Spec.mroot].
  - specialize (Hfg 0). rewrite !Nat.add_0_r in Hfg. apply Hfg. cbn; lia.
  - f_equal; apply IH; intros j Hj.
    + apply Hfg. cbn [Nat.pow]. lia.
    + rewrite <- !Nat.add_assoc. apply Hfg. cbn [Nat.pow]. lia.
Qed.
Lemma mroot_zero d : forall f off, (forall i, i < 2 ^ d -> f (off + i) = zero32) -> mroot d f off = zero_hash d.
Proof.
  induction d as [|d IH]; intros f off Hf; cbn [Spec.mroot Tree.zero_hash].
  - specialize (Hf 0). rewrite Nat.add_0_r in Hf. apply Hf. cbn; lia.
  - f_equal; apply IH; intros i Hi.
    + apply Hf. cbn [Nat.pow]. lia.
    + rewrite <- Nat.add_assoc. apply Hf. cbn [Nat.pow]. lia.
Qed.

(* node n of height d holds the bottom nodes ns, left-aligned; everything to their right is zero,
   in any mixture of expanded zero leaves and zero-subtree summaries *)
Inductive CRep : nat -> node -> list node -> Prop :=
| CRep_zero d : CRep d (zero_node d) []
| CRep_leaf x : CRep 0 x [x]
| CRep_pair d l r ls rs : CRep d l ls -> CRep d r rs -> (rs = [] \/ length ls = 2 ^ d) ->
                          CRep (S d) (PairN l r) (ls ++ rs).

Lemma CRep_len d n ns : CRep d n ns -> length ns <= 2 ^ d.
Proof.
  induction 1 as [d|x|d l r ls rs Hl IHl Hr IHr Hor]; cbn [length Nat.pow]; try lia.
  rewrite app_length. destruct Hor as [->|E]; cbn [length]; lia.
Qed.

Definition leafs (ns : list node) (i : nat) : bytes := nth i (map root ns) zero32.

Lemma CRep_root d n ns : CRep d n ns -> root n = mroot d (leafs ns) 0.
Proof.
  induction 1 as [d|x|d l r ls rs Hl IHl Hr IHr Hor].
  - cbn [Tree.root Tree.zero_node]. symmetry. apply mroot_zero. intros i _. unfold leafs. cbn. now destruct i.
  - reflexivity.
  - cbn [Tree.root Spec.mroot]. rewrite IHl, IHr. pose proof (CRep_len _ _ _ Hl) as Hlen. f_equal.
    + apply mroot_ext. intros i Hi. unfold leafs. rewrite map_app. cbn [Nat.add].
      destruct (Nat.lt_ge_cases i (length ls)) as [Hlt|Hge].
      * rewrite app_nth1; [reflexivity|rewrite map_length; exact Hlt].
      * rewrite (nth_overflow (map root ls)); [|rewrite map_length; exact Hge].
        destruct Hor as [->|E]; [|exfalso; lia]. cbn [map]. rewrite app_nil_r.
        rewrite nth_overflow; [reflexivity|rewrite map_length; exact Hge].
    + apply mroot_shift. intros j Hj. cbn [Nat.add]. unfold leafs. rewrite map_app. destruct Hor as [->|E].
      * cbn [map]. rewrite app_nil_r. rewrite (nth_overflow (map root ls)); [now destruct j|rewrite map_length; lia].
      * rewrite app_nth2; [|rewrite map_length; lia]. rewrite map_length. f_equal. lia.
Qed.

Theorem CRep_merkleize d n ns : CRep d n ns -> root n = merkleize d (map root ns).
Proof. intros Hc. rewrite (CRep_root _ _ _ Hc). reflexivity. Qed.

(* ---- fill_to_depth ---- *)
Lemma repeat_app_pow {A} (x : A) d : repeat x (2 ^ d) ++ repeat x (2 ^ d) = repeat x (2 ^ S d).
Proof. rewrite <- repeat_app. f_equal. cbn [Nat.pow]. lia. Qed.

Lemma fill_to_depth_CRep b d : CRep d (fill_to_depth b d) (repeat b (2 ^ d)).
Proof.
  induction d as [|d IH]; cbn [fill_to_depth].
  - cbn. constructor.
  - rewrite <- repeat_app_pow. constructor; auto. right. apply repeat_length.
Qed.

(* ---- fill_to_contents ---- *)
Lemma lenN_le_pow2 {A} (l : list A) d : (pow2 d <? lenN l)%N = false <-> length l <= 2 ^ d.
Proof.
  rewrite N.ltb_ge. unfold lenN. rewrite <- (pow2_nat d). lia.
Qed.

Theorem fill_to_contents_CRep : forall d ns, length ns <= 2 ^ d ->
  exists n, fill_to_contents H ns d = Ok n /\ CRep d n ns.
Proof.
  induction d as [|d IH]; intros ns Hle.
  - destruct ns as [|a [|b ns]]; cbn [Nat.pow length] in Hle; try lia.
    + exists (zero_node 0). split; [reflexivity|constructor].
    + exists a. split; [reflexivity|constructor].
  - destruct ns as [|a rest]; [exists (zero_node (S d)); split; [reflexivity|constructor]|].
    cbn [fill_to_contents]. set (ns := a :: rest) in *.
    assert ((pow2 (S d) <? lenN ns)%N = false) as -> by (apply lenN_le_pow2; exact Hle).
    destruct d as [|d'].
    + (* depth 1 *)
      subst ns. destruct rest as [|b [|c rest']]; cbn [length Nat.pow] in Hle; try lia.
      * eexists. split; [reflexivity|]. change [a] with ([a] ++ []). constructor; [constructor|constructor|now left].
      * eexists. split; [reflexivity|]. change [a; b] with ([a] ++ [b]). constructor; [constructor|constructor|now right].
    + set (d := S d') in *.
      destruct (lenN ns <=? pow2 d)%N eqn:Epiv.
      * apply N.leb_le in Epiv. assert (length ns <= 2 ^ d) as Hl by (unfold lenN in Epiv; rewrite <- (pow2_nat d); lia).
        destruct (IH ns Hl) as (l & Hfl & Hcl). rewrite Hfl. cbn [bind].
        eexists. split; [reflexivity|]. rewrite <- (app_nil_r ns). constructor; [exact Hcl|constructor|now left].
      * apply N.leb_gt in Epiv. rewrite pow2_nat.
        assert (2 ^ d < length ns) as Hl by (unfold lenN in Epiv; rewrite <- (pow2_nat d); lia).
        assert (length (firstn (2 ^ d) ns) = 2 ^ d) as Hf by (rewrite firstn_length; lia).
        assert (length (skipn (2 ^ d) ns) <= 2 ^ d) as Hs by (rewrite skipn_length; cbn [Nat.pow] in Hle; lia).
        destruct (IH (firstn (2 ^ d) ns) ltac:(lia)) as (l & Hfl & Hcl).
        destruct (IH (skipn (2 ^ d) ns) Hs) as (r & Hfr & Hcr).
        rewrite Hfl, Hfr. cbn [bind]. eexists. split; [reflexivity|].
        pose proof (CRep_pair d l r _ _ Hcl Hcr (or_intror Hf)) as Hp.
        rewrite (firstn_skipn (2 ^ d) ns) in Hp. exact Hp.
Qed.

(* the tree built from a list of nodes has the specification's merkle root *)
Corollary fill_to_contents_root d ns : length ns <= 2 ^ d ->
  exists n, fill_to_contents H ns d = Ok n /\ root n = merkleize d (map root ns).
Proof.
  intros Hle. destruct (fill_to_contents_CRep d ns Hle) as (n & Hf & Hc).
  exists n. split; [exact Hf|]. now apply CRep_merkleize.
Qed.

(* ---- fill_to_length ---- *)
Theorem fill_to_length_CRep : forall d b (k : N), (N.to_nat k <= 2 ^ d) ->
  exists n, fill_to_length H b d k = Ok n /\ CRep d n (repeat b (N.to_nat k)).
Proof.
  induction d as [|d IH]; intros b k Hle.
  - cbn [fill_to_length]. destruct (k =? 0)%N eqn:E0.
    + apply N.eqb_eq in E0. subst. eexists; split; [reflexivity|]. cbn. constructor.
    + apply N.eqb_neq in E0. cbn [Nat.pow] in Hle. assert (k = 1%N) as -> by lia.
      cbn. eexists; split; [reflexivity|]. constructor.
  - cbn [fill_to_length]. destruct (k =? 0)%N eqn:E0.
    { apply N.eqb_eq in E0. subst. eexists; split; [reflexivity|]. cbn [repeat N.to_nat]. constructor. }
    apply N.eqb_neq in E0.
    assert ((pow2 (S d) <? k)%N = false) as -> by (apply N.ltb_ge; rewrite <- (N2Nat.id (pow2 (S d))), pow2_nat; lia).
    destruct (k =? pow2 (S d))%N eqn:Efull.
    { apply N.eqb_eq in Efull. subst k. rewrite pow2_nat. eexists; split; [reflexivity|]. apply fill_to_depth_CRep. }
    apply N.eqb_neq in Efull.
    assert (N.to_nat k < 2 ^ S d) as Hlt.
    { assert (N.to_nat k <> 2 ^ S d) by (intros E; apply Efull; rewrite <- (N2Nat.id k), E, <- pow2_nat; now rewrite N2Nat.id). lia. }
    destruct d as [|d'].
    + cbn [Nat.pow] in Hlt. assert (k = 1%N) as -> by lia. cbn.
      eexists; split; [reflexivity|]. change (repeat b (Pos.to_nat 1)) with ([b] ++ []).
      constructor; [constructor|constructor|now left].
    + set (d := S d') in *.
      destruct (k <=? pow2 d)%N eqn:Epiv.
      * apply N.leb_le in Epiv. assert (N.to_nat k <= 2 ^ d) as Hl by (rewrite <- (pow2_nat d); lia).
        destruct (IH b k Hl) as (l & Hfl & Hcl). rewrite Hfl. cbn [bind].
        eexists; split; [reflexivity|]. rewrite <- (app_nil_r (repeat b (N.to_nat k))).
        constructor; [exact Hcl|constructor|now left].
      * apply N.leb_gt in Epiv. assert (2 ^ d < N.to_nat k) as Hl by (rewrite <- (pow2_nat d); lia).
        assert (N.to_nat (k - pow2 d) = N.to_nat k - 2 ^ d) as Hsub by (rewrite N2Nat.inj_sub, pow2_nat; reflexivity).
        destruct (IH b (k - pow2 d)%N ltac:(rewrite Hsub; cbn [Nat.pow] in Hlt; lia)) as (r & Hfr & Hcr).
        rewrite Hfr. cbn [bind]. eexists; split; [reflexivity|].
        replace (N.to_nat k) with (2 ^ d + (N.to_nat k - 2 ^ d)) by lia. rewrite repeat_app.
        constructor; [apply fill_to_depth_CRep|rewrite <- Hsub; exact Hcr|right; apply repeat_length].
Qed.

End WithHash.
