(* StoreChain.v — C05 / C06 / C14 at store level for hook chains of ANY depth and forests of held views.
   Chain s tr: a trail of held views, each obtained from the next ([i], .field, value()), every cell
   representing its value and every hook valid in its parent.  chain_get / chain_value: obtaining a child
   view extends the chain.  chain_set: set_backing through the bottom view rewrites every enclosing view to
   its value with the nested slot replaced.  new_backing_sound: whatever a mutating command computes for its
   target represents the value the command specifies (cmd_effect).  cmd_on_chain: a mutating command through
   the bottom view either fails leaving the whole store untouched or updates the whole chain.
   Forests: AllGood s vs (every held view represents its tracked value), Valid s vs u (every hook from u up is
   valid now); forest_init / _get / _value / _copy / _mut keep AllGood with the tracked values evolving as
   specified; forest_mut_keeps_valid: commands that shrink nothing keep every view usable. *)
Require Import RM.Base RM.Gindex RM.Tree RM.TreeProofs RM.Types RM.Spec RM.ModelViews RM.ModelCodec RM.ModelMut RM.ModelStore
               RM.SerLen RM.FactsProofs RM.MerkleProofs RM.PackProofs RM.CtorProofs RM.PathProofs RM.CRepProofs
               RM.ListProofs RM.StoreProofs RM.SerProofs2 RM.ReprProofs RM.CtorSound RM.MutProofs RM.NodeProofs.
From Coq Require Import ZifyBool ZifyNat ZifyN.
Local Open Scope N_scope.
Section WithHash.
Variable H : bytes -> bytes -> bytes.
Variable src : bytes -> option (bytes * bytes).
Notation Repr := (Repr H).
Notation set_backing := (set_backing H src).
Notation run_cmd := (run_cmd H src).
(* ---- the element a hook addresses, and its replacement ---- *)
Definition elem_at (t : ty) (pv : val) (i : N) : option (ty * val) :=
  match t, pv with
  | TVector e _, VSeq vs | TList e _, VSeq vs =>
      match basic_size e with
      | Some _ => None
      | None => if i <? lenN vs then Some (e, nth (N.to_nat i) vs (VUint 0)) else None
      end
  | TContainer fs, VCont vs =>
      match nth_error fs (N.to_nat i), nth_error vs (N.to_nat i) with Some f, Some x => Some (f, x) | _, _ => None end
  | _, _ => None
  end.
Definition set_elem (pv : val) (i : N) (x : val) : val :=
  match pv with VSeq vs => VSeq (upd (N.to_nat i) x vs) | VCont vs => VCont (upd (N.to_nat i) x vs) | v => v end.

Lemma wf_cont_upd : forall fs vs i f x, nth_error fs i = Some f -> wf f x = true ->
  (fix go (fs : list ty) (vs : list val) : bool :=
     match fs, vs with [], [] => true | f :: fs', x :: vs' => wf f x && go fs' vs' | _, _ => false end) fs vs = true ->
  (fix go (fs : list ty) (vs : list val) : bool :=
     match fs, vs with [], [] => true | f :: fs', x :: vs' => wf f x && go fs' vs' | _, _ => false end) fs (upd i x vs) = true.
Proof.
  induction fs as [|f0 fs IH]; intros [|x0 vs] i f x Hf Hx Hg; try discriminate; try (destruct i; discriminate).
  apply andb_true_iff in Hg as [H0 Hg]. destruct i as [|i]; cbn in Hf; cbn [upd].
  - inversion Hf; subst. now rewrite Hx, Hg.
  - rewrite H0. cbn [andb]. now apply (IH vs i f x).
Qed.

Lemma Z_to_nat_of_N i : Z.to_nat (Z.of_N i) = N.to_nat i.
Proof. lia. Qed.

(* writing a represented child into its parent: the parent represents its value with that child replaced *)
Theorem parent_set t pv pn i e old x m : wf_ty t = true -> wf t pv = true -> Repr t pv pn ->
  elem_at t pv i = Some (e, old) -> wf e x = true -> Repr e x m ->
  exists pn', view_set H src t pn (Z.of_N i) m = Ok pn' /\ Repr t (set_elem pv i x) pn' /\ wf t (set_elem pv i x) = true.
Proof.
  intros Hty Hwf Hr He Hx Hm. destruct t as [k0| |bn|bl|bvn|byl|e0 nn|e0 l|fs|none0 opts]; destruct pv; cbn [elem_at] in He; try discriminate.
  - (* vector *)
    destruct (basic_size e0) eqn:Eb; [discriminate|]. destruct (i <? lenN vs) eqn:Hi; [|discriminate]. inversion He; subst e old. apply N.ltb_lt in Hi.
    pose proof Hwf as Hwf0. cbn [wf] in Hwf. apply andb_true_iff in Hwf as [Hn Hall]. apply N.eqb_eq in Hn.
    destruct (vector_set H src e0 nn vs pn (Z.of_N i) x m Eb Hr Hn ltac:(lia) Hm) as (pn' & Hs & Hr').
    rewrite Z_to_nat_of_N in *. exists pn'. split; [exact Hs|]. split; [exact Hr'|].
    cbn [set_elem wf]. unfold lenN. rewrite upd_len. apply andb_true_iff. split; [apply N.eqb_eq; exact Hn|now apply forallb_upd].
  - (* list *)
    destruct (basic_size e0) eqn:Eb; [discriminate|]. destruct (i <? lenN vs) eqn:Hi; [|discriminate]. inversion He; subst e old. apply N.ltb_lt in Hi.
    pose proof Hwf as Hwf0. cbn [wf] in Hwf. apply andb_true_iff in Hwf as [Hn Hall]. apply N.leb_le in Hn.
    destruct (list_set_any H src e0 l Hty vs pn (Z.of_N i) x m Hwf0 Hr ltac:(lia) Hx Hm) as (pn' & Hs & Hr').
    rewrite Z_to_nat_of_N in *. exists pn'. split; [exact Hs|]. split; [exact Hr'|].
    cbn [set_elem wf]. unfold lenN. rewrite upd_len. apply andb_true_iff. split; [apply N.leb_le; exact Hn|now apply forallb_upd].
  - (* container *)
    destruct (nth_error fs (N.to_nat i)) as [f|] eqn:Hf; [|discriminate]. destruct (nth_error vs (N.to_nat i)) as [y|] eqn:Hy; [|discriminate].
    inversion He; subst e old.
    assert (N.to_nat i < length fs)%nat as Hil by (apply nth_error_Some; congruence).
    destruct (container_set H src fs vs pn (Z.of_N i) x m Hr ltac:(lia)) as (pn' & Hs & Hr').
    { rewrite Z_to_nat_of_N. rewrite (nth_error_nth fs _ TBool Hf). exact Hm. }
    rewrite Z_to_nat_of_N in *. exists pn'. split; [exact Hs|]. split; [exact Hr'|].
    cbn [set_elem wf]. cbn [wf] in Hwf. now apply (wf_cont_upd fs vs _ f x Hf Hx).
Qed.

(* ---- the value of a union, addressed by Union.value()'s hook ---- *)
Definition uelem (t : ty) (pv : val) : option (ty * val) :=
  match t, pv with
  | TUnion b os, VUnion sel (Some x) =>
      if (if b then Nat.eqb sel 0 else false) then None
      else match nth_error os (if b then pred sel else sel) with Some o => Some (o, x) | None => None end
  | _, _ => None
  end.
Definition uset (pv x : val) : val := match pv with VUnion sel _ => VUnion sel (Some x) | v => v end.

Lemma pick_wf_nth os i x :
  (fix pick (os : list ty) (i : nat) : bool :=
     match os, i with o :: _, O => wf o x | _ :: os', S i' => pick os' i' | [], _ => false end) os i
  = match nth_error os i with Some o => wf o x | None => false end.
Proof. revert i. induction os as [|o os IH]; intros [|i]; cbn; auto. Qed.

Theorem union_parent_set t pv pn e old x m : wf t pv = true -> Repr t pv pn ->
  uelem t pv = Some (e, old) -> wf e x = true -> Repr e x m ->
  exists pn', setter_g H src false pn 2 m = Ok pn' /\ Repr t (uset pv x) pn' /\ wf t (uset pv x) = true.
Proof.
  intros Hwf Hr He Hx Hm. destruct t as [k0| |bn|bl|bvn|byl|e0 nn|e0 l|fs|b os]; destruct pv as [| | | | | |sel ov]; cbn [uelem] in He; try discriminate.
  destruct ov as [y|]; [|discriminate].
  destruct (if b then Nat.eqb sel 0 else false) eqn:Hb0; [discriminate|].
  destruct (nth_error os (if b then pred sel else sel)) as [o|] eqn:Hn; [|discriminate]. inversion He; subst e old.
  cbn [ReprProofs.Repr] in Hr. destruct Hr as (c & -> & Hpick).
  exists (PairN m (len_node (N.of_nat sel))). split; [reflexivity|]. split.
  - cbn [uset ReprProofs.Repr]. exists m. split; [reflexivity|]. apply pick_repr_nth. exists o. split; [exact Hn|exact Hm].
  - cbn [uset wf]. rewrite pick_wf_nth, Hn, Hx, andb_true_r. destruct b; [|reflexivity]. now rewrite Hb0.
Qed.

Lemma uelem_set t pv e old x : uelem t pv = Some (e, old) -> uelem t (uset pv x) = Some (e, x).
Proof.
  destruct t; destruct pv as [| | | | | |sel ov]; cbn [uelem uset]; try discriminate. destruct ov; [|discriminate].
  destruct (if none0 then Nat.eqb sel 0 else false); [discriminate|]. destruct (nth_error opts _); [|discriminate].
  intros E; inversion E; subst; reflexivity.
Qed.

(* the guard of a union value view's write-back (fix D15): it passes exactly while the union still holds an option of the
   view's type — in particular whenever the hook is valid in the sense of uelem *)
Lemma ty_eqb_refl : forall t, ty_eqb t t = true.
Proof.
  induction t as [k| |bn|bl|yn|yl|e n IHe|e l IHe|fs Hfs|b os Hos] using ty_ind'; cbn [ty_eqb]; try apply N.eqb_refl; try reflexivity.
  - now rewrite IHe, N.eqb_refl.
  - now rewrite IHe, N.eqb_refl.
  - induction Hfs as [|f fs' Hf Hfs' IH]; [reflexivity|]. now rewrite Hf, IH.
  - rewrite Bool.eqb_reflx. cbn [andb]. induction Hos as [|o os' Ho Hos' IH]; [reflexivity|]. now rewrite Ho, IH.
Qed.

Lemma union_guard_ok t pv pn e old : wf_ty t = true -> wf t pv = true -> Repr t pv pn -> uelem t pv = Some (e, old) ->
  union_guard H src t pn e = Ok tt.
Proof.
  intros Hty Hwf Hr He. destruct t as [k0| |bn|bl|bvn|byl|e0 nn|e0 l|fs|b os]; destruct pv as [| | | | | |sel ov]; cbn [uelem] in He; try discriminate.
  destruct ov as [y|]; [|discriminate]. destruct (if b then Nat.eqb sel 0 else false) eqn:Hb0; [discriminate|].
  destruct (nth_error os (if b then pred sel else sel)) as [o'|] eqn:Hn; [|discriminate]. inversion He; subst o' y.
  cbn [ReprProofs.Repr] in Hr. destruct Hr as (c & Hpn & _).
  assert (N.of_nat sel < lenN os + (if b then 1 else 0)) as Hsel.
  { assert ((if b then pred sel else sel) < length os)%nat as Hl by (apply nth_error_Some; congruence). unfold lenN. destruct b; [apply Nat.eqb_neq in Hb0|]; lia. }
  cbn [wf_ty] in Hty. apply andb_true_iff in Hty as [_ Hcount]. apply N.leb_le in Hcount.
  unfold union_guard, union_selector. rewrite Hpn. rewrite (mixin_len_node H src c (N.of_nat sel)) by lia. cbn [bind].
  assert ((lenN os + (if b then 1 else 0) <=? N.of_nat sel) = false) as -> by (apply N.leb_gt; exact Hsel). cbn [bind]. rewrite Nat2N.id.
  assert (union_opt b os sel = Some e) as ->.
  { unfold union_opt. destruct b; [destruct sel; [discriminate|exact Hn]|exact Hn]. }
  now rewrite ty_eqb_refl.
Qed.

(* ---- hook chains of any depth ---- *)
Inductive link := LRoot | LElem (i : N) | LUnion.
Definition good (c : cell) (v : val) : Prop := wf_ty (cty c) = true /\ wf (cty c) v = true /\ Repr (cty c) v (cback c).

(* trail: the view that is written, then its parent, then the parent's parent ...; each entry says how
   the cell hangs in the next one.  `Chain s tr`: every cell represents its value (good), every hook points
   to the next cell (with a smaller id), and the hook is VALID there: the parent's current value has a slot
   of the child's type at the hook's index (a list slot not popped away, a union still on that option).
   The slot's current content `old` is arbitrary: the parent may have been overwritten there meanwhile. *)
Inductive Chain (s : store) : list (vid * val * link) -> Prop :=
| Ch_root cid c v : nth_error s cid = Some c -> chook c = HNone -> good c v -> Chain s [(cid, v, LRoot)]
| Ch_elem cid c v p i pc pv old lk rest : nth_error s cid = Some c -> chook c = HElem p i -> good c v -> (p < cid)%nat ->
    nth_error s p = Some pc -> elem_at (cty pc) pv i = Some (cty c, old) ->
    Chain s ((p, pv, lk) :: rest) -> Chain s ((cid, v, LElem i) :: (p, pv, lk) :: rest)
| Ch_union cid c v p pc pv old lk rest : nth_error s cid = Some c -> chook c = HUnionValue p -> good c v -> (p < cid)%nat ->
    nth_error s p = Some pc -> uelem (cty pc) pv = Some (cty c, old) ->
    Chain s ((p, pv, lk) :: rest) -> Chain s ((cid, v, LUnion) :: (p, pv, lk) :: rest).

(* the values after replacing the first cell's value by x *)
Fixpoint retrail (x : val) (tr : list (vid * val * link)) : list (vid * val * link) :=
  match tr with
  | [] => []
  | (cid, v, lk) :: rest =>
      (cid, x, lk) ::
      match lk, rest with
      | LElem i, (p, pv, lk') :: _ => retrail (set_elem pv i x) rest
      | LUnion, (p, pv, lk') :: _ => retrail (uset pv x) rest
      | _, _ => rest
      end
  end.

Lemma nth_upd_same {A} (x d : A) : forall l j, (j < length l)%nat -> nth j (upd j x l) d = x.
Proof. induction l as [|h l IH]; intros [|j] Hj; cbn in *; try lia; auto. apply IH. lia. Qed.
Lemma nth_error_upd_same {A} (x y : A) : forall l j, nth_error l j = Some y -> nth_error (upd j x l) j = Some x.
Proof. induction l as [|h l IH]; intros [|j] Hj; cbn in *; try discriminate; auto. Qed.

Lemma elem_at_set t pv i e old x : elem_at t pv i = Some (e, old) -> elem_at t (set_elem pv i x) i = Some (e, x).
Proof.
  destruct t; destruct pv; cbn [elem_at set_elem]; try discriminate.
  - destruct (basic_size t); [discriminate|]. destruct (i <? lenN vs) eqn:Hi; [|discriminate]. intros E. inversion E; subst.
    unfold lenN. rewrite upd_len. fold (lenN vs). rewrite Hi. f_equal. f_equal. apply N.ltb_lt in Hi. unfold lenN in Hi.
    apply nth_upd_same. lia.
  - destruct (basic_size t); [discriminate|]. destruct (i <? lenN vs) eqn:Hi; [|discriminate]. intros E. inversion E; subst.
    unfold lenN. rewrite upd_len. fold (lenN vs). rewrite Hi. f_equal. f_equal. apply N.ltb_lt in Hi. unfold lenN in Hi.
    apply nth_upd_same. lia.
  - destruct (nth_error fs (N.to_nat i)) as [f|] eqn:Hf; [|discriminate]. destruct (nth_error vs (N.to_nat i)) as [y|] eqn:Hy; [|discriminate].
    intros E. inversion E; subst. now rewrite (nth_error_upd_same x old vs _ Hy).
Qed.
Definition shape (c : cell) := (cty c, chook c).
Definition same_shape (s s' : store) : Prop :=
  length s' = length s /\ forall u, option_map shape (nth_error s' u) = option_map shape (nth_error s u).

Lemma same_shape_refl s : same_shape s s.
Proof. split; auto. Qed.
Lemma same_shape_trans s1 s2 s3 : same_shape s1 s2 -> same_shape s2 s3 -> same_shape s1 s3.
Proof. intros [L1 H1] [L2 H2]. split; [lia|]. intros u. now rewrite H2, H1. Qed.
Lemma same_shape_upd s v c b : nth_error s v = Some c ->
  same_shape s (upd_cell s v {| cty := cty c; cback := b; chook := chook c |}).
Proof.
  intros Hc. assert (v < length s)%nat as Hv by (apply nth_error_Some; congruence).
  split; [now apply upd_cell_length|]. intros u. destruct (Nat.eq_dec u v) as [->|Hne].
  - rewrite upd_cell_same by exact Hv. rewrite Hc. reflexivity.
  - now rewrite upd_cell_other.
Qed.

(* ids along a chain strictly decrease *)
Lemma chain_ids s tr : Chain s tr -> forall cid v lk rest, tr = (cid, v, lk) :: rest ->
  Forall (fun e => (fst (fst e) < cid)%nat) rest.
Proof.
  induction 1 as [cid c v Hc Hh Hg|cid c v p i pc pv old lk rest Hc Hh Hg Hlt Hp He Hch IH|cid c v p pc pv old lk rest Hc Hh Hg Hlt Hp He Hch IH];
    intros cid' v' lk' rest' E; inversion E; subst.
  - constructor.
  - constructor; [exact Hlt|]. specialize (IH p pv lk rest eq_refl). eapply Forall_impl; [|exact IH]. cbn. intros; lia.
  - constructor; [exact Hlt|]. specialize (IH p pv lk rest eq_refl). eapply Forall_impl; [|exact IH]. cbn. intros; lia.
Qed.

(* a chain does not see cells outside it *)
Lemma chain_frame s tr : Chain s tr -> forall s', (forall e, In e tr -> nth_error s' (fst (fst e)) = nth_error s (fst (fst e))) -> Chain s' tr.
Proof.
  induction 1 as [cid c v Hc Hh Hg|cid c v p i pc pv old lk rest Hc Hh Hg Hlt Hp He Hch IH|cid c v p pc pv old lk rest Hc Hh Hg Hlt Hp He Hch IH]; intros s' Hsame.
  - apply (Ch_root s' cid c v); auto. pose proof (Hsame (cid, v, LRoot) (or_introl eq_refl)) as E0. cbn [fst] in E0. now rewrite E0.
  - apply (Ch_elem s' cid c v p i pc pv old lk rest); auto.
    + pose proof (Hsame (cid, v, LElem i) (or_introl eq_refl)) as E0. cbn [fst] in E0. now rewrite E0.
    + pose proof (Hsame (p, pv, lk) (or_intror (or_introl eq_refl))) as E0. cbn [fst] in E0. now rewrite E0.
    + apply IH. intros e Hin. apply Hsame. now right.
  - apply (Ch_union s' cid c v p pc pv old lk rest); auto.
    + pose proof (Hsame (cid, v, LUnion) (or_introl eq_refl)) as E0. cbn [fst] in E0. now rewrite E0.
    + pose proof (Hsame (p, pv, lk) (or_intror (or_introl eq_refl))) as E0. cbn [fst] in E0. now rewrite E0.
    + apply IH. intros e Hin. apply Hsame. now right.
Qed.

Lemma chain_head s cid v lk rest : Chain s ((cid, v, lk) :: rest) -> exists c, nth_error s cid = Some c /\ good c v.
Proof. intros Hch. inversion Hch; subst; eauto. Qed.

(* writing through a view at the bottom of a hook chain of ANY depth: every enclosing view then
   represents its value with the nested element replaced *)
Theorem chain_set : forall tr s, Chain s tr -> forall cid v lk rest c x nb fuel,
  tr = (cid, v, lk) :: rest -> nth_error s cid = Some c -> wf (cty c) x = true -> Repr (cty c) x nb ->
  (length tr <= S fuel)%nat ->
  exists s', set_backing fuel s cid nb = (Ok tt, s') /\ Chain s' (retrail x tr) /\ same_shape s s' /\
             (forall u, (forall e, In e tr -> fst (fst e) <> u) -> nth_error s' u = nth_error s u).
Proof.
  induction tr as [|[[cid0 v0] lk0] rest0 IH]; intros s Hch cid v lk rest c x nb fuel E Hc Hwx Hrx Hfuel; [discriminate|].
  inversion E; subst cid0 v0 lk0 rest0. clear E.
  assert (cid < length s)%nat as Hcid by (apply nth_error_Some; congruence).
  inversion Hch as [cid' c' v' Hc' Hh Hg|cid' c' v' p i pc pv old lk' rest' Hc' Hh Hg Hlt Hp He Hch'|cid' c' v' p pc pv old lk' rest' Hc' Hh Hg Hlt Hp He Hch']; subst.
  - (* no hook *)
    rewrite Hc in Hc'. inversion Hc'; subst c'.
    rewrite (set_backing_hnone H src fuel s cid nb c Hc Hh). eexists. split; [reflexivity|].
    destruct Hg as (Hty & _ & _). split; [|split].
    + cbn [retrail]. apply (Ch_root _ cid {| cty := cty c; cback := nb; chook := HNone |} x); [now apply upd_cell_same|reflexivity|].
      unfold good. cbn [cty cback]. auto.
    + rewrite <- Hh. now apply same_shape_upd.
    + intros u Hu. apply upd_cell_other; [|exact Hcid]. apply not_eq_sym. apply (Hu (cid, v, LRoot)). now left.
  - (* element hook *)
    rewrite Hc in Hc'. inversion Hc'; subst c'. destruct Hg as (Hty & Hwv & Hrv).
    destruct fuel as [|fuel]; [cbn [length] in Hfuel; lia|].
    cbn [ModelStore.set_backing]. rewrite Hc, Hh.
    set (c1 := {| cty := cty c; cback := nb; chook := HElem p i |}).
    assert (nth_error (upd_cell s cid c1) p = Some pc) as Hp1 by (rewrite upd_cell_other by lia; exact Hp).
    rewrite Hp1.
    destruct (chain_head s p pv lk' rest' Hch') as (pc0 & Hpc0 & (Hpty & Hpwf & Hprep)). rewrite Hp in Hpc0. inversion Hpc0; subst pc0.
    destruct (parent_set (cty pc) pv (cback pc) i (cty c) old x nb Hpty Hpwf Hprep He Hwx Hrx) as (pn' & Hvs & Hr' & Hwf').
    rewrite Hvs.
    (* the rest of the chain in the store with the child's cell written *)
    pose proof (chain_ids s _ Hch cid v (LElem i) _ eq_refl) as Hids.
    assert (Chain (upd_cell s cid c1) ((p, pv, lk') :: rest')) as Hch1.
    { apply (chain_frame s _ Hch'). intros e Hin. apply upd_cell_other; [|exact Hcid].
      rewrite Forall_forall in Hids. specialize (Hids e Hin). cbn beta in Hids. now apply Nat.lt_neq. }
    destruct (IH (upd_cell s cid c1) Hch1 p pv lk' rest' pc (set_elem pv i x) pn' fuel eq_refl Hp1 Hwf' Hr' ltac:(cbn [length] in *; lia))
      as (s' & Hsb & Hch2 & Hshape & Hframe).
    exists s'. split; [exact Hsb|].
    assert (nth_error s' cid = Some c1) as Hc1.
    { rewrite Hframe; [now apply upd_cell_same|]. intros e Hin. rewrite Forall_forall in Hids. specialize (Hids e Hin). cbn beta in Hids. now apply Nat.lt_neq. }
    split; [|split].
    + cbn [retrail]. destruct (chain_head s' p (set_elem pv i x) lk' _ Hch2) as (pc2 & Hpc2 & Hg2).
      assert (cty pc2 = cty pc) as Ety.
      { destruct Hshape as [_ Hsh]. specialize (Hsh p). rewrite Hpc2, Hp1 in Hsh. cbn in Hsh. now inversion Hsh. }
      apply (Ch_elem s' cid c1 x p i pc2 (set_elem pv i x) x lk'); auto.
      * unfold good, c1. cbn [cty cback]. auto.
      * rewrite Ety. apply (elem_at_set _ _ _ _ old). exact He.
    + apply (same_shape_trans _ (upd_cell s cid c1)); [|exact Hshape]. unfold c1. rewrite <- Hh. now apply same_shape_upd.
    + intros u Hu. rewrite Hframe by (intros e Hin; apply Hu; now right). apply upd_cell_other; [|exact Hcid].
      apply not_eq_sym. apply (Hu (cid, v, LElem i)). now left.
  - (* union value hook *)
    rewrite Hc in Hc'. inversion Hc'; subst c'. destruct Hg as (Hty & Hwv & Hrv).
    destruct fuel as [|fuel]; [cbn [length] in Hfuel; lia|].
    cbn [ModelStore.set_backing]. rewrite Hc, Hh.
    set (c1 := {| cty := cty c; cback := nb; chook := HUnionValue p |}).
    assert (nth_error (upd_cell s cid c1) p = Some pc) as Hp1 by (rewrite upd_cell_other by lia; exact Hp).
    rewrite Hp1.
    destruct (chain_head s p pv lk' rest' Hch') as (pc0 & Hpc0 & (Hpty & Hpwf & Hprep)). rewrite Hp in Hpc0. inversion Hpc0; subst pc0.
    destruct (union_parent_set (cty pc) pv (cback pc) (cty c) old x nb Hpwf Hprep He Hwx Hrx) as (pn' & Hvs & Hr' & Hwf').
    rewrite (union_guard_ok (cty pc) pv (cback pc) (cty c) old Hpty Hpwf Hprep He). cbn [bind]. rewrite Hvs.
    (* the rest of the chain in the store with the child's cell written *)
    pose proof (chain_ids s _ Hch cid v LUnion _ eq_refl) as Hids.
    assert (Chain (upd_cell s cid c1) ((p, pv, lk') :: rest')) as Hch1.
    { apply (chain_frame s _ Hch'). intros e Hin. apply upd_cell_other; [|exact Hcid].
      rewrite Forall_forall in Hids. specialize (Hids e Hin). cbn beta in Hids. now apply Nat.lt_neq. }
    destruct (IH (upd_cell s cid c1) Hch1 p pv lk' rest' pc (uset pv x) pn' fuel eq_refl Hp1 Hwf' Hr' ltac:(cbn [length] in *; lia))
      as (s' & Hsb & Hch2 & Hshape & Hframe).
    exists s'. split; [exact Hsb|].
    assert (nth_error s' cid = Some c1) as Hc1.
    { rewrite Hframe; [now apply upd_cell_same|]. intros e Hin. rewrite Forall_forall in Hids. specialize (Hids e Hin). cbn beta in Hids. now apply Nat.lt_neq. }
    split; [|split].
    + cbn [retrail]. destruct (chain_head s' p (uset pv x) lk' _ Hch2) as (pc2 & Hpc2 & Hg2).
      assert (cty pc2 = cty pc) as Ety.
      { destruct Hshape as [_ Hsh]. specialize (Hsh p). rewrite Hpc2, Hp1 in Hsh. cbn in Hsh. now inversion Hsh. }
      apply (Ch_union s' cid c1 x p pc2 (uset pv x) x lk'); auto.
      * unfold good, c1. cbn [cty cback]. auto.
      * rewrite Ety. apply (uelem_set _ _ _ old). exact He.
    + apply (same_shape_trans _ (upd_cell s cid c1)); [|exact Hshape]. unfold c1. rewrite <- Hh. now apply same_shape_upd.
    + intros u Hu. rewrite Hframe by (intros e Hin; apply Hu; now right). apply upd_cell_other; [|exact Hcid].
      apply not_eq_sym. apply (Hu (cid, v, LUnion)). now left.
Qed.
(* ---- obtaining a child view extends the chain ---- *)
Definition hooked (e : ty) : bool :=
  match e with TUint _ | TBool | TByteVector _ | TByteList _ => false | _ => true end.

Lemma parent_get t pv pn i e old : wf_ty t = true -> wf t pv = true -> Repr t pv pn ->
  elem_at t pv i = Some (e, old) ->
  (match t with TBitvector _ | TBitlist _ => False | _ => True end) /\
  check_index H src t pn (Z.of_N i) = Ok i /\ elem_ty t i = Ok e /\
  exists m, sub_get H src t pn i = Ok m /\ Repr e old m.
Proof.
  intros Hty Hwf Hr He. destruct t as [k0| |bn|bl|bvn|byl|e0 nn|e0 l|fs|none0 opts]; destruct pv; cbn [elem_at] in He; try discriminate.
  - (* vector *)
    destruct (basic_size e0) eqn:Eb; [discriminate|]. destruct (i <? lenN vs) eqn:Hi; [|discriminate]. inversion He; subst e old. apply N.ltb_lt in Hi.
    cbn [wf] in Hwf. apply andb_true_iff in Hwf as [Hn Hall]. apply N.eqb_eq in Hn.
    cbn [ReprProofs.Repr] in Hr. rewrite Eb in Hr. destruct Hr as (ns & Hcr & HF).
    destruct (Forall2_nth_repr H e0 vs ns (N.to_nat i) HF ltac:(unfold lenN in *; lia)) as [Hri Hl].
    split; [exact I|]. unfold check_index. cbn [view_len bind].
    assert (((Z.of_N i <? 0)%Z || (Z.of_N nn <=? Z.of_N i)%Z) = false) as -> by lia. rewrite N2Z.id.
    split; [reflexivity|]. split; [reflexivity|]. unfold sub_get. cbn [elem_ty bind]. rewrite Eb.
    assert (tree_depth (TVector e0 nn) = contents_depth (TVector e0 nn)) as -> by reflexivity.
    rewrite (getter_i_crep H src _ _ _ i (RootN zero32) Hcr) by (unfold lenN in *; lia). eauto.
  - (* list *)
    destruct (basic_size e0) eqn:Eb; [discriminate|]. destruct (i <? lenN vs) eqn:Hi; [|discriminate]. inversion He; subst e old. apply N.ltb_lt in Hi.
    cbn [wf] in Hwf. apply andb_true_iff in Hwf as [Hn Hall]. apply N.leb_le in Hn.
    cbn [wf_ty] in Hty. apply andb_true_iff in Hty as [Hte Hlb]. apply N.ltb_lt in Hlb. unfold LIMIT_BOUND in Hlb.
    cbn [ReprProofs.Repr] in Hr. destruct Hr as (c & -> & Hr). rewrite Eb in Hr. destruct Hr as (ns & Hcr & HF).
    destruct (Forall2_nth_repr H e0 vs ns (N.to_nat i) HF ltac:(unfold lenN in *; lia)) as [Hri Hl].
    split; [exact I|]. unfold check_index. cbn [view_len]. rewrite (mixin_len_node H src c (lenN vs)) by lia. cbn [bind].
    assert (((Z.of_N i <? 0)%Z || (Z.of_N (lenN vs) <=? Z.of_N i)%Z) = false) as -> by lia. rewrite N2Z.id.
    split; [reflexivity|]. split; [reflexivity|]. unfold sub_get. cbn [elem_ty bind]. rewrite Eb.
    assert (tree_depth (TList e0 l) = S (contents_depth (TList e0 l))) as -> by reflexivity.
    rewrite (getter_i_crep_list H src _ _ _ _ i (RootN zero32) Hcr) by (unfold lenN in *; lia). eauto.
  - (* container *)
    destruct (nth_error fs (N.to_nat i)) as [f|] eqn:Hf; [|discriminate]. destruct (nth_error vs (N.to_nat i)) as [y|] eqn:Hy; [|discriminate].
    inversion He; subst e old.
    assert (N.to_nat i < length fs)%nat as Hil by (apply nth_error_Some; congruence).
    cbn [ReprProofs.Repr] in Hr. destruct Hr as (ns & Hcr & Hg).
    destruct (go_repr_nth H fs vs ns _ f y Hg Hf Hy) as [Hri Hl].
    split; [exact I|]. unfold check_index.
    assert (((Z.of_N i <? 0)%Z || (Z.of_N (lenN fs) <=? Z.of_N i)%Z) = false) as -> by (unfold lenN; lia). rewrite N2Z.id.
    split; [reflexivity|]. cbn [elem_ty]. rewrite Hf. split; [reflexivity|]. unfold sub_get. cbn [elem_ty]. rewrite Hf. cbn [bind].
    assert (tree_depth (TContainer fs) = contents_depth (TContainer fs)) as -> by reflexivity.
    rewrite (getter_i_crep H src _ _ _ i (RootN zero32) Hcr) by (unfold lenN in *; lia). eauto.
Qed.

Lemma normalise_hooked e nd : hooked e = true -> normalise_child H src e nd = Ok nd.
Proof. destruct e; cbn; try discriminate; reflexivity. Qed.

Lemma elem_at_wf t pv i e old : wf_ty t = true -> wf t pv = true -> elem_at t pv i = Some (e, old) -> wf_ty e = true /\ wf e old = true.
Proof.
  intros Hty Hwf He. destruct t as [k0| |bn|bl|bvn|byl|e0 nn|e0 l|fs|none0 opts]; destruct pv; cbn [elem_at] in He; try discriminate.
  - destruct (basic_size e0); [discriminate|]. destruct (i <? lenN vs) eqn:Hi; [|discriminate]. inversion He; subst. apply N.ltb_lt in Hi.
    cbn [wf_ty] in Hty. apply andb_true_iff in Hty as [Hty _]. apply andb_true_iff in Hty as [Hte _].
    cbn [wf] in Hwf. apply andb_true_iff in Hwf as [_ Hall]. rewrite forallb_forall in Hall. split; [exact Hte|]. apply Hall. apply nth_In. unfold lenN in Hi. lia.
  - destruct (basic_size e0); [discriminate|]. destruct (i <? lenN vs) eqn:Hi; [|discriminate]. inversion He; subst. apply N.ltb_lt in Hi.
    cbn [wf_ty] in Hty. apply andb_true_iff in Hty as [Hte _].
    cbn [wf] in Hwf. apply andb_true_iff in Hwf as [_ Hall]. rewrite forallb_forall in Hall. split; [exact Hte|]. apply Hall. apply nth_In. unfold lenN in Hi. lia.
  - destruct (nth_error fs (N.to_nat i)) as [f|] eqn:Hf; [|discriminate]. destruct (nth_error vs (N.to_nat i)) as [y|] eqn:Hy; [|discriminate].
    inversion He; subst. cbn [wf_ty] in Hty. apply andb_true_iff in Hty as [_ Htys]. rewrite forallb_forall in Htys.
    split; [apply Htys; eapply nth_error_In; eauto|].
    cbn [wf] in Hwf. clear -Hwf Hf Hy. revert vs Hwf Hf Hy. generalize (N.to_nat i) as j. induction fs as [|f0 fs IH]; intros j vs Hwf Hf Hy; [destruct j; discriminate|].
    destruct vs as [|x0 vs]; [discriminate|]. apply andb_true_iff in Hwf as [H0 Hwf]. destruct j as [|j]; cbn in Hf, Hy.
    + inversion Hf; inversion Hy; subst. exact H0.
    + now apply (IH j vs).
Qed.

(* v[i] / v.field on the bottom view of a chain: a new cell whose hook addresses slot i, one more chain link *)
Theorem chain_get s p pv lk rest pc i e old : Chain s ((p, pv, lk) :: rest) -> nth_error s p = Some pc ->
  elem_at (cty pc) pv i = Some (e, old) -> hooked e = true ->
  exists m, run_cmd s (CGet p (Z.of_N i)) = (Ok tt, s ++ [{| cty := e; cback := m; chook := HElem p i |}]) /\
            Chain (s ++ [{| cty := e; cback := m; chook := HElem p i |}]) ((length s, old, LElem i) :: (p, pv, lk) :: rest).
Proof.
  intros Hch Hp He Hk. destruct (chain_head s p pv lk rest Hch) as (pc0 & Hpc0 & (Hpty & Hpwf & Hprep)). rewrite Hp in Hpc0. inversion Hpc0; subst pc0.
  destruct (parent_get (cty pc) pv (cback pc) i e old Hpty Hpwf Hprep He) as (Hnb & Hci & Het & m & Hsg & Hrm).
  destruct (elem_at_wf _ _ _ _ _ Hpty Hpwf He) as [Hte Hwo].
  exists m. assert (p < length s)%nat as Hpl by (apply nth_error_Some; congruence). split.
  - cbn [ModelStore.run_cmd]. cbv zeta. rewrite Hp.
    destruct (cty pc) eqn:Ect; try contradiction; rewrite Hci, Het, Hsg; cbn [bind]; rewrite (normalise_hooked e m Hk);
      destruct e; try discriminate; reflexivity.
  - set (cc := {| cty := e; cback := m; chook := HElem p i |}).
    apply (Ch_elem _ (length s) cc old p i pc pv old lk rest); auto.
    + rewrite nth_error_app2 by lia. now rewrite Nat.sub_diag.
    + unfold good, cc. cbn [cty cback]. auto.
    + rewrite nth_error_app1 by lia. exact Hp.
    + apply (chain_frame s _ Hch). intros x Hin. rewrite nth_error_app1; [reflexivity|].
      destruct Hin as [<-|Hin]; [exact Hpl|]. pose proof (chain_ids s _ Hch p pv lk rest eq_refl) as Hids.
      rewrite Forall_forall in Hids. specialize (Hids x Hin). cbn beta in Hids. eapply Nat.lt_trans; [exact Hids|exact Hpl].
Qed.

Lemma uelem_wf t pv e old : wf_ty t = true -> wf t pv = true -> uelem t pv = Some (e, old) -> wf_ty e = true /\ wf e old = true.
Proof.
  intros Hty Hwf He. destruct t as [k0| |bn|bl|bvn|byl|e0 nn|e0 l|fs|b os]; destruct pv as [| | | | | |sel ov]; cbn [uelem] in He; try discriminate.
  destruct ov as [y|]; [|discriminate]. destruct (if b then Nat.eqb sel 0 else false) eqn:Hb0; [discriminate|].
  destruct (nth_error os (if b then pred sel else sel)) as [o|] eqn:Hn; [|discriminate]. inversion He; subst e old.
  cbn [wf_ty] in Hty. apply andb_true_iff in Hty as [Hty _]. apply andb_true_iff in Hty as [Htys _]. rewrite forallb_forall in Htys.
  split; [apply Htys; eapply nth_error_In; eauto|].
  cbn [wf] in Hwf. apply andb_true_iff in Hwf as [_ Hp]. rewrite pick_wf_nth, Hn in Hp. exact Hp.
Qed.

(* u.value() on the bottom view of a chain: a new cell hooked to the union's value slot *)
Theorem chain_value s p pv lk rest pc o old : Chain s ((p, pv, lk) :: rest) -> nth_error s p = Some pc ->
  uelem (cty pc) pv = Some (o, old) -> hooked o = true ->
  exists m, run_cmd s (CValue p) = (Ok tt, s ++ [{| cty := o; cback := m; chook := HUnionValue p |}]) /\
            Chain (s ++ [{| cty := o; cback := m; chook := HUnionValue p |}]) ((length s, old, LUnion) :: (p, pv, lk) :: rest).
Proof.
  intros Hch Hp He Hk. destruct (chain_head s p pv lk rest Hch) as (pc0 & Hpc0 & (Hpty & Hpwf & Hprep)). rewrite Hp in Hpc0. inversion Hpc0; subst pc0.
  destruct (uelem_wf _ _ _ _ Hpty Hpwf He) as [Hto Hwo].
  assert (p < length s)%nat as Hpl by (apply nth_error_Some; congruence).
  destruct (cty pc) as [k0| |bn|bl|bvn|byl|e0 nn|e0 l|fs|b os] eqn:Ect; destruct pv as [| | | | | |sel ov]; cbn [uelem] in He; try discriminate.
  destruct ov as [y|]; [|discriminate]. destruct (if b then Nat.eqb sel 0 else false) eqn:Hb0; [discriminate|].
  destruct (nth_error os (if b then pred sel else sel)) as [o'|] eqn:Hn; [|discriminate]. inversion He; subst o' y.
  cbn [ReprProofs.Repr] in Hprep. destruct Hprep as (c & Hpn & Hpick). apply pick_repr_nth in Hpick. destruct Hpick as (o2 & Hn2 & Hro). rewrite Hn in Hn2. inversion Hn2; subst o2.
  assert (N.of_nat sel < lenN os + (if b then 1 else 0)) as Hsel.
  { assert ((if b then pred sel else sel) < length os)%nat as Hl by (apply nth_error_Some; congruence). unfold lenN. destruct b; [apply Nat.eqb_neq in Hb0|]; lia. }
  cbn [wf_ty] in Hpty. apply andb_true_iff in Hpty as [Hpty' Hcount]. apply N.leb_le in Hcount.
  exists c. split.
  - cbn [ModelStore.run_cmd]. cbv zeta. rewrite Hp, Ect. unfold union_value, union_selector. rewrite Hpn. cbn [get_left children bind].
    rewrite (mixin_len_node H src c (N.of_nat sel)) by lia. cbn [bind].
    assert ((lenN os + (if b then 1 else 0) <=? N.of_nat sel) = false) as -> by (apply N.leb_gt; exact Hsel). cbn [bind]. rewrite Nat2N.id.
    assert (union_opt b os sel = Some o) as ->.
    { unfold union_opt. destruct b; [destruct sel; [discriminate|exact Hn]|exact Hn]. }
    rewrite (normalise_hooked o c Hk). destruct o; try discriminate; reflexivity.
  - set (cc := {| cty := o; cback := c; chook := HUnionValue p |}).
    apply (Ch_union _ (length s) cc old p pc (VUnion sel (Some old)) old lk rest); auto.
    + rewrite nth_error_app2 by lia. now rewrite Nat.sub_diag.
    + unfold good, cc. cbn [cty cback]. auto.
    + rewrite nth_error_app1 by lia. exact Hp.
    + rewrite Ect. cbn [uelem]. now rewrite Hb0, Hn.
    + apply (chain_frame s _ Hch). intros x Hin. rewrite nth_error_app1; [reflexivity|].
      destruct Hin as [<-|Hin]; [exact Hpl|]. pose proof (chain_ids s _ Hch p _ lk rest eq_refl) as Hids.
      rewrite Forall_forall in Hids. specialize (Hids x Hin). cbn beta in Hids. eapply Nat.lt_trans; [exact Hids|exact Hpl].
Qed.

(* a top-level view (no hook) that represents its value is a chain of length one *)
Lemma chain_root_cell s cid c v : nth_error s cid = Some c -> chook c = HNone -> good c v -> Chain s [(cid, v, LRoot)].
Proof. intros; eapply Ch_root; eauto. Qed.

(* every cell of a chain represents the trail's value: root and encoding are those of the value *)
Theorem chain_observe s tr : Chain s tr -> forall u w lk, In (u, w, lk) tr ->
  exists c, nth_error s u = Some c /\ wf (cty c) w = true /\ Repr (cty c) w (cback c) /\
            root H (cback c) = htr H (cty c) w /\ ser_ok H src (cty c) w (cback c).
Proof.
  assert (forall c w, good c w -> wf (cty c) w = true /\ Repr (cty c) w (cback c) /\
            root H (cback c) = htr H (cty c) w /\ ser_ok H src (cty c) w (cback c)) as Hgood.
  { intros c w (Hty & Hwf & Hr). split; [exact Hwf|]. split; [exact Hr|]. split; [now apply (Repr_root H)|now apply Repr_ser]. }
  induction 1 as [cid c v Hc Hh Hg|cid c v p i pc pv old lk rest Hc Hh Hg Hlt Hp He Hch IH|cid c v p pc pv old lk rest Hc Hh Hg Hlt Hp He Hch IH];
    intros u w lk0 Hin.
  - destruct Hin as [E|[]]. inversion E; subst. exists c. split; [exact Hc|now apply Hgood].
  - destruct Hin as [E|Hin]; [inversion E; subst; exists c; split; [exact Hc|now apply Hgood]|now apply (IH u w lk0)].
  - destruct Hin as [E|Hin]; [inversion E; subst; exists c; split; [exact Hc|now apply Hgood]|now apply (IH u w lk0)].
Qed.

(* the length of a chain is bounded by the store (ids strictly decrease) *)
Lemma chain_len s tr : Chain s tr -> forall cid v lk rest, tr = (cid, v, lk) :: rest -> (length tr <= S cid)%nat.
Proof.
  induction 1 as [cid c v Hc Hh Hg|cid c v p i pc pv old lk rest Hc Hh Hg Hlt Hp He Hch IH|cid c v p pc pv old lk rest Hc Hh Hg Hlt Hp He Hch IH];
    intros cid' v' lk' rest' E; inversion E; subst; cbn [length].
  - lia.
  - specialize (IH p pv lk rest eq_refl). cbn [length] in IH. lia.
  - specialize (IH p pv lk rest eq_refl). cbn [length] in IH. lia.
Qed.

(* ---- every mutating command, through the bottom view of a chain ---- *)
Definition new_backing (c : cell) (cm : cmd) : result node :=
  match cm with
  | CSet _ i a =>
      match cty c with
      | TBitvector _ | TBitlist _ => Err EType
      | _ => do k <- check_index H src (cty c) (cback c) i;
             do e <- elem_ty (cty c) k; do x <- coerce_arg H e a; sub_set H src (cty c) (cback c) k x
      end
  | CAppend _ a =>
      match cty c with
      | TList e limit =>
          do ll <- mixin_value H src (cback c);
          if limit <=? ll then Err EOther else do x <- coerce_arg H e a; list_append H src (cty c) (cback c) x
      | TBitlist _ => match a with AVal (VBool b) => bitlist_append H src (cty c) (cback c) b | _ => Err EType end
      | _ => Err EAttr
      end
  | CPop _ =>
      match cty c with
      | TList _ _ => list_pop H src (cty c) (cback c)
      | TBitlist _ => bitlist_pop H src (cty c) (cback c)
      | _ => Err EAttr
      end
  | CBitSet _ i a => match a with AVal (VBool b) => bits_set H src (cty c) (cback c) i b | _ => Err EType end
  | CChange _ sel a =>
      match cty c with
      | TUnion none0 opts =>
          if (sel <? 0)%Z then Err EValue
          else if (Z.of_N (lenN opts + (if none0 then 1 else 0)) <=? sel)%Z then Err EKey
          else match union_opt none0 opts (Z.to_nat sel), a with
               | None, ANone => union_change H (cty c) sel None
               | Some o, ANone => Err EType
               | None, _ => Err EType
               | Some o, _ => do x <- coerce_arg H o a; union_change H (cty c) sel (Some x)
               end
      | _ => Err EAttr
      end
  | _ => Err EOther
  end.
Definition mutating (cm : cmd) : bool := match cm with CGet _ _ | CValue _ | CCopy _ => false | _ => true end.

Ltac destruct_inner' x :=
  lazymatch x with
  | context [match ?y with _ => _ end] => destruct_inner' y
  | _ => destruct x
  end.

Lemma run_cmd_mut s cm c : nth_error s (target cm) = Some c -> mutating cm = true ->
  run_cmd s cm = match new_backing c cm with Err e => (Err e, s) | Ok nb => set_backing (length s) s (target cm) nb end.
Proof.
  intros Hc Hm. destruct cm; try discriminate; cbn [target] in Hc; cbn [ModelStore.run_cmd new_backing]; cbv zeta; rewrite Hc;
    unfold bind; repeat first [ reflexivity | match goal with |- context [match ?x with _ => _ end] => destruct_inner' x end ].
Qed.


(* the value a command argument denotes for element type e, and the specified effect of a command on a value *)
Definition arg_val (e : ty) (a : arg) : option val :=
  match a with
  | AVal v => Some (canon e v)
  | AUintOther w n => match e with TUint k => if w =? k then Some (VUint n) else None | _ => None end
  | ANone => None
  end.
Definition cmd_effect (t : ty) (v : val) (cm : cmd) : option val :=
  match cm with
  | CSet _ i a =>
      match t, v with
      | TVector e _, VSeq vs | TList e _, VSeq vs => option_map (fun w => VSeq (upd (Z.to_nat i) w vs)) (arg_val e a)
      | TContainer fs, VCont vs =>
          match nth_error fs (Z.to_nat i) with
          | Some f => option_map (fun w => VCont (upd (Z.to_nat i) w vs)) (arg_val f a)
          | None => None
          end
      | _, _ => None
      end
  | CAppend _ a =>
      match t, v with
      | TList e _, VSeq vs => option_map (fun w => VSeq (vs ++ [w])) (arg_val e a)
      | TBitlist _, VBits bs => match a with AVal (VBool b) => Some (VBits (bs ++ [b])) | _ => None end
      | _, _ => None
      end
  | CPop _ =>
      match t, v with
      | TList _ _, VSeq vs => Some (VSeq (removelast vs))
      | TBitlist _, VBits bs => Some (VBits (removelast bs))
      | _, _ => None
      end
  | CBitSet _ i a =>
      match v, a with VBits bs, AVal (VBool b) => Some (VBits (upd (Z.to_nat i) b bs)) | _, _ => None end
  | CChange _ sel a =>
      match t with
      | TUnion b os =>
          match union_opt b os (Z.to_nat sel) with
          | Some o => option_map (fun w => VUnion (Z.to_nat sel) (Some w)) (arg_val o a)
          | None => Some (VUnion 0 None)
          end
      | _ => None
      end
  | _ => None
  end.

Lemma coerce_sound e a x : wf_ty e = true -> coerce_arg H e a = Ok x -> exists w, arg_val e a = Some w /\ wf e w = true /\ Repr e w x.
Proof.
  intros Hte Hc. destruct a as [v|w n|]; cbn [coerce_arg] in Hc; [| |discriminate].
  - destruct (mk_sound_repr H e v x Hte Hc) as [Hw Hr]. cbn [arg_val]. eauto.
  - destruct e; try discriminate. cbn [arg_val]. destruct (w =? nbytes); [|discriminate].
    destruct (mk_sound_repr H _ _ x Hte Hc) as [Hw Hr]. cbn [canon] in *. eauto.
Qed.

Lemma wf_seq_upd (P : val -> bool) vs i x : forallb P vs = true -> P x = true -> forallb P (upd i x vs) = true.
Proof. intros. now apply forallb_upd. Qed.

Lemma set_sound c v i a nb : good c v ->
  new_backing c (CSet 0%nat i a) = Ok nb -> exists x, cmd_effect (cty c) v (CSet 0%nat i a) = Some x /\ wf (cty c) x = true /\ Repr (cty c) x nb.
Proof.
  intros (Hty & Hwf & Hr) Hnb. cbn [new_backing] in Hnb.
  destruct (cty c) as [k0| |bn|bl|bvn|byl|e0 nn|e0 l|fs|none0 opts] eqn:Ect; try discriminate;
    try (unfold check_index in Hnb; cbn [view_len bind] in Hnb; discriminate).
  - (* bytevector: an index check may pass, but there is no element type *)
    destruct (check_index H src (TByteVector bvn) (cback c) i); cbn [bind elem_ty] in Hnb; discriminate.
  - destruct (check_index H src (TByteList byl) (cback c) i); cbn [bind elem_ty] in Hnb; discriminate.
  - (* vector *)
    destruct v as [| | | |vs| |]; try (cbn [wf] in Hwf; discriminate).
    unfold check_index in Hnb. cbn [view_len bind] in Hnb.
    destruct ((i <? 0)%Z || (Z.of_N nn <=? i)%Z) eqn:Hi; [discriminate|]. cbn [bind elem_ty] in Hnb.
    destruct (coerce_arg H e0 a) as [xn|] eqn:Hco; [|discriminate]. cbn [bind] in Hnb.
    pose proof Hty as Hty0. cbn [wf_ty] in Hty. apply andb_true_iff in Hty as [Hty' _]. apply andb_true_iff in Hty' as [Hte _].
    destruct (coerce_sound e0 a xn Hte Hco) as (w & Haw & Hww & Hrw).
    pose proof Hwf as Hwf0. cbn [wf] in Hwf. apply andb_true_iff in Hwf as [Hn Hall]. apply N.eqb_eq in Hn.
    assert (exists n', view_set H src (TVector e0 nn) (cback c) i xn = Ok n' /\ Repr (TVector e0 nn) (VSeq (upd (Z.to_nat i) w vs)) n') as (n' & Hvs & Hr').
    { destruct (basic_size e0) as [sz|] eqn:Eb.
      - apply (packed_vector_set H src e0 nn sz vs (cback c) i w xn Hty0 Eb Hwf0 Hr ltac:(lia) Hww Hrw).
      - apply (vector_set H src e0 nn vs (cback c) i w xn Eb Hr Hn ltac:(lia) Hrw). }
    unfold view_set, check_index in Hvs. cbn [view_len bind] in Hvs. rewrite Hi in Hvs. cbn [bind] in Hvs. rewrite Hvs in Hnb. inversion Hnb; subst n'.
    exists (VSeq (upd (Z.to_nat i) w vs)). split; [cbn [cmd_effect]; rewrite Haw; reflexivity|]. split; [|exact Hr']. cbn [wf]. unfold lenN. rewrite upd_len. fold (lenN vs).
    apply andb_true_iff. split; [now apply N.eqb_eq|now apply forallb_upd].
  - (* list *)
    destruct v as [| | | |vs| |]; try (cbn [wf] in Hwf; discriminate).
    pose proof Hty as Hty0. cbn [wf_ty] in Hty. apply andb_true_iff in Hty as [Hte Hlb]. apply N.ltb_lt in Hlb. unfold LIMIT_BOUND in Hlb.
    pose proof Hwf as Hwf0. cbn [wf] in Hwf. apply andb_true_iff in Hwf as [Hn Hall]. apply N.leb_le in Hn.
    pose proof Hr as Hr0. cbn [ReprProofs.Repr] in Hr. destruct Hr as (cc & Ecb & _).
    unfold check_index in Hnb. cbn [view_len] in Hnb. rewrite Ecb in Hnb. rewrite (mixin_len_node H src cc (lenN vs)) in Hnb by lia. cbn [bind] in Hnb.
    destruct ((i <? 0)%Z || (Z.of_N (lenN vs) <=? i)%Z) eqn:Hi; [discriminate|]. cbn [bind elem_ty] in Hnb.
    destruct (coerce_arg H e0 a) as [xn|] eqn:Hco; [|discriminate]. cbn [bind] in Hnb.
    destruct (coerce_sound e0 a xn Hte Hco) as (w & Haw & Hww & Hrw).
    destruct (list_set_any H src e0 l Hty0 vs (cback c) i w xn Hwf0 Hr0 ltac:(lia) Hww Hrw) as (n' & Hvs & Hr').
    unfold view_set, check_index in Hvs. cbn [view_len] in Hvs. rewrite Ecb in Hvs. rewrite (mixin_len_node H src cc (lenN vs)) in Hvs by lia.
    cbn [bind] in Hvs. rewrite Hi in Hvs. cbn [bind] in Hvs. rewrite Hvs in Hnb. inversion Hnb; subst n'.
    exists (VSeq (upd (Z.to_nat i) w vs)). split; [cbn [cmd_effect]; rewrite Haw; reflexivity|]. split; [|exact Hr']. cbn [wf]. unfold lenN. rewrite upd_len. fold (lenN vs).
    apply andb_true_iff. split; [now apply N.leb_le|now apply forallb_upd].
  - (* container *)
    destruct v as [| | | | |vs|]; try (cbn [wf] in Hwf; discriminate).
    unfold check_index in Hnb. destruct ((i <? 0)%Z || (Z.of_N (lenN fs) <=? i)%Z) eqn:Hi; [discriminate|]. cbn [bind elem_ty] in Hnb.
    destruct (nth_error fs (N.to_nat (Z.to_N i))) as [f|] eqn:Hf; [|discriminate]. cbn [bind] in Hnb.
    destruct (coerce_arg H f a) as [xn|] eqn:Hco; [|discriminate]. cbn [bind] in Hnb.
    assert (wf_ty f = true) as Htf.
    { cbn [wf_ty] in Hty. apply andb_true_iff in Hty as [_ Htys]. rewrite forallb_forall in Htys. apply Htys. eapply nth_error_In; eauto. }
    destruct (coerce_sound f a xn Htf Hco) as (w & Haw & Hww & Hrw).
    replace (N.to_nat (Z.to_N i)) with (Z.to_nat i) in Hf by lia.
    destruct (container_set H src fs vs (cback c) i w xn Hr ltac:(unfold lenN in *; lia)) as (n' & Hvs & Hr').
    { rewrite (nth_error_nth fs _ TBool Hf). exact Hrw. }
    unfold view_set, check_index in Hvs. rewrite Hi in Hvs. cbn [bind] in Hvs. rewrite Hvs in Hnb. inversion Hnb; subst n'.
    exists (VCont (upd (Z.to_nat i) w vs)). split; [cbn [cmd_effect]; rewrite Hf, Haw; reflexivity|]. split; [|exact Hr']. cbn [wf]. cbn [wf] in Hwf. now apply (wf_cont_upd fs vs _ f w Hf Hww).
Qed.

Lemma forallb_app_one (P : val -> bool) vs x : forallb P vs = true -> P x = true -> forallb P (vs ++ [x]) = true.
Proof. intros Ha Hx. rewrite forallb_app, Ha. cbn. now rewrite Hx. Qed.
Lemma forallb_removelast {A} (P : A -> bool) (l : list A) : forallb P l = true -> forallb P (removelast l) = true.
Proof.
  induction l as [|a l IH]; [auto|]. intros Ha. cbn [forallb] in Ha. apply andb_true_iff in Ha as [H0 Ha].
  destruct l as [|b l]; [reflexivity|]. cbn [removelast forallb]. rewrite H0. cbn [andb]. now apply IH.
Qed.
Lemma removelast_lenN {A} (l : list A) : l <> [] -> lenN (removelast l) = lenN l - 1.
Proof.
  intros Hne. destruct (nil_or_last l) as [->|(l' & a & ->)]; [contradiction|]. rewrite removelast_last. unfold lenN. rewrite app_length. cbn. lia.
Qed.

Lemma append_sound c v a nb : good c v ->
  new_backing c (CAppend 0%nat a) = Ok nb -> exists x, cmd_effect (cty c) v (CAppend 0%nat a) = Some x /\ wf (cty c) x = true /\ Repr (cty c) x nb.
Proof.
  intros (Hty & Hwf & Hr) Hnb. cbn [new_backing] in Hnb.
  destruct (cty c) as [k0| |bn|bl|bvn|byl|e0 nn|e0 l|fs|none0 opts] eqn:Ect; try discriminate.
  - (* bitlist *)
    destruct a as [[| b | | | | |]| |]; try discriminate.
    destruct v as [| |bs| | | |]; try (cbn [wf] in Hwf; discriminate).
    pose proof Hwf as Hwf0. cbn [wf] in Hwf. apply N.leb_le in Hwf.
    pose proof Hty as Hty0. cbn [wf_ty] in Hty. apply N.ltb_lt in Hty. unfold LIMIT_BOUND in Hty.
    pose proof Hr as Hr0. cbn [ReprProofs.Repr val_len] in Hr. destruct Hr as (cc & Ecb & _).
    destruct (bl <=? lenN bs) eqn:Hfull.
    + exfalso. unfold bitlist_append in Hnb. rewrite Ecb in Hnb. rewrite (mixin_len_node H src cc (lenN bs)) in Hnb by lia. cbn [bind] in Hnb.
      rewrite Hfull in Hnb. discriminate.
    + apply N.leb_gt in Hfull.
      destruct (bitlist_append_repr H src bl bs (cback c) b Hty0 Hwf0 Hr0 Hfull) as (n' & Ha & Hr'). rewrite Ha in Hnb. inversion Hnb; subst n'.
      exists (VBits (bs ++ [b])). split; [reflexivity|]. split; [|exact Hr']. cbn [wf]. apply N.leb_le. rewrite lenN_app. unfold lenN at 2. cbn. lia.
  - (* list *)
    destruct v as [| | | |vs| |]; try (cbn [wf] in Hwf; discriminate).
    pose proof Hty as Hty0. cbn [wf_ty] in Hty. apply andb_true_iff in Hty as [Hte Hlb]. apply N.ltb_lt in Hlb. unfold LIMIT_BOUND in Hlb.
    pose proof Hwf as Hwf0. cbn [wf] in Hwf. apply andb_true_iff in Hwf as [Hn Hall]. apply N.leb_le in Hn.
    pose proof Hr as Hr0. cbn [ReprProofs.Repr] in Hr. destruct Hr as (cc & Ecb & _).
    rewrite Ecb in Hnb at 1. rewrite (mixin_len_node H src cc (lenN vs)) in Hnb by lia. cbn [bind] in Hnb.
    destruct (l <=? lenN vs) eqn:Hfull; [discriminate|]. apply N.leb_gt in Hfull.
    destruct (coerce_arg H e0 a) as [xn|] eqn:Hco; [|discriminate]. cbn [bind] in Hnb.
    destruct (coerce_sound e0 a xn Hte Hco) as (w & Haw & Hww & Hrw).
    destruct (list_append_any H src e0 l Hty0 vs (cback c) w xn Hwf0 Hr0 Hfull Hww Hrw) as (n' & Ha & Hr'). rewrite Ha in Hnb. inversion Hnb; subst n'.
    exists (VSeq (vs ++ [w])). split; [cbn [cmd_effect]; rewrite Haw; reflexivity|]. split; [|exact Hr']. cbn [wf]. apply andb_true_iff. split.
    + apply N.leb_le. rewrite lenN_app. unfold lenN at 2. cbn. lia.
    + now apply forallb_app_one.
Qed.

Lemma pop_sound c v nb : good c v ->
  new_backing c (CPop 0%nat) = Ok nb -> exists x, cmd_effect (cty c) v (CPop 0%nat) = Some x /\ wf (cty c) x = true /\ Repr (cty c) x nb.
Proof.
  intros (Hty & Hwf & Hr) Hnb. cbn [new_backing] in Hnb.
  destruct (cty c) as [k0| |bn|bl|bvn|byl|e0 nn|e0 l|fs|none0 opts] eqn:Ect; try discriminate.
  - (* bitlist *)
    destruct v as [| |bs| | | |]; try (cbn [wf] in Hwf; discriminate).
    pose proof Hwf as Hwf0. cbn [wf] in Hwf. apply N.leb_le in Hwf.
    pose proof Hty as Hty0. cbn [wf_ty] in Hty. apply N.ltb_lt in Hty. unfold LIMIT_BOUND in Hty.
    pose proof Hr as Hr0. cbn [ReprProofs.Repr val_len] in Hr. destruct Hr as (cc & Ecb & _).
    destruct bs as [|b0 bs'] eqn:Ebs.
    + exfalso. change (lenN (@nil bool)) with 0 in Ecb. unfold bitlist_pop in Hnb. rewrite Ecb in Hnb. rewrite (mixin_len_node H src cc 0) in Hnb by lia. cbn [bind N.eqb] in Hnb. discriminate.
    + rewrite <- Ebs in *. assert (bs <> []) as Hne by (rewrite Ebs; discriminate).
      destruct (bitlist_pop_repr H src bl bs (cback c) Hty0 Hwf0 Hr0 Hne) as (n' & Ha & Hr'). rewrite Ha in Hnb. inversion Hnb; subst n'.
      exists (VBits (removelast bs)). split; [reflexivity|]. split; [|exact Hr']. cbn [wf]. apply N.leb_le. rewrite (removelast_lenN bs Hne). lia.
  - (* list *)
    destruct v as [| | | |vs| |]; try (cbn [wf] in Hwf; discriminate).
    pose proof Hty as Hty0. cbn [wf_ty] in Hty. apply andb_true_iff in Hty as [Hte Hlb]. apply N.ltb_lt in Hlb. unfold LIMIT_BOUND in Hlb.
    pose proof Hwf as Hwf0. cbn [wf] in Hwf. apply andb_true_iff in Hwf as [Hn Hall]. apply N.leb_le in Hn.
    pose proof Hr as Hr0. cbn [ReprProofs.Repr] in Hr. destruct Hr as (cc & Ecb & _).
    destruct vs as [|x0 vs'] eqn:Evs.
    + exfalso. change (lenN (@nil val)) with 0 in Ecb. unfold list_pop in Hnb. rewrite Ecb in Hnb. rewrite (mixin_len_node H src cc 0) in Hnb by lia. cbn [bind N.eqb] in Hnb. discriminate.
    + rewrite <- Evs in *. assert (vs <> []) as Hne by (rewrite Evs; discriminate).
      destruct (list_pop_any H src e0 l Hty0 vs (cback c) Hwf0 Hr0 Hne) as (n' & Ha & Hr'). rewrite Ha in Hnb. inversion Hnb; subst n'.
      exists (VSeq (removelast vs)). split; [reflexivity|]. split; [|exact Hr']. cbn [wf]. apply andb_true_iff. split.
      * apply N.leb_le. rewrite (removelast_lenN vs Hne). lia.
      * now apply forallb_removelast.
Qed.

Lemma bitset_sound c v i a nb : good c v ->
  new_backing c (CBitSet 0%nat i a) = Ok nb -> exists x, cmd_effect (cty c) v (CBitSet 0%nat i a) = Some x /\ wf (cty c) x = true /\ Repr (cty c) x nb.
Proof.
  intros (Hty & Hwf & Hr) Hnb. cbn [new_backing] in Hnb. destruct a as [[| b | | | | |]| |]; try discriminate.
  destruct (cty c) as [k0| |bn|bl|bvn|byl|e0 nn|e0 l|fs|none0 opts] eqn:Ect; try (unfold bits_set in Hnb; cbn [bits_len bind] in Hnb; discriminate).
  - (* bitvector *)
    destruct v as [| |bs| | | |]; try (cbn [wf] in Hwf; discriminate).
    pose proof Hwf as Hwf0. cbn [wf] in Hwf. apply N.eqb_eq in Hwf.
    destruct ((i <? 0)%Z || (Z.of_N bn <=? i)%Z) eqn:Hi.
    + exfalso. unfold bits_set in Hnb. cbn [bits_len bind] in Hnb. rewrite Hi in Hnb. discriminate.
    + destruct (bitvector_set H src bn bs (cback c) i b Hwf0 Hr ltac:(lia)) as (n' & Ha & Hr'). rewrite Ha in Hnb. inversion Hnb; subst n'.
      exists (VBits (upd (Z.to_nat i) b bs)). split; [reflexivity|]. split; [|exact Hr']. cbn [wf]. unfold lenN. rewrite upd_len. now apply N.eqb_eq.
  - (* bitlist *)
    destruct v as [| |bs| | | |]; try (cbn [wf] in Hwf; discriminate).
    pose proof Hwf as Hwf0. cbn [wf] in Hwf. apply N.leb_le in Hwf.
    pose proof Hty as Hty0. cbn [wf_ty] in Hty. apply N.ltb_lt in Hty. unfold LIMIT_BOUND in Hty.
    pose proof Hr as Hr0. cbn [ReprProofs.Repr val_len] in Hr. destruct Hr as (cc & Ecb & _).
    destruct ((i <? 0)%Z || (Z.of_N (lenN bs) <=? i)%Z) eqn:Hi.
    + exfalso. unfold bits_set in Hnb. cbn [bits_len] in Hnb. rewrite Ecb in Hnb. rewrite (mixin_len_node H src cc (lenN bs)) in Hnb by lia.
      cbn [bind] in Hnb. rewrite Hi in Hnb. discriminate.
    + destruct (bitlist_set H src bl bs (cback c) i b Hty0 Hwf0 Hr0 ltac:(lia)) as (n' & Ha & Hr'). rewrite Ha in Hnb. inversion Hnb; subst n'.
      exists (VBits (upd (Z.to_nat i) b bs)). split; [reflexivity|]. split; [|exact Hr']. cbn [wf]. unfold lenN. rewrite upd_len. now apply N.leb_le.
Qed.

Lemma change_sound c v sel a nb : good c v ->
  new_backing c (CChange 0%nat sel a) = Ok nb -> exists x, cmd_effect (cty c) v (CChange 0%nat sel a) = Some x /\ wf (cty c) x = true /\ Repr (cty c) x nb.
Proof.
  intros (Hty & Hwf & Hr) Hnb. cbn [new_backing] in Hnb.
  destruct (cty c) as [k0| |bn|bl|bvn|byl|e0 nn|e0 l|fs|b os] eqn:Ect; try discriminate.
  destruct (sel <? 0)%Z eqn:H0; [discriminate|]. destruct (Z.of_N (lenN os + (if b then 1 else 0)) <=? sel)%Z eqn:H1; [discriminate|].
  cbn [wf_ty] in Hty. apply andb_true_iff in Hty as [Hty' _]. apply andb_true_iff in Hty' as [Htys _].
  destruct (union_opt b os (Z.to_nat sel)) as [o|] eqn:Hopt.
  - assert (wf_ty o = true) as Hto.
    { rewrite forallb_forall in Htys. apply Htys. unfold union_opt in Hopt. destruct b; [destruct (Z.to_nat sel); [discriminate|]|]; eapply nth_error_In; eauto. }
    assert (exists xn, coerce_arg H o a = Ok xn /\ union_change H (TUnion b os) sel (Some xn) = Ok nb) as (xn & Hco & Huc).
    { destruct a; try discriminate; (destruct (coerce_arg H o _) as [xn|] eqn:Hco; [|discriminate]); cbn [bind] in Hnb; eauto. }
    destruct (coerce_sound o a xn Hto Hco) as (w & Haw & Hww & Hrw).
    destruct (union_change_some H b os sel o w xn ltac:(lia) ltac:(lia) Hopt Hrw) as (n' & Ha & Hr'). rewrite Ha in Huc. inversion Huc; subst n'.
    exists (VUnion (Z.to_nat sel) (Some w)). split; [cbn [cmd_effect]; rewrite Hopt, Haw; reflexivity|]. split; [|exact Hr']. cbn [wf]. rewrite pick_wf_nth.
    unfold union_opt in Hopt. destruct b.
    + destruct (Z.to_nat sel) as [|j] eqn:Ej; [discriminate|]. cbn [Nat.eqb negb pred andb]. now rewrite Hopt.
    + cbn [andb]. now rewrite Hopt.
  - assert (a = ANone) as -> by (destruct a; [discriminate|discriminate|reflexivity]).
    assert (b = true /\ Z.to_nat sel = 0%nat) as [-> Hs0].
    { unfold union_opt in Hopt. destruct b; [destruct (Z.to_nat sel) as [|j] eqn:Ej; [auto|]|]; exfalso; apply nth_error_None in Hopt; unfold lenN in *; lia. }
    assert (sel = 0%Z) as -> by lia.
    destruct (union_change_none H os) as (n' & Ha & Hr'). rewrite Ha in Hnb. inversion Hnb; subst n'.
    exists (VUnion 0 None). split; [cbn [cmd_effect]; rewrite Hopt; reflexivity|]. split; [reflexivity|exact Hr'].
Qed.

Theorem new_backing_sound c v cm nb : good c v -> new_backing c cm = Ok nb -> exists x, cmd_effect (cty c) v cm = Some x /\ wf (cty c) x = true /\ Repr (cty c) x nb.
Proof.
  intros Hg Hnb. destruct cm; try discriminate.
  - now apply (set_sound c v i a).
  - now apply (append_sound c v a).
  - now apply (pop_sound c v).
  - now apply (bitset_sound c v i a).
  - now apply (change_sound c v sel a).
Qed.

(* C05 + C14 at store level, hook chains of ANY depth: a mutating command through the bottom view of a chain
   either fails and leaves the WHOLE store exactly as it was, or succeeds, and then the written view represents
   the value x the command specifies (cmd_effect) and EVERY enclosing view represents its old value with the nested slot replaced
   (retrail), all hooks and types are as before, and no cell outside the chain changed *)
Definition cty_at (s : store) (u : vid) : ty := match nth_error s u with Some c => cty c | None => TBool end.

Theorem cmd_on_chain s cm tr cid v lk rest :
  Chain s tr -> tr = (cid, v, lk) :: rest -> target cm = cid -> mutating cm = true ->
  (exists e, run_cmd s cm = (Err e, s)) \/
  (exists x s', cmd_effect (cty_at s cid) v cm = Some x /\ run_cmd s cm = (Ok tt, s') /\ Chain s' (retrail x tr) /\ same_shape s s' /\
     (forall u, (forall e, In e tr -> fst (fst e) <> u) -> nth_error s' u = nth_error s u)).
Proof.
  intros Hch -> Ht Hm. destruct (chain_head s cid v lk rest Hch) as (c & Hc & Hg).
  rewrite (run_cmd_mut s cm c) by (rewrite ?Ht; assumption).
  destruct (new_backing c cm) as [nb|e] eqn:Hnb; [|left; eauto]. right.
  destruct (new_backing_sound c v cm nb Hg Hnb) as (x & Hex & Hwx & Hrx).
  assert (cid < length s)%nat as Hcid by (apply nth_error_Some; congruence).
  pose proof (chain_len s _ Hch cid v lk rest eq_refl) as Hlen.
  destruct (chain_set _ s Hch cid v lk rest c x nb (length s) eq_refl Hc Hwx Hrx ltac:(lia)) as (s' & Hsb & Hch' & Hsh & Hfr).
  exists x, s'. rewrite Ht. unfold cty_at. rewrite Hc. auto.
Qed.

(* ... observed: after a successful command every view of the chain has the root and the encoding of its
   updated value *)
Corollary cmd_on_chain_observed s' x tr : Chain s' (retrail x tr) ->
  forall u w lk', In (u, w, lk') (retrail x tr) ->
  exists c, nth_error s' u = Some c /\ root H (cback c) = htr H (cty c) w /\ ser_ok H src (cty c) w (cback c).
Proof.
  intros Hch' u w lk' Hin. destruct (chain_observe s' _ Hch' u w lk' Hin) as (c & Hc & _ & _ & Hr & Hs). eauto.
Qed.

(* non-vacuity: chains of depth 3 exist (a list element inside a container inside a container), built by the
   model's own constructor and two child reads *)
Example chain_exists : exists s tr, Chain s tr /\ length tr = 3%nat.
Proof.
  set (tl := TList (TContainer [TUint 1; TUint 2]) 4).
  set (ti := TContainer [TUint 8; tl]).
  set (t := TContainer [ti; TBool]).
  set (el := VCont [VUint 7; VUint 9]).
  set (vi := VCont [VUint 5; VSeq [el; el]]).
  set (v := VCont [vi; VBool true]).
  assert (wf_ty t = true) as Hty by reflexivity. assert (wf t v = true) as Hwf by reflexivity.
  destruct (mk_root H t v Hty Hwf) as (n & Hn & _).
  set (c0 := {| cty := t; cback := n; chook := HNone |}).
  assert (Chain [c0] [(0%nat, v, LRoot)]) as Ch0.
  { apply (chain_root_cell [c0] 0%nat c0 v); [reflexivity|reflexivity|]. split; [exact Hty|]. split; [exact Hwf|]. exact (mk_Repr H src t v n Hty Hwf Hn). }
  destruct (chain_get [c0] 0%nat v LRoot [] c0 0 ti vi Ch0 eq_refl eq_refl eq_refl) as (m1 & _ & Ch1).
  set (s1 := [c0] ++ [{| cty := ti; cback := m1; chook := HElem 0%nat 0 |}]) in *.
  destruct (chain_get s1 1%nat vi (LElem 0) [(0%nat, v, LRoot)] {| cty := ti; cback := m1; chook := HElem 0%nat 0 |} 1 tl (VSeq [el; el]) Ch1 eq_refl eq_refl eq_refl) as (m2 & _ & Ch2).
  eexists _, _. split; [exact Ch2|reflexivity].
Qed.

(* ---- forests of held views: any set of views obtained from one another, mutated in any order ---- *)
Definition dv : val := VUint 0.
(* vs tracks one value per cell *)
Definition AllGood (s : store) (vs : list val) : Prop :=
  length vs = length s /\ forall u c, nth_error s u = Some c -> good c (nth u vs dv).

(* every hook on the way from u up to its top-level view is valid now *)
Inductive Valid (s : store) (vs : list val) : vid -> Prop :=
| V_root u c : nth_error s u = Some c -> chook c = HNone -> Valid s vs u
| V_elem u c p i pc old : nth_error s u = Some c -> chook c = HElem p i -> (p < u)%nat ->
    nth_error s p = Some pc -> elem_at (cty pc) (nth p vs dv) i = Some (cty c, old) -> Valid s vs p -> Valid s vs u
| V_union u c p pc old : nth_error s u = Some c -> chook c = HUnionValue p -> (p < u)%nat ->
    nth_error s p = Some pc -> uelem (cty pc) (nth p vs dv) = Some (cty c, old) -> Valid s vs p -> Valid s vs u.

Definition tracked (vs : list val) (e : vid * val * link) : Prop := snd (fst e) = nth (fst (fst e)) vs dv.

Lemma valid_chain s vs u : AllGood s vs -> Valid s vs u ->
  exists lk rest, Chain s ((u, nth u vs dv, lk) :: rest) /\ Forall (tracked vs) rest.
Proof.
  intros [_ Hg] Hv. induction Hv as [u c Hc Hh|u c p i pc old Hc Hh Hlt Hp He Hv IH|u c p pc old Hc Hh Hlt Hp He Hv IH].
  - exists LRoot, []. split; [|constructor]. apply (Ch_root s u c); auto.
  - destruct IH as (lk & rest & Hch & Htr). exists (LElem i), ((p, nth p vs dv, lk) :: rest). split.
    + apply (Ch_elem s u c _ p i pc _ old lk rest); auto.
    + constructor; [reflexivity|exact Htr].
  - destruct IH as (lk & rest & Hch & Htr). exists LUnion, ((p, nth p vs dv, lk) :: rest). split.
    + apply (Ch_union s u c _ p pc _ old lk rest); auto.
    + constructor; [reflexivity|exact Htr].
Qed.

(* write the trail's values into the tracking list *)
Fixpoint put_trail (tr : list (vid * val * link)) (vs : list val) : list val :=
  match tr with [] => vs | (u, w, _) :: r => upd u w (put_trail r vs) end.

Lemma put_trail_len tr vs : length (put_trail tr vs) = length vs.
Proof. induction tr as [|[[u w] lk] r IH]; [reflexivity|]. cbn [put_trail]. now rewrite upd_len. Qed.

Lemma nth_upd_other {A} (x d : A) : forall l i j, i <> j -> nth j (upd i x l) d = nth j l d.
Proof. induction l as [|h l IH]; intros [|i] [|j] Hne; cbn; auto; try contradiction; try (apply IH; lia). Qed.

Lemma put_trail_other tr vs u : (forall e, In e tr -> fst (fst e) <> u) -> nth u (put_trail tr vs) dv = nth u vs dv.
Proof.
  induction tr as [|[[w x] lk] r IH]; intros Hu; [reflexivity|]. cbn [put_trail].
  rewrite nth_upd_other by (apply (Hu (w, x, lk)); now left). apply IH. intros e Hin. apply Hu. now right.
Qed.

Lemma put_trail_in s tr : Chain s tr -> forall vs u w lk, length vs = length s -> In (u, w, lk) tr -> nth u (put_trail tr vs) dv = w.
Proof.
  intros Hch vs. induction Hch as [cid c v Hc Hh Hg|cid c v p i pc pv old lk rest Hc Hh Hg Hlt Hp He Hch IH|cid c v p pc pv old lk rest Hc Hh Hg Hlt Hp He Hch IH];
    intros u w lk0 Hlen Hin.
  - destruct Hin as [E|[]]. inversion E; subst. cbn [put_trail]. apply nth_upd_same. rewrite Hlen. apply nth_error_Some. congruence.
  - destruct Hin as [E|Hin].
    + inversion E; subst. cbn [put_trail]. apply nth_upd_same. rewrite upd_len, put_trail_len, Hlen. apply nth_error_Some. congruence.
    + change (put_trail ((cid, v, LElem i) :: (p, pv, lk) :: rest) vs) with (upd cid v (put_trail ((p, pv, lk) :: rest) vs)).
      pose proof (chain_ids s _ (Ch_elem s cid c v p i pc pv old lk rest Hc Hh Hg Hlt Hp He Hch) cid v (LElem i) _ eq_refl) as Hids.
      rewrite Forall_forall in Hids. specialize (Hids _ Hin). cbn [fst] in Hids.
      rewrite nth_upd_other by lia. now apply (IH u w lk0).
  - destruct Hin as [E|Hin].
    + inversion E; subst. cbn [put_trail]. apply nth_upd_same. rewrite upd_len, put_trail_len, Hlen. apply nth_error_Some. congruence.
    + change (put_trail ((cid, v, LUnion) :: (p, pv, lk) :: rest) vs) with (upd cid v (put_trail ((p, pv, lk) :: rest) vs)).
      pose proof (chain_ids s _ (Ch_union s cid c v p pc pv old lk rest Hc Hh Hg Hlt Hp He Hch) cid v LUnion _ eq_refl) as Hids.
      rewrite Forall_forall in Hids. specialize (Hids _ Hin). cbn [fst] in Hids.
      rewrite nth_upd_other by lia. now apply (IH u w lk0).
Qed.

Lemma retrail_ids x tr : map (fun e => fst (fst e)) (retrail x tr) = map (fun e => fst (fst e)) tr.
Proof.
  revert x. induction tr as [|[[u w] lk] r IH]; intros x; [reflexivity|]. cbn [retrail map fst]. f_equal.
  destruct lk; try reflexivity; destruct r as [|[[p pv] lk'] r']; try reflexivity; apply IH.
Qed.

Lemma in_ids_dec (tr : list (vid * val * link)) u : {In u (map (fun e => fst (fst e)) tr)} + {~ In u (map (fun e => fst (fst e)) tr)}.
Proof. apply in_dec. apply Nat.eq_dec. Qed.


(* the trail of a view, computed by following the hooks *)
Fixpoint trail_of (fuel : nat) (s : store) (vs : list val) (u : vid) : list (vid * val * link) :=
  match nth_error s u with
  | None => []
  | Some c =>
      match chook c with
      | HNone => [(u, nth u vs dv, LRoot)]
      | HElem p i => (u, nth u vs dv, LElem i) :: match fuel with O => [] | S f => trail_of f s vs p end
      | HUnionValue p => (u, nth u vs dv, LUnion) :: match fuel with O => [] | S f => trail_of f s vs p end
      end
  end.

Lemma valid_trail s vs u : AllGood s vs -> Valid s vs u -> forall fuel, (u <= fuel)%nat ->
  Chain s (trail_of fuel s vs u) /\ exists lk rest, trail_of fuel s vs u = (u, nth u vs dv, lk) :: rest.
Proof.
  intros [_ Hg] Hv. induction Hv as [u c Hc Hh|u c p i pc old Hc Hh Hlt Hp He Hv IH|u c p pc old Hc Hh Hlt Hp He Hv IH]; intros fuel Hf.
  - destruct fuel; cbn [trail_of]; rewrite Hc, Hh; (split; [apply (Ch_root s u c); auto|eauto]).
  - destruct fuel as [|f]; [lia|]. cbn [trail_of]. rewrite Hc, Hh. destruct (IH f ltac:(lia)) as (Hch & lk & rest & Et).
    split; [|eauto]. rewrite Et in *. apply (Ch_elem s u c _ p i pc _ old lk rest); auto.
  - destruct fuel as [|f]; [lia|]. cbn [trail_of]. rewrite Hc, Hh. destruct (IH f ltac:(lia)) as (Hch & lk & rest & Et).
    split; [|eauto]. rewrite Et in *. apply (Ch_union s u c _ p pc _ old lk rest); auto.
Qed.

(* the tracked values after a successful mutating command with specified effect x *)
Definition track_mut (s : store) (vs : list val) (cm : cmd) (x : val) : list val :=
  put_trail (retrail x (trail_of (length s) s vs (target cm))) vs.

Theorem forest_mut s vs cm : AllGood s vs -> Valid s vs (target cm) -> mutating cm = true ->
  (exists e, run_cmd s cm = (Err e, s)) \/
  (exists x s', cmd_effect (cty_at s (target cm)) (nth (target cm) vs dv) cm = Some x /\ run_cmd s cm = (Ok tt, s') /\
     same_shape s s' /\ AllGood s' (track_mut s vs cm x)).
Proof.
  intros Hag Hv Hm.
  assert (target cm < length s)%nat as Hlt by (inversion Hv; apply nth_error_Some; congruence).
  destruct (valid_trail s vs _ Hag Hv (length s) ltac:(lia)) as (Hch & lk & rest & Et). unfold track_mut. rewrite Et in *.
  destruct (cmd_on_chain s cm _ (target cm) _ lk rest Hch eq_refl eq_refl Hm) as [He|(x & s' & Hx & Hr & Hch' & Hsh & Hfr)]; [left; exact He|].
  right. exists x, s'. split; [exact Hx|]. split; [exact Hr|]. split; [exact Hsh|].
  destruct Hag as [Hlen Hg]. destruct Hsh as [Hlen' Hshape]. split; [rewrite put_trail_len; lia|].
  intros u c' Hc'. set (tr := (target cm, nth (target cm) vs dv, lk) :: rest) in *.
  destruct (in_ids_dec (retrail x tr) u) as [Hin|Hnin].
  - apply in_map_iff in Hin as ([[u0 w] lk0] & Eu & Hin). cbn [fst] in Eu. subst u0.
    destruct (chain_observe s' _ Hch' u w lk0 Hin) as (c2 & Hc2 & _). rewrite Hc' in Hc2. inversion Hc2; subst c2.
    rewrite (put_trail_in s' _ Hch' vs u w lk0 ltac:(lia) Hin).
    clear -Hch' Hin Hc'. induction Hch' as [cid c v Hc Hh Hg|cid c v p i pc pv old lk1 rest1 Hc Hh Hg Hlt Hp He Hch1 IH|cid c v p pc pv old lk1 rest1 Hc Hh Hg Hlt Hp He Hch1 IH].
    + destruct Hin as [E|[]]. inversion E; subst. rewrite Hc in Hc'. inversion Hc'; subst. exact Hg.
    + destruct Hin as [E|Hin]; [inversion E; subst; rewrite Hc in Hc'; inversion Hc'; subst; exact Hg|now apply IH].
    + destruct Hin as [E|Hin]; [inversion E; subst; rewrite Hc in Hc'; inversion Hc'; subst; exact Hg|now apply IH].
  - assert (forall e, In e tr -> fst (fst e) <> u) as Hout.
    { intros e Hin Eu. apply Hnin. rewrite retrail_ids. apply in_map_iff. exists e. split; [exact Eu|exact Hin]. }
    rewrite (Hfr u Hout) in Hc'. rewrite put_trail_other.
    + now apply Hg.
    + intros e Hin Eu. apply Hnin. apply in_map_iff. exists e. split; [exact Eu|exact Hin].
Qed.

(* obtaining views: the new cell is tracked with the addressed sub-value; everything held before stays as it was *)
Lemma valid_app s vs l l' u : length vs = length s -> Valid s vs u -> Valid (s ++ l) (vs ++ l') u.
Proof.
  intros Hlen Hv. induction Hv as [u c Hc Hh|u c p i pc old Hc Hh Hlt Hp He Hv IH|u c p pc old Hc Hh Hlt Hp He Hv IH].
  - apply (V_root _ _ u c); [|exact Hh]. rewrite nth_error_app1; [exact Hc|apply nth_error_Some; congruence].
  - assert (p < length s)%nat as Hpl by (apply nth_error_Some; congruence).
    apply (V_elem _ _ u c p i pc old); auto.
    + rewrite nth_error_app1; [exact Hc|apply nth_error_Some; congruence].
    + rewrite nth_error_app1; [exact Hp|exact Hpl].
    + rewrite app_nth1 by lia. exact He.
  - assert (p < length s)%nat as Hpl by (apply nth_error_Some; congruence).
    apply (V_union _ _ u c p pc old); auto.
    + rewrite nth_error_app1; [exact Hc|apply nth_error_Some; congruence].
    + rewrite nth_error_app1; [exact Hp|exact Hpl].
    + rewrite app_nth1 by lia. exact He.
Qed.

Lemma allgood_app s vs c w : AllGood s vs -> good c w -> AllGood (s ++ [c]) (vs ++ [w]).
Proof.
  intros [Hlen Hg] Hc. split; [rewrite !app_length; cbn; lia|]. intros u c' Hu.
  destruct (Nat.lt_ge_cases u (length s)) as [Hlt|Hge].
  - rewrite nth_error_app1 in Hu by exact Hlt. rewrite app_nth1 by lia. now apply Hg.
  - assert (u = length s) as -> .
    { assert (u < length (s ++ [c]))%nat by (apply nth_error_Some; congruence). rewrite app_length in *. cbn in *. lia. }
    rewrite nth_error_app2, Nat.sub_diag in Hu by lia. inversion Hu; subst c'. rewrite app_nth2, <- Hlen, Nat.sub_diag by lia. exact Hc.
Qed.

Theorem forest_get s vs p pc i e old : AllGood s vs -> Valid s vs p -> nth_error s p = Some pc ->
  elem_at (cty pc) (nth p vs dv) i = Some (e, old) -> hooked e = true ->
  exists m, let s' := s ++ [{| cty := e; cback := m; chook := HElem p i |}] in
    run_cmd s (CGet p (Z.of_N i)) = (Ok tt, s') /\
    AllGood s' (vs ++ [old]) /\ Valid s' (vs ++ [old]) (length s) /\ (forall u, Valid s vs u -> Valid s' (vs ++ [old]) u).
Proof.
  intros Hag Hv Hp He Hk. pose proof Hag as [Hlen Hg].
  assert (p < length s)%nat as Hpl by (apply nth_error_Some; congruence).
  destruct (valid_trail s vs p Hag Hv (length s) ltac:(lia)) as (Hch & lk & rest & Et). rewrite Et in Hch.
  destruct (chain_get s p _ lk rest pc i e old Hch Hp He Hk) as (m & Hr & Hch').
  set (cc := {| cty := e; cback := m; chook := HElem p i |}) in *.
  exists m. cbv zeta. fold cc. split; [exact Hr|].
  destruct (chain_head _ _ _ _ _ Hch') as (c0 & Hc0 & Hg0).
  rewrite nth_error_app2, Nat.sub_diag in Hc0 by lia. inversion Hc0; subst c0.
  split; [now apply allgood_app|]. split.
  - apply (V_elem _ _ (length s) cc p i pc old); auto.
    + rewrite nth_error_app2, Nat.sub_diag by lia. reflexivity.
    + rewrite nth_error_app1 by lia. exact Hp.
    + rewrite app_nth1 by lia. exact He.
    + now apply valid_app.
  - intros u Hu. now apply valid_app.
Qed.

Theorem forest_value s vs p pc o old : AllGood s vs -> Valid s vs p -> nth_error s p = Some pc ->
  uelem (cty pc) (nth p vs dv) = Some (o, old) -> hooked o = true ->
  exists m, let s' := s ++ [{| cty := o; cback := m; chook := HUnionValue p |}] in
    run_cmd s (CValue p) = (Ok tt, s') /\
    AllGood s' (vs ++ [old]) /\ Valid s' (vs ++ [old]) (length s) /\ (forall u, Valid s vs u -> Valid s' (vs ++ [old]) u).
Proof.
  intros Hag Hv Hp He Hk. pose proof Hag as [Hlen Hg].
  assert (p < length s)%nat as Hpl by (apply nth_error_Some; congruence).
  destruct (valid_trail s vs p Hag Hv (length s) ltac:(lia)) as (Hch & lk & rest & Et). rewrite Et in Hch.
  destruct (chain_value s p _ lk rest pc o old Hch Hp He Hk) as (m & Hr & Hch').
  set (cc := {| cty := o; cback := m; chook := HUnionValue p |}) in *.
  exists m. cbv zeta. fold cc. split; [exact Hr|].
  destruct (chain_head _ _ _ _ _ Hch') as (c0 & Hc0 & Hg0).
  rewrite nth_error_app2, Nat.sub_diag in Hc0 by lia. inversion Hc0; subst c0.
  split; [now apply allgood_app|]. split.
  - apply (V_union _ _ (length s) cc p pc old); auto.
    + rewrite nth_error_app2, Nat.sub_diag by lia. reflexivity.
    + rewrite nth_error_app1 by lia. exact Hp.
    + rewrite app_nth1 by lia. exact He.
    + now apply valid_app.
  - intros u Hu. now apply valid_app.
Qed.

Theorem forest_copy s vs p pc : AllGood s vs -> nth_error s p = Some pc ->
  let s' := s ++ [{| cty := cty pc; cback := cback pc; chook := HNone |}] in
    run_cmd s (CCopy p) = (Ok tt, s') /\
    AllGood s' (vs ++ [nth p vs dv]) /\ Valid s' (vs ++ [nth p vs dv]) (length s) /\
    (forall u, Valid s vs u -> Valid s' (vs ++ [nth p vs dv]) u).
Proof.
  intros Hag Hp. pose proof Hag as [Hlen Hg].
  set (cc := {| cty := cty pc; cback := cback pc; chook := HNone |}).
  cbv zeta. fold cc. split; [cbn [ModelStore.run_cmd]; cbv zeta; rewrite Hp; reflexivity|].
  split; [apply allgood_app; [exact Hag|exact (Hg p pc Hp)]|]. split.
  - apply (V_root _ _ (length s) cc); [|reflexivity]. rewrite nth_error_app2, Nat.sub_diag by lia. reflexivity.
  - intros u Hu. now apply valid_app.
Qed.

(* a freshly constructed top-level view *)
Theorem forest_init t v n : wf_ty t = true -> wf t v = true -> mk H t v = Ok n ->
  AllGood [{| cty := t; cback := n; chook := HNone |}] [v] /\ Valid [{| cty := t; cback := n; chook := HNone |}] [v] 0%nat.
Proof.
  intros Hty Hwf Hm. split.
  - split; [reflexivity|]. intros [|u] c Hc; cbn in Hc; [|destruct u; discriminate]. inversion Hc; subst c. cbn [nth].
    split; [exact Hty|]. split; [exact Hwf|]. exact (mk_Repr H src t v n Hty Hwf Hm).
  - apply (V_root _ _ 0%nat {| cty := t; cback := n; chook := HNone |}); reflexivity.
Qed.

(* what AllGood means for the observer *)
Theorem allgood_observed s vs : AllGood s vs -> forall u c, nth_error s u = Some c ->
  root H (cback c) = htr H (cty c) (nth u vs dv) /\ ser_ok H src (cty c) (nth u vs dv) (cback c).
Proof.
  intros [_ Hg] u c Hc. destruct (Hg u c Hc) as (Hty & Hwf & Hr). split; [now apply (Repr_root H)|now apply Repr_ser].
Qed.

(* ---- which views stay usable: commands that do not shrink anything keep every hook valid ---- *)
Definition slots_le (t : ty) (v v' : val) : Prop :=
  (forall i e old, elem_at t v i = Some (e, old) -> exists old', elem_at t v' i = Some (e, old')) /\
  (forall e old, uelem t v = Some (e, old) -> exists old', uelem t v' = Some (e, old')).

Lemma slots_refl t v : slots_le t v v.
Proof. split; eauto. Qed.

Lemma slots_set_elem t pv j x : slots_le t pv (set_elem pv j x).
Proof.
  split.
  - intros i e old He. destruct t; destruct pv; cbn [elem_at set_elem] in *; try discriminate; eauto.
    + destruct (basic_size t); [discriminate|]. unfold lenN in *. rewrite upd_len. destruct (i <? N.of_nat (length vs)); [|discriminate].
      inversion He; subst. eauto.
    + destruct (basic_size t); [discriminate|]. unfold lenN in *. rewrite upd_len. destruct (i <? N.of_nat (length vs)); [|discriminate].
      inversion He; subst. eauto.
    + destruct (nth_error fs (N.to_nat i)) as [f|]; [|discriminate]. destruct (nth_error vs (N.to_nat i)) as [y|] eqn:Hy; [|discriminate].
      inversion He; subst. assert (N.to_nat i < length vs)%nat as Hl by (apply nth_error_Some; congruence).
      destruct (nth_error (upd (N.to_nat j) x vs) (N.to_nat i)) as [y'|] eqn:Hy'; [eauto|].
      apply nth_error_None in Hy'. rewrite upd_len in Hy'. lia.
  - intros e old He. destruct t; destruct pv; cbn [uelem set_elem] in *; try discriminate; eauto.
Qed.

Lemma slots_uset t pv x : slots_le t pv (uset pv x).
Proof.
  split.
  - intros i e old He. destruct t; destruct pv; cbn [elem_at uset] in *; try discriminate; eauto.
  - intros e old He. exists x. now apply (uelem_set t pv e old x).
Qed.

Definition shrinking (cm : cmd) : bool := match cm with CPop _ | CChange _ _ _ => true | _ => false end.

Lemma slots_effect t v cm x : shrinking cm = false -> cmd_effect t v cm = Some x -> slots_le t v x.
Proof.
  intros Hs He. destruct cm; try discriminate; cbn [cmd_effect] in He.
  - (* set *) destruct t; destruct v; try discriminate.
    + destruct (arg_val t a) as [w|]; [|discriminate]. inversion He; subst. rewrite <- Z_N_nat. apply (slots_set_elem (TVector t n) (VSeq vs) (Z.to_N i) w).
    + destruct (arg_val t a) as [w|]; [|discriminate]. inversion He; subst. rewrite <- Z_N_nat. apply (slots_set_elem (TList t limit) (VSeq vs) (Z.to_N i) w).
    + destruct (nth_error fs (Z.to_nat i)) as [f|]; [|discriminate]. destruct (arg_val f a) as [w|]; [|discriminate]. inversion He; subst.
      rewrite <- (Z_N_nat i). apply (slots_set_elem (TContainer fs) (VCont vs) (Z.to_N i) w).
  - (* append *) destruct t; destruct v; try discriminate.
    + destruct a as [[]| |]; try discriminate. inversion He; subst. split; intros; cbn [elem_at uelem] in *; discriminate.
    + destruct (arg_val t a) as [w|]; [|discriminate]. inversion He; subst. split; [|intros; cbn [uelem] in *; discriminate].
      intros i e old Hel. cbn [elem_at] in *. destruct (basic_size t); [discriminate|]. destruct (i <? lenN vs) eqn:Hi; [|discriminate].
      inversion Hel; subst. apply N.ltb_lt in Hi. assert ((i <? lenN (vs ++ [w])) = true) as -> by (apply N.ltb_lt; rewrite lenN_app; lia). eauto.
  - (* bit set *) destruct v; try discriminate. destruct a as [[]| |]; try discriminate. inversion He; subst.
    split; intros; destruct t; cbn [elem_at uelem] in *; discriminate.
Qed.

Lemma cty_at_some s u c : nth_error s u = Some c -> cty_at s u = cty c.
Proof. intros Hc. unfold cty_at. now rewrite Hc. Qed.

Lemma retrail_slots s tr : Chain s tr -> forall vs x u v lk rest, tr = (u, v, lk) :: rest -> Forall (tracked vs) tr ->
  slots_le (cty_at s u) v x -> length vs = length s ->
  forall p, slots_le (cty_at s p) (nth p vs dv) (nth p (put_trail (retrail x tr) vs) dv).
Proof.
  induction 1 as [cid c v Hc Hh Hg|cid c v p0 i pc pv old lk rest Hc Hh Hg Hlt Hp He Hch IH|cid c v p0 pc pv old lk rest Hc Hh Hg Hlt Hp He Hch IH];
    intros vs x u v0 lk0 rest0 E Htr Hsl Hlen q; inversion E; subst u v0 lk0 rest0; clear E;
    assert (cid < length s)%nat as Hcl by (apply nth_error_Some; congruence);
    inversion Htr as [|e0 l0 Ht0 Htr']; subst; unfold tracked in Ht0; cbn [fst snd] in Ht0.
  - cbn [retrail put_trail]. destruct (Nat.eq_dec q cid) as [->|Hne].
    + rewrite nth_upd_same by lia. now rewrite <- Ht0.
    + rewrite nth_upd_other by auto. apply slots_refl.
  - change (retrail x ((cid, v, LElem i) :: (p0, pv, lk) :: rest)) with ((cid, x, LElem i) :: retrail (set_elem pv i x) ((p0, pv, lk) :: rest)).
    cbn [put_trail]. destruct (Nat.eq_dec q cid) as [->|Hne].
    + rewrite nth_upd_same by (rewrite put_trail_len; lia). now rewrite <- Ht0.
    + rewrite nth_upd_other by auto. apply (IH vs (set_elem pv i x) p0 pv lk rest eq_refl Htr'); [|exact Hlen]. apply slots_set_elem.
  - change (retrail x ((cid, v, LUnion) :: (p0, pv, lk) :: rest)) with ((cid, x, LUnion) :: retrail (uset pv x) ((p0, pv, lk) :: rest)).
    cbn [put_trail]. destruct (Nat.eq_dec q cid) as [->|Hne].
    + rewrite nth_upd_same by (rewrite put_trail_len; lia). now rewrite <- Ht0.
    + rewrite nth_upd_other by auto. apply (IH vs (uset pv x) p0 pv lk rest eq_refl Htr'); [|exact Hlen]. apply slots_uset.
Qed.

Lemma trail_tracked s vs : forall fuel u, Forall (tracked vs) (trail_of fuel s vs u).
Proof.
  induction fuel as [|f IH]; intros u; cbn [trail_of]; destruct (nth_error s u) as [c|]; try constructor; destruct (chook c); repeat constructor; auto.
Qed.

Lemma same_shape_cell s s' u c : same_shape s s' -> nth_error s u = Some c ->
  exists c', nth_error s' u = Some c' /\ cty c' = cty c /\ chook c' = chook c.
Proof.
  intros [_ Hsh] Hc. specialize (Hsh u). rewrite Hc in Hsh. destruct (nth_error s' u) as [c'|]; [|discriminate].
  cbn in Hsh. unfold shape in Hsh. inversion Hsh. eauto.
Qed.

(* after a successful command that shrinks nothing (assignment, append, bit assignment), every view that was usable
   is still usable: histories of such commands, through any of the held views in any order, never leave the
   theorem's premise *)
Theorem forest_mut_keeps_valid s vs cm x s' : AllGood s vs -> Valid s vs (target cm) -> mutating cm = true ->
  shrinking cm = false -> run_cmd s cm = (Ok tt, s') ->
  cmd_effect (cty_at s (target cm)) (nth (target cm) vs dv) cm = Some x ->
  forall u, Valid s vs u -> Valid s' (track_mut s vs cm x) u.
Proof.
  intros Hag Hv Hm Hns Hr Hx.
  destruct (forest_mut s vs cm Hag Hv Hm) as [(e & He)|(x0 & s0 & Hx0 & Hr0 & Hsh & _)]; [rewrite Hr in He; discriminate|].
  rewrite Hr in Hr0. inversion Hr0; subst s0. clear Hr0 Hx0.
  assert (target cm < length s)%nat as Hlt by (inversion Hv; apply nth_error_Some; congruence).
  destruct (valid_trail s vs _ Hag Hv (length s) ltac:(lia)) as (Hch & lk & rest & Et).
  pose proof Hag as [Hlen _].
  assert (forall p, slots_le (cty_at s p) (nth p vs dv) (nth p (track_mut s vs cm x) dv)) as Hslots.
  { unfold track_mut. apply (retrail_slots s _ Hch vs x (target cm) (nth (target cm) vs dv) lk rest Et (trail_tracked s vs _ _)); [|exact Hlen].
    now apply (slots_effect _ _ cm). }
  intros u Hu. induction Hu as [u c Hc Hh|u c p i pc old Hc Hh Hlt' Hp He Hv' IH|u c p pc old Hc Hh Hlt' Hp He Hv' IH].
  - destruct (same_shape_cell s s' u c Hsh Hc) as (c' & Hc' & _ & Hh'). apply (V_root _ _ u c'); congruence.
  - destruct (same_shape_cell s s' u c Hsh Hc) as (c' & Hc' & Ht' & Hh'). destruct (same_shape_cell s s' p pc Hsh Hp) as (pc' & Hp' & Htp & _).
    destruct (Hslots p) as [Hs1 _]. rewrite (cty_at_some s p pc Hp) in Hs1. destruct (Hs1 i _ _ He) as (old' & He').
    apply (V_elem _ _ u c' p i pc' old'); auto; congruence.
  - destruct (same_shape_cell s s' u c Hsh Hc) as (c' & Hc' & Ht' & Hh'). destruct (same_shape_cell s s' p pc Hsh Hp) as (pc' & Hp' & Htp & _).
    destruct (Hslots p) as [_ Hs2]. rewrite (cty_at_some s p pc Hp) in Hs2. destruct (Hs2 _ _ He) as (old' & He').
    apply (V_union _ _ u c' p pc' old'); auto; congruence.
Qed.

(* a view that is not on the written view's trail keeps its tracked value (and, by AllGood, its root and encoding):
   snapshots, copies, siblings, and the views a copy was taken from *)
Lemma track_mut_other s vs cm x u : (forall e, In e (trail_of (length s) s vs (target cm)) -> fst (fst e) <> u) ->
  nth u (track_mut s vs cm x) dv = nth u vs dv.
Proof.
  intros Hu. unfold track_mut. apply put_trail_other. intros e Hin Eu.
  assert (In u (map (fun e => fst (fst e)) (retrail x (trail_of (length s) s vs (target cm))))) as Hi by (apply in_map_iff; eauto).
  rewrite retrail_ids in Hi. apply in_map_iff in Hi as (e' & Ee & Hin'). exact (Hu e' Hin' Ee).
Qed.

(* non-vacuity: a top-level view with two simultaneously held, usable child views *)
Example forest_exists : exists s vs, AllGood s vs /\ length s = 3%nat /\ Valid s vs 1%nat /\ Valid s vs 2%nat.
Proof.
  set (tl := TList (TUint 1) 4).
  set (ti := TContainer [TUint 8; tl]).
  set (t := TContainer [ti; tl]).
  set (vi := VCont [VUint 5; VSeq [VUint 1; VUint 2]]).
  set (v := VCont [vi; VSeq [VUint 3]]).
  assert (wf_ty t = true) as Hty by reflexivity. assert (wf t v = true) as Hwf by reflexivity.
  destruct (mk_root H t v Hty Hwf) as (n & Hn & _).
  destruct (forest_init t v n Hty Hwf Hn) as [Hag0 Hv0].
  set (c0 := {| cty := t; cback := n; chook := HNone |}) in *.
  destruct (forest_get [c0] [v] 0%nat c0 0 ti vi Hag0 Hv0 eq_refl eq_refl eq_refl) as (m1 & _ & Hag1 & Hv1 & Hk1).
  set (s1 := [c0] ++ [{| cty := ti; cback := m1; chook := HElem 0%nat 0 |}]) in *.
  destruct (forest_get s1 ([v] ++ [vi]) 0%nat c0 1 tl (VSeq [VUint 3]) Hag1 (Hk1 0%nat Hv0) eq_refl eq_refl eq_refl) as (m2 & _ & Hag2 & Hv2 & Hk2).
  eexists _, _. split; [exact Hag2|]. split; [reflexivity|]. split; [exact (Hk2 1%nat Hv1)|exact Hv2].
Qed.
End WithHash.
