(* SerLen.v — lengths of specification encodings: exact for fixed-size types, within
   [min_len, max_len] for every well-formed value (C11), by induction on the type. *)
Require Import RM.Base RM.Gindex RM.Types RM.Spec RM.FactsProofs.
From Coq Require Import ZifyBool ZifyNat ZifyN.
Ltac Zify.zify_post_hook ::= Z.to_euclidean_division_equations.
Local Open Scope N_scope.

Lemma lenN_app {A} (a b : list A) : lenN (a ++ b) = lenN a + lenN b.
Proof. unfold lenN. rewrite app_length. lia. Qed.
Lemma lenN_cons {A} (x : A) l : lenN (x :: l) = 1 + lenN l.
Proof. unfold lenN. cbn [length]. lia. Qed.
Lemma lenN_nil {A} : lenN (@nil A) = 0.
Proof. reflexivity. Qed.

Lemma le_bytes_length k n : length (le_bytes k n) = k.
Proof. revert n; induction k as [|k IH]; intros n; cbn; [reflexivity|now rewrite IH]. Qed.
Lemma le_bytes_lenN k n : lenN (le_bytes k n) = N.of_nat k.
Proof. unfold lenN. now rewrite le_bytes_length. Qed.

Lemma skipn_length_le {A} k (l : list A) : (length (skipn k l) = length l - k)%nat.
Proof. apply skipn_length. Qed.

Lemma bits_to_bytes_fuel_length : forall f bs, (length bs <= f)%nat ->
  length (bits_to_bytes_fuel f bs) = ((length bs + 7) / 8)%nat.
Proof.
  induction f as [|f IH]; intros bs Hle.
  - destruct bs; [reflexivity|cbn in Hle; lia].
  - destruct bs as [|b bs]; [reflexivity|].
    cbn [bits_to_bytes_fuel length]. rewrite IH.
    + rewrite skipn_length. cbn [length]. lia.
    + rewrite skipn_length. cbn [length] in *. lia.
Qed.
Lemma bits_to_bytes_lenN bs : lenN (bits_to_bytes bs) = (lenN bs + 7) / 8.
Proof.
  unfold bits_to_bytes, lenN. rewrite bits_to_bytes_fuel_length by lia. lia.
Qed.

(* length of the two halves produced by ser_go *)
Definition var_part_len (p : bool * bytes) : N := if fst p then 0 else lenN (snd p).
Lemma ser_go_len : forall ps off,
  lenN (fst (ser_go ps off)) = sumN (map fixed_part_len ps) /\
  lenN (snd (ser_go ps off)) = sumN (map var_part_len ps).
Proof.
  induction ps as [|[fx b] ps IH]; intros off; cbn [ser_go map].
  - split; reflexivity.
  - destruct fx.
    + destruct (IH off) as [Hf Hv]. destruct (ser_go ps off) as [f v]. cbn [fst snd] in *.
      unfold sumN in *; cbn [fold_right]. unfold fixed_part_len at 1, var_part_len at 1; cbn [fst snd]. rewrite lenN_app.
      split; [rewrite Hf; reflexivity|rewrite Hv; reflexivity].
    + destruct (IH (off + lenN b)) as [Hf Hv]. destruct (ser_go ps (off + lenN b)) as [f v]. cbn [fst snd] in *.
      unfold sumN in *; cbn [fold_right]. unfold fixed_part_len at 1, var_part_len at 1; cbn [fst snd].
      rewrite !lenN_app, le_bytes_lenN. unfold OFFSET. split; [rewrite Hf|rewrite Hv]; reflexivity.
Qed.

Definition part_len (p : bool * bytes) : N := if fst p then lenN (snd p) else OFFSET + lenN (snd p).
Lemma ser_parts_len parts : lenN (ser_parts parts) = sumN (map part_len parts).
Proof.
  unfold ser_parts. pose proof (ser_go_len parts (sumN (map fixed_part_len parts))) as [Hf Hv].
  destruct (ser_go parts (sumN (map fixed_part_len parts))) as [f v]. cbn [fst snd] in *.
  rewrite lenN_app, Hf, Hv. clear.
  induction parts as [|[fx b] ps IH]; [reflexivity|].
  unfold sumN in *; cbn [map fold_right]. unfold part_len at 1, fixed_part_len at 1, var_part_len at 1; cbn [fst snd].
  destruct fx; lia.
Qed.

(* effective per-element / per-field size bounds, with the 4-byte offset for variable-size ones *)
Definition emin (t : ty) : N := if is_fixed t then min_len t else min_len t + OFFSET.
Definition emax (t : ty) : N := if is_fixed t then max_len t else max_len t + OFFSET.

Lemma seq_parts_bounds (e : ty) (f : val -> bytes) (vs : list val) :
  (forall x, In x vs -> min_len e <= lenN (f x) <= max_len e) ->
  emin e * lenN vs <= sumN (map part_len (map (fun x => (is_fixed e, f x)) vs)) <= emax e * lenN vs.
Proof.
  induction vs as [|x vs IH]; intros Hall.
  - unfold sumN, lenN; cbn. lia.
  - cbn [map]. unfold sumN in *; cbn [fold_right]. rewrite lenN_cons.
    specialize (IH (fun y Hy => Hall y (or_intror Hy))).
    pose proof (Hall x (or_introl eq_refl)) as Hx.
    unfold part_len at 1 3; cbn [fst snd]. unfold emin, emax in *. unfold OFFSET in *.
    destruct (is_fixed e); nia.
Qed.

Lemma forallb_In {A} (p : A -> bool) l x : forallb p l = true -> In x l -> p x = true.
Proof. intros Hf Hin. rewrite forallb_forall in Hf. now apply Hf. Qed.

(* ---- the bounds theorem ---- *)
Theorem ser_len_bounds : forall t v, wf_ty t = true -> wf t v = true ->
  min_len t <= lenN (ser t v) <= max_len t.
Proof.
  induction t as [k| |n|n|n|n|e n IHe|e n IHe|fs Hfs|b os Hos] using ty_ind'; intros v Hty Hwf;
    destruct v; cbn [wf] in Hwf; try discriminate; cbn [ser min_len max_len].
  - rewrite le_bytes_lenN. lia.
  - rewrite lenN_cons, lenN_nil. lia.
  - rewrite bits_to_bytes_lenN. apply N.eqb_eq in Hwf. rewrite Hwf. lia.
  - rewrite bits_to_bytes_lenN, lenN_app, lenN_cons, lenN_nil. apply N.leb_le in Hwf. lia.
  - apply N.eqb_eq in Hwf. lia.
  - apply N.leb_le in Hwf. lia.
  - (* vector *)
    apply andb_true_iff in Hwf as [Hn Hall]. apply N.eqb_eq in Hn.
    cbn [wf_ty] in Hty. apply andb_true_iff in Hty as [Hty _]. apply andb_true_iff in Hty as [Hte _].
    rewrite ser_parts_len.
    pose proof (seq_parts_bounds e (ser e) vs (fun x Hx => IHe x Hte (forallb_In _ _ _ Hall Hx))) as Hb.
    rewrite Hn in Hb. unfold emin, emax in Hb. exact Hb.
  - (* list *)
    apply andb_true_iff in Hwf as [Hn Hall]. apply N.leb_le in Hn.
    cbn [wf_ty] in Hty. apply andb_true_iff in Hty as [Hte _].
    rewrite ser_parts_len.
    pose proof (seq_parts_bounds e (ser e) vs (fun x Hx => IHe x Hte (forallb_In _ _ _ Hall Hx))) as Hb.
    unfold emin, emax in Hb. split; [lia|].
    destruct (is_fixed e); nia.
  - (* container *)
    cbn [wf_ty] in Hty. apply andb_true_iff in Hty as [_ Htys].
    rewrite ser_parts_len.
    revert vs Hwf. induction Hfs as [|f fs Hf Hfs' IH]; intros vs Hwf.
    + destruct vs; [|discriminate]. unfold sumN; cbn. lia.
    + destruct vs as [|x vs]; [discriminate|].
      apply andb_true_iff in Hwf as [Hx Hrest].
      cbn [forallb] in Htys. apply andb_true_iff in Htys as [Htf Htys].
      specialize (IH Htys vs Hrest). specialize (Hf x Htf Hx).
      cbn [map]. unfold sumN in *; cbn [fold_right]. unfold part_len at 1 3; cbn [fst snd]. unfold OFFSET in *.
      destruct (is_fixed f); lia.
  - (* union *)
    rewrite lenN_cons. cbn [wf_ty] in Hty.
    apply andb_true_iff in Hty as [Hty _]. apply andb_true_iff in Hty as [Htys Hne].
    destruct v as [x|].
    + apply andb_true_iff in Hwf as [Hsel Hpick].
      (* the picked option's encoding is within its own bounds, hence within min/max over options *)
      assert (forall (os' : list ty) i, Forall (fun t => forall v, wf_ty t = true -> wf t v = true ->
                  min_len t <= lenN (ser t v) <= max_len t) os' -> forallb wf_ty os' = true ->
               (fix pick (os : list ty) (i : nat) : bool :=
                  match os, i with o :: _, O => wf o x | _ :: os', S i' => pick os' i' | [], _ => false end) os' i = true ->
               exists o, In o os' /\
                 min_len o <= lenN ((fix pick (os : list ty) (i : nat) : bytes :=
                   match os, i with o :: _, O => ser o x | _ :: os', S i' => pick os' i' | [], _ => [] end) os' i) <= max_len o) as Hp.
      { induction os' as [|o os' IHo]; intros i HF Ht Hp; [destruct i; discriminate|].
        inversion HF as [|? ? Ho HF']; subst. cbn [forallb] in Ht. apply andb_true_iff in Ht as [Hto Ht'].
        destruct i as [|i].
        - exists o. split; [now left|]. now apply Ho.
        - destruct (IHo i HF' Ht' Hp) as (o' & Hin & Hb). exists o'. split; [now right|exact Hb]. }
      destruct (Hp os _ Hos Htys Hpick) as (o & Hin & Hb).
      assert (maxN (map max_len os) >= max_len o) as Hmax.
      { clear - Hin. induction os as [|a os IH]; [contradiction|]. unfold maxN in *; cbn.
        destruct Hin as [->|Hin]; [lia|]. specialize (IH Hin). lia. }
      split.
      * destruct os as [|o0 os0]; [contradiction|]. destruct b; [lia|].
        assert (minN (map min_len os0) (min_len o0) <= min_len o) as Hmin.
        { clear - Hin. unfold minN. destruct Hin as [->|Hin].
          - induction os0 as [|a l IH]; cbn; lia.
          - induction os0 as [|a l IH]; [contradiction|]. cbn. destruct Hin as [->|Hin]; [lia|]. specialize (IH Hin). lia. }
        lia.
      * lia.
    + apply andb_true_iff in Hwf as [Hb Hsel]. rewrite Hb.
      change (lenN (@nil byte)) with 0. destruct os; lia.
Qed.

(* for fixed-size types the encoding length is exactly the fixed size *)
Corollary ser_len_fixed t v : wf_ty t = true -> wf t v = true -> is_fixed t = true ->
  lenN (ser t v) = fsize t.
Proof.
  intros Hty Hwf Hf. pose proof (ser_len_bounds t v Hty Hwf).
  destruct (fixed_min_eq_fsize t Hf). lia.
Qed.
