(* Types.v — SSZ type and value syntax, well-formedness, and the specification-side type facts. *)
Require Import RM.Base.
Local Open Scope N_scope.

Inductive ty :=
| TUint (nbytes : N)                 (* uint8..uint256: nbytes in {1,2,4,8,16,32} *)
| TBool
| TBitvector (n : N)
| TBitlist (limit : N)
| TByteVector (n : N)
| TByteList (limit : N)
| TVector (e : ty) (n : N)
| TList (e : ty) (limit : N)
| TContainer (fs : list ty)          (* field i is named f<i> by the harness *)
| TUnion (none0 : bool) (opts : list ty).   (* none0: option 0 is None; opts: the other options *)

Inductive val :=
| VUint (n : N)
| VBool (b : bool)
| VBits (bs : list bool)
| VBytes (bs : bytes)
| VSeq (vs : list val)
| VCont (vs : list val)
| VUnion (sel : nat) (v : option val).

(* induction principle with the nested lists *)
Section TyInd.
Variable P : ty -> Prop.
Hypothesis Huint : forall k, P (TUint k).
Hypothesis Hbool : P TBool.
Hypothesis Hbv : forall n, P (TBitvector n).
Hypothesis Hbl : forall n, P (TBitlist n).
Hypothesis Hbytev : forall n, P (TByteVector n).
Hypothesis Hbytel : forall n, P (TByteList n).
Hypothesis Hvec : forall e n, P e -> P (TVector e n).
Hypothesis Hlist : forall e n, P e -> P (TList e n).
Hypothesis Hcont : forall fs, Forall P fs -> P (TContainer fs).
Hypothesis Hunion : forall b os, Forall P os -> P (TUnion b os).
Fixpoint ty_ind' (t : ty) : P t :=
  match t with
  | TUint k => Huint k | TBool => Hbool | TBitvector n => Hbv n | TBitlist n => Hbl n
  | TByteVector n => Hbytev n | TByteList n => Hbytel n
  | TVector e n => Hvec e n (ty_ind' e) | TList e n => Hlist e n (ty_ind' e)
  | TContainer fs => Hcont fs ((fix go (l : list ty) : Forall P l :=
        match l with [] => Forall_nil P | x :: r => Forall_cons x (ty_ind' x) (go r) end) fs)
  | TUnion b os => Hunion b os ((fix go (l : list ty) : Forall P l :=
        match l with [] => Forall_nil P | x :: r => Forall_cons x (ty_ind' x) (go r) end) os)
  end.
End TyInd.

(* byte size of a basic type (isinstance(t, BasicView)) *)
Definition basic_size (t : ty) : option N :=
  match t with TUint k => Some k | TBool => Some 1 | _ => None end.
Definition is_basic (t : ty) : bool := match basic_size t with Some _ => true | None => false end.

(* ---- specification-side type facts (simple-serialize.md) ---- *)
Fixpoint is_fixed (t : ty) : bool :=
  match t with
  | TUint _ | TBool | TBitvector _ | TByteVector _ => true
  | TBitlist _ | TByteList _ | TList _ _ | TUnion _ _ => false
  | TVector e _ => is_fixed e
  | TContainer fs => forallb is_fixed fs
  end.

Definition sumN (l : list N) : N := fold_right N.add 0 l.
Definition minN (l : list N) (d : N) : N := fold_right N.min d l.
Definition maxN (l : list N) : N := fold_right N.max 0 l.

(* fixed size (meaningful when is_fixed) *)
Fixpoint fsize (t : ty) : N :=
  match t with
  | TUint k => k | TBool => 1
  | TBitvector n => (n + 7) / 8 | TByteVector n => n
  | TVector e n => fsize e * n
  | TContainer fs => sumN (map fsize fs)
  | _ => 0
  end.

Definition OFFSET : N := 4.

Fixpoint min_len (t : ty) : N :=
  match t with
  | TUint k => k | TBool => 1
  | TBitvector n => (n + 7) / 8 | TByteVector n => n
  | TBitlist _ => 1 | TByteList _ => 0 | TList _ _ => 0
  | TVector e n => (if is_fixed e then min_len e else min_len e + OFFSET) * n
  | TContainer fs => sumN (map (fun f => if is_fixed f then min_len f else min_len f + OFFSET) fs)
  | TUnion none0 opts =>
      1 + match opts with
          | [] => 0
          | o :: os => if none0 then 0 else minN (map min_len os) (min_len o)
          end
  end.

Fixpoint max_len (t : ty) : N :=
  match t with
  | TUint k => k | TBool => 1
  | TBitvector n => (n + 7) / 8 | TByteVector n => n
  | TBitlist l => l / 8 + 1 | TByteList l => l
  | TList e l => (if is_fixed e then max_len e else max_len e + OFFSET) * l
  | TVector e n => (if is_fixed e then max_len e else max_len e + OFFSET) * n
  | TContainer fs => sumN (map (fun f => if is_fixed f then max_len f else max_len f + OFFSET) fs)
  | TUnion _ opts => 1 + maxN (map max_len opts)
  end.

(* number of chunks at the bottom of the type's tree (spec: chunk_count) *)
Definition chunk_count (t : ty) : N :=
  match t with
  | TUint _ | TBool => 1
  | TBitvector n | TBitlist n => (n + 255) / 256
  | TByteVector n | TByteList n => (n + 31) / 32
  | TVector e n | TList e n =>
      match basic_size e with Some s => (n * s + 31) / 32 | None => n end
  | TContainer fs => lenN fs
  | TUnion _ _ => 1
  end.

(* legal types that the library can build *)
Definition uint_size_ok (k : N) : bool :=
  (k =? 1) || (k =? 2) || (k =? 4) || (k =? 8) || (k =? 16) || (k =? 32).
Definition LIMIT_BOUND : N := 2 ^ 64.

Fixpoint wf_ty (t : ty) : bool :=
  match t with
  | TUint k => uint_size_ok k
  | TBool => true
  | TBitvector n | TByteVector n => (1 <=? n) && (n <? LIMIT_BOUND)
  | TBitlist l | TByteList l => l <? LIMIT_BOUND
  | TVector e n => wf_ty e && (1 <=? n) && (n <? LIMIT_BOUND)
  | TList e l => wf_ty e && (l <? LIMIT_BOUND)
  | TContainer fs => negb (lenN fs =? 0) && forallb wf_ty fs
  | TUnion none0 opts =>
      forallb wf_ty opts && negb (lenN opts =? 0) && (lenN opts + (if none0 then 1 else 0) <=? 128)
  end.

(* well-formed values *)
Fixpoint wf (t : ty) (v : val) {struct t} : bool :=
  match t, v with
  | TUint k, VUint n => n <? 2 ^ (8 * k)
  | TBool, VBool _ => true
  | TBitvector n, VBits bs => lenN bs =? n
  | TBitlist l, VBits bs => lenN bs <=? l
  | TByteVector n, VBytes bs => lenN bs =? n
  | TByteList l, VBytes bs => lenN bs <=? l
  | TVector e n, VSeq vs => (lenN vs =? n) && forallb (wf e) vs
  | TList e l, VSeq vs => (lenN vs <=? l) && forallb (wf e) vs
  | TContainer fs, VCont vs =>
      (fix go (fs : list ty) (vs : list val) : bool :=
         match fs, vs with
         | [], [] => true
         | f :: fs', x :: vs' => wf f x && go fs' vs'
         | _, _ => false
         end) fs vs
  | TUnion none0 opts, VUnion sel ov =>
      match ov with
      | None => none0 && Nat.eqb sel 0
      | Some x =>
          let i := if none0 then pred sel else sel in
          (if none0 then negb (Nat.eqb sel 0) else true) &&
          (fix pick (os : list ty) (i : nat) : bool :=
             match os, i with
             | o :: _, O => wf o x
             | _ :: os', S i' => pick os' i'
             | [], _ => false
             end) opts i
      end
  | _, _ => false
  end.

(* the SSZ zero value of a type *)
Fixpoint zero_val (t : ty) : val :=
  match t with
  | TUint _ => VUint 0
  | TBool => VBool false
  | TBitvector n => VBits (repeat false (N.to_nat n))
  | TBitlist _ => VBits []
  | TByteVector n => VBytes (repeat x00 (N.to_nat n))
  | TByteList _ => VBytes []
  | TVector e n => VSeq (repeat (zero_val e) (N.to_nat n))
  | TList _ _ => VSeq []
  | TContainer fs => VCont (map zero_val fs)
  | TUnion none0 opts =>
      if none0 then VUnion 0 None
      else match opts with o :: _ => VUnion 0 (Some (zero_val o)) | [] => VUnion 0 None end
  end.
