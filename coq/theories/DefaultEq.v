(* DefaultEq.v — C12: the default backing of every type IS the backing the constructor builds for
   the type's zero value (same tree, not just same root); hence its encoding is the zero value's
   encoding, and its fixed structure is navigable: every container field / vector element position
   holds the field's / element's own default backing. *)
Require Import RM.Base RM.Gindex RM.Tree RM.TreeProofs RM.Types RM.Spec RM.ModelViews RM.ModelCodec
               RM.SerLen RM.FactsProofs RM.MerkleProofs RM.PackProofs RM.CtorProofs RM.DefaultProofs RM.ChunkProofs
               RM.PathProofs RM.CRepProofs RM.SerProofs2 RM.SerAll.
From Coq Require Import ZifyBool ZifyNat ZifyN.
Local Open Scope N_scope.
Section WithHash.
Variable H : bytes -> bytes -> bytes.
Notation zero_node := (zero_node H).
Notation fill_to_length := (fill_to_length H).
Notation fill_to_contents := (fill_to_contents H).
Notation default_node := (default_node H).
Notation mk := (mk H).

Lemma pow2_S d : pow2 (S d) = 2 * pow2 d.
Proof. unfold pow2. rewrite !N.shiftl_1_l, Nat2N.inj_succ, N.pow_succ_r'. reflexivity. Qed.
Lemma pow2_pos' d : 1 <= pow2 d.
Proof. unfold pow2. rewrite N.shiftl_1_l. pose proof (N.pow_nonzero 2 (N.of_nat d)). lia. Qed.

Lemma ftl_unfold b d len : fill_to_length b d len =
  if len =? 0 then Ok (zero_node d)
  else if pow2 d <? len then Err EOther
  else if len =? pow2 d then Ok (fill_to_depth b d)
  else match d with
       | O => Err ENav
       | S O => Ok (PairN b (if 1 <? len then b else zero_node 0))
       | S d' =>
           let pivot := pow2 d' in
           if len <=? pivot then do l <- fill_to_length b d' len; Ok (PairN l (zero_node d'))
           else do r <- fill_to_length b d' (len - pivot); Ok (PairN (fill_to_depth b d') r)
       end.
Proof. destruct d; reflexivity. Qed.
Lemma fc_unfold nodes d : fill_to_contents nodes d =
  match nodes with
  | [] => Ok (zero_node d)
  | n0 :: rest =>
      if pow2 d <? lenN nodes then Err EOther
      else match d with
           | O => match rest with [] => Ok n0 | _ => Err ENav end
           | S O => Ok (PairN n0 (match rest with n1 :: _ => n1 | [] => zero_node 0 end))
           | S d' =>
               let pivot := pow2 d' in
               if lenN nodes <=? pivot then do l <- fill_to_contents nodes d'; Ok (PairN l (zero_node d'))
               else
                 let k := N.to_nat pivot in
                 do l <- fill_to_contents (firstn k nodes) d';
                 do r <- fill_to_contents (skipn k nodes) d';
                 Ok (PairN l r)
           end
  end.
Proof. destruct d; reflexivity. Qed.

Lemma firstn_repeat' {A} (a : A) j k : (j <= k)%nat -> firstn j (repeat a k) = repeat a j.
Proof. revert k; induction j as [|j IH]; intros [|k] Hk; cbn; try lia; auto. f_equal. apply IH. lia. Qed.
Lemma skipn_repeat {A} (a : A) j k : skipn j (repeat a k) = repeat a (k - j).
Proof. revert k; induction j as [|j IH]; intros [|k]; cbn; auto. Qed.

Lemma ftl_full b d : fill_to_length b d (pow2 d) = Ok (fill_to_depth b d).
Proof.
  rewrite ftl_unfold. pose proof (pow2_pos' d).
  assert ((pow2 d =? 0) = false) as -> by (apply N.eqb_neq; lia).
  rewrite N.ltb_irrefl, N.eqb_refl. reflexivity.
Qed.

Lemma ftl_eq_fc b : forall d k, k <= pow2 d -> fill_to_length b d k = fill_to_contents (repeat b (N.to_nat k)) d.
Proof.
  induction d as [|d IH]; intros k Hk.
  - change (pow2 0) with 1 in Hk. assert (k = 0 \/ k = 1) as [ -> | -> ] by lia; reflexivity.
  - destruct d as [|d].
    + change (pow2 1) with 2 in Hk. assert (k = 0 \/ k = 1 \/ k = 2) as [ -> | [ -> | -> ]] by lia; reflexivity.
    + pose proof (pow2_pos' (S d)) as Hp. rewrite (pow2_S (S d)) in Hk.
      rewrite ftl_unfold, fc_unfold. rewrite (pow2_S (S d)).
      destruct (k =? 0) eqn:E0; [apply N.eqb_eq in E0; subst k; reflexivity|]. apply N.eqb_neq in E0.
      destruct (N.to_nat k) as [|m] eqn:Em; [lia|]. cbn [repeat]. change (b :: repeat b m) with (repeat b (S m)). rewrite <- Em.
      assert (lenN (repeat b (N.to_nat k)) = k) as -> by (unfold lenN; rewrite repeat_length; lia).
      assert ((2 * pow2 (S d) <? k) = false) as -> by (apply N.ltb_ge; lia).
      cbv zeta.
      destruct (k =? 2 * pow2 (S d)) eqn:Efull.
      * apply N.eqb_eq in Efull. subst k.
        assert ((2 * pow2 (S d) <=? pow2 (S d)) = false) as -> by (apply N.leb_gt; lia).
        rewrite firstn_repeat' by lia. rewrite skipn_repeat.
        replace (N.to_nat (2 * pow2 (S d)) - N.to_nat (pow2 (S d)))%nat with (N.to_nat (pow2 (S d))) by lia.
        rewrite <- (IH (pow2 (S d))) by lia. rewrite ftl_full. reflexivity.
      * apply N.eqb_neq in Efull. destruct (k <=? pow2 (S d)) eqn:Ele.
        -- apply N.leb_le in Ele. rewrite (IH k Ele). reflexivity.
        -- apply N.leb_gt in Ele. rewrite firstn_repeat' by lia. rewrite skipn_repeat.
           replace (N.to_nat k - N.to_nat (pow2 (S d)))%nat with (N.to_nat (k - pow2 (S d))) by lia.
           rewrite <- (IH (pow2 (S d))) by lia. rewrite ftl_full. cbn [bind].
           rewrite (IH (k - pow2 (S d))) by lia. reflexivity.
Qed.
Lemma Forall_eq_repeat {A} (x : A) l : Forall (fun c => c = x) l -> l = repeat x (length l).
Proof. induction 1 as [|c l -> _ IH]; [reflexivity|]. cbn. now rewrite <- IH. Qed.
Lemma zero_chunks (bs : bytes) : allz bs -> map RootN (chunks bs) = repeat (zero_node 0) ((length bs + 31) / 32).
Proof.
  intros Hz. rewrite (Forall_eq_repeat zero32 (chunks bs) (chunks_allz bs Hz)), chunks_length, map_repeat. reflexivity.
Qed.
Lemma get_depth_pow2 k : k <= pow2 (get_depth k).
Proof. pose proof (get_depth_fits k). pose proof (pow2_nat (get_depth k)). lia. Qed.
Lemma seq_res_repeat {A B} (f : A -> result B) x y k : f x = Ok y -> seq_res (map f (repeat x k)) = Ok (repeat y k).
Proof. intros Hf. induction k as [|k IH]; [reflexivity|]. cbn [repeat map seq_res]. rewrite Hf, IH. reflexivity. Qed.

Theorem default_eq_mk : forall t, wf_ty t = true -> default_node t = mk t (zero_val t).
Proof.
  induction t as [k| |n|l|n|l|e n IHe|e l IHe|fs Hfs|b os Hos] using ty_ind'; intros Hty.
  - (* uint *) cbn [ModelViews.default_node ModelViews.mk mk_basic zero_val].
    assert ((0 <? 2 ^ (8 * k)) = true) as -> by (apply N.ltb_lt; apply N.neq_0_lt_0, N.pow_nonzero; lia). cbn [bind].
    rewrite le_bytes_zero. rewrite pad32_allz; [reflexivity|apply allz_repeat|rewrite repeat_length].
    cbn [wf_ty] in Hty. apply uint_size_cases in Hty. lia.
  - reflexivity.
  - (* bitvector *) cbn [wf_ty] in Hty. apply andb_true_iff in Hty as [Hn1 _]. apply N.leb_le in Hn1.
    cbn [ModelViews.default_node ModelViews.mk zero_val].
    assert (lenN (repeat false (N.to_nat n)) = n) as El by (unfold lenN; rewrite repeat_length; lia). rewrite El, N.eqb_refl. cbn [negb].
    rewrite pack_bits_chunks, (zero_chunks _ (bits_allz _)).
    pose proof (bits_to_bytes_lenN (repeat false (N.to_nat n))) as Hb. rewrite El in Hb. unfold lenN in Hb.
    rewrite ftl_eq_fc by (cbn [contents_depth]; apply get_depth_pow2). f_equal. f_equal. lia.
  - cbn [ModelViews.default_node ModelViews.mk zero_val]. assert ((l <? lenN (@nil bool)) = false) as -> by (apply N.ltb_ge; unfold lenN; cbn; lia). try change (pack_bits []) with (@nil bytes); try change (pack_bytes []) with (@nil bytes); cbn [map]; rewrite fc_unfold; reflexivity.
  - (* bytevector *) cbn [ModelViews.default_node ModelViews.mk zero_val].
    assert (lenN (repeat x00 (N.to_nat n)) = n) as El by (unfold lenN; rewrite repeat_length; lia). rewrite El, N.eqb_refl. cbn [negb].
    rewrite pack_bytes_chunks, (zero_chunks _ (allz_repeat _)). rewrite repeat_length.
    rewrite ftl_eq_fc by (cbn [contents_depth]; apply get_depth_pow2). f_equal. f_equal. lia.
  - cbn [ModelViews.default_node ModelViews.mk zero_val]. assert ((l <? lenN (@nil byte)) = false) as -> by (apply N.ltb_ge; unfold lenN; cbn; lia). try change (pack_bits []) with (@nil bytes); try change (pack_bytes []) with (@nil bytes); cbn [map]; rewrite fc_unfold; reflexivity.
  - (* vector *)
    pose proof Hty as Hty0. cbn [wf_ty] in Hty. apply andb_true_iff in Hty as [Hty Hnb]. apply andb_true_iff in Hty as [Hte Hn1]. apply N.leb_le in Hn1.
    cbn [ModelViews.default_node ModelViews.mk zero_val]. rewrite is_basic_size.
    assert (lenN (repeat (zero_val e) (N.to_nat n)) = n) as El by (unfold lenN; rewrite repeat_length; lia).
    destruct (repeat (zero_val e) (N.to_nat n)) as [|z0 zs] eqn:Erep; [apply (f_equal (@length val)) in Erep; rewrite repeat_length in Erep; cbn in Erep; lia|].
    rewrite <- Erep in El |- *. rewrite El, N.eqb_refl. cbn [negb].
    destruct (basic_size e) as [s|] eqn:E.
    + cbn [bind].
      assert (mk_basic e (zero_val e) = Ok 0) as Hz.
      { destruct e; cbn in E; try discriminate; [|reflexivity]. cbn [mk_basic zero_val].
        assert ((0 <? 2 ^ (8 * nbytes)) = true) as -> by (apply N.ltb_lt; apply N.neq_0_lt_0, N.pow_nonzero; lia). reflexivity. }
      rewrite (seq_res_repeat _ _ _ _ Hz). cbn [bind].
      rewrite (pack_ints_chunks s _ (basic_size_ok e s Hte E)).
      rewrite zero_chunks.
      2:{ apply concat_allz. apply Forall_forall. intros x Hx. apply in_map_iff in Hx as (z & <- & Hz'). apply repeat_spec in Hz'. subst z. rewrite le_bytes_zero. apply allz_repeat. }
      rewrite ftl_eq_fc by (cbn [contents_depth]; apply get_depth_pow2). f_equal. f_equal.
      rewrite (concat_uniform_length (N.to_nat s)).
      2:{ apply Forall_forall. intros x Hx. apply in_map_iff in Hx as (z & <- & _). apply le_bytes_length. }
      rewrite map_length, repeat_length. unfold to_chunk_length. rewrite E.
      rewrite (chunk_len_eq s n (basic_size_ok e s Hte E)). lia.
    + rewrite (IHe Hte). destruct (mk e (zero_val e)) as [el|] eqn:Hel; cbn [bind].
      * rewrite (seq_res_repeat _ _ _ _ Hel). cbn [bind].
        rewrite ftl_eq_fc by (cbn [contents_depth]; unfold to_chunk_length; rewrite E; apply get_depth_pow2).
        unfold to_chunk_length. rewrite E. reflexivity.
      * exfalso. destruct (mk_root H e (zero_val e) Hte (wf_zero e Hte)) as (x & Hx & _). congruence.
  - reflexivity.
  - (* container *)
    cbn [wf_ty] in Hty. apply andb_true_iff in Hty as [_ Htys].
    cbn [ModelViews.default_node ModelViews.mk zero_val]. f_equal.
    induction Hfs as [|f fs Hf Hfs' IH]; [reflexivity|].
    cbn [forallb] in Htys. apply andb_true_iff in Htys as [Htf Htys].
    cbn [map seq_res]. rewrite (Hf Htf). rewrite (IH Htys). reflexivity.
  - (* union *)
    cbn [wf_ty] in Hty. apply andb_true_iff in Hty as [Hty Hcount]. apply andb_true_iff in Hty as [Htys Hne].
    cbn [ModelViews.default_node zero_val]. destruct b.
    + cbn [ModelViews.mk]. assert ((lenN os + 1 <=? N.of_nat 0) = false) as -> by (apply N.leb_gt; lia). reflexivity.
    + destruct os as [|o os]; [discriminate|]. inversion Hos as [|? ? Ho _]; subst. cbn [forallb] in Htys. apply andb_true_iff in Htys as [Hto _].
      cbn [ModelViews.mk]. assert ((lenN (o :: os) + 0 <=? N.of_nat 0) = false) as -> by (apply N.leb_gt; rewrite lenN_cons; lia).
      cbn [andb]. rewrite (Ho Hto). reflexivity.
Qed.

(* the default's encoding is the zero value's encoding *)
Corollary default_encoding (src : bytes -> option (bytes * bytes)) t : wf_ty t = true ->
  exists n, default_node t = Ok n /\ root H n = htr H t (zero_val t) /\
            ser_impl H src t n = Ok (ser t (zero_val t), lenN (ser t (zero_val t))).
Proof.
  intros Hty. pose proof (wf_zero t Hty) as Hwf. destruct (mk_root H t (zero_val t) Hty Hwf) as (n & Hn & Hr).
  exists n. rewrite (default_eq_mk t Hty). split; [exact Hn|]. split; [exact Hr|].
  exact (ser_constructed H src t (zero_val t) n Hty Hwf Hn).
Qed.

(* navigable fixed structure: container fields *)
Theorem default_container_navigable (src : bytes -> option (bytes * bytes)) fs n : wf_ty (TContainer fs) = true ->
  default_node (TContainer fs) = Ok n ->
  forall i, (i < length fs)%nat ->
  exists c, getter_i src n (N.of_nat i) (contents_depth (TContainer fs)) = Ok c /\ default_node (nth i fs TBool) = Ok c.
Proof.
  intros Hty Hd i Hi. cbn [ModelViews.default_node] in Hd.
  destruct (seq_res (map default_node fs)) as [ns|] eqn:Hns; [|discriminate]. cbn [bind] in Hd.
  destruct (seq_res_map_ok default_node fs ns Hns) as [Hl Hn].
  destruct (fill_to_contents_CRep H (contents_depth (TContainer fs)) ns) as (n' & Hf & Hc).
  { rewrite Hl. cbn [contents_depth]. pose proof (get_depth_fits (lenN fs)). unfold lenN in *. lia. }
  rewrite Hf in Hd. inversion Hd; subst n'.
  exists (nth i ns (RootN zero32)). split; [|apply Hn; exact Hi].
  rewrite <- (Nat2N.id i) at 2. apply (getter_i_crep H src _ _ _ _ _ Hc). unfold lenN. lia.
Qed.

(* navigable fixed structure: vector elements (composite element type) *)
Theorem default_vector_navigable (src : bytes -> option (bytes * bytes)) e k n : wf_ty (TVector e k) = true -> basic_size e = None ->
  default_node (TVector e k) = Ok n ->
  forall i, i < k ->
  exists c, getter_i src n i (contents_depth (TVector e k)) = Ok c /\ default_node e = Ok c.
Proof.
  intros Hty Eb Hd i Hi. cbn [ModelViews.default_node] in Hd. rewrite is_basic_size, Eb in Hd.
  destruct (default_node e) as [el|] eqn:Hel; [|discriminate]. cbn [bind] in Hd.
  unfold to_chunk_length in Hd. rewrite Eb in Hd.
  rewrite ftl_eq_fc in Hd by (cbn [contents_depth]; unfold to_chunk_length; rewrite Eb; apply get_depth_pow2).
  destruct (fill_to_contents_CRep H (contents_depth (TVector e k)) (repeat el (N.to_nat k))) as (n' & Hf & Hc).
  { rewrite repeat_length. cbn [contents_depth]. unfold to_chunk_length. rewrite Eb. apply get_depth_fits. }
  rewrite Hf in Hd. inversion Hd; subst n'.
  exists el. split; [|reflexivity].
  rewrite (getter_i_crep H src _ _ _ i el Hc) by (unfold lenN; rewrite repeat_length; lia).
  f_equal. apply nth_repeat.
Qed.

(* a container built with some fields omitted is the container built from the value in which every omitted field
   holds its type's zero value (same backing tree) *)
Fixpoint fill_omitted (fs : list ty) (ovs : list (option val)) : list val :=
  match fs, ovs with
  | f :: fs', o :: ovs' => (match o with Some x => x | None => zero_val f end) :: fill_omitted fs' ovs'
  | _, _ => []
  end.

Theorem omitted_fields_default fs ovs : forallb wf_ty fs = true -> length ovs = length fs ->
  mk_container_partial H fs ovs = mk (TContainer fs) (VCont (fill_omitted fs ovs)).
Proof.
  intros Htys Hlen. unfold mk_container_partial. cbn [ModelViews.mk]. f_equal.
  revert ovs Hlen. induction fs as [|f fs IH]; intros [|o ovs] Hlen; try discriminate; [reflexivity|].
  cbn [forallb] in Htys. apply andb_true_iff in Htys as [Htf Htys]. cbn [fill_omitted].
  assert (match o with Some x' => mk f x' | None => default_node f end = mk f (match o with Some x => x | None => zero_val f end)) as ->
    by (destruct o; [reflexivity|now apply default_eq_mk]).
  rewrite (IH Htys ovs) by (cbn in Hlen; lia). reflexivity.
Qed.

End WithHash.
