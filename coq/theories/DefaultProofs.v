(* DefaultProofs.v — default_node is the backing of the SSZ zero value (C12). *)
Require Import RM.Base RM.Gindex RM.Tree RM.Types RM.Spec RM.ModelViews RM.SerLen RM.MerkleProofs RM.PackProofs RM.CtorProofs.
From Coq Require Import ZifyBool ZifyNat ZifyN.
Ltac Zify.zify_post_hook ::= Z.to_euclidean_division_equations.
Local Open Scope N_scope.

Definition allz (bs : bytes) : Prop := Forall (fun b => b = x00) bs.

Lemma allz_repeat k : allz (repeat x00 k).
Proof. apply Forall_forall. intros b Hb. now apply repeat_spec in Hb. Qed.
Lemma allz_eq bs : allz bs -> bs = repeat x00 (length bs).
Proof. induction 1 as [|b bs Hb Hbs IH]; [reflexivity|]. cbn. now rewrite Hb, <- IH. Qed.
Lemma allz_firstn k bs : allz bs -> allz (firstn k bs).
Proof. unfold allz. intros Hz. apply Forall_forall. intros b Hb. rewrite Forall_forall in Hz. apply Hz. eapply In_firstn; eauto. Qed.
Lemma allz_skipn k bs : allz bs -> allz (skipn k bs).
Proof. unfold allz. intros Hz. apply Forall_forall. intros b Hb. rewrite Forall_forall in Hz. apply Hz. eapply In_skipn; eauto. Qed.
Lemma allz_app a b : allz a -> allz b -> allz (a ++ b).
Proof. unfold allz. intros. apply Forall_app. auto. Qed.

Lemma pad32_length bs : (length bs <= 32)%nat -> length (pad32 bs) = 32%nat.
Proof. intros Hl. unfold pad32, pad_to, zero_bytes. rewrite app_length, repeat_length. lia. Qed.
Lemma pad32_allz bs : allz bs -> (length bs <= 32)%nat -> pad32 bs = zero32.
Proof.
  intros Hz Hl. assert (allz (pad32 bs)) as Hp by (apply allz_app; [exact Hz|apply allz_repeat]).
  rewrite (allz_eq _ Hp), (pad32_length bs Hl). reflexivity.
Qed.

Lemma le_bytes_zero k : le_bytes k 0 = repeat x00 k.
Proof. induction k as [|k IH]; [reflexivity|]. cbn [le_bytes repeat]. rewrite N.div_0_l by lia. now rewrite IH. Qed.

(* chunks of an all-zero byte string are all zero chunks *)
Lemma chunks_fuel_allz : forall f bs, allz bs -> Forall (fun c => c = zero32) (chunks_fuel f bs).
Proof.
  induction f as [|f IH]; intros bs Hz; cbn [chunks_fuel]; [constructor|]. destruct bs as [|b bs]; [constructor|].
  constructor.
  - apply pad32_allz; [apply allz_firstn; exact Hz|rewrite firstn_length; lia].
  - apply IH. apply allz_skipn. exact Hz.
Qed.
Lemma chunks_allz bs : allz bs -> Forall (fun c => c = zero32) (chunks bs).
Proof. apply chunks_fuel_allz. Qed.

Lemma bits_byte_false l : Forall (fun b => b = false) l -> bits_byte l = x00.
Proof.
  intros Hl. unfold bits_byte.
  assert (fold_right (fun (b : bool) acc => (if b then 1 else 0) + 2 * acc) 0 l = 0) as ->; [|reflexivity].
  induction Hl as [|b l Hb Hl IH]; [reflexivity|]. cbn [fold_right]. rewrite IH, Hb. reflexivity.
Qed.
Lemma bits_fuel_allz : forall f bs, Forall (fun b => b = false) bs -> allz (bits_to_bytes_fuel f bs).
Proof.
  induction f as [|f IH]; intros bs Hz; cbn [bits_to_bytes_fuel]; [constructor|]. destruct bs as [|b bs]; [constructor|].
  constructor.
  - apply bits_byte_false. apply Forall_forall. intros x Hx. rewrite Forall_forall in Hz. apply Hz. eapply In_firstn; eauto.
  - apply IH. apply Forall_forall. intros x Hx. rewrite Forall_forall in Hz. apply Hz. eapply In_skipn; eauto.
Qed.
Lemma bits_allz n : allz (bits_to_bytes (repeat false n)).
Proof. apply bits_fuel_allz. apply Forall_forall. intros b Hb. now apply repeat_spec in Hb. Qed.

Section WithHash.
Variable H : bytes -> bytes -> bytes.
Notation root := (root H).
Notation zero_hash := (zero_hash H).
Notation zero_node := (zero_node H).
Notation merkleize := (merkleize H).
Notation htr := (htr H).

Lemma merkleize_all_zero d cs : Forall (fun c => c = zero32) cs -> merkleize d cs = zero_hash d.
Proof.
  intros Hz. unfold Spec.merkleize. apply mroot_zero. intros i _. cbn [Nat.add].
  destruct (nth_in_or_default i cs zero32) as [Hin|Hd]; [|exact Hd].
  rewrite Forall_forall in Hz. now apply Hz.
Qed.

Lemma map_repeat {A B} (f : A -> B) x n : map f (repeat x n) = repeat (f x) n.
Proof. induction n as [|n IH]; [reflexivity|]. cbn. now rewrite IH. Qed.

Lemma concat_allz (ls : list bytes) : Forall allz ls -> allz (concat ls).
Proof. induction 1 as [|l ls Hl Hls IH]; [constructor|]. cbn. apply Forall_app. split; assumption. Qed.

(* the encoding of the zero value of a basic type is all zero bytes *)
Lemma ser_zero_basic e s : basic_size e = Some s -> allz (ser e (zero_val e)).
Proof.
  destruct e; cbn; intros E; inversion E; subst.
  - rewrite le_bytes_zero. apply allz_repeat.
  - repeat constructor.
Qed.

Theorem default_root : forall t, wf_ty t = true ->
  exists n, default_node H t = Ok n /\ root n = htr t (zero_val t).
Proof.
  induction t as [k| |n|l|n|l|e n IHe|e l IHe|fs Hfs|b os Hos] using ty_ind'; intros Hty.
  - (* uint *) eexists; split; [reflexivity|]. cbn [Tree.root Tree.zero_node Tree.zero_hash Spec.htr zero_val Spec.ser].
    rewrite le_bytes_zero. symmetry. apply pad32_allz; [apply allz_repeat|rewrite repeat_length].
    cbn [wf_ty] in Hty. apply uint_size_cases in Hty. lia.
  - (* bool *) eexists; split; reflexivity.
  - (* bitvector *)
    cbn [default_node zero_val Spec.htr]. rewrite <- (depth_eq (TBitvector n) Hty). cbn [contents_depth].
    destruct (fill_to_length_CRep H (get_depth ((n + 255) / 256)) (zero_node 0) ((n + 255) / 256)) as (nd & Hf & Hc).
    { apply get_depth_fits. }
    exists nd. split; [exact Hf|]. rewrite (CRep_merkleize H _ _ _ Hc).
    rewrite merkleize_all_zero by (rewrite map_repeat; apply Forall_forall; intros c Hc'; now apply repeat_spec in Hc').
    rewrite merkleize_all_zero by (apply chunks_allz, bits_allz). reflexivity.
  - (* bitlist *)
    eexists; split; [reflexivity|]. cbn [Tree.root Tree.zero_node zero_val Spec.htr].
    rewrite <- (depth_eq (TBitlist l) Hty). unfold Spec.mix_in.
    change (chunks (bits_to_bytes [])) with (@nil bytes). rewrite merkleize_nil. reflexivity.
  - (* bytevector *)
    cbn [default_node zero_val Spec.htr]. rewrite <- (depth_eq (TByteVector n) Hty). cbn [contents_depth].
    destruct (fill_to_length_CRep H (get_depth ((n + 31) / 32)) (zero_node 0) ((n + 31) / 32)) as (nd & Hf & Hc).
    { apply get_depth_fits. }
    exists nd. split; [exact Hf|]. rewrite (CRep_merkleize H _ _ _ Hc).
    rewrite merkleize_all_zero by (rewrite map_repeat; apply Forall_forall; intros c Hc'; now apply repeat_spec in Hc').
    rewrite merkleize_all_zero by (apply chunks_allz, allz_repeat). reflexivity.
  - (* bytelist *)
    eexists; split; [reflexivity|]. cbn [Tree.root Tree.zero_node zero_val Spec.htr].
    rewrite <- (depth_eq (TByteList l) Hty). unfold Spec.mix_in.
    change (chunks []) with (@nil bytes). rewrite merkleize_nil. reflexivity.
  - (* vector *)
    pose proof Hty as Hty0. cbn [wf_ty] in Hty. apply andb_true_iff in Hty as [Hty Hnb]. apply andb_true_iff in Hty as [Hte Hn1].
    cbn [default_node zero_val Spec.htr]. rewrite <- (depth_eq (TVector e n) Hty0). rewrite is_basic_size.
    cbn [contents_depth]. unfold to_chunk_length. destruct (basic_size e) as [s|] eqn:E.
    + cbn [bind].
      destruct (fill_to_length_CRep H (get_depth ((n + elems_per_chunk s - 1) / elems_per_chunk s)) (zero_node 0)
                  ((n + elems_per_chunk s - 1) / elems_per_chunk s)) as (nd & Hf & Hc).
      { apply get_depth_fits. }
      exists nd. split; [exact Hf|]. rewrite (CRep_merkleize H _ _ _ Hc).
      rewrite merkleize_all_zero by (rewrite map_repeat; apply Forall_forall; intros c Hc'; now apply repeat_spec in Hc').
      rewrite merkleize_all_zero; [reflexivity|]. apply chunks_allz, concat_allz.
      apply Forall_forall. intros x Hx. apply in_map_iff in Hx as (z & <- & Hz). apply repeat_spec in Hz. subst z.
      now apply (ser_zero_basic e s).
    + destruct (IHe Hte) as (el & Hel & Hrel). rewrite Hel. cbn [bind].
      destruct (fill_to_length_CRep H (get_depth n) el n) as (nd & Hf & Hc).
      { apply get_depth_fits. }
      exists nd. split; [exact Hf|]. rewrite (CRep_merkleize H _ _ _ Hc).
      rewrite !map_repeat, Hrel. reflexivity.
  - (* list *)
    eexists; split; [reflexivity|]. cbn [Tree.root Tree.zero_node zero_val Spec.htr].
    rewrite <- (depth_eq (TList e l) Hty). unfold Spec.mix_in. cbn [map concat].
    change (chunks []) with (@nil bytes). destruct (is_basic e); rewrite merkleize_nil; reflexivity.
  - (* container *)
    pose proof Hty as Hty0. cbn [wf_ty] in Hty. apply andb_true_iff in Hty as [_ Htys].
    cbn [default_node zero_val Spec.htr]. rewrite <- (depth_eq (TContainer fs) Hty0).
    assert (exists ns, seq_res (map (default_node H) fs) = Ok ns /\ length ns = length fs /\
              map root ns = (fix go (fs : list ty) (vs : list val) : list bytes :=
                 match fs, vs with
                 | f :: fs', x :: vs' => htr f x :: go fs' vs'
                 | _, _ => []
                 end) fs (map zero_val fs)) as (ns & Hns & Hl & Hm).
    { clear Hty0. induction Hfs as [|f fs Hf Hfs' IH].
      - exists []. repeat split.
      - cbn [forallb] in Htys. apply andb_true_iff in Htys as [Htf Htys].
        destruct (Hf Htf) as (n & Hn & Hr). destruct (IH Htys) as (ns & Hns & Hl & Hm).
        exists (n :: ns). cbn [map seq_res]. rewrite Hn, Hns. cbn [bind length map]. rewrite Hr, Hm, Hl. repeat split. }
    rewrite Hns. cbn [bind].
    destruct (fill_to_contents_root H (contents_depth (TContainer fs)) ns) as (nd & Hf & Hr).
    { rewrite Hl. cbn [contents_depth]. pose proof (get_depth_fits (lenN fs)). unfold lenN in *. lia. }
    exists nd. split; [exact Hf|]. now rewrite Hr, Hm.
  - (* union *)
    cbn [wf_ty] in Hty. apply andb_true_iff in Hty as [Hty Hcount]. apply andb_true_iff in Hty as [Htys Hne].
    cbn [default_node zero_val]. destruct b.
    + cbn [bind]. eexists; split; [reflexivity|]. reflexivity.
    + destruct os as [|o os]; [discriminate|].
      inversion Hos as [|? ? Ho Hos']; subst. cbn [forallb] in Htys. apply andb_true_iff in Htys as [Hto _].
      destruct (Ho Hto) as (c & Hc & Hr). rewrite Hc. cbn [bind]. eexists; split; [reflexivity|].
      cbn [Tree.root Tree.zero_node Tree.zero_hash Spec.htr pred]. rewrite Hr. reflexivity.
Qed.

(* the zero value is a well-formed value *)
Lemma wf_zero : forall t, wf_ty t = true -> wf t (zero_val t) = true.
Proof.
  induction t as [k| |n|l|n|l|e n IHe|e l IHe|fs Hfs|b os Hos] using ty_ind'; intros Hty; cbn [zero_val wf].
  - apply N.ltb_lt. apply N.neq_0_lt_0. apply N.pow_nonzero. lia.
  - reflexivity.
  - apply N.eqb_eq. unfold lenN. rewrite repeat_length. lia.
  - apply N.leb_le. unfold lenN. cbn. lia.
  - apply N.eqb_eq. unfold lenN. rewrite repeat_length. lia.
  - apply N.leb_le. unfold lenN. cbn. lia.
  - cbn [wf_ty] in Hty. apply andb_true_iff in Hty as [Hty _]. apply andb_true_iff in Hty as [Hte _].
    apply andb_true_iff. split; [apply N.eqb_eq; unfold lenN; rewrite repeat_length; lia|].
    apply forallb_forall. intros x Hx. apply repeat_spec in Hx. subst. now apply IHe.
  - apply andb_true_iff. split; [apply N.leb_le; unfold lenN; cbn; lia|reflexivity].
  - cbn [wf_ty] in Hty. apply andb_true_iff in Hty as [_ Htys].
    induction Hfs as [|f fs Hf Hfs' IH]; [reflexivity|].
    cbn [forallb] in Htys. apply andb_true_iff in Htys as [Htf Htys]. cbn [map]. rewrite (Hf Htf). cbn [andb]. now apply IH.
  - cbn [wf_ty] in Hty. apply andb_true_iff in Hty as [Hty _]. apply andb_true_iff in Hty as [Htys Hne].
    destruct b; [reflexivity|]. destruct os as [|o os]; [discriminate|].
    inversion Hos as [|? ? Ho _]; subst. cbn [forallb] in Htys. apply andb_true_iff in Htys as [Hto _].
    cbn [wf]. now apply Ho.
Qed.

Corollary default_equals_explicit t : wf_ty t = true ->
  exists d z, default_node H t = Ok d /\ mk H t (zero_val t) = Ok z /\ root d = root z.
Proof.
  intros Hty. destruct (default_root t Hty) as (d & Hd & Hrd).
  destruct (mk_root H t (zero_val t) Hty (wf_zero t Hty)) as (z & Hz & Hrz).
  exists d, z. repeat split; auto. congruence.
Qed.

End WithHash.
