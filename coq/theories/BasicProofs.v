(* BasicProofs.v — uintN operators are exact, range-checked, never wrap or widen (C13). *)
Require Import RM.Base RM.ModelBasic.
From Coq Require Import ZifyBool.
Local Open Scope Z_scope.

Definition inr (w x : Z) : Prop := 0 <= x < 2 ^ w.

Lemma mk_uint_spec w x : 0 <= w ->
  (inr w x -> mk_uint w x = Ok x) /\ (~ inr w x -> mk_uint w x = Err EValue).
Proof.
  intros Hw. unfold mk_uint, inr. destruct (x <? 0) eqn:E1; destruct (2 ^ w <=? x) eqn:E2; cbn; split; intros; try reflexivity; lia.
Qed.
Lemma mk_uint_ok w x r : mk_uint w x = Ok r -> r = x /\ inr w x.
Proof.
  unfold mk_uint, inr. destruct (x <? 0) eqn:E1; destruct (2 ^ w <=? x) eqn:E2; cbn; intros E; inversion E; lia.
Qed.
Lemma mk_uint_in w x : inr w x -> mk_uint w x = Ok x.
Proof. unfold mk_uint, inr. intros. destruct (x <? 0) eqn:E1; destruct (2 ^ w <=? x) eqn:E2; cbn; try reflexivity; lia. Qed.
Lemma mk_uint_out w x : ~ inr w x -> mk_uint w x = Err EValue.
Proof. unfold mk_uint, inr. intros. destruct (x <? 0) eqn:E1; destruct (2 ^ w <=? x) eqn:E2; cbn; try reflexivity; lia. Qed.

(* construction rejects exactly the negative and the too-large values *)
Theorem ctor_iff w x : (exists r, mk_uint w x = Ok r) <-> inr w x.
Proof.
  split.
  - intros (r & E). now apply mk_uint_ok in E.
  - intros Hx. exists x. now apply mk_uint_in.
Qed.

(* an operand of another width is refused by every coercing operator *)
Theorem other_width_refused w w' a b op refl : w' <> w ->
  In op [Add; Sub; Mul; FloorDiv; Mod; And; Or; Xor] ->
  uint_binop w op refl a (KOther w') b = Err EValue.
Proof.
  intros Hw Hin. assert (coerce w (KOther w') b = Err EValue) as Hc.
  { unfold coerce. destruct (w' =? w) eqn:E; [lia|reflexivity]. }
  cbn in Hin. unfold uint_binop.
  repeat (destruct Hin as [Hop|Hin]; [subst op|]); [..|contradiction]; now rewrite Hc.
Qed.

(* the mathematical meaning of the coercing operators, for (a op b) *)
Definition sem (op : binop) (x y : Z) : Z :=
  match op with
  | Add => x + y | Sub => x - y | Mul => x * y | FloorDiv => x / y | Mod => x mod y
  | And => Z.land x y | Or => Z.lor x y | Xor => Z.lxor x y
  | _ => 0
  end.

Definition same_or_int (w : Z) (k : okind) : Prop := k = KSame \/ k = KInt \/ k = KOther w.

Lemma coerce_in w k b : same_or_int w k -> inr w b -> coerce w k b = Ok b.
Proof.
  intros [ -> | [ -> | -> ] ] Hb; cbn; try now apply mk_uint_in. rewrite Z.eqb_refl. now apply mk_uint_in.
Qed.

(* exactness: with in-range operands of the same width (or a plain int), the result is the
   mathematical result when it fits, and ValueError (never a wrapped value) when it does not;
   division / modulo by zero is ZeroDivisionError.  Operand order: refl = false is (a op b),
   refl = true is (b op a), where a is the uint whose type the result takes. *)
Theorem arith_exact w op (refl : bool) a k b :
  0 <= w -> same_or_int w k -> inr w a -> inr w b ->
  In op [Add; Sub; Mul; FloorDiv; Mod; And; Or; Xor] ->
  let x := if refl then b else a in
  let y := if refl then a else b in
  let r := sem op x y in
  if (match op with FloorDiv | Mod => true | _ => false end) && (y =? 0)
  then uint_binop w op refl a k b = Err EZeroDiv
  else (inr w r -> uint_binop w op refl a k b = Ok r) /\
       (~ inr w r -> uint_binop w op refl a k b = Err EValue).
Proof.
  intros Hw Hk Ha Hb Hin x y r. subst x y r. unfold uint_binop.
  cbn in Hin. rewrite (coerce_in w k b Hk Hb). cbn [bind].
  repeat (destruct Hin as [Hop|Hin]; [subst op|]); [..|contradiction]; cbn [sem andb];
    destruct refl; cbn [bind];
    rewrite ?(Z.add_comm b a), ?(Z.mul_comm b a), ?(Z.land_comm b a), ?(Z.lor_comm b a), ?(Z.lxor_comm b a);
    try (split; intros Hr; [now rewrite mk_uint_in|now rewrite mk_uint_out]).
  - (* b - a *) split; intros Hr; [rewrite mk_uint_in by exact Hr; cbn; now rewrite mk_uint_in|now rewrite mk_uint_out].
  - destruct (a =? 0); cbn [andb]; [reflexivity|].
    split; intros Hr; [rewrite mk_uint_in by exact Hr; cbn; now rewrite mk_uint_in|now rewrite mk_uint_out].
  - destruct (b =? 0); cbn [andb]; [reflexivity|].
    split; intros Hr; [now rewrite mk_uint_in|now rewrite mk_uint_out].
  - destruct (a =? 0); cbn [andb]; [reflexivity|].
    split; intros Hr; [rewrite mk_uint_in by exact Hr; cbn; now rewrite mk_uint_in|now rewrite mk_uint_out].
  - destruct (b =? 0); cbn [andb]; [reflexivity|].
    split; intros Hr; [now rewrite mk_uint_in|now rewrite mk_uint_out].
Qed.

(* results are always values of the uint's own width: never widened *)
Theorem result_in_range w op refl a k b r :
  uint_binop w op refl a k b = Ok r -> inr w r.
Proof.
  unfold uint_binop. intros E.
  destruct op; try discriminate;
    repeat match goal with
    | H : bind ?x _ = Ok _ |- _ => destruct x eqn:?; cbn [bind] in H; [|discriminate]
    | H : (if ?c then _ else _) = Ok _ |- _ => destruct c eqn:?; try discriminate
    | H : match ?k with KSame => _ | KOther _ => _ | KInt => _ end = Ok _ |- _ => destruct k; try discriminate
    | H : mk_uint _ _ = Ok r |- _ => apply mk_uint_ok in H as [-> ?]; assumption
    end.
Qed.

(* bitwise operators on in-range operands never raise *)
Lemma inr_log2 w x : 0 <= w -> 0 <= x -> (x < 2 ^ w <-> (x = 0 \/ Z.log2 x < w)).
Proof.
  intros Hw Hx. assert (0 < 2 ^ w) by (apply Z.pow_pos_nonneg; lia).
  destruct (Z.eq_dec x 0) as [E|E].
  - subst x. split; intros; [now left|assumption].
  - assert (0 < x) as Hp by lia. pose proof (Z.log2_lt_pow2 x w Hp) as L. split.
    + intros Hlt. right. now apply L.
    + intros [E0|Hl]; [contradiction|now apply L].
Qed.
Lemma log2_lt_of_inr w x : 0 <= w -> inr w x -> x <> 0 -> Z.log2 x < w.
Proof.
  intros Hw [Hx0 Hx] Hne. apply (inr_log2 w x Hw Hx0) in Hx. destruct Hx; [contradiction|assumption].
Qed.
Lemma land_inr w a b : 0 <= w -> inr w a -> inr w b -> inr w (Z.land a b).
Proof.
  intros Hw Ha Hb. pose proof Ha as [Ha0 _]. pose proof Hb as [Hb0 _].
  assert (0 <= Z.land a b) as Hr0 by (apply Z.land_nonneg; now left).
  split; [exact Hr0|]. apply (inr_log2 w _ Hw Hr0).
  destruct (Z.eq_dec (Z.land a b) 0) as [E|E]; [now left|right].
  assert (a <> 0) as Han by (intros -> ; now rewrite Z.land_0_l in E).
  pose proof (Z.log2_land a b Ha0 Hb0) as L. pose proof (log2_lt_of_inr w a Hw Ha Han).
  pose proof (Z.le_min_l (Z.log2 a) (Z.log2 b)). lia.
Qed.
Lemma log2_lt_or0 w x : 0 <= w -> inr w x -> Z.log2 x < w \/ x = 0.
Proof.
  intros Hw Hx. destruct (Z.eq_dec x 0); [now right|left]. now apply log2_lt_of_inr.
Qed.
Lemma lor_inr w a b : 0 <= w -> inr w a -> inr w b -> inr w (Z.lor a b).
Proof.
  intros Hw Ha Hb. pose proof Ha as [Ha0 _]. pose proof Hb as [Hb0 _].
  assert (0 <= Z.lor a b) as Hr0 by (apply Z.lor_nonneg; now split).
  split; [exact Hr0|]. apply (inr_log2 w _ Hw Hr0).
  destruct (Z.eq_dec (Z.lor a b) 0) as [E|E]; [now left|right].
  rewrite (Z.log2_lor a b Ha0 Hb0).
  destruct (log2_lt_or0 w a Hw Ha) as [La| -> ]; destruct (log2_lt_or0 w b Hw Hb) as [Lb| -> ].
  - now apply Z.max_lub_lt.
  - rewrite Z.lor_0_r in *. cbn. rewrite Z.max_l; [exact La|apply Z.log2_nonneg].
  - rewrite Z.lor_0_l in *. cbn. rewrite Z.max_r; [exact Lb|apply Z.log2_nonneg].
  - now rewrite Z.lor_0_l in E.
Qed.
Lemma lxor_inr w a b : 0 <= w -> inr w a -> inr w b -> inr w (Z.lxor a b).
Proof.
  intros Hw Ha Hb. pose proof Ha as [Ha0 _]. pose proof Hb as [Hb0 _].
  assert (0 <= Z.lxor a b) as Hr0 by (apply Z.lxor_nonneg; tauto).
  split; [exact Hr0|]. apply (inr_log2 w _ Hw Hr0).
  destruct (Z.eq_dec (Z.lxor a b) 0) as [E|E]; [now left|right].
  pose proof (Z.log2_lxor a b Ha0 Hb0) as L.
  destruct (log2_lt_or0 w a Hw Ha) as [La| -> ]; destruct (log2_lt_or0 w b Hw Hb) as [Lb| -> ].
  - pose proof (Z.max_lub_lt _ _ _ La Lb). lia.
  - rewrite Z.lxor_0_r in *. exact La.
  - rewrite Z.lxor_0_l in *. exact Lb.
  - now rewrite Z.lxor_0_l in E.
Qed.

Theorem bitwise_total w op refl a k b : 0 <= w -> same_or_int w k -> inr w a -> inr w b ->
  In op [And; Or; Xor] ->
  uint_binop w op refl a k b = Ok (sem op a b).
Proof.
  intros Hw Hk Ha Hb Hin. unfold uint_binop. rewrite (coerce_in w k b Hk Hb). cbn [bind].
  cbn in Hin. repeat (destruct Hin as [Hop|Hin]; [subst op|]); [..|contradiction]; cbn [sem]; apply mk_uint_in.
  - now apply land_inr. - now apply lor_inr. - now apply lxor_inr.
Qed.

(* division and modulo of in-range operands never overflow *)
Theorem divmod_total w a k b : 0 <= w -> same_or_int w k -> inr w a -> inr w b -> b <> 0 ->
  uint_binop w FloorDiv false a k b = Ok (a / b) /\ uint_binop w Mod false a k b = Ok (a mod b).
Proof.
  intros Hw Hk Ha Hb Hb0. unfold uint_binop. rewrite (coerce_in w k b Hk Hb). cbn [bind].
  destruct (b =? 0) eqn:E; [lia|]. unfold inr in *.
  split; apply mk_uint_in; unfold inr.
  - split; [apply Z.div_pos; lia|]. eapply Z.le_lt_trans; [apply Z.div_le_upper_bound with (q := a); nia|lia].
  - pose proof (Z.mod_pos_bound a b). lia.
Qed.

(* subtraction: defined exactly when the result is not negative *)
Theorem sub_exact w a k b : 0 <= w -> same_or_int w k -> inr w a -> inr w b ->
  (b <= a -> uint_binop w Sub false a k b = Ok (a - b)) /\
  (a < b -> uint_binop w Sub false a k b = Err EValue).
Proof.
  intros Hw Hk Ha Hb. unfold uint_binop. rewrite (coerce_in w k b Hk Hb). cbn [bind]. unfold inr in *.
  split; intros; [apply mk_uint_in|apply mk_uint_out]; unfold inr; lia.
Qed.

(* shifts: left shift truncates to the width by definition, right shift is floor division *)
Theorem lshift_spec w a k s : 0 <= w -> inr w a -> 0 <= s ->
  uint_binop w LShift false a k s = Ok ((a * 2 ^ s) mod 2 ^ w).
Proof.
  intros Hw Ha Hs. unfold uint_binop. destruct (s <? 0) eqn:E; [lia|].
  unfold mask. rewrite Z.shiftl_mul_pow2 by lia.
  replace (2 ^ w - 1) with (Z.ones w) by (rewrite Z.ones_equiv; lia).
  rewrite Z.land_ones by lia. apply mk_uint_in. unfold inr.
  apply Z.mod_pos_bound. apply Z.pow_pos_nonneg; lia.
Qed.
Theorem rshift_spec w a k s : 0 <= w -> inr w a -> 0 <= s ->
  uint_binop w RShift false a k s = Ok (a / 2 ^ s).
Proof.
  intros Hw [Ha0 Ha] Hs. unfold uint_binop. destruct (s <? 0) eqn:E; [lia|].
  rewrite Z.shiftr_div_pow2 by lia. apply mk_uint_in. unfold inr.
  assert (0 < 2 ^ s) by (apply Z.pow_pos_nonneg; lia).
  split; [apply Z.div_pos; lia|]. eapply Z.le_lt_trans; [apply Z.div_le_upper_bound with (q := a); nia|lia].
Qed.
(* a plain int on the left of a shift is refused *)
Theorem reflected_shift_refused w a b :
  uint_binop w LShift true a KInt b = Err EValue /\ uint_binop w RShift true a KInt b = Err EValue.
Proof. split; reflexivity. Qed.

(* inversion stays within the width: ~a = 2^w - 1 - a *)
Lemma lxor_ones w a : 0 <= w -> inr w a -> Z.lxor a (Z.ones w) = Z.ones w - a.
Proof.
  intros Hw Ha. destruct (Z.eq_dec a 0) as [E|E]; [subst; rewrite Z.lxor_0_l; lia|].
  pose proof (log2_lt_of_inr w a Hw Ha E) as L. destruct Ha as [Ha0 _].
  rewrite <- (Z.ldiff_ones_l_low a w Ha0 L). symmetry. apply Z.sub_nocarry_ldiff.
  now apply Z.ldiff_ones_r_low.
Qed.
Theorem invert_spec w a : 0 <= w -> inr w a -> uint_unop w Invert a = Ok (2 ^ w - 1 - a).
Proof.
  intros Hw Ha. pose proof Ha as [Ha0 Ha1]. unfold uint_unop.
  assert (0 < 2 ^ w) by (apply Z.pow_pos_nonneg; lia).
  rewrite mk_uint_in by (unfold inr, mask; lia). cbn [bind]. unfold mask.
  replace (2 ^ w - 1) with (Z.ones w) by (rewrite Z.ones_equiv; lia).
  rewrite (lxor_ones w a Hw Ha). apply mk_uint_in. unfold inr. rewrite Z.ones_equiv. lia.
Qed.

(* negation and true division are unsupported *)
Theorem neg_truediv_unsupported w a k b refl :
  uint_unop w Neg a = Err EOther /\ uint_binop w TrueDiv refl a k b = Err EOther.
Proof. split; reflexivity. Qed.

(* power: exact or ValueError (exponent any non-negative int) *)
Theorem pow_exact w a k b : 0 <= b ->
  (inr w (a ^ b) -> uint_binop w Pow false a k b = Ok (a ^ b)) /\
  (~ inr w (a ^ b) -> uint_binop w Pow false a k b = Err EValue).
Proof.
  intros Hb. unfold uint_binop. destruct (b <? 0) eqn:E; [lia|].
  split; intros; [now apply mk_uint_in|now apply mk_uint_out].
Qed.
