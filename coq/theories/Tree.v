(* Tree.v — model of remerkleable/tree.py: nodes, roots, getter, setter (with expand),
   summarize_into, subtree_fill_to_*, leaf_iter, get_diff.
   Parametric in the pair hash H and in the source of lazily loaded nodes src. *)
Require Import RM.Base RM.Gindex.

Inductive node :=
| RootN (r : bytes)            (* tree.py RootNode *)
| PairN (l r : node)           (* tree.py PairNode *)
| VirtN (r : bytes).           (* virtual.py VirtualNode: children fetched from src by root *)

Section WithHash.
Variable H : bytes -> bytes -> bytes.
Variable src : bytes -> option (bytes * bytes).

(* merkle_root: tree.py:196-200, 300-301; virtual.py:56-57 *)
Fixpoint root (n : node) : bytes :=
  match n with RootN r => r | VirtN r => r | PairN l r => H (root l) (root r) end.

(* settings.py:22-31 zero_hashes[d] *)
Fixpoint zero_hash (d : nat) : bytes :=
  match d with O => zero32 | S d' => let z := zero_hash d' in H z z end.
Definition zero_node (d : nat) : node := RootN (zero_hash d).

(* get_left/get_right; None = NavigationError (a leaf) *)
Definition children (n : node) : option (node * node) :=
  match n with
  | PairN l r => Some (l, r)
  | RootN _ => None
  | VirtN r => match src r with Some (a, b) => Some (VirtN a, VirtN b) | None => None end
  end.
Definition is_leaf (n : node) : bool := match children n with None => true | Some _ => false end.

(* Node.getter, tree.py:70-82 and 279-282.  p = bits of the gindex below the leading one. *)
Fixpoint getter (n : node) (p : list bool) {struct p} : result node :=
  match p with
  | [] => Ok n
  | b :: p' =>
      match children n with
      | None => Err ENav
      | Some (l, r) => getter (if b then r else l) p'
      end
  end.
Definition getter_g (n : node) (g : N) : result node :=
  match path_of_gindex g with None => Err ENav | Some p => getter n p end.

Definition rebuild (b : bool) (l r : node) (x : result node) : result node :=
  match x with Err e => Err e | Ok c => Ok (if b then PairN l c else PairN c r) end.

(* RebindableNode.setter (tree.py:140-172) for the nodes strictly below the top node, with the
   link applied at once.  A leaf on the path is expanded only when expand is set AND the leaf is
   the zero-subtree summary of its height (its height = number of remaining path bits). *)
Fixpoint setter_below (expand : bool) (n : node) (p : list bool) (v : node) {struct p} : result node :=
  match p with
  | [] => Ok v
  | b :: p' =>
      match children n with
      | Some (l, r) => rebuild b l r (setter_below expand (if b then r else l) p' v)
      | None =>
          if expand && bytes_eqb (root n) (zero_hash (length p)) then
            let z := zero_node (length p') in
            rebuild b z z (setter_below expand z p' v)
          else Err ENav
      end
  end.

(* setter on the top node: RootNode.setter (tree.py:285-294), PairNode / VirtualNode via
   RebindableNode.setter.  A VirtualNode at the top is never asked is_leaf(): its rebind fails
   with a navigation error when the source has no children for it. *)
Definition setter (expand : bool) (n : node) (p : list bool) (v : node) : result node :=
  match p with
  | [] => Ok v
  | b :: p' =>
      match n with
      | VirtN _ =>
          match children n with
          | Some (l, r) => rebuild b l r (setter_below expand (if b then r else l) p' v)
          | None => Err ENav
          end
      | _ => setter_below expand n p v
      end
  end.
Definition setter_g (expand : bool) (n : node) (g : N) (v : node) : result node :=
  match path_of_gindex g with None => Err ENav | Some p => setter expand n p v end.

(* rebind_right (used for the length / selector mix-in) *)
Definition rebind_right (n v : node) : result node :=
  match children n with Some (l, _) => Ok (PairN l v) | None => Err ENav end.
Definition rebind_left (n v : node) : result node :=
  match children n with Some (_, r) => Ok (PairN v r) | None => Err ENav end.
Definition get_left (n : node) : result node :=
  match children n with Some (l, _) => Ok l | None => Err ENav end.
Definition get_right (n : node) : result node :=
  match children n with Some (_, r) => Ok r | None => Err ENav end.

(* Node.summarize_into, tree.py:96-99 (link applied at once) *)
Definition summarize_into (n : node) (p : list bool) : result node :=
  do x <- getter n p;
  setter false n p (RootN (root x)).
Definition summarize_into_g (n : node) (g : N) : result node :=
  match path_of_gindex g with None => Err ENav | Some p => summarize_into n p end.

(* tree.py:208-213 *)
Fixpoint fill_to_depth (bottom : node) (d : nat) : node :=
  match d with O => bottom | S d' => let n := fill_to_depth bottom d' in PairN n n end.

Local Open Scope N_scope.
Definition pow2 (d : nat) : N := N.shiftl 1 (N.of_nat d).

(* tree.py:216-239 *)
Fixpoint fill_to_length (bottom : node) (d : nat) (len : N) {struct d} : result node :=
  if len =? 0 then Ok (zero_node d)
  else if pow2 d <? len then Err EOther
  else if len =? pow2 d then Ok (fill_to_depth bottom d)
  else match d with
       | O => Err ENav
       | S O => Ok (PairN bottom (if 1 <? len then bottom else zero_node 0))
       | S d' =>
           let pivot := pow2 d' in
           if len <=? pivot then
             do l <- fill_to_length bottom d' len; Ok (PairN l (zero_node d'))
           else
             do r <- fill_to_length bottom d' (len - pivot); Ok (PairN (fill_to_depth bottom d') r)
       end.

(* tree.py:242-263 *)
Fixpoint fill_to_contents (nodes : list node) (d : nat) {struct d} : result node :=
  match nodes with
  | [] => Ok (zero_node d)
  | n0 :: rest =>
      if pow2 d <? lenN nodes then Err EOther
      else match d with
           | O => match rest with [] => Ok n0 | _ => Err ENav end
           | S O => Ok (PairN n0 (match rest with n1 :: _ => n1 | [] => zero_node 0 end))
           | S d' =>
               let pivot := pow2 d' in
               if lenN nodes <=? pivot then
                 do l <- fill_to_contents nodes d'; Ok (PairN l (zero_node d'))
               else
                 let k := N.to_nat pivot in
                 do l <- fill_to_contents (firstn k nodes) d';
                 do r <- fill_to_contents (skipn k nodes) d';
                 Ok (PairN l r)
           end
  end.

(* tree.py:308-314.  Recursion is on the materialised structure; a VirtN counts as a leaf here
   (leaf_iter / get_diff are specified on materialised trees, see DESIGN C18). *)
Fixpoint leaf_iter (n : node) : list node :=
  match n with PairN l r => leaf_iter l ++ leaf_iter r | _ => [n] end.

(* tree.py:317-325 *)
Fixpoint get_diff (a b : node) {struct a} : list (node * node) :=
  if bytes_eqb (root a) (root b) then []
  else match a, b with
       | PairN al ar, PairN bl br => get_diff al bl ++ get_diff ar br
       | _, _ => [(a, b)]
       end.

End WithHash.
