(* Base.v — bytes, errors, little-endian integers, generic observation type.
   Shared by the whole development.  Stdlib only. *)
From Coq Require Export List NArith ZArith Bool Lia.
From Coq Require Export Strings.Byte.
Export ListNotations.

Definition bytes := list byte.

(* ---- errors and results (DESIGN 2.10) ---- *)
Inductive err := ENav | EIndex | EKey | EValue | EType | EAttr | EZeroDiv | EOther.
Inductive result (A : Type) := Ok (a : A) | Err (e : err).
Arguments Ok {A} a.
Arguments Err {A} e.

Definition bind {A B} (x : result A) (f : A -> result B) : result B :=
  match x with Ok a => f a | Err e => Err e end.
Notation "'do' x <- a ; b" := (bind a (fun x => b)) (at level 200, x pattern, a at level 100, b at level 200).
Definition rmap {A B} (f : A -> B) (x : result A) : result B :=
  match x with Ok a => Ok (f a) | Err e => Err e end.

Definition err_eqb (a b : err) : bool :=
  match a, b with
  | ENav, ENav | EIndex, EIndex | EKey, EKey | EValue, EValue | EType, EType
  | EAttr, EAttr | EZeroDiv, EZeroDiv | EOther, EOther => true
  | _, _ => false
  end.

(* ---- bytes ---- *)
Definition byte_of_N (n : N) : byte := match Byte.of_N (n mod 256) with Some b => b | None => x00 end.
Definition byte_eqb (a b : byte) : bool := N.eqb (Byte.to_N a) (Byte.to_N b).

Lemma byte_eqb_eq a b : byte_eqb a b = true <-> a = b.
Proof.
  unfold byte_eqb. rewrite N.eqb_eq. split; [|intros ->; reflexivity].
  intros E. assert (Some a = Some b) as X.
  { rewrite <- (Byte.of_to_N a), <- (Byte.of_to_N b). now rewrite E. }
  now inversion X.
Qed.

Fixpoint bytes_eqb (a b : bytes) : bool :=
  match a, b with
  | [], [] => true
  | x :: a', y :: b' => byte_eqb x y && bytes_eqb a' b'
  | _, _ => false
  end.

Lemma bytes_eqb_eq a b : bytes_eqb a b = true <-> a = b.
Proof.
  revert b; induction a as [|x a IH]; intros [|y b]; cbn; split; try discriminate; try reflexivity.
  - intros E. apply andb_true_iff in E as [E1 E2]. apply byte_eqb_eq in E1. apply IH in E2. now subst.
  - intros E. inversion E; subst. apply andb_true_iff. split; [now apply byte_eqb_eq|now apply IH].
Qed.

Definition zero_bytes (k : nat) : bytes := repeat x00 k.
Definition zero32 : bytes := zero_bytes 32.

(* little-endian, k bytes (int.to_bytes(length=k, byteorder='little'), value assumed < 256^k) *)
Fixpoint le_bytes (k : nat) (n : N) : bytes :=
  match k with O => [] | S k' => byte_of_N n :: le_bytes k' (n / 256) end.
(* int.from_bytes(bs, 'little') *)
Fixpoint le_val (bs : bytes) : N :=
  match bs with [] => 0%N | b :: bs' => (Byte.to_N b + 256 * le_val bs')%N end.

Definition pad_to (k : nat) (bs : bytes) : bytes := bs ++ zero_bytes (k - length bs).
Definition pad32 (bs : bytes) : bytes := pad_to 32 bs.

Definition lenN {A} (l : list A) : N := N.of_nat (length l).

(* python slicing b[a:b] on lists, with nat indices *)
Definition slice {A} (l : list A) (a b : nat) : list A := firstn (b - a) (skipn a l).

(* ---- generic observation type used by the correspondence check ---- *)
Inductive ob := OZ (z : Z) | OB (b : bytes) | OE (e : err) | OL (l : list ob).

Fixpoint ob_eqb (a b : ob) {struct a} : bool :=
  match a, b with
  | OZ x, OZ y => Z.eqb x y
  | OB x, OB y => bytes_eqb x y
  | OE x, OE y => err_eqb x y
  | OL x, OL y =>
      (fix go (x y : list ob) {struct x} : bool :=
         match x, y with
         | [], [] => true
         | a :: x', b :: y' => ob_eqb a b && go x' y'
         | _, _ => false
         end) x y
  | _, _ => false
  end.

Definition ON (n : N) : ob := OZ (Z.of_N n).
Definition Onat (n : nat) : ob := OZ (Z.of_nat n).
Definition Obool (b : bool) : ob := OZ (if b then 1 else 0)%Z.
Definition ob_res {A} (f : A -> ob) (r : result A) : ob :=
  match r with Ok a => f a | Err e => OE e end.

(* all errors collapse to one tag: used where the property does not name the exception class *)
Fixpoint ob_anyerr (o : ob) : ob :=
  match o with
  | OE _ => OE EOther
  | OL l => OL (map ob_anyerr l)
  | x => x
  end.
