(* SliceProofs.v — C14 for slice assignment (`view[a:b] = values` on lists and vectors, ModelStore.slice_set): ALL OR
   NOTHING.  Through any usable held view the assignment either fails leaving the whole store as it was, or every
   element assignment succeeds (progress: set_progress + chain_set) and every held view represents its tracked value. *)
Require Import RM.Base RM.Gindex RM.Tree RM.TreeProofs RM.Types RM.Spec RM.ModelViews RM.ModelCodec RM.ModelMut RM.ModelStore
               RM.SerLen RM.FactsProofs RM.MerkleProofs RM.PackProofs RM.CtorProofs RM.PathProofs RM.CRepProofs
               RM.ListProofs RM.StoreProofs RM.SerProofs2 RM.ReprProofs RM.CtorSound RM.MutProofs RM.NodeProofs RM.StoreChain.
From Coq Require Import ZifyBool ZifyNat ZifyN.
Local Open Scope N_scope.
Section WithHash.
Variable H : bytes -> bytes -> bytes.
Variable src : bytes -> option (bytes * bytes).
Notation Repr := (Repr H).
Notation run_cmd := (run_cmd H src).
Notation slice_set := (slice_set H src).
Notation run_seq := (run_seq H src).
Notation new_backing := (new_backing H src).
Notation good := (good H).
Notation AllGood := (AllGood H).
(* progress: an in-range element assignment with a coercible argument computes a new backing *)
Lemma set_progress c ws i a e : good c (VSeq ws) -> ((exists nn, cty c = TVector e nn) \/ (exists l, cty c = TList e l)) ->
  (0 <= i < Z.of_nat (length ws))%Z -> (exists x, coerce_arg H e a = Ok x) -> exists nb, new_backing c (CSet 0%nat i a) = Ok nb.
Proof.
  intros (Hty & Hwf & Hr) Hk Hi (xn & Hco). cbn [StoreChain.new_backing].
  destruct Hk as [(nn & Ect)|(l & Ect)]; rewrite Ect in *.
  - (* vector *)
    pose proof Hty as Hty0. cbn [wf_ty] in Hty. apply andb_true_iff in Hty as [Hty' _]. apply andb_true_iff in Hty' as [Hte _].
    destruct (coerce_sound H e a xn Hte Hco) as (w & Haw & Hww & Hrw).
    pose proof Hwf as Hwf0. cbn [wf] in Hwf. apply andb_true_iff in Hwf as [Hn Hall]. apply N.eqb_eq in Hn. unfold lenN in Hn.
    assert (exists n', view_set H src (TVector e nn) (cback c) i xn = Ok n' /\ Repr (TVector e nn) (VSeq (upd (Z.to_nat i) w ws)) n') as (n' & Hvs & _).
    { destruct (basic_size e) as [sz|] eqn:Eb.
      - apply (packed_vector_set H src e nn sz ws (cback c) i w xn Hty0 Eb Hwf0 Hr ltac:(lia) Hww Hrw).
      - apply (vector_set H src e nn ws (cback c) i w xn Eb Hr ltac:(unfold lenN; lia) ltac:(lia) Hrw). }
    unfold view_set in Hvs. destruct (check_index H src (TVector e nn) (cback c) i) as [k|]; [|discriminate]. cbn [bind] in *.
    cbn [elem_ty bind]. rewrite Hco. cbn [bind]. eauto.
  - (* list *)
    pose proof Hty as Hty0. cbn [wf_ty] in Hty. apply andb_true_iff in Hty as [Hte Hlb].
    destruct (coerce_sound H e a xn Hte Hco) as (w & Haw & Hww & Hrw).
    destruct (list_set_any H src e l Hty0 ws (cback c) i w xn Hwf Hr ltac:(unfold lenN; lia) Hww Hrw) as (n' & Hvs & _).
    unfold view_set in Hvs. destruct (check_index H src (TList e l) (cback c) i) as [k|]; [|discriminate]. cbn [bind] in *.
    cbn [elem_ty bind]. rewrite Hco. cbn [bind]. eauto.
Qed.
(* what the assignment specifies: the values written over positions a, a+1, ... *)
Fixpoint overwrite (a : nat) (ws : list val) (xs : list val) : list val :=
  match xs with [] => ws | x :: r => overwrite (S a) (upd a x ws) r end.

Definition seq_view (s : store) (vs : list val) (u : vid) (e : ty) (ws : list val) : Prop :=
  AllGood s vs /\ Valid s vs u /\
  (exists c, nth_error s u = Some c /\ ((exists nn, cty c = TVector e nn) \/ (exists l, cty c = TList e l))) /\ nth u vs dv = VSeq ws.

Lemma track_mut_target s vs cm x : AllGood s vs -> Valid s vs (target cm) -> nth (target cm) (track_mut s vs cm x) dv = x.
Proof.
  intros Hag Hv. assert (target cm < length s)%nat as Hlt by (inversion Hv; apply nth_error_Some; congruence).
  destruct (valid_trail H s vs _ Hag Hv (length s) ltac:(lia)) as (Hch & lk & rest & Et). unfold track_mut. rewrite Et.
  cbn [retrail put_trail]. apply nth_upd_same. rewrite put_trail_len. destruct Hag as [Hl _]. lia.
Qed.

Lemma slice_step s vs u e ws i a : seq_view s vs u e ws -> (0 <= i < Z.of_nat (length ws))%Z -> (exists x, coerce_arg H e a = Ok x) ->
  exists s' w vs', run_cmd s (CSet u i a) = (Ok tt, s') /\ arg_val e a = Some w /\ seq_view s' vs' u e (upd (Z.to_nat i) w ws) /\
                   (forall p, Valid s vs p -> Valid s' vs' p).
Proof.
  intros (Hag & Hv & (c & Hc & Hk) & Hws) Hi Hco.
  pose proof Hag as [Hlen Hg]. pose proof (Hg u c Hc) as Hgood. rewrite Hws in Hgood.
  destruct (set_progress c ws i a e Hgood Hk Hi Hco) as (nb & Hnb).
  destruct (forest_mut H src s vs (CSet u i a) Hag Hv eq_refl) as [(er & He)|(x & s' & Hx & Hr & Hsh & Hag')].
  - exfalso. rewrite (run_cmd_mut H src s (CSet u i a) c Hc eq_refl) in He.
    replace (StoreChain.new_backing H src c (CSet u i a)) with (new_backing c (CSet 0%nat i a)) in He by reflexivity. rewrite Hnb in He.
    (* the propagation through a valid chain succeeds (forest_mut's right branch is what happens) *)
    destruct (valid_trail H s vs u Hag Hv (length s) ltac:(inversion Hv; assert (u < length s)%nat by (apply nth_error_Some; congruence); lia)) as (Hch & lk & rest & Et).
    destruct (new_backing_sound H src c (VSeq ws) (CSet u i a) nb Hgood Hnb) as (x & Hex & Hwx & Hrx).
    assert (u < length s)%nat as Hu by (apply nth_error_Some; congruence).
    rewrite Et in Hch. rewrite Hws in Hch.
    pose proof (chain_len H s _ Hch u (VSeq ws) lk rest eq_refl) as Hcl.
    destruct (chain_set H src _ s Hch u (VSeq ws) lk rest c x nb (length s) eq_refl Hc Hwx Hrx ltac:(lia)) as (s2 & Hsb & _).
    cbn [target] in He. rewrite Hsb in He. discriminate.
  - cbn [target] in *. rewrite (cty_at_some s u c Hc), Hws in Hx.
    assert (exists w, arg_val e a = Some w /\ x = VSeq (upd (Z.to_nat i) w ws)) as (w & Haw & ->).
    { cbn [cmd_effect] in Hx. destruct Hk as [(nn & Ect)|(l & Ect)]; rewrite Ect in Hx; destruct (arg_val e a) as [w|]; cbn [option_map] in Hx; try discriminate; inversion Hx; eauto. }
    exists s', w, (track_mut s vs (CSet u i a) (VSeq (upd (Z.to_nat i) w ws))).
    assert (forall p, Valid s vs p -> Valid s' (track_mut s vs (CSet u i a) (VSeq (upd (Z.to_nat i) w ws))) p) as Hkeep.
    { intros p Hp. apply (forest_mut_keeps_valid H src s vs (CSet u i a) _ s' Hag Hv eq_refl eq_refl Hr); [|exact Hp].
      cbn [target]. rewrite (cty_at_some s u c Hc), Hws. cbn [cmd_effect]. destruct Hk as [(nn & Ect)|(l & Ect)]; rewrite Ect, Haw; reflexivity. }
    split; [exact Hr|]. split; [exact Haw|]. split; [|exact Hkeep].
    split; [exact Hag'|]. split; [now apply Hkeep|]. split.
    + destruct (same_shape_cell s s' u c Hsh Hc) as (c' & Hc' & Ht' & _). exists c'. split; [exact Hc'|]. rewrite Ht'. exact Hk.
    + exact (track_mut_target s vs (CSet u i a) _ Hag Hv).
Qed.
Lemma run_seq_sets : forall args s vs u e ws a, seq_view s vs u e ws -> (a + length args <= length ws)%nat ->
  Forall (fun x => exists n, coerce_arg H e x = Ok n) args ->
  exists s' vs' xs, run_seq s (slice_cmds u (Z.of_nat a) args) = (Ok tt, s') /\
     Forall2 (fun x w => arg_val e x = Some w) args xs /\ seq_view s' vs' u e (overwrite a ws xs) /\
     (forall p, Valid s vs p -> Valid s' vs' p).
Proof.
  induction args as [|x args IH]; intros s vs u e ws a Hsv Hlen Hco.
  - exists s, vs, []. cbn [slice_cmds run_seq overwrite]. split; [reflexivity|]. split; [constructor|]. split; [exact Hsv|auto].
  - cbn [length] in Hlen. inversion Hco as [|x0 l0 Hx Hrest]; subst.
    destruct (slice_step s vs u e ws (Z.of_nat a) x Hsv ltac:(lia) Hx) as (s1 & w & vs1 & Hr & Haw & Hsv1 & Hk1).
    rewrite Nat2Z.id in Hsv1.
    destruct (IH s1 vs1 u e (upd a w ws) (S a) Hsv1 ltac:(rewrite upd_len; lia) Hrest) as (s' & vs' & xs & Hrs & Hxs & Hsv' & Hk').
    exists s', vs', (w :: xs). cbn [slice_cmds run_seq]. rewrite Hr.
    replace (Z.of_nat a + 1)%Z with (Z.of_nat (S a)) by lia. split; [exact Hrs|]. split; [constructor; assumption|]. split; [exact Hsv'|]. auto.
Qed.

Lemma seq_res_ok_all {A B} (f : A -> result B) : forall l r, seq_res (map f l) = Ok r -> Forall (fun x => exists n, f x = Ok n) l.
Proof.
  induction l as [|x l IH]; intros r Hr; [constructor|]. cbn [map seq_res] in Hr. destruct (f x) as [n|] eqn:Hx; [|discriminate]. cbn [bind] in Hr.
  destruct (seq_res (map f l)) as [r'|] eqn:Hl; [|discriminate]. constructor; [eauto|]. now apply (IH r').
Qed.

(* C14 for slice assignment: all or nothing.  Through any usable held view (valid hooks up to its top-level view),
   `view[a:b] = values` either fails leaving the WHOLE store as it was, or succeeds: every held view represents its
   tracked value, the written view holding the old elements with positions a.. overwritten by the denoted values, and
   every view that was usable still is. *)
Theorem slice_all_or_nothing s vs u e ws a b args : seq_view s vs u e ws ->
  (exists er, slice_set s u a b args = (Err er, s)) \/
  (exists s' vs' xs, slice_set s u a b args = (Ok tt, s') /\ Forall2 (fun x w => arg_val e x = Some w) args xs /\
     (0 <= a)%Z /\ (b = a + Z.of_nat (length args))%Z /\ (Z.to_nat b <= length ws)%nat /\
     seq_view s' vs' u e (overwrite (Z.to_nat a) ws xs) /\ (forall p, Valid s vs p -> Valid s' vs' p)).
Proof.
  intros Hsv. pose proof Hsv as (Hag & Hv & (c & Hc & Hk) & Hws). unfold slice_set. rewrite Hc.
  assert ((match cty c with TVector e0 _ | TList e0 _ => Some e0 | _ => None end) = Some e) as ->
    by (destruct Hk as [(nn & ->)|(l & ->)]; reflexivity).
  destruct (seq_res (map (coerce_arg H e) args)) as [ns|er] eqn:Hco; [|left; eauto].
  destruct (a + Z.of_nat (length args) =? b)%Z eqn:Hcount; cbn [negb]; [|left; eauto]. apply Z.eqb_eq in Hcount.
  pose proof Hag as [_ Hg]. pose proof (Hg u c Hc) as (Hty & Hwf & Hr). rewrite Hws in Hwf, Hr.
  assert (view_len H src (cty c) (cback c) = Ok (lenN ws)) as ->.
  { destruct Hk as [(nn & Ect)|(l & Ect)]; rewrite Ect in *; cbn [view_len].
    - cbn [wf] in Hwf. apply andb_true_iff in Hwf as [Hn _]. apply N.eqb_eq in Hn. now rewrite Hn.
    - cbn [ReprProofs.Repr] in Hr. destruct Hr as (cc & -> & _). apply mixin_len_node.
      cbn [wf_ty] in Hty. apply andb_true_iff in Hty as [_ Hlb]. apply N.ltb_lt in Hlb. unfold LIMIT_BOUND in Hlb.
      cbn [wf] in Hwf. apply andb_true_iff in Hwf as [Hn _]. apply N.leb_le in Hn. lia. }
  destruct ((a <? 0)%Z || (Z.of_N (lenN ws) <? b)%Z) eqn:Hb; [left; eauto|]. right.
  assert (0 <= a /\ b <= Z.of_nat (length ws))%Z as [Ha Hbb] by (unfold lenN in Hb; lia).
  destruct (run_seq_sets args s vs u e ws (Z.to_nat a) Hsv ltac:(lia) (seq_res_ok_all _ args ns Hco)) as (s' & vs' & xs & Hrs & Hxs & Hsv' & Hk').
  rewrite Z2Nat.id in Hrs by lia. exists s', vs', xs. split; [exact Hrs|]. split; [exact Hxs|]. split; [lia|]. split; [lia|]. split; [lia|]. split; [exact Hsv'|exact Hk'].
Qed.
End WithHash.
